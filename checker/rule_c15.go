package main

// C15 — telnet option negotiation is answered and kept out of the data stream.

import (
	"fmt"
	"go/constant"
	"go/types"
	"strings"

	"golang.org/x/tools/go/ssa"
)

func init() {
	register(&Property{
		ID:  "C15",
		Run: runC15,
		Explanation: "Exhaustive automaton extraction: the loop-free SSA of the byte-at-a-time negotiation handler is path-enumerated for every cell of (parser state = length of the control buffer in {0,1,2}) x (byte class in {IAC, DO, DONT, WILL, WONT, SGA, other, NUL}) x (verb in the buffer in {DO, DONT, WILL, WONT}) and each cell's effects (byte delivered to the data buffer, control buffer returned unchanged/extended/empty, reply written) are compared with the specified automaton: data state delivers exactly non-IAC bytes; IAC state moves to the verb state on the four verbs and otherwise returns to data (an escaped IAC may deliver one 0xFF); verb state writes exactly one reply by the table DO.SGA->WILL, DO.x->WONT, DONT.x->WONT, WILL.x->DO, WONT.x->DONT, resets and delivers nothing. " +
			"Feed-all: the negotiation loop reads one byte per iteration, hands every byte read to the handler and threads the returned control buffer into the next iteration; a write failure aborts. First-read: Telnet.Read returns the bytes buffered during negotiation first, once (cleared on that path). " +
			"NOT decided: when the negotiation phase ends (socket read timeout) and TCP segmentation — timing; segmentation is irrelevant to the handler by construction (it is fed single bytes), which is the decided feed-all clause.",
		Assumptions: []string{"util.ByteIsAny is membership in the given constant set (its shape is checked under C15/feed-all)"},
		Mutants: []Mutant{
			{ID: "C15-open-redials", Desc: "Telnet.Open dials a second time when the first attempt fails", Rule: "C15/single-dial",
				Edits: []Edit{{File: "transport/telnet.go", Old: "\terr = t.handleControlChars(a)\n\tif err != nil {\n\t\treturn err\n\t}\n\n\treturn nil\n}", New: "\terr = t.handleControlChars(a)\n\tif err != nil {\n\t\tt.c, err = net.Dial(tcp, fmt.Sprintf(\"%s:%d\", a.Host, a.Port))\n\t\tif err != nil {\n\t\t\treturn err\n\t\t}\n\n\t\treturn t.handleControlChars(a)\n\t}\n\n\treturn nil\n}"}}},
			{ID: "C15-negotiation-abandoned-on-data", Desc: "the negotiation loop returns when the server opens with plain data", Rule: "C15/loop-continues",
				Edits: []Edit{{File: "transport/telnet.go", Old: "\t\tctrlBuf, handleErr = t.handleControlCharResponse(ctrlBuf, charBuf[0])\n\t\tif handleErr != nil {\n\t\t\treturn handleErr\n\t\t}\n", New: "\t\tctrlBuf, handleErr = t.handleControlCharResponse(ctrlBuf, charBuf[0])\n\t\tif handleErr != nil {\n\t\t\treturn handleErr\n\t\t}\n\n\t\tif len(ctrlBuf) == 0 && len(t.initialBuf) == 1 {\n\t\t\treturn t.c.SetReadDeadline(time.Time{})\n\t\t}\n"}}},
			{ID: "C15-accept-every-do", Desc: "every DO accepted with WILL", Rule: "C15/automaton",
				Edits: []Edit{{File: "transport/telnet.go", Old: "if cmd == do && c == sga { //nolint: gocritic", New: "if cmd == do { //nolint: gocritic"}}},
			{ID: "C15-no-reset", Desc: "control buffer not reset after a reply", Rule: "C15/automaton",
				Edits: []Edit{{File: "transport/telnet.go", Old: "\t\tcmd := ctrlBuf[1:2][0]\n\t\tctrlBuf = make([]byte, 0)\n", New: "\t\tcmd := ctrlBuf[1:2][0]\n"}}},
			{ID: "C15-iac-stuck", Desc: "IAC followed by a non-verb stays in the IAC state", Rule: "C15/automaton",
				Edits: []Edit{{File: "transport/telnet.go", Old: "\t} else if len(ctrlBuf) == 1 {", New: "\t} else if len(ctrlBuf) == 1 && c == iac {"}}},
			{ID: "C15-wont-unanswered", Desc: "WONT not acknowledged", Rule: "C15/automaton",
				Edits: []Edit{{File: "transport/telnet.go", Old: "\t\t} else if cmd == wont {\n\t\t\t_, writeErr = t.c.Write([]byte{iac, dont, c})\n\t\t}", New: "\t\t}"}}},
			{ID: "C15-deliver-option", Desc: "option byte leaks into the data buffer", Rule: "C15/automaton",
				Edits: []Edit{{File: "transport/telnet.go", Old: "\t\tcmd := ctrlBuf[1:2][0]\n", New: "\t\tcmd := ctrlBuf[1:2][0]\n\t\tt.initialBuf = append(t.initialBuf, c)\n"}}},
			{ID: "C15-skip-nul", Desc: "NUL data bytes dropped during negotiation", Rule: "C15/automaton",
				Edits: []Edit{{File: "transport/telnet.go", Old: "\t\tif c != iac {\n\t\t\tt.initialBuf = append(t.initialBuf, c)", New: "\t\tif c != iac && c != 0 {\n\t\t\tt.initialBuf = append(t.initialBuf, c)"}}},
			{ID: "C15-buffer-not-cleared", Desc: "buffered bytes returned by every read", Rule: "C15/first-read",
				Edits: []Edit{{File: "transport/telnet.go", Old: "\t\tb := t.initialBuf\n\t\tt.initialBuf = nil\n", New: "\t\tb := t.initialBuf\n"}}},
			{ID: "C15-drop-ctrlbuf", Desc: "loop forgets the parser state between bytes", Rule: "C15/feed-all",
				Edits: []Edit{{File: "transport/telnet.go", Old: "\t\tctrlBuf, handleErr = t.handleControlCharResponse(ctrlBuf, charBuf[0])", New: "\t\t_, handleErr = t.handleControlCharResponse(ctrlBuf, charBuf[0])"}}},
			{ID: "C15-write-error-ignored", Desc: "failed reply ignored", Rule: "C15/feed-all",
				Edits: []Edit{{File: "transport/telnet.go", Old: "\t\tif handleErr != nil {\n\t\t\treturn handleErr\n\t\t}\n", New: "\t\t_ = handleErr\n"}}},
		},
	})
}

func runC15(c *Ctx, r *Report) {
	r.Rule("C15/single-dial", "one Telnet.Open dials and negotiates on exactly one connection (data pre-read from an abandoned attempt would be delivered first)", 1)
	checkTelnetSingleDial(c, r, "C15/single-dial")
	importFoundation(c, r, "C15", "driver-options")
	importFoundation(c, r, "C15", "transport-pipe")
	r.Rule("C15/negotiation-ends", "(restated from C05/loops-cancellable) the negotiation loop ends through a socket read deadline armed for every read: the opening phase is over when the server stops negotiating, however many bytes it sent", 1)
	importObligationsIf(r, func(sub *Report) { checkLoopsCancellable(c, sub) }, "C05/loops-cancellable", "C15/negotiation-ends", func(construct string) bool {
		return strings.Contains(construct, "handleControlChars")
	})
	r.Rule("C15/automaton", "every cell of the negotiation automaton (state x byte class [x verb]) has exactly the specified effects", 40)
	r.Rule("C15/feed-all", "the negotiation loop hands every byte read to the handler, threads the control buffer, and aborts on a handler error", 3)
	r.Rule("C15/loop-continues", "after a byte was handled without error the negotiation loop reads the next byte: it ends only on the read timeout or an error", 1)
	checkTelnetLoopContinues(c, r, "C15/loop-continues")
	r.Rule("C15/first-read", "Telnet.Read returns the bytes buffered during negotiation first and clears them on that path", 1)

	fn := c.LookupFunc("transport", "Telnet", "handleControlCharResponse")
	isAny := c.LookupFunc("util", "", "ByteIsAny")
	if fn == nil || isAny == nil || len(fn.Params) != 3 {
		r.Anchor("C15/automaton", "(*transport.Telnet).handleControlCharResponse(ctrlBuf, c) / util.ByteIsAny")
		return
	}
	consts := map[string]int64{}
	for _, n := range []string{"iac", "dont", "do", "wont", "will", "sga"} {
		co := c.LookupConst("transport", n)
		if co == nil {
			r.Anchor("C15/automaton", "transport."+n)
			return
		}
		v, _ := constant.Int64Val(co.Val())
		consts[n] = v
	}
	if consts["iac"] != 255 || consts["dont"] != 254 || consts["do"] != 253 || consts["wont"] != 252 || consts["will"] != 251 || consts["sga"] != 3 {
		r.Bad("C15/automaton", "telnet constants", "-", fmt.Sprintf("telnet protocol constants differ from RFC 854/858: %v", consts))
	}
	recv := "param:" + fn.Params[0].Name()
	bufK := "param:" + fn.Params[1].Name()
	cK := "param:" + fn.Params[2].Name()
	type cls struct {
		name string
		val  int64
	}
	bytes8 := []cls{{"IAC", 255}, {"DO", 253}, {"DONT", 254}, {"WILL", 251}, {"WONT", 252}, {"SGA", 3}, {"other('A')", 65}, {"NUL", 0}}
	verbs := []cls{{"DO", 253}, {"DONT", 254}, {"WILL", 251}, {"WONT", 252}}
	isVerb := func(v int64) bool { return v >= 251 && v <= 254 }
	mkByte := func(v int64) constant.Value { return constant.MakeInt64(v) }

	run := func(state int, cv int64, verb int64) (*dtPath, string) {
		preset := map[string]constant.Value{"len(" + bufK + ")": constant.MakeInt64(int64(state)), cK: mkByte(cv)}
		if state == 2 {
			preset[bufK+"[1]"] = mkByte(verb)
		}
		cfg := &dtConfig{ConstSetMember: isAny, Preset: preset, IsAtomCall: func(call *ssa.Call) bool {
			return call.Call.StaticCallee() == isAny
		}}
		paths := EnumeratePaths(c, fn, cfg)
		// the write's error result forks; keep the success path (nil error)
		var keep []*dtPath
		for _, p := range paths {
			if p.Undecided != "" {
				return nil, p.Undecided
			}
			failing := false
			for k, v := range p.Assume {
				if strings.Contains(k, "Write(") && v == "!=nil" {
					failing = true
				} else if !strings.Contains(k, "Write(") {
					return nil, "the handler branches on something outside the automaton's inputs: " + k
				}
			}
			if !failing {
				keep = append(keep, p)
			}
		}
		if len(keep) != 1 {
			return nil, fmt.Sprintf("%d success paths for one cell", len(keep))
		}
		return keep[0], ""
	}
	describe := func(p *dtPath) (delivered []string, writes []string, ret string) {
		for _, e := range p.Effects {
			switch {
			case e.Kind == "store" && strings.HasSuffix(e.What, ".initialBuf"):
				delivered = append(delivered, e.Args[0])
			case e.Kind == "call" && strings.HasSuffix(e.What, "Write"):
				writes = append(writes, e.Args[len(e.Args)-1])
			case e.Kind == "call":
				writes = append(writes, "unexpected call "+e.String())
			case e.Kind == "store":
				delivered = append(delivered, "unexpected store "+e.String())
			}
		}
		if len(p.Returns) > 0 {
			ret = p.Returns[0]
		}
		return
	}
	check := func(construct string, p *dtPath, wantDeliver []string, wantWrite string, wantRet []string) {
		del, wr, ret := describe(p)
		okDel := false
		for _, wd := range wantDeliver {
			if wd == "" && len(del) == 0 {
				okDel = true
			}
			if wd != "" && len(del) == 1 && del[0] == wd {
				okDel = true
			}
		}
		okWr := (wantWrite == "" && len(wr) == 0) || (wantWrite != "" && len(wr) == 1 && wr[0] == wantWrite)
		okRet := false
		for _, w := range wantRet {
			if ret == w {
				okRet = true
			}
			if w == "make[0]" && (strings.HasSuffix(ret, "[:0]") || strings.HasSuffix(ret, "[0:0]")) {
				okRet = true // any zero-length slice is the empty control buffer
			}
		}
		if okDel && okWr && okRet {
			r.OK("C15/automaton", construct, c.Pos(fn.Pos()), fmt.Sprintf("delivers %v, writes %v, buffer -> %s", del, wr, ret))
			return
		}
		var probs []string
		if !okDel {
			probs = append(probs, fmt.Sprintf("delivers %v to the data buffer (specified: %v)", del, wantDeliver))
		}
		if !okWr {
			probs = append(probs, fmt.Sprintf("writes %v (specified: %q)", wr, wantWrite))
		}
		if !okRet {
			probs = append(probs, fmt.Sprintf("returns control buffer %s (specified: %v)", ret, wantRet))
		}
		r.Bad("C15/automaton", construct, c.Pos(fn.Pos()), strings.Join(probs, "; "))
	}
	deliverOf := func(v int64) string {
		return fmt.Sprintf("append(%s.initialBuf,{%d})", recv, v)
	}
	empty := []string{"make[0]", bufK + "[0:0]", bufK + "[:0]", "nil"}
	// state 0: data
	for _, b := range bytes8 {
		construct := "state=data byte=" + b.name
		p, und := run(0, b.val, 0)
		if p == nil {
			r.Unk("C15/automaton", construct, c.Pos(fn.Pos()), und)
			continue
		}
		if b.val == 255 {
			check(construct, p, []string{""}, "", []string{fmt.Sprintf("append(%s,{255})", bufK)})
		} else {
			check(construct, p, []string{deliverOf(b.val)}, "", append([]string{bufK}, empty...))
		}
	}
	// state 1: after IAC
	for _, b := range bytes8 {
		construct := "state=IAC byte=" + b.name
		p, und := run(1, b.val, 0)
		if p == nil {
			r.Unk("C15/automaton", construct, c.Pos(fn.Pos()), und)
			continue
		}
		switch {
		case isVerb(b.val):
			check(construct, p, []string{""}, "", []string{fmt.Sprintf("append(%s,{%d})", bufK, b.val)})
		case b.val == 255:
			check(construct, p, []string{"", deliverOf(255)}, "", empty)
		default:
			check(construct, p, []string{""}, "", empty)
		}
	}
	// state 2: verb + option
	reply := func(verb, opt int64) int64 {
		switch verb {
		case 253: // DO
			if opt == 3 {
				return 251
			}
			return 252
		case 254: // DONT
			return 252
		case 251: // WILL
			return 253
		default: // WONT
			return 254
		}
	}
	for _, v := range verbs {
		for _, b := range bytes8 {
			construct := "state=" + v.name + " option=" + b.name
			p, und := run(2, b.val, v.val)
			if p == nil {
				r.Unk("C15/automaton", construct, c.Pos(fn.Pos()), und)
				continue
			}
			check(construct, p, []string{""}, fmt.Sprintf("{255,%d,%d}", reply(v.val, b.val), b.val), empty)
		}
	}
	checkByteIsAny(c, r, isAny)
	checkTelnetFeedAll(c, r, fn)
	checkTelnetFirstRead(c, r)
}

// checkByteIsAny: returns true exactly on equality with an element.
func checkByteIsAny(c *Ctx, r *Report, fn *ssa.Function) {
	checkExistsHelper(c, r, "C15/feed-all", fn, "eq(elem,param)", "set membership")
}

func checkTelnetFeedAll(c *Ctx, r *Report, handler *ssa.Function) {
	rule := "C15/feed-all"
	fn := c.LookupFunc("transport", "Telnet", "handleControlChars")
	if fn == nil {
		r.Anchor(rule, "(*transport.Telnet).handleControlChars")
		return
	}
	calls := staticCallsTo(fn, handler)
	if len(calls) != 1 {
		r.Bad(rule, "loop feeds the handler", c.Pos(fn.Pos()), fmt.Sprintf("%d calls of the handler in the negotiation loop (one expected)", len(calls)))
		return
	}
	hcall := calls[0].(*ssa.Call)
	// the byte: load of buf[0] where buf (len 1) was passed to conn.Read
	var readCall *ssa.Call
	for _, ci := range callInstrs(fn) {
		if call, ok := ci.(*ssa.Call); ok && call.Call.IsInvoke() && call.Call.Method.Name() == "Read" {
			readCall = call
		}
	}
	okByte := false
	if readCall != nil {
		if u, ok := hcall.Call.Args[2].(*ssa.UnOp); ok {
			if ia, ok := u.X.(*ssa.IndexAddr); ok {
				idx, isC := constInt(ia.Index)
				if isC && idx == 0 && ia.X == readCall.Call.Args[0] {
					switch mk := ia.X.(type) {
					case *ssa.MakeSlice:
						if n, ok := constInt(mk.Len); ok && n == 1 {
							okByte = true
						}
					case *ssa.Slice:
						// make([]byte, 1) with a constant size is `new [1]byte; slice[:1]`
						if a, ok := mk.X.(*ssa.Alloc); ok {
							if arr, ok := a.Type().Underlying().(*types.Pointer).Elem().Underlying().(*types.Array); ok && arr.Len() == 1 {
								okByte = true
							}
						}
					}
				}
			}
		}
	}
	r.Check(okByte, rule, "handler gets the byte just read", c.Pos(hcall.Pos()), "one byte per read, handed to the handler",
		"the byte given to the handler is not element 0 of the one-byte buffer just filled by the connection read")
	// every path from a successful read to the next read passes the handler
	if readCall != nil {
		errv := errResultsOf(readCall)
		skipped := false
		if len(errv) == 1 {
			// follow only the err == nil edge
			ef := func(b *ssa.BasicBlock, i int) bool {
				cond := ifCond(b)
				if cond == nil {
					return true
				}
				x, nonNilOnTrue, ok := nilCheck(cond)
				if !ok || x != errv[0] {
					return true
				}
				if nonNilOnTrue {
					return i == 1
				}
				return i == 0
			}
			rr := reachFrom(fn, readCall, func(in ssa.Instruction) bool { return in == ssa.Instruction(hcall) }, ef)
			if rr.visited[readCall] {
				skipped = true
			}
			for in := range rr.visited {
				if isReturn(in) {
					skipped = true
				}
			}
		}
		r.Check(!skipped, rule, "every byte read reaches the handler", c.Pos(readCall.Pos()), "no path from a successful read skips the handler",
			"a byte can be read from the connection and discarded without being handed to the handler")
	}
	// control buffer threading: arg1 of the handler is a phi that includes the handler's own result #0
	thread := false
	res0 := resultOf(hcall, 0)
	if phi, ok := hcall.Call.Args[1].(*ssa.Phi); ok && res0 != nil {
		for _, e := range phi.Edges {
			if e == res0 {
				thread = true
			}
		}
	}
	r.Check(thread, rule, "control buffer threaded through iterations", c.Pos(hcall.Pos()), "the handler's returned buffer is its next input",
		"the control buffer returned by the handler is not fed back into the next call: the parser forgets its state between bytes")
	// handler error aborts
	errv := errResultsOf(hcall)
	if len(errv) != 1 {
		r.Unk(rule, "handler error aborts", c.Pos(hcall.Pos()), "handler has no error result")
	} else if msg := errLeadsToReturn(c, fn, errv[0]); msg != "" {
		r.Bad(rule, "handler error aborts", c.Pos(hcall.Pos()), "a failed negotiation reply does not abort the open: "+msg)
	} else {
		r.OK(rule, "handler error aborts", c.Pos(hcall.Pos()), "")
	}
}

func checkTelnetFirstRead(c *Ctx, r *Report) {
	rule := "C15/first-read"
	fn := c.LookupFunc("transport", "Telnet", "Read")
	bufF := c.LookupField("transport", "Telnet", "initialBuf")
	if fn == nil || bufF == nil {
		r.Anchor(rule, "(*transport.Telnet).Read / initialBuf")
		return
	}
	paths := EnumeratePaths(c, fn, &dtConfig{})
	recv := "param:" + fn.Params[0].Name()
	okBuffered, okPlain := false, false
	msg := ""
	for _, p := range paths {
		if p.Undecided != "" {
			r.Unk(rule, "Telnet.Read", c.Pos(fn.Pos()), p.Undecided)
			return
		}
		nonEmpty := false
		for k, v := range p.Assume {
			if strings.Contains(k, "len("+recv+".initialBuf)") && (v == "true" || strings.HasPrefix(v, "!=0")) {
				nonEmpty = true
			}
		}
		cleared, hasStore := lastStore(p, ".initialBuf")
		readsConn := false
		for _, e := range p.Effects {
			if e.Kind == "call" && strings.HasSuffix(e.What, "Read") {
				readsConn = true
			}
		}
		if nonEmpty {
			if len(p.Returns) == 2 && p.Returns[0] == recv+".initialBuf" && p.Returns[1] == "nil" && hasStore && cleared == "nil" && !readsConn {
				okBuffered = true
			} else {
				msg = fmt.Sprintf("with bytes buffered during negotiation Read returns %v, buffer store %q (cleared=%v), reads connection=%v", p.Returns, cleared, hasStore, readsConn)
			}
		} else if readsConn && !hasStore {
			okPlain = true
		}
	}
	if okBuffered && okPlain && msg == "" {
		r.OK(rule, "Telnet.Read", c.Pos(fn.Pos()), "buffered bytes first, cleared; otherwise the connection")
	} else {
		if msg == "" {
			msg = "Telnet.Read does not have the two specified paths (buffered bytes returned once and cleared; otherwise read the connection)"
		}
		r.Bad(rule, "Telnet.Read", c.Pos(fn.Pos()), msg)
	}
}
