package main

// C09 — NETCONF session establishment negotiates the right version or fails cleanly.

import (
	"fmt"
	"go/constant"
	"sort"
	"strings"

	"golang.org/x/tools/go/ssa"
)

func init() {
	register(&Property{
		ID:  "C09",
		Run: runC09,
		Explanation: "Decision-table extraction (path enumeration of the loop-free SSA of determineVersion over the atoms has(base:1.1), has(base:1.0), PreferredVersion in {\"\",\"1.0\",\"1.1\"}) compared cell by cell with the 12-cell table of the property: selected version, delimiter pattern installed on the channel, error class. " +
			"Constant folding of the two client hellos (exactly one <capability>, carrying the URN of its own version, end-of-message framed) and the version->hello mapping of sendClientCapabilities (table). " +
			"Ordering in Open: channel open -> server capabilities -> version -> client hello (once) -> go read; every error after the channel opened closes it (deferred close on the named result); missing <hello> returns ErrNetconfError. " +
			"The version handed to serialize and to the response object is the selected one. NOT decided: capability / session-id extraction for arbitrary hello layouts (regular expressions), read segmentation.",
		Assumptions: []string{"ServerHasCapability is membership in the advertised list (checked: loop returns true on equality only)", "regexp semantics opaque"},
		Mutants: []Mutant{
			{ID: "C09-delimiter-left-to-options", Desc: "NewDriver no longer installs the hello delimiter behind the options", Rule: "C09/hello-delimiter-installed",
				Edits: []Edit{{File: "driver/netconf/driver.go", Old: "\tncPatterns := getNetconfPatterns()\n\n\td.Channel.PromptPattern = ncPatterns.v1Dot0Delim\n\n\treturn d, nil", New: "\treturn d, nil"}}},
			{ID: "C09-hello-raw-timeout", Desc: "the hello is read under the raw connection-wide timeout (0 expires at once)", Rule: "C09/deadline-resolved",
				Edits: []Edit{{File: "driver/netconf/capabilities.go", Old: "\t\td.Channel.GetTimeout(d.Channel.TimeoutOps),\n", New: "\t\td.Channel.TimeoutOps,\n"}}},
			{ID: "C09-password-prompt-unanchored", Desc: "the built-in password prompt pattern no longer has to end the line", Rule: "C09/password-prompt-anchored",
				Edits: []Edit{{File: "channel/auth.go", Old: "(?im)(.*@.*)?password:\\s?$", New: "(?im)(.*@.*)?password:\\s*"}}},
			{ID: "C09-greedy-capability", Desc: "capability capture made greedy", Rule: "C09/capability-capture",
				Edits: []Edit{{File: "driver/netconf/driver.go", Old: "capability>)(.*?)(?:</", New: "capability>)\\s*(\\S+)\\s*(?:</"}}},
			{ID: "C09-has-capability-prefix", Desc: "ServerHasCapability matches by prefix", Rule: "C09/has-capability",
				Edits: []Edit{{File: "driver/netconf/capabilities.go", Old: "\t\tif serverCapability == s {", New: "\t\tif len(serverCapability) >= len(s) && serverCapability[:len(s)] == s {"}}},
			{ID: "C09-session-id-int32", Desc: "session-id parsed as a signed 32-bit value", Rule: "C09/session-id-range",
				Edits: []Edit{{File: "driver/netconf/capabilities.go", Old: "i, err := strconv.Atoi(string(sessionIDMatch[1]))", New: "i, err := strconv.ParseInt(string(sessionIDMatch[1]), 10, 32)"}}},
			{ID: "C09-pref10-on-11", Desc: "preferred 1.0 accepted when only 1.1 is advertised", Rule: "C09/version-table",
				Edits: []Edit{{File: "driver/netconf/capabilities.go", Old: "\tcase V1Dot0:\n\t\tif d.ServerHasCapability(v1Dot0Cap) {", New: "\tcase V1Dot0:\n\t\tif d.ServerHasCapability(v1Dot0Cap) || d.ServerHasCapability(v1Dot1Cap) {"}}},
			{ID: "C09-10-first", Desc: "1.0 preferred over 1.1 when both advertised", Rule: "C09/version-table",
				Edits: []Edit{{File: "driver/netconf/capabilities.go", Old: "\tif d.ServerHasCapability(v1Dot1Cap) { //nolint: gocritic\n\t\td.SelectedVersion = V1Dot1\n\t} else if d.ServerHasCapability(v1Dot0Cap) {\n\t\td.SelectedVersion = V1Dot0", New: "\tif d.ServerHasCapability(v1Dot0Cap) { //nolint: gocritic\n\t\td.SelectedVersion = V1Dot0\n\t} else if d.ServerHasCapability(v1Dot1Cap) {\n\t\td.SelectedVersion = V1Dot1"}}},
			{ID: "C09-delim-stale", Desc: "1.1 selected but the 1.0 delimiter stays installed", Rule: "C09/version-table",
				Edits: []Edit{{File: "driver/netconf/capabilities.go", Old: "\tcase V1Dot1:\n\t\td.Channel.PromptPattern = ncPatterns.v1Dot1Delim", New: "\tcase V1Dot1:\n\t\td.Channel.PromptPattern = ncPatterns.v1Dot0Delim"}}},
			{ID: "C09-hello-swapped", Desc: "1.0 sessions send the 1.1 hello", Rule: "C09/hello",
				Edits: []Edit{{File: "driver/netconf/capabilities.go", Old: "\tcase V1Dot0:\n\t\tcaps = []byte(v1Dot0Caps)", New: "\tcase V1Dot0:\n\t\tcaps = []byte(v1Dot1Caps)"}}},
			{ID: "C09-hello-both-caps", Desc: "client hello advertises both base versions", Rule: "C09/hello",
				Edits: []Edit{{File: "driver/netconf/driver.go", Old: "\t\t\"         <capability>urn:ietf:params:netconf:base:1.1</capability>\\n\" +", New: "\t\t\"         <capability>urn:ietf:params:netconf:base:1.0</capability>\\n\" +\n\t\t\"         <capability>urn:ietf:params:netconf:base:1.1</capability>\\n\" +"}}},
			{ID: "C09-open-no-cleanup", Desc: "failed negotiation leaves the channel open", Rule: "C09/open-order",
				Edits: []Edit{{File: "driver/netconf/driver.go", Old: "\t\tif reterr != nil {\n\t\t\t// don't leave the channel (and more importantly, the transport) open if we are going to\n\t\t\t// return an error\n\t\t\t_ = d.Channel.Close()", New: "\t\tif reterr != nil && d.SelectedVersion != \"\" {\n\t\t\t// don't leave the channel (and more importantly, the transport) open if we are going to\n\t\t\t// return an error\n\t\t\t_ = d.Channel.Close()"}}},
			{ID: "C09-no-hello-ok", Desc: "missing server hello tolerated", Rule: "C09/hello-required",
				Edits: []Edit{{File: "driver/netconf/capabilities.go", Old: "\tif !serverHelloMatch {\n\t\treturn fmt.Errorf(\"%w: did not find server hello\", util.ErrNetconfError)\n\t}", New: "\tif !serverHelloMatch && len(b) == 0 {\n\t\treturn fmt.Errorf(\"%w: did not find server hello\", util.ErrNetconfError)\n\t}"}}},
			{ID: "C09-framing-fixed", Desc: "requests always framed as 1.0", Rule: "C09/framing-follows-selection",
				Edits: []Edit{{File: "driver/netconf/rpc.go", Old: "m.serialize(d.SelectedVersion, d.ForceSelfClosingTags, d.ExcludeHeader)", New: "m.serialize(V1Dot0, d.ForceSelfClosingTags, d.ExcludeHeader)"}}},
			{ID: "C09-hello-twice", Desc: "client hello sent again after the reader started", Rule: "C09/open-order",
				Edits: []Edit{{File: "driver/netconf/driver.go", Old: "\tgo d.read()\n\n\treturn nil\n}", New: "\tgo d.read()\n\n\treturn d.sendClientCapabilities()\n}"}}},
		},
	})
}

// matchCell: are the literals assumed on a path consistent with the cell (atom key -> concrete value string)?
// returns (consistent, usesUndeclaredAtom)
func matchCell(p *dtPath, cell map[string]string) (bool, string) {
	for k, lit := range p.Assume {
		cv, ok := cell[k]
		if !ok {
			return false, k
		}
		switch {
		case lit == "true" || lit == "false":
			if cv != lit {
				return false, ""
			}
		case lit == "=nil":
			if cv != "nil" {
				return false, ""
			}
		case lit == "!=nil":
			if cv == "nil" {
				return false, ""
			}
		case strings.HasPrefix(lit, "="):
			if cv != lit[1:] {
				return false, ""
			}
		case strings.HasPrefix(lit, "!="):
			for _, x := range splitTop(lit[2:]) {
				if cv == x {
					return false, ""
				}
			}
		}
	}
	return true, ""
}

// splitTop splits a comma list of ExactString constants (quoted strings may contain commas).
func splitTop(s string) []string {
	var out []string
	cur := ""
	inq := false
	for i := 0; i < len(s); i++ {
		ch := s[i]
		if ch == '"' && (i == 0 || s[i-1] != '\\') {
			inq = !inq
		}
		if ch == ',' && !inq {
			out = append(out, cur)
			cur = ""
			continue
		}
		cur += string(ch)
	}
	if cur != "" {
		out = append(out, cur)
	}
	return out
}

func lastStore(p *dtPath, suffix string) (string, bool) {
	v, ok := "", false
	for _, e := range p.Effects {
		if e.Kind == "store" && strings.HasSuffix(e.What, suffix) {
			v, ok = e.Args[0], true
		}
	}
	return v, ok
}

func q(s string) string { return constant.MakeString(s).ExactString() }

func runC09(c *Ctx, r *Report) {
	importFoundation(c, r, "C09", "search-window")
	importFoundation(c, r, "C09", "transport-pipe")
	importFoundation(c, r, "C09", "driver-options")
	r.Rule("C09/password-prompt-anchored", "the built-in pattern that decides when the login password is typed matches only where the prompt ends a line", 1)
	checkPasswordPromptAnchored(c, r, "C09/password-prompt-anchored")
	importFoundation(c, r, "C09", "netconf-framing")
	importFoundation(c, r, "C09", "read-loop")
	r.Rule("C09/cleanup-keeps-error", "the deferred clean-up of Open closes the channel without replacing the error being returned", 1)
	checkOpenCleanupKeepsError(c, r, "C09/cleanup-keeps-error")
	r.Rule("C09/error-classes", "each failure site named by the property wraps the sentinel the property names (timeout / auth / connection / privilege / NETCONF / operation / platform error)", 3)
	checkErrorClasses(c, r, "C09")
	r.Rule("C09/version-table", "determineVersion implements the 12-cell negotiation table (selected version, delimiter installed, error class)", 12)
	r.Rule("C09/hello", "each client hello constant carries exactly one capability, the URN of its own version, end-of-message framed; sendClientCapabilities writes the hello of the selected version", 4)
	r.Rule("C09/open-order", "Open: channel open, server capabilities, version, client hello (once), then the reader; every error after the channel opened closes it", 5)
	r.Rule("C09/capability-capture", "the capability pattern's capture is non-greedy or excludes '<', so adjacent capability elements are never merged whatever the hello layout", 1)
	r.Rule("C09/has-capability", "ServerHasCapability is list membership by string equality (a longer URN with the base URN as prefix is a different capability)", 1)
	r.Rule("C09/session-id-range", "the session-id conversion accepts the whole unsigned 32-bit range", 1)
	r.Rule("C09/deadline-resolved", "every deadline the NETCONF driver sets up takes its duration from Channel.GetTimeout (a configured 0 means the maximum, for the hello exchange as for every RPC)", 2)
	checkNetconfDeadlinesResolved(c, r, "C09/deadline-resolved")
	r.Rule("C09/hello-delimiter-installed", "netconf.NewDriver stores the end-of-message delimiter into the channel's prompt pattern behind the option loop, on every path to a success return", 1)
	checkHelloDelimiterInstalled(c, r, "C09/hello-delimiter-installed")
	r.Rule("C09/submatch-guarded", "the session-id (and every other sub-match the NETCONF driver reads out of the server's text) is indexed only after the pattern was seen to match", 2)
	checkSubmatchGuarded(c, r, "C09/submatch-guarded", []string{"driver/netconf"})
	r.Rule("C09/hello-required", "a server greeting without <hello> yields ErrNetconfError", 1)
	r.Rule("C09/framing-follows-selection", "serialize and the response object are given the selected version", 2)

	fn := c.LookupFunc("driver/netconf", "Driver", "determineVersion")
	has := c.LookupFunc("driver/netconf", "Driver", "ServerHasCapability")
	getPat := c.LookupFunc("driver/netconf", "", "getNetconfPatterns")
	if fn == nil || has == nil {
		r.Anchor("C09/version-table", "(*netconf.Driver).determineVersion / ServerHasCapability")
		return
	}
	cap10, cap11 := "urn:ietf:params:netconf:base:1.0", "urn:ietf:params:netconf:base:1.1"
	checkHasCapability(c, r, has)
	checkCapabilityCapture(c, r)
	checkSessionIDRange(c, r)
	cfg := &dtConfig{IsAtomCall: func(call *ssa.Call) bool {
		sc := call.Call.StaticCallee()
		if sc == has || (getPat != nil && sc == getPat) {
			return true
		}
		if o := CalleeObj(call); o != nil && o.Pkg() != nil && o.Pkg().Path() == "fmt" {
			return true
		}
		return false
	}}
	paths := EnumeratePaths(c, fn, cfg)
	recv := "param:" + fn.Params[0].Name()
	kHas := func(urn string) string { return "netconf.Driver.ServerHasCapability(" + recv + "," + q(urn) + ")" }
	kPref := recv + ".PreferredVersion"
	for _, p := range paths {
		if p.Undecided != "" {
			r.Unk("C09/version-table", "determineVersion paths", c.Pos(fn.Pos()), "path enumeration left the vocabulary: "+p.Undecided)
			return
		}
	}
	type want struct {
		ver string // "" = error
	}
	for _, h11 := range []bool{true, false} {
		for _, h10 := range []bool{true, false} {
			for _, pref := range []string{"", "1.0", "1.1"} {
				cell := map[string]string{kHas(cap11): fmt.Sprint(h11), kHas(cap10): fmt.Sprint(h10), kPref: q(pref)}
				w := want{}
				switch pref {
				case "":
					if h11 {
						w.ver = "1.1"
					} else if h10 {
						w.ver = "1.0"
					}
				case "1.0":
					if h10 {
						w.ver = "1.0"
					}
				case "1.1":
					if h11 {
						w.ver = "1.1"
					}
				}
				construct := fmt.Sprintf("cell has1.1=%v has1.0=%v preferred=%q", h11, h10, pref)
				var match []*dtPath
				undeclared := ""
				for _, p := range paths {
					ok, und := matchCell(p, cell)
					if und != "" {
						undeclared = und
					}
					if ok {
						match = append(match, p)
					}
				}
				if undeclared != "" {
					r.Unk("C09/version-table", construct, c.Pos(fn.Pos()), "determineVersion branches on something outside the table's atoms: "+undeclared)
					continue
				}
				if len(match) != 1 {
					r.Unk("C09/version-table", construct, c.Pos(fn.Pos()), fmt.Sprintf("%d paths match the cell (expected exactly one)", len(match)))
					continue
				}
				p := match[0]
				ret := "?"
				if len(p.Returns) == 1 {
					ret = p.Returns[0]
				}
				sel, _ := lastStore(p, ".SelectedVersion")
				pat, hasPat := lastStore(p, ".PromptPattern")
				got := fmt.Sprintf("returns %s, SelectedVersion=%s, PromptPattern=%s", ret, sel, pat)
				if w.ver == "" {
					if ret == "errwrap:ErrNetconfError" {
						r.OK("C09/version-table", construct, c.Pos(fn.Pos()), "fails with ErrNetconfError")
					} else {
						r.Bad("C09/version-table", construct, c.Pos(fn.Pos()), "the table requires a NETCONF error here (server lacks the required/any base capability) but the code "+got)
					}
					continue
				}
				wantDelim := "v1Dot0Delim"
				if w.ver == "1.1" {
					wantDelim = "v1Dot1Delim"
				}
				ok := ret == "nil" && sel == q(w.ver) && hasPat && strings.HasSuffix(pat, "."+wantDelim)
				if ok {
					r.OK("C09/version-table", construct, c.Pos(fn.Pos()), "selects "+w.ver+" with its delimiter")
				} else {
					r.Bad("C09/version-table", construct, c.Pos(fn.Pos()), fmt.Sprintf("the table requires version %s with delimiter %s and no error, but the code %s", w.ver, wantDelim, got))
				}
			}
		}
	}
	checkHellos(c, r)
	checkNetconfOpenOrder(c, r)
	checkHelloRequired(c, r)
	checkFramingFollowsSelection(c, r)
}

// checkHasCapability: ServerHasCapability returns true only on equality with an advertised capability.
func checkHasCapability(c *Ctx, r *Report, has *ssa.Function) {
	okShape := false
	capsF := c.LookupField("driver/netconf", "Driver", "serverCapabilities")
	allInstrs(has, func(in ssa.Instruction) {
		bo, ok := in.(*ssa.BinOp)
		if !ok || bo.Op.String() != "==" {
			return
		}
		// one side the parameter s, other side an element of serverCapabilities
		var other ssa.Value
		if bo.X == ssa.Value(has.Params[1]) {
			other = bo.Y
		} else if bo.Y == ssa.Value(has.Params[1]) {
			other = bo.X
		}
		if other == nil {
			return
		}
		if u, ok := other.(*ssa.UnOp); ok {
			if ia, ok := u.X.(*ssa.IndexAddr); ok {
				if f, _, ok := fieldLoad(ia.X); ok && f == capsF {
					okShape = true
				}
			}
		}
	})
	if !okShape {
		r.Notes = append(r.Notes, "ServerHasCapability is not recognisably 'equality with an element of serverCapabilities'; the has() atoms of the table are then only as good as that function")
	}
	checkExistsHelper(c, r, "C09/has-capability", has, "eq(elem,param)", "membership of the exact URN in the server's capability list")
}

func checkHellos(c *Ctx, r *Report) {
	type hello struct{ constName, ver, urn string }
	vals := map[string]string{}
	for _, h := range []hello{{"v1Dot0Caps", "1.0", "urn:ietf:params:netconf:base:1.0"}, {"v1Dot1Caps", "1.1", "urn:ietf:params:netconf:base:1.1"}} {
		co := c.LookupConst("driver/netconf", h.constName)
		if co == nil || co.Val().Kind() != constant.String {
			r.Anchor("C09/hello", "netconf."+h.constName)
			continue
		}
		s := constant.StringVal(co.Val())
		vals[h.ver] = s
		var probs []string
		if n := strings.Count(s, "<capability>"); n != 1 {
			probs = append(probs, fmt.Sprintf("%d <capability> elements (exactly one required)", n))
		}
		if !strings.Contains(s, "<capability>"+h.urn+"</capability>") {
			probs = append(probs, "does not advertise "+h.urn)
		}
		if !strings.HasSuffix(s, "]]>]]>") || strings.Count(s, "]]>]]>") != 1 {
			probs = append(probs, "is not terminated by exactly one end-of-message marker")
		}
		if !strings.Contains(s, "<hello") || !strings.Contains(s, "</hello>") || !strings.Contains(s, "urn:ietf:params:xml:ns:netconf:base:1.0") {
			probs = append(probs, "is not a hello element in the base namespace")
		}
		if len(probs) == 0 {
			r.OK("C09/hello", "constant "+h.constName, c.Pos(co.Pos()), "one capability, own URN, EOM framed")
		} else {
			r.Bad("C09/hello", "constant "+h.constName, c.Pos(co.Pos()), "client hello for "+h.ver+" "+strings.Join(probs, "; "))
		}
	}
	fn := c.LookupFunc("driver/netconf", "Driver", "sendClientCapabilities")
	if fn == nil {
		r.Anchor("C09/hello", "(*netconf.Driver).sendClientCapabilities")
		return
	}
	recv := "param:" + fn.Params[0].Name()
	paths := EnumeratePaths(c, fn, &dtConfig{})
	for _, ver := range []string{"1.0", "1.1"} {
		construct := "sendClientCapabilities version " + ver
		cell := map[string]string{recv + ".SelectedVersion": q(ver)}
		var match []*dtPath
		und := ""
		for _, p := range paths {
			if p.Undecided != "" {
				und = p.Undecided
			}
			// paths may also fork on the write error: ignore keys about the call result
			pp := &dtPath{Assume: map[string]string{}}
			for k, v := range p.Assume {
				if strings.Contains(k, "WriteAndReturn") {
					continue
				}
				pp.Assume[k] = v
			}
			if ok, u := matchCell(pp, cell); ok && u == "" {
				match = append(match, p)
			} else if u != "" {
				und = "branches on " + u
			}
		}
		if und != "" || len(match) == 0 {
			r.Unk("C09/hello", construct, c.Pos(fn.Pos()), "cannot extract the version->hello mapping: "+und)
			continue
		}
		good := true
		msg := ""
		for _, p := range match {
			n := 0
			for _, e := range p.Effects {
				if e.Kind == "call" && strings.HasSuffix(e.What, "Channel.WriteAndReturn") {
					n++
					if len(e.Args) < 2 || e.Args[1] != q(vals[ver]) {
						good = false
						msg = "the hello written is not the constant for version " + ver
					}
				} else if e.Kind == "call" && (strings.Contains(e.What, "Write")) {
					good = false
					msg = "an additional write: " + e.String()
				}
			}
			if n != 1 {
				good = false
				msg = fmt.Sprintf("%d hello writes on a path (exactly one required)", n)
			}
		}
		if good {
			r.OK("C09/hello", construct, c.Pos(fn.Pos()), "writes exactly the hello of its version")
		} else {
			r.Bad("C09/hello", construct, c.Pos(fn.Pos()), msg)
		}
	}
}

func staticCallsTo(fn *ssa.Function, target *ssa.Function) []ssa.CallInstruction {
	var out []ssa.CallInstruction
	for _, ci := range callInstrs(fn) {
		if ci.Common().StaticCallee() == target {
			out = append(out, ci)
		}
	}
	return out
}

func checkNetconfOpenOrder(c *Ctx, r *Report) {
	rule := "C09/open-order"
	open := c.LookupFunc("driver/netconf", "Driver", "Open")
	chOpen := c.LookupFunc("channel", "Channel", "Open")
	chClose := c.LookupFunc("channel", "Channel", "Close")
	steps := []string{"processServerCapabilities", "determineVersion", "sendClientCapabilities"}
	read := c.LookupFunc("driver/netconf", "Driver", "read")
	if open == nil || chOpen == nil || chClose == nil || read == nil {
		r.Anchor(rule, "(*netconf.Driver).Open / channel Open, Close / read")
		return
	}
	// a step is either called in Open itself or in a helper of this package that Open calls once (one level)
	var seq []openStep
	names := []string{"Channel.Open"}
	co := staticCallsTo(open, chOpen)
	if len(co) != 1 {
		r.Bad(rule, "Open calls Channel.Open once", c.Pos(open.Pos()), fmt.Sprintf("%d calls of Channel.Open", len(co)))
		return
	}
	seq = append(seq, openStep{outer: co[0], inner: co[0], fn: open})
	for _, s := range steps {
		f := c.LookupFunc("driver/netconf", "Driver", s)
		if f == nil {
			r.Anchor(rule, "(*netconf.Driver)."+s)
			return
		}
		var found []openStep
		for _, ci := range staticCallsTo(open, f) {
			found = append(found, openStep{outer: ci, inner: ci, fn: open})
		}
		for _, ci := range callInstrs(open) {
			h := ci.Common().StaticCallee()
			if h == nil || h == f || h.Pkg != open.Pkg || len(h.Blocks) == 0 {
				continue
			}
			if _, ok := ci.(*ssa.Call); !ok {
				continue
			}
			for _, in := range staticCallsTo(h, f) {
				found = append(found, openStep{outer: ci, inner: in, fn: h})
			}
		}
		if len(found) != 1 {
			r.Bad(rule, "Open calls "+s+" once", c.Pos(open.Pos()), fmt.Sprintf("%d calls of %s in Open (exactly one required: the client sends exactly one hello)", len(found), s))
			return
		}
		seq = append(seq, found[0])
		names = append(names, s)
	}
	var goRead ssa.Instruction
	for _, ci := range callInstrs(open) {
		if g, ok := ci.(*ssa.Go); ok {
			isRead := g.Call.StaticCallee() == read
			for _, callee := range c.Callees(g) { // also through a method value: readLoop := d.read; go readLoop()
				if callee == read {
					isRead = true
				}
			}
			if !isRead {
				continue
			}
			goRead = g
		}
	}
	if goRead == nil {
		r.Bad(rule, "Open starts the reader", c.Pos(open.Pos()), "Open does not start the NETCONF read loop")
		return
	}
	seq = append(seq, openStep{outer: goRead, inner: goRead, fn: open})
	names = append(names, "go read")
	okOrder := true
	for i := 0; i+1 < len(seq); i++ {
		a, b := seq[i], seq[i+1]
		ok := false
		switch {
		case a.fn == b.fn:
			ok = dominatesInstr(a.inner, b.inner)
		case a.fn == open:
			// b runs inside a helper: the helper's call site comes after a
			ok = dominatesInstr(a.outer, b.outer)
		default:
			// a runs inside a helper: the helper is called before b and cannot succeed without running a
			ok = dominatesInstr(a.outer, b.outer) && runsOnEverySuccess(a.fn, a.inner)
		}
		if !ok {
			okOrder = false
			r.Bad(rule, "order "+names[i]+" before "+names[i+1], c.Pos(b.inner.Pos()), names[i]+" does not precede "+names[i+1]+" on every path")
		}
	}
	if okOrder {
		r.OK(rule, "order of session establishment", c.Pos(open.Pos()), strings.Join(names, " -> "))
	}
	// nothing that writes to the channel after the reader started
	rr := reachFrom(open, goRead, nil, nil)
	extra := ""
	for in := range rr.visited {
		if ci, ok := in.(*ssa.Call); ok {
			if sc := ci.Call.StaticCallee(); sc != nil && sc.Pkg != nil && isLibPkgPath(sc.Pkg.Pkg.Path()) {
				if c.reachesFn(sc, c.LookupFunc("transport", "Transport", "Write")) {
					extra = shortFn(sc) + " at " + c.Pos(ci.Pos())
				}
			}
		}
	}
	if extra != "" {
		r.Bad(rule, "no write after the reader started", c.Pos(goRead.Pos()), "Open writes to the device again after the hello exchange: "+extra)
	} else {
		r.OK(rule, "no write after the reader started", c.Pos(goRead.Pos()), "")
	}
	// each step's error is returned (by the helper it runs in, and by Open)
	for i, st := range seq[:4] {
		construct := "error of " + names[i] + " returned"
		msg := stepErrReturned(c, st.fn, st.inner)
		if msg == "" && st.fn != open {
			msg = stepErrReturned(c, open, st.outer)
		}
		switch msg {
		case "":
			r.OK(rule, construct, c.Pos(st.inner.Pos()), "")
		case "?":
			r.Unk(rule, construct, c.Pos(st.inner.Pos()), "call has no single error result")
		default:
			r.Bad(rule, construct, c.Pos(st.inner.Pos()), msg)
		}
	}
	// deferred close on named result
	okDefer := false
	for _, ci := range callInstrs(open) {
		d, ok := ci.(*ssa.Defer)
		if !ok {
			continue
		}
		mc, ok := d.Call.Value.(*ssa.MakeClosure)
		if !ok {
			continue
		}
		clos := mc.Fn.(*ssa.Function)
		closes := staticCallsTo(clos, chClose)
		if len(closes) == 0 {
			continue
		}
		// guarded only by `reterr != nil`
		conds := edgeConds(closes[0].Block())
		simple := len(conds) == 1
		if simple {
			x, nonNil, ok := nilCheck(conds[0].Cond)
			simple = ok && (nonNil == conds[0].Truth) && isNamedResultLoad(x, open, mc)
		}
		// the defer must come right after the channel opened: dominate the first step
		if simple && dominatesInstr(d, seq[1].outer) && dominatesInstr(seq[0].outer, d) {
			okDefer = true
		}
	}
	okExplicit := false
	if !okDefer {
		// the same clean-up written out: after the channel opened, every return of an error follows a Channel.Close
		chOpenCall := seq[0].outer
		var chErr ssa.Value
		if call, ok := chOpenCall.(*ssa.Call); ok {
			if es := errResultsOf(call); len(es) == 1 {
				chErr = es[0]
			} else if isErrorType(call.Type()) {
				chErr = call
			}
		}
		if chErr != nil {
			ef := func(b *ssa.BasicBlock, si int) bool {
				// do not follow the edge on which opening the channel itself failed (it has cleaned up after itself)
				if x, nonNilOnTrue, ok := nilCheck(ifCond(b)); ok && x == chErr {
					if nonNilOnTrue {
						return si == 1
					}
					return si == 0
				}
				return true
			}
			isClose := func(in ssa.Instruction) bool {
				ci, ok := in.(ssa.CallInstruction)
				return ok && ci.Common().StaticCallee() == chClose
			}
			rr := reachFrom(open, chOpenCall, isClose, ef)
			okExplicit = true
			nClose := 0
			for in := range rr.visited {
				if isClose(in) {
					nClose++
				}
				if ret, ok := in.(*ssa.Return); ok && len(ret.Results) == 1 && !isNilConst(ret.Results[0]) {
					okExplicit = false
				}
			}
			if nClose == 0 {
				okExplicit = false
			}
		}
	}
	if okDefer {
		r.OK(rule, "failure closes the channel", c.Pos(open.Pos()), "deferred Channel.Close under reterr != nil, installed before the capabilities exchange")
	} else if okExplicit {
		r.OK(rule, "failure closes the channel", c.Pos(open.Pos()), "every error return after the channel opened follows an explicit Channel.Close")
	} else {
		r.Bad(rule, "failure closes the channel", c.Pos(open.Pos()), "Open does not unconditionally close the channel when it returns an error after the channel was opened (deferred close guarded by exactly `reterr != nil` not found before the capabilities exchange): transport and reader are leaked on a failed negotiation")
	}
}

// openStep: one step of session establishment: the call in Open (outer) and, when the step runs in a helper, the call inside it.
type openStep struct {
	outer ssa.Instruction
	inner ssa.Instruction
	fn    *ssa.Function
}

// runsOnEverySuccess: every return of fn either comes after `in` or returns an error known to be non-nil.
func runsOnEverySuccess(fn *ssa.Function, in ssa.Instruction) bool {
	for _, b := range fn.Blocks {
		for _, x := range b.Instrs {
			ret, ok := x.(*ssa.Return)
			if !ok || dominatesInstr(in, ret) {
				continue
			}
			if len(ret.Results) == 0 {
				return false
			}
			e := ret.Results[len(ret.Results)-1]
			if !guardedBy(ret, func(cond ssa.Value, truth bool) bool {
				v, nonNil, ok := nilCheck(cond)
				return ok && v == e && nonNil == truth
			}) {
				return false
			}
		}
	}
	return true
}

// stepErrReturned: the error of the call is returned by fn: tested and returned, or the call's result is what fn returns.
func stepErrReturned(c *Ctx, fn *ssa.Function, in ssa.Instruction) string {
	call, ok := in.(*ssa.Call)
	if !ok {
		return "?"
	}
	errv := errResultsOf(call)
	if len(errv) != 1 {
		return "?"
	}
	direct := false
	for _, ref := range *errv[0].Referrers() {
		if ret, ok := ref.(*ssa.Return); ok && ret.Block() == call.Block() {
			direct = true
		}
	}
	if direct {
		return ""
	}
	return errLeadsToReturn(c, fn, errv[0])
}

// isNamedResultLoad: x is a load of the captured named result of parent.
func isNamedResultLoad(x ssa.Value, parent *ssa.Function, mc *ssa.MakeClosure) bool {
	u, ok := x.(*ssa.UnOp)
	if !ok {
		return false
	}
	fv, ok := u.X.(*ssa.FreeVar)
	if !ok {
		return false
	}
	b := freeVarBinding(fv)
	a, ok := b.(*ssa.Alloc)
	if !ok {
		return false
	}
	// the named result: an alloc whose value is loaded for the Return
	for _, ref := range *a.Referrers() {
		if ld, ok := ref.(*ssa.UnOp); ok {
			for _, r2 := range *ld.Referrers() {
				if _, ok := r2.(*ssa.Return); ok {
					return true
				}
			}
		}
	}
	return false
}

// errLeadsToReturn: on the err != nil edge the function returns that error (possibly via a named result).
func errLeadsToReturn(c *Ctx, fn *ssa.Function, errv ssa.Value) string {
	for _, ref := range *errv.Referrers() {
		bo, ok := ref.(*ssa.BinOp)
		if !ok {
			continue
		}
		x, _, ok := nilCheck(bo)
		if !ok || x != errv {
			continue
		}
		for _, r2 := range *bo.Referrers() {
			ifi, ok := r2.(*ssa.If)
			if !ok {
				continue
			}
			_, nonNilOnTrue, _ := nilCheck(bo)
			succ := ifi.Block().Succs[1]
			if nonNilOnTrue {
				succ = ifi.Block().Succs[0]
			}
			// the non-nil successor must reach only returns that carry errv (directly or via named result store)
			rr := reachFrom(fn, succ.Instrs[0], func(in ssa.Instruction) bool { return isReturn(in) }, nil)
			okAll := true
			check := func(in ssa.Instruction) {
				ret, ok := in.(*ssa.Return)
				if !ok {
					return
				}
				carries := false
				for _, rv := range ret.Results {
					if rv == errv {
						carries = true
					}
					if u, ok := rv.(*ssa.UnOp); ok {
						if a, ok := u.X.(*ssa.Alloc); ok {
							for _, ar := range *a.Referrers() {
								if st, ok := ar.(*ssa.Store); ok && st.Val == errv && rr.visited[st] {
									carries = true
								}
								if st, ok := ar.(*ssa.Store); ok && st.Val == errv && st.Block() == succ {
									carries = true
								}
							}
						}
					}
				}
				if !carries {
					okAll = false
				}
			}
			check(succ.Instrs[0])
			for in := range rr.visited {
				check(in)
			}
			if okAll {
				return ""
			}
			return "the error is tested but the failing path does not return it"
		}
	}
	return "the error result is never tested against nil: a failed step is ignored"
}

// reachesFn: callee reachability in the call graph (library functions only).
func (c *Ctx) reachesFn(from, to *ssa.Function) bool {
	if from == nil || to == nil {
		return false
	}
	seen := c.reachFns([]*ssa.Function{from}, nil, false)
	return seen[to]
}

func checkHelloRequired(c *Ctx, r *Report) {
	rule := "C09/hello-required"
	fn := c.LookupFunc("driver/netconf", "Driver", "processServerCapabilities")
	helloF := c.LookupField("driver/netconf", "netconfPatterns", "hello")
	if fn == nil || helloF == nil {
		r.Anchor(rule, "(*netconf.Driver).processServerCapabilities / netconfPatterns.hello")
		return
	}
	found := false
	for _, ci := range callInstrs(fn) {
		call, ok := ci.(*ssa.Call)
		if !ok {
			continue
		}
		o := CalleeObj(call)
		if o == nil || o.Name() != "Match" || len(call.Call.Args) < 2 {
			continue
		}
		if f, _, ok := fieldLoad(call.Call.Args[0]); !ok || f != helloF {
			continue
		}
		found = true
		// locate the If that tests the (possibly stored/negated) match result
		okRule := false
		for _, b := range fn.Blocks {
			cond := ifCond(b)
			if cond == nil {
				continue
			}
			v, neg := unwrapNot(cond)
			if v != ssa.Value(call) {
				continue
			}
			noMatch := b.Succs[1]
			if neg {
				noMatch = b.Succs[0]
			}
			if n := len(noMatch.Instrs); n > 0 {
				if ret, ok := noMatch.Instrs[n-1].(*ssa.Return); ok && len(ret.Results) == 1 {
					for _, cl := range returnErrClasses(ret.Results[0], 0) {
						if cl.wraps != nil && cl.wraps.Name() == "ErrNetconfError" {
							okRule = true
						}
					}
				}
			}
		}
		if okRule {
			r.OK(rule, "processServerCapabilities", c.Pos(call.Pos()), "no <hello> -> ErrNetconfError")
		} else {
			r.Bad(rule, "processServerCapabilities", c.Pos(call.Pos()), "a greeting in which the hello pattern does not match does not unconditionally return ErrNetconfError")
		}
	}
	if !found {
		r.Unk(rule, "processServerCapabilities", c.Pos(fn.Pos()), "no match of the hello pattern found")
	}
}

func checkFramingFollowsSelection(c *Ctx, r *Report) {
	rule := "C09/framing-follows-selection"
	fn := c.LookupFunc("driver/netconf", "Driver", "sendRPC")
	ser := c.LookupFunc("driver/netconf", "message", "serialize")
	newResp := c.LookupFunc("response", "", "NewNetconfResponse")
	selF := c.LookupField("driver/netconf", "Driver", "SelectedVersion")
	if fn == nil || ser == nil || newResp == nil || selF == nil {
		r.Anchor(rule, "sendRPC / serialize / NewNetconfResponse / SelectedVersion")
		return
	}
	isSel := func(v ssa.Value) bool {
		f, base, ok := fieldLoad(v)
		return ok && f == selF && isParamValue(base, fn.Params[0])
	}
	for _, t := range []struct {
		callee *ssa.Function
		arg    int
		name   string
	}{{ser, 1, "serialize"}, {newResp, 4, "NewNetconfResponse"}} {
		cs := staticCallsTo(fn, t.callee)
		if len(cs) == 0 {
			r.Unk(rule, "sendRPC -> "+t.name, c.Pos(fn.Pos()), "call not found")
			continue
		}
		for _, ci := range cs {
			r.Check(isSel(ci.Common().Args[t.arg]), rule, "sendRPC -> "+t.name, c.Pos(ci.Pos()), "version argument is d.SelectedVersion",
				"the version given to "+t.name+" is not the negotiated d.SelectedVersion: later traffic does not use the selected framing")
		}
	}
	_ = sort.Strings
}
