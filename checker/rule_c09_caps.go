package main

// C09/capability-capture — the pattern that extracts the server's capabilities cannot run across an element boundary.

import (
	"fmt"
	"regexp/syntax"

	"golang.org/x/tools/go/ssa"
)

// patternOfField: the constant pattern compiled into field `field` of the netconf pattern table.
func patternOfField(c *Ctx, field string) (string, ssa.Instruction) {
	f := c.LookupField("driver/netconf", "netconfPatterns", field)
	if f == nil {
		return "", nil
	}
	var pat string
	var at ssa.Instruction
	for _, fn := range c.LibFns {
		allInstrs(fn, func(in ssa.Instruction) {
			ff, _, v, ok := fieldStore(in)
			if !ok || ff != f {
				return
			}
			if call, ok := v.(*ssa.Call); ok {
				if o := CalleeObj(call); o != nil && o.Pkg() != nil && o.Pkg().Path() == "regexp" && len(call.Call.Args) == 1 {
					if s, ok := constString(call.Call.Args[0]); ok {
						pat, at = s, in
					}
				}
			}
		})
	}
	return pat, at
}

func checkCapabilityCapture(c *Ctx, r *Report) {
	rule := "C09/capability-capture"
	pat, at := patternOfField(c, "capability")
	if at == nil {
		r.Anchor(rule, "netconfPatterns.capability = regexp.MustCompile(<constant>)")
		return
	}
	re, err := syntax.Parse(pat, syntax.Perl)
	if err != nil {
		r.Bad(rule, "capability pattern", c.Pos(at.Pos()), "the capability pattern does not compile: "+err.Error())
		return
	}
	var caps []*syntax.Regexp
	var walk func(x *syntax.Regexp)
	walk = func(x *syntax.Regexp) {
		if x.Op == syntax.OpCapture {
			caps = append(caps, x)
		}
		for _, s := range x.Sub {
			walk(s)
		}
	}
	walk(re)
	if len(caps) != 1 {
		r.Unk(rule, "capability pattern", c.Pos(at.Pos()), "the capability pattern does not have exactly one capturing group (the URI)")
		return
	}
	// can the captured text, taken greedily, contain '<' ?  (non-greedy repeats stop at the first closing tag)
	crosses := false
	var scan func(x *syntax.Regexp, greedyCtx bool)
	admits := func(x *syntax.Regexp) bool {
		switch x.Op {
		case syntax.OpAnyChar, syntax.OpAnyCharNotNL:
			return true
		case syntax.OpCharClass:
			for i := 0; i+1 < len(x.Rune); i += 2 {
				if x.Rune[i] <= '<' && '<' <= x.Rune[i+1] {
					return true
				}
			}
		}
		return false
	}
	scan = func(x *syntax.Regexp, greedyCtx bool) {
		switch x.Op {
		case syntax.OpStar, syntax.OpPlus, syntax.OpRepeat:
			if x.Flags&syntax.NonGreedy == 0 && (x.Op != syntax.OpRepeat || x.Max != 1) {
				for _, s := range x.Sub {
					if admits(s) {
						crosses = true
					}
					scan(s, true)
				}
				return
			}
		}
		for _, s := range x.Sub {
			scan(s, greedyCtx)
		}
	}
	scan(caps[0], false)
	if crosses {
		r.Bad(rule, "capability pattern", c.Pos(at.Pos()), "the capturing group repeats greedily over characters that include '<': when two <capability> elements follow each other without white space the match runs across the closing tag and merges them into one bogus capability (the base versions are then not found and a valid hello is rejected)")
	} else {
		r.OK(rule, "capability pattern", c.Pos(at.Pos()), "the capture is non-greedy or cannot contain '<': it ends at the first closing tag")
	}
}

// checkSessionIDRange: the session-id of the hello is an unsigned 32-bit value (RFC 6241 session-id-type); the
// conversion used must accept all of [1, 2^32): strconv.Atoi (64-bit int on the supported platforms),
// ParseInt(_, 10, 0|64) or ParseUint(_, 10, 0|32|64). ParseInt with bit size 32 (or less) rejects the upper half.
func checkSessionIDRange(c *Ctx, r *Report) {
	rule := "C09/session-id-range"
	fn := c.LookupFunc("driver/netconf", "Driver", "processServerCapabilities")
	sid := c.LookupField("driver/netconf", "Driver", "sessionID")
	if fn == nil || sid == nil {
		r.Anchor(rule, "(*netconf.Driver).processServerCapabilities / Driver.sessionID")
		return
	}
	n := 0
	// the parsing may have been moved into an unexported helper of the package
	for _, ci := range callInstrsDeep(fn, 2) {
		call, ok := ci.(*ssa.Call)
		if !ok {
			continue
		}
		o := CalleeObj(call)
		if o == nil || o.Pkg() == nil || o.Pkg().Path() != "strconv" {
			continue
		}
		construct := "session-id conversion in " + shortFn(fn)
		switch o.Name() {
		case "Atoi":
			n++
			r.OK(rule, construct, c.Pos(call.Pos()), "strconv.Atoi: int is 64 bits wide on the supported platforms")
		case "ParseInt", "ParseUint":
			n++
			bits, ok := constInt(call.Call.Args[2])
			base, okb := constInt(call.Call.Args[1])
			signed := o.Name() == "ParseInt"
			switch {
			case !ok || !okb:
				r.Unk(rule, construct, c.Pos(call.Pos()), "base / bit size is not a constant")
			case base != 10 && base != 0:
				r.Bad(rule, construct, c.Pos(call.Pos()), fmt.Sprintf("the session-id is parsed in base %d", base))
			case (signed && bits != 0 && bits < 64 && bits <= 32) || (!signed && bits != 0 && bits < 32):
				r.Bad(rule, construct, c.Pos(call.Pos()), fmt.Sprintf("strconv.%s with bit size %d does not cover the session-id range [1, 2^32): a hello with a session-id of 2^%d or more makes Open fail with 'value out of range' although the hello is well-formed", o.Name(), bits, map[bool]int64{true: bits - 1, false: bits}[signed]))
			default:
				r.OK(rule, construct, c.Pos(call.Pos()), fmt.Sprintf("strconv.%s(_, %d, %d) covers [0, 2^32)", o.Name(), base, bits))
			}
		}
	}
	if n == 0 {
		r.Unk(rule, "session-id conversion", c.Pos(fn.Pos()), "no strconv conversion found in processServerCapabilities")
	}
}
