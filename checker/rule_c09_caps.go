package main

// C09/capability-capture — the pattern that extracts the server's capabilities cannot run across an element boundary.

import (
	"regexp/syntax"

	"golang.org/x/tools/go/ssa"
)

// patternOfField: the constant pattern compiled into field `field` of the netconf pattern table.
func patternOfField(c *Ctx, field string) (string, ssa.Instruction) {
	f := c.LookupField("driver/netconf", "netconfPatterns", field)
	if f == nil {
		return "", nil
	}
	var pat string
	var at ssa.Instruction
	for _, fn := range c.LibFns {
		allInstrs(fn, func(in ssa.Instruction) {
			ff, _, v, ok := fieldStore(in)
			if !ok || ff != f {
				return
			}
			if call, ok := v.(*ssa.Call); ok {
				if o := CalleeObj(call); o != nil && o.Pkg() != nil && o.Pkg().Path() == "regexp" && len(call.Call.Args) == 1 {
					if s, ok := constString(call.Call.Args[0]); ok {
						pat, at = s, in
					}
				}
			}
		})
	}
	return pat, at
}

func checkCapabilityCapture(c *Ctx, r *Report) {
	rule := "C09/capability-capture"
	pat, at := patternOfField(c, "capability")
	if at == nil {
		r.Anchor(rule, "netconfPatterns.capability = regexp.MustCompile(<constant>)")
		return
	}
	re, err := syntax.Parse(pat, syntax.Perl)
	if err != nil {
		r.Bad(rule, "capability pattern", c.Pos(at.Pos()), "the capability pattern does not compile: "+err.Error())
		return
	}
	var caps []*syntax.Regexp
	var walk func(x *syntax.Regexp)
	walk = func(x *syntax.Regexp) {
		if x.Op == syntax.OpCapture {
			caps = append(caps, x)
		}
		for _, s := range x.Sub {
			walk(s)
		}
	}
	walk(re)
	if len(caps) != 1 {
		r.Unk(rule, "capability pattern", c.Pos(at.Pos()), "the capability pattern does not have exactly one capturing group (the URI)")
		return
	}
	// can the captured text, taken greedily, contain '<' ?  (non-greedy repeats stop at the first closing tag)
	crosses := false
	var scan func(x *syntax.Regexp, greedyCtx bool)
	admits := func(x *syntax.Regexp) bool {
		switch x.Op {
		case syntax.OpAnyChar, syntax.OpAnyCharNotNL:
			return true
		case syntax.OpCharClass:
			for i := 0; i+1 < len(x.Rune); i += 2 {
				if x.Rune[i] <= '<' && '<' <= x.Rune[i+1] {
					return true
				}
			}
		}
		return false
	}
	scan = func(x *syntax.Regexp, greedyCtx bool) {
		switch x.Op {
		case syntax.OpStar, syntax.OpPlus, syntax.OpRepeat:
			if x.Flags&syntax.NonGreedy == 0 && (x.Op != syntax.OpRepeat || x.Max != 1) {
				for _, s := range x.Sub {
					if admits(s) {
						crosses = true
					}
					scan(s, true)
				}
				return
			}
		}
		for _, s := range x.Sub {
			scan(s, greedyCtx)
		}
	}
	scan(caps[0], false)
	if crosses {
		r.Bad(rule, "capability pattern", c.Pos(at.Pos()), "the capturing group repeats greedily over characters that include '<': when two <capability> elements follow each other without white space the match runs across the closing tag and merges them into one bogus capability (the base versions are then not found and a valid hello is rejected)")
	} else {
		r.OK(rule, "capability pattern", c.Pos(at.Pos()), "the capture is non-greedy or cannot contain '<': it ends at the first closing tag")
	}
}
