package main

// C04/graph-links — the privilege graph has an edge between every level and its previous level, in both
// directions, whatever the other attributes of the level are (a level without an escalate command is still a
// place to leave from).

import (
	"go/token"
	"strings"

	"golang.org/x/tools/go/ssa"
)

func checkGraphLinks(c *Ctx, r *Report, rule string) {
	fn := c.LookupFunc("driver/network", "Driver", "buildPrivGraph")
	if fn == nil {
		r.Anchor(rule, "(*network.Driver).buildPrivGraph")
		return
	}
	var up, mirror []*ssa.MapUpdate
	allInstrs(fn, func(in ssa.Instruction) {
		mu, ok := in.(*ssa.MapUpdate)
		if !ok {
			return
		}
		if cb, ok := constBool(mu.Value); !ok || !cb {
			return
		}
		if isFieldLoadNamed(mu.Key, "PreviousPriv") {
			up = append(up, mu)
		} else {
			mirror = append(mirror, mu)
		}
	})
	guardsOf := func(mu *ssa.MapUpdate) (extra []string) {
		for _, ec := range edgeConds(mu.Block()) {
			v, _ := unwrapNot(ec.Cond)
			if ex, ok := v.(*ssa.Extract); ok {
				if _, isNext := ex.Tuple.(*ssa.Next); isNext {
					continue
				}
			}
			if bo, ok := v.(*ssa.BinOp); ok && (bo.Op == token.NEQ || bo.Op == token.EQL) {
				if s, isC := constString(bo.Y); isC && s == "" && isFieldLoadNamed(bo.X, "PreviousPriv") {
					continue
				}
				if s, isC := constString(bo.X); isC && s == "" && isFieldLoadNamed(bo.Y, "PreviousPriv") {
					continue
				}
				// range over a slice: index < len
			}
			if bo, ok := v.(*ssa.BinOp); ok && bo.Op == token.LSS {
				if rangeHeader(bo.X) != nil {
					continue
				}
			}
			extra = append(extra, v.String()+" ("+c.Pos(v.Pos())+")")
		}
		return
	}
	if len(up) != 1 {
		r.Unk(rule, "level -> previous-level edge", c.Pos(fn.Pos()), "buildPrivGraph does not contain exactly one `graph[level][level.PreviousPriv] = true`")
	} else if extra := guardsOf(up[0]); len(extra) > 0 {
		r.Bad(rule, "level -> previous-level edge", c.Pos(up[0].Pos()), "the edge from a level to its previous level is only created under an additional condition ("+strings.Join(extra, ", ")+"): levels failing it are cut out of the graph in both directions, so AcquirePriv finds no path from them (buildPrivChangeMap returns nil and the step indexes an empty path)")
	} else {
		r.OK(rule, "level -> previous-level edge", c.Pos(up[0].Pos()), "created for every level that names a previous level")
	}
	if len(mirror) != 1 {
		r.Unk(rule, "mirrored edge", c.Pos(fn.Pos()), "buildPrivGraph does not contain exactly one mirroring `graph[lower][higher] = true`")
	} else if extra := guardsOf(mirror[0]); len(extra) > 0 {
		r.Bad(rule, "mirrored edge", c.Pos(mirror[0].Pos()), "the reverse edge is only created under an additional condition ("+strings.Join(extra, ", ")+")")
	} else {
		r.OK(rule, "mirrored edge", c.Pos(mirror[0].Pos()), "every edge is mirrored")
	}
}
