package main

// C04 — privilege navigation reaches the target level along the tree path.

import (
	"fmt"
	"go/token"
	"strings"

	"golang.org/x/tools/go/ssa"
)

var specNetworkOpOptions = map[string][]string{
	"WithPrivilegeLevel": {"network.OperationOptions.PrivilegeLevel<-param0"},
}

func init() {
	register(&Property{
		ID:  "C04",
		Run: runC04,
		Explanation: "Decision tables and ordering rules over the privilege machinery, valid for every tree, level pair and operation sequence because they constrain every path of the code: refuse-unknown-first — in AcquirePriv the membership test of the target dominates every call that can reach the transport, and its false edge returns ErrPrivilegeError; " +
			"step-table — every path of processAcquirePriv (all 10): the current level is the cached one if possible, else the target if possible, else the first candidate; current == target stores the concrete level and returns no-action; otherwise the cache is set to the unknown marker, the next hop is element 1 of the path search from current to target, and the action is escalate(next hop) exactly when the next hop's previous level is the current one, else de-escalate(current); " +
			"step-wiring — escalate(x) transmits level x's escalate command (with the secondary secret only through the hidden interactive event, C11/C12) and deescalate(x) transmits level x's de-escalate command; AcquirePriv dispatches each action to its step, re-reads the prompt every iteration, returns step errors and is bounded by a counter compared with the number of levels; " +
			"acquire-before-send — send-command(s) acquire the default desired level on the cached-level-differs edge before delegating, send-configs / send-interactive acquire the requested (else configuration / default) level unconditionally; the operation option stores the level it names. " +
			"NOT decided: that the path search returns the unique tree path and that a device following the tree ends at the target (algorithmic / device model), prompt-to-level inference by regular expressions.",
		Assumptions: []string{"buildPrivChangeMap returns a path starting at its first argument (its element 1 is the next hop)", "the device's modes follow the configured tree"},
		Mutants: []Mutant{
			{ID: "C04-candidates-filtered", Desc: "determineCurrentPriv drops the candidates that are the parent of another candidate", Rule: "C04/level-detection",
				Edits: []Edit{{File: "driver/network/acquirepriv.go", Old: "\treturn possiblePrivs, nil\n}", New: "\tvar specific []string\n\n\tfor _, name := range possiblePrivs {\n\t\tisParent := false\n\n\t\tfor _, other := range possiblePrivs {\n\t\t\tisParent = isParent || d.PrivilegeLevels[other].PreviousPriv == name\n\t\t}\n\n\t\tif !isParent {\n\t\t\tspecific = append(specific, name)\n\t\t}\n\t}\n\n\treturn specific, nil\n}"}}},
			{ID: "C04-not-contains-equality", Desc: "not-contains tested by equality instead of substring", Rule: "C04/level-detection",
				Edits: []Edit{{File: "driver/network/acquirepriv.go", Old: "if util.StringContainsAny(currentPrompt, priv.NotContains) {", New: "if util.StringSliceContains(priv.NotContains, currentPrompt) {"}}},
			{ID: "C04-op-options-break", Desc: "network.NewOperation stops at the first option that is not its own", Rule: "C04/op-options-applied",
				Edits: []Edit{{File: "driver/network/operation.go", Old: "\t\t\tif !errors.Is(err, util.ErrIgnoredOption) {\n\t\t\t\treturn nil, err\n\t\t\t}", New: "\t\t\tif !errors.Is(err, util.ErrIgnoredOption) {\n\t\t\t\treturn nil, err\n\t\t\t}\n\n\t\t\tbreak"}}},
			{ID: "C04-graph-needs-escalate", Desc: "levels without an escalate command are not linked into the graph", Rule: "C04/graph-links",
				Edits: []Edit{{File: "driver/network/privilege.go", Old: "\t\tif privLevel.PreviousPriv != \"\" {", New: "\t\tif privLevel.PreviousPriv != \"\" && privLevel.Escalate != \"\" {"}}},
			{ID: "C04-unknown-level-class", Desc: "undeterminable level reported as an operation error", Rule: "C04/error-classes",
				Edits: []Edit{{File: "driver/network/acquirepriv.go", Old: "\t\t\tutil.ErrPrivilegeError, currentPrompt,", New: "\t\t\tutil.ErrOperationError, currentPrompt,"}}},
			{ID: "C04-refuses-unlinked-level", Desc: "AcquirePriv also refuses known levels without graph neighbours", Rule: "C04/refuse-unknown-first",
				Edits: []Edit{{File: "driver/network/acquirepriv.go", Old: "if _, ok := d.PrivilegeLevels[target]; !ok {", New: "if _, ok := d.PrivilegeLevels[target]; !ok || len(d.privGraph[target]) == 0 {"}}},
			{ID: "C04-get-prompt-raw", Desc: "GetPrompt returns everything it read instead of the prompt match", Rule: "C04/get-prompt",
				Edits: []Edit{{File: "channel/getprompt.go", Old: "cr <- &result{b: c.PromptPattern.Find(b), err: err}", New: "cr <- &result{b: b, err: err}"}}},
			{ID: "C04-sendconfig-fast-path", Desc: "SendConfig acquires the configuration level itself for a single line and calls the generic driver", Rule: "C04/send-delegates",
				Edits: []Edit{{File: "driver/network/sendconfig.go", Old: "\tconfigLines := strings.Split(config, \"\\n\")\n\n", New: "\tconfigLines := strings.Split(config, \"\\n\")\n\n\tif len(configLines) == 1 {\n\t\terr := d.AcquirePriv(defaultConfigurationPrivLevel)\n\t\tif err != nil {\n\t\t\treturn nil, err\n\t\t}\n\n\t\treturn d.Driver.SendCommand(config, opts...)\n\t}\n\n"}}},
			{ID: "C04-fromfile-skips-acquire", Desc: "SendCommandsFromFile skips the implicit acquire", Rule: "C04/acquire-before-send",
				Edits: []Edit{{File: "driver/network/sendcommands.go", Old: "\tf string,\n\topts ...util.Option,\n) (*response.MultiResponse, error) {\n\tif d.CurrentPriv != d.DefaultDesiredPriv {", New: "\tf string,\n\topts ...util.Option,\n) (*response.MultiResponse, error) {\n\tif d.CurrentPriv != d.DefaultDesiredPriv && f == \"\" {"}}},
			{ID: "C04-unknown-only-empty", Desc: "unknown-target refusal only for the empty name", Rule: "C04/refuse-unknown-first",
				Edits: []Edit{{File: "driver/network/acquirepriv.go", Old: "\tif _, ok := d.PrivilegeLevels[target]; !ok {", New: "\tif _, ok := d.PrivilegeLevels[target]; !ok && target == \"\" {"}}},
			{ID: "C04-direction-inverted", Desc: "escalates when it should de-escalate", Rule: "C04/step-table",
				Edits: []Edit{{File: "driver/network/acquirepriv.go", Old: "\tif d.PrivilegeLevels[mapTo[1]].PreviousPriv != current {", New: "\tif d.PrivilegeLevels[mapTo[1]].PreviousPriv == current {"}}},
			{ID: "C04-deescalate-wrong-level", Desc: "de-escalation uses the next hop's command", Rule: "C04/step-table",
				Edits: []Edit{{File: "driver/network/acquirepriv.go", Old: "\t\treturn deescalateAction, current, nil", New: "\t\treturn deescalateAction, d.PrivilegeLevels[mapTo[1]].Name, nil"}}},
			{ID: "C04-cache-not-reset", Desc: "cached level kept across a transition", Rule: "C04/step-table",
				Edits: []Edit{{File: "driver/network/acquirepriv.go", Old: "\td.CurrentPriv = unknownPriv\n", New: ""}}},
			{ID: "C04-escalate-sends-deescalate", Desc: "plain escalation transmits the de-escalate command", Rule: "C04/step-wiring",
				Edits: []Edit{{File: "driver/network/acquirepriv.go", Old: "\t\t_, err = d.Driver.Channel.SendInput(p.Escalate)", New: "\t\t_, err = d.Driver.Channel.SendInput(p.Deescalate)"}}},
			{ID: "C04-configs-default-level", Desc: "send-configs acquires the default desired level", Rule: "C04/acquire-before-send",
				Edits: []Edit{{File: "driver/network/sendconfigs.go", Old: "\t\ttargetPriv = defaultConfigurationPrivLevel", New: "\t\ttargetPriv = d.DefaultDesiredPriv"}}},
			{ID: "C04-unbounded", Desc: "acquire loop has no iteration bound", Rule: "C04/bounded",
				Edits: []Edit{{File: "driver/network/acquirepriv.go", Old: "\t\tif count > len(d.PrivilegeLevels)*2 {", New: "\t\tif count < 0 {"}}},
			{ID: "C04-interactive-ignores-level", Desc: "send-interactive ignores the requested level", Rule: "C04/acquire-before-send",
				Edits: []Edit{{File: "driver/network/sendinteractive.go", Old: "\ttargetPriv := op.PrivilegeLevel\n\n\tif targetPriv == \"\" {\n\t\ttargetPriv = d.DefaultDesiredPriv\n\t}", New: "\t_ = op\n\n\ttargetPriv := d.DefaultDesiredPriv"}}},
			{ID: "C04-dispatch-swapped", Desc: "de-escalate action runs the escalate step", Rule: "C04/step-wiring",
				Edits: []Edit{{File: "driver/network/acquirepriv.go", Old: "\t\t\terr = d.deescalate(next)", New: "\t\t\terr = d.escalate(next)"}}},
			{ID: "C04-prefer-target-over-cache", Desc: "current level prefers the target over the cached level", Rule: "C04/step-table",
				Edits: []Edit{{File: "driver/network/acquirepriv.go", Old: "\tcase util.StringSliceContains(possiblePrivs, d.CurrentPriv):\n\t\tcurrent = d.CurrentPriv\n\tcase util.StringSliceContains(possiblePrivs, target):\n\t\tcurrent = d.PrivilegeLevels[target].Name", New: "\tcase util.StringSliceContains(possiblePrivs, target):\n\t\tcurrent = d.PrivilegeLevels[target].Name\n\tcase util.StringSliceContains(possiblePrivs, d.CurrentPriv):\n\t\tcurrent = d.CurrentPriv"}}},
		},
	})
}

func runC04(c *Ctx, r *Report) {
	r.Rule("C04/get-prompt-passthrough", "the generic driver hands the network driver the channel's prompt match unchanged", 1)
	checkGenericGetPromptPassthrough(c, r, "C04/get-prompt-passthrough")
	r.Rule("C04/level-cache-writers", "the cached privilege level is written only where it was determined from the device's prompt", 1)
	checkLevelCacheWriters(c, r, "C04/level-cache-writers")
	importFoundation(c, r, "C04", "driver-options")
	importFoundation(c, r, "C04", "read-until")
	r.Rule("C04/variant-merge", "(restated from C17/merge) a variant's default desired level -- the level every command is executed at -- is taken over whenever the variant defines it, independently of its other sections", 8)
	importObligations(r, func(sub *Report) { checkMergeVariant(c, sub) }, "C17/merge", "C04/variant-merge")
	r.Rule("C04/onx-send-command", "a platform hook's send-command step goes through (*network.Driver).SendCommand, the method that first acquires the default desired level", 2)
	checkOnXSendCommand(c, r, "C04/onx-send-command")
	r.Rule("C04/pattern-recompiled", "buildPrivGraph recompiles every level's pattern unconditionally (UpdatePrivileges after an edit takes effect)", 1)
	r.Rule("C04/always-fetches-prompt", "AcquirePriv reports success only after it fetched the device's prompt", 1)
	checkPatternRecompiled(c, r, "C04/pattern-recompiled")
	checkAcquireAlwaysFetchesPrompt(c, r, "C04/always-fetches-prompt")
	r.Rule("C04/priv-steps-plain", "escalate / deescalate send their command with no per-operation options (the send waits for the following prompt)", 2)
	checkPrivStepsPlain(c, r, "C04/priv-steps-plain")
	r.Rule("C04/error-classes", "each failure site named by the property wraps the sentinel the property names (timeout / auth / connection / privilege / NETCONF / operation / platform error)", 2)
	checkErrorClasses(c, r, "C04")
	r.Rule("C04/refuse-unknown-first", "an unknown target is refused with ErrPrivilegeError before anything that can reach the transport, and only an unknown target is", 3)
	r.Rule("C04/level-detection", "a level is a candidate exactly when its pattern matches the prompt and no not-contains string occurs in it (substring); the two list helpers are exists-loops; the candidates are returned as collected", 4)
	r.Rule("C04/op-options-applied", "the per-operation option constructors (network, generic, channel) apply the full list in order and leave the loop only on a non-ignored error", 3)
	r.Rule("C04/get-prompt", "GetPrompt writes one return, reads until the prompt and returns the prompt pattern's match in those bytes", 1)
	r.Rule("C04/graph-links", "buildPrivGraph links every level with its previous level in both directions, unconditionally", 2)
	r.Rule("C04/opts-forwarded", "every network-driver operation hands its full per-operation option list to each option-taking library callee", 5)
	r.Rule("C04/step-table", "processAcquirePriv: current-level selection, no-action / transition bookkeeping, next hop and direction on every path", 9)
	r.Rule("C04/step-wiring", "escalate/deescalate transmit their own level's command; AcquirePriv dispatches each action to its step and returns step errors", 6)
	r.Rule("C04/bounded", "the AcquirePriv loop is bounded by a counter compared with the number of levels and re-reads the prompt each iteration", 2)
	r.Rule("C04/send-delegates", "the network driver's remaining Send* methods reach the device only through the five analysed ones (no private acquire / generic send / channel write)", 2)
	checkNetworkSendDelegates(c, r, "C04/send-delegates")
	r.Rule("C04/acquire-before-send", "commands run after acquiring the default desired level (when the cached level differs); configs / interactive after acquiring the requested, else configuration / default, level", 5)

	checkLevelDetection(c, r)
	checkGetPromptShape(c, r)
	checkGraphLinks(c, r, "C04/graph-links")
	for _, pk := range []string{"driver/network", "driver/generic", "channel"} {
		checkOperationApplyLoop(c, r, "C04/op-options-applied", pk)
	}
	checkOptsForwarded(c, r, "C04/opts-forwarded", [][2]string{{"driver/network", "Driver"}})
	acq := c.LookupFunc("driver/network", "Driver", "AcquirePriv")
	proc := c.LookupFunc("driver/network", "Driver", "processAcquirePriv")
	esc := c.LookupFunc("driver/network", "Driver", "escalate")
	deesc := c.LookupFunc("driver/network", "Driver", "deescalate")
	if acq == nil || proc == nil || esc == nil || deesc == nil {
		r.Anchor("C04/step-table", "(*network.Driver).AcquirePriv / processAcquirePriv / escalate / deescalate")
		return
	}
	io := c.ioCapable()
	isIO := func(ci ssa.CallInstruction) bool {
		for _, callee := range c.Callees(ci) {
			if io[callee] {
				return true
			}
		}
		return false
	}

	// ---- refuse-unknown-first
	{
		levelsF := c.LookupField("driver/network", "Driver", "PrivilegeLevels")
		var okVal ssa.Value
		allInstrs(acq, func(in ssa.Instruction) {
			if lk, ok := in.(*ssa.Lookup); ok && lk.CommaOk && lk.Index == ssa.Value(acq.Params[1]) {
				if f, _, isLoad := fieldLoad(lk.X); isLoad && f == levelsF {
					for _, ref := range *lk.Referrers() {
						if ex, ok := ref.(*ssa.Extract); ok && ex.Index == 1 {
							okVal = ex
						}
					}
				}
			}
		})
		if okVal == nil {
			r.Bad("C04/refuse-unknown-first", "AcquirePriv membership test", c.Pos(acq.Pos()), "AcquirePriv does not test that the target is one of the configured privilege levels")
		} else {
			// every I/O call must be guarded by ok == true; the false edge returns ErrPrivilegeError
			bad := ""
			for _, ci := range callInstrs(acq) {
				if !isIO(ci) {
					continue
				}
				if !guardedBy(ci, func(v ssa.Value, t bool) bool { return v == okVal && t }) {
					bad = describeCall(c, ci) + " at " + c.Pos(ci.Pos())
				}
			}
			r.Check(bad == "", "C04/refuse-unknown-first", "membership test dominates all I/O", c.Pos(acq.Pos()), "every transport-reaching call is on the known-target edge",
				"something can be transmitted before / regardless of the unknown-target test: "+bad)
			okErr := false
			for _, b := range acq.Blocks {
				cond := ifCond(b)
				if cond == nil {
					continue
				}
				v, neg := unwrapNot(cond)
				if v != okVal {
					continue
				}
				unknown := b.Succs[1]
				if neg {
					unknown = b.Succs[0]
				}
				okErr = retWrapsOnBlock(unknown, "ErrPrivilegeError")
			}
			r.Check(okErr, "C04/refuse-unknown-first", "unknown target -> ErrPrivilegeError", c.Pos(acq.Pos()), "", "an unknown target level is not refused with an error wrapping ErrPrivilegeError on the plain membership test")
			// ... and ONLY an unknown target is refused here: before the acquire loop starts, every return is entered
			// through the ok==false edge of the membership test and nothing else
			var extra []string
			for _, b := range acq.Blocks {
				n := len(b.Instrs)
				if n == 0 {
					continue
				}
				if _, isRet := b.Instrs[n-1].(*ssa.Return); !isRet || !retWrapsOnBlock(b, "ErrPrivilegeError") {
					continue
				}
				// refusal blocks of the entry test: not inside a loop, not dominated by an I/O call
				afterIO := false
				for _, ci := range callInstrs(acq) {
					if isIO(ci) && dominatesInstr(ci, b.Instrs[0]) {
						afterIO = true
					}
				}
				if afterIO {
					continue
				}
				for _, pr := range b.Preds {
					cond := ifCond(pr)
					v, neg := ssa.Value(nil), false
					if cond != nil {
						v, neg = unwrapNot(cond)
					}
					edgeIsOKFalse := false
					if v == okVal {
						falseSucc := pr.Succs[1]
						if neg {
							falseSucc = pr.Succs[0]
						}
						edgeIsOKFalse = falseSucc == b
					}
					if !edgeIsOKFalse {
						what := "an unconditional edge"
						if cond != nil {
							what = cond.String()
						}
						extra = append(extra, what+" ("+c.Pos(firstPos(pr))+")")
					}
				}
			}
			r.Check(len(extra) == 0, "C04/refuse-unknown-first", "only an unknown target is refused", c.Pos(acq.Pos()), "the refusal is entered only from the membership test's not-found edge",
				"a target that IS one of the configured levels can be refused up front as 'not a valid privilege level' -- the refusal is also entered on "+strings.Join(extra, ", ")+" (e.g. the only level of a one-level tree)")
		}
	}

	// ---- step-table
	{
		pure := atomsExcept("determineCurrentPriv", "buildPrivChangeMap", "escalate", "deescalate", "processAcquirePriv")
		paths := EnumeratePaths(c, proc, &dtConfig{IsAtomCall: pure})
		d := "param:" + proc.Params[0].Name()
		target := "param:" + proc.Params[1].Name()
		prompt := "param:" + proc.Params[2].Name()
		det := "network.Driver.determineCurrentPriv(" + d + "," + prompt + ")"
		for i, p := range paths {
			construct := fmt.Sprintf("processAcquirePriv path#%d", i+1)
			if p.Undecided != "" {
				r.Unk("C04/step-table", construct, c.Pos(proc.Pos()), p.Undecided)
				continue
			}
			if p.Assume[det+"#1"] == "!=nil" {
				ok := len(p.Returns) == 3 && p.Returns[2] == det+"#1" && len(p.Effects) == 0
				r.Check(ok, "C04/step-table", construct+" prompt not recognised", c.Pos(proc.Pos()), "error returned, nothing changed", "an unrecognised prompt does not return its error untouched")
				continue
			}
			// which current was selected?
			inCache := p.Assume["util.StringSliceContains("+det+"#0,"+d+".CurrentPriv)"]
			inTarget := p.Assume["util.StringSliceContains("+det+"#0,"+target+")"]
			wantCur := ""
			switch {
			case inCache == "true":
				wantCur = d + ".CurrentPriv"
			case inCache == "false" && inTarget == "true":
				wantCur = d + ".PrivilegeLevels[" + target + "].Name"
			case inCache == "false" && inTarget == "false":
				wantCur = det + "#0[0]"
			}
			var probs []string
			if wantCur == "" {
				probs = append(probs, "current-level selection does not follow cached-level, then target, then first candidate: "+fmt.Sprint(p.Assume))
			}
			eqKey := func(a, b string) string {
				if b < a {
					a, b = b, a
				}
				return "(" + a + "==" + b + ")"
			}
			atTarget := p.Assume[eqKey(wantCur, target)]
			stored, hasStore := lastStore(p, ".CurrentPriv")
			switch atTarget {
			case "true":
				if !hasStore || stored != wantCur {
					probs = append(probs, "at the target level the cache must hold that level, stores "+stored)
				}
				if len(p.Returns) != 3 || p.Returns[0] != `"noAction"` || p.Returns[1] != wantCur || p.Returns[2] != "nil" {
					probs = append(probs, fmt.Sprintf("at the target level the result must be (noAction, current, nil), is %v", p.Returns))
				}
			case "false":
				if !hasStore || stored != `"UNKNOWN"` {
					probs = append(probs, "a transition must reset the cached level to the unknown marker, stores "+stored)
				}
				hop := "network.Driver.buildPrivChangeMap(" + d + "," + wantCur + "," + target + ",nil)[1]"
				next := d + ".PrivilegeLevels[" + hop + "]"
				up := p.Assume[eqKey(wantCur, next+".PreviousPriv")]
				switch up {
				case "true":
					if len(p.Returns) != 3 || p.Returns[0] != `"escalateAction"` || p.Returns[1] != next+".Name" || p.Returns[2] != "nil" {
						probs = append(probs, fmt.Sprintf("next hop is a child of current: must be (escalateAction, next hop), is %v", p.Returns))
					}
				case "false":
					if len(p.Returns) != 3 || p.Returns[0] != `"deescalateAction"` || p.Returns[1] != wantCur || p.Returns[2] != "nil" {
						probs = append(probs, fmt.Sprintf("next hop is the parent of current: must be (deescalateAction, current), is %v", p.Returns))
					}
				default:
					probs = append(probs, "the direction is not decided by comparing the next hop's previous level (element 1 of the path from current to target) with the current level")
				}
			default:
				probs = append(probs, "the path does not compare the selected current level with the target")
			}
			if len(probs) == 0 {
				r.OK("C04/step-table", construct, c.Pos(proc.Pos()), fmt.Sprintf("%v", p.Returns))
			} else {
				r.Bad("C04/step-table", construct, c.Pos(proc.Pos()), strings.Join(probs, "; "))
			}
		}
	}

	// ---- step-wiring
	{
		sendInput := c.LookupFunc("channel", "Channel", "SendInput")
		pure := func(call *ssa.Call) bool {
			o := CalleeObj(call)
			return o != nil && o.Pkg() != nil && o.Pkg().Path() == "fmt"
		}
		// deescalate: exactly SendInput(PrivilegeLevels[target].Deescalate)
		dp := EnumeratePaths(c, deesc, &dtConfig{IsAtomCall: pure})
		dd := "param:" + deesc.Params[0].Name()
		dt := "param:" + deesc.Params[1].Name()
		okDe := len(dp) > 0
		for _, p := range dp {
			n := 0
			for _, e := range p.Effects {
				if e.Kind == "call" && strings.HasSuffix(e.What, "Channel.SendInput") {
					n++
					if len(e.Args) < 2 || e.Args[1] != dd+".PrivilegeLevels["+dt+"].Deescalate" {
						okDe = false
					}
				} else if e.Kind == "call" && !strings.HasPrefix(e.What, "logging.") {
					okDe = false
				}
			}
			if n != 1 || p.Undecided != "" {
				okDe = false
			}
		}
		r.Check(okDe && sendInput != nil, "C04/step-wiring", "deescalate sends its level's de-escalate command", c.Pos(deesc.Pos()), "SendInput(PrivilegeLevels[x].Deescalate)", "deescalate(x) does not transmit exactly level x's de-escalate command")
		// escalate
		ep := EnumeratePaths(c, esc, &dtConfig{IsAtomCall: pure})
		ed := "param:" + esc.Params[0].Name()
		et := "param:" + esc.Params[1].Name()
		lvl := ed + ".PrivilegeLevels[" + et + "]"
		okPlain, okAuth := true, true
		seenPlain, seenAuth := false, false
		msg := ""
		for _, p := range ep {
			if p.Undecided != "" {
				okPlain, okAuth = false, false
				msg = p.Undecided
				continue
			}
			auth := p.Assume[lvl+".EscalateAuth"] == "true" && strings.HasPrefix(p.Assume[ed+".AuthSecondary"], "!=")
			var si, sinter *dtEffect
			for i := range p.Effects {
				e := &p.Effects[i]
				if e.Kind == "call" && strings.HasSuffix(e.What, "Channel.SendInput") {
					si = e
				}
				if e.Kind == "call" && strings.HasSuffix(e.What, "Channel.SendInteractive") {
					sinter = e
				}
			}
			if !auth {
				seenPlain = true
				if si == nil || sinter != nil || si.Args[1] != lvl+".Escalate" {
					okPlain = false
					msg = "without authentication escalate(x) must SendInput(level x's escalate command) only"
				}
				continue
			}
			seenAuth = true
			if sinter == nil || si != nil {
				okAuth = false
				msg = "with escalate-auth and a secondary secret escalate(x) must use the interactive dialogue"
				continue
			}
			// event literals
			ev1 := map[string]string{}
			ev2 := map[string]string{}
			for k, v := range p.Locals {
				if strings.HasPrefix(k, "local:complit.") {
					ev1[strings.TrimPrefix(k, "local:complit.")] = v
				}
				if strings.HasPrefix(k, "local:complit#2.") {
					ev2[strings.TrimPrefix(k, "local:complit#2.")] = v
				}
			}
			want1 := map[string]string{"ChannelInput": lvl + ".Escalate", "ChannelResponse": lvl + ".EscalatePrompt", "HideInput": "false"}
			want2 := map[string]string{"ChannelInput": ed + ".AuthSecondary", "ChannelResponse": lvl + ".Pattern", "HideInput": "true"}
			// a field that is not set has its zero value
			if ev1["HideInput"] == "" {
				ev1["HideInput"] = "false"
			}
			for k, v := range want1 {
				if ev1[k] != v {
					okAuth = false
					msg = fmt.Sprintf("first escalation event %s is %q, specified %q", k, ev1[k], v)
				}
			}
			for k, v := range want2 {
				if ev2[k] != v {
					okAuth = false
					msg = fmt.Sprintf("second escalation event %s is %q, specified %q", k, ev2[k], v)
				}
			}
			if len(sinter.Args) < 2 || sinter.Args[1] != "{local:complit,local:complit#2}" {
				okAuth = false
				msg = "the interactive dialogue is not [command -> escalation prompt, secret -> target prompt] in that order: " + fmt.Sprint(sinter.Args)
			}
		}
		r.Check(okPlain && seenPlain, "C04/step-wiring", "escalate without authentication", c.Pos(esc.Pos()), "SendInput(PrivilegeLevels[x].Escalate)", "escalate: "+msg)
		r.Check(okAuth && seenAuth, "C04/step-wiring", "escalate with authentication", c.Pos(esc.Pos()), "[escalate command -> escalate prompt, secret(hidden) -> level pattern]", "escalate: "+msg)
		// completion patterns of the escalation dialogue: previous level's and target level's compiled patterns
		okCP := false
		for _, clos := range anonFuncsWithHelpers(esc) {
			allInstrs(clos, func(in ssa.Instruction) {
				f, _, v, ok := fieldStore(in)
				if !ok || f.Name() != "CompletePatterns" {
					return
				}
				els := variadicElems(v)
				n := 0
				for _, e := range els {
					if ff, _, isLoad := fieldLoad(e); isLoad && ff.Name() == "patternRe" {
						n++
					}
				}
				okCP = n == 2
			})
		}
		r.Check(okCP, "C04/step-wiring", "escalation completion patterns", c.Pos(esc.Pos()), "previous and target level patterns", "the escalation dialogue's completion patterns are not the compiled patterns of the previous and the target level: the dialogue cannot end early when the device grants or refuses the level without asking")
		// dispatch in AcquirePriv
		procCalls := staticCallsTo(acq, proc)
		if len(procCalls) != 1 {
			r.Bad("C04/step-wiring", "AcquirePriv dispatch", c.Pos(acq.Pos()), "AcquirePriv does not call processAcquirePriv exactly once per iteration")
		} else {
			pc := procCalls[0].(*ssa.Call)
			action, next := resultOf(pc, 0), resultOf(pc, 1)
			okDispatch := true
			msgD := ""
			for _, t := range []struct {
				fn     *ssa.Function
				action string
			}{{esc, "escalateAction"}, {deesc, "deescalateAction"}} {
				cs := staticCallsTo(acq, t.fn)
				if len(cs) != 1 {
					okDispatch = false
					msgD = fmt.Sprintf("%d calls of %s", len(cs), t.fn.Name())
					continue
				}
				if cs[0].Common().Args[1] != next {
					okDispatch = false
					msgD = t.fn.Name() + " is not given the level returned by processAcquirePriv"
				}
				if !guardedBy(cs[0], func(v ssa.Value, tr bool) bool {
					bo, ok := v.(*ssa.BinOp)
					if !ok || bo.Op != token.EQL || !tr || bo.X != action {
						return false
					}
					s, isS := constString(bo.Y)
					return isS && s == t.action
				}) {
					okDispatch = false
					msgD = t.fn.Name() + " is not run exactly for action " + t.action
				}
			}
			r.Check(okDispatch, "C04/step-wiring", "AcquirePriv dispatch", c.Pos(acq.Pos()), "escalateAction -> escalate(next), deescalateAction -> deescalate(next)", "AcquirePriv: "+msgD)
		}
		// the target is passed through
		okT := false
		for _, ci := range staticCallsTo(acq, proc) {
			okT = ci.Common().Args[1] == ssa.Value(acq.Params[1])
		}
		r.Check(okT, "C04/step-wiring", "AcquirePriv passes its target", c.Pos(acq.Pos()), "", "AcquirePriv does not navigate towards the level it was asked for")
	}

	// ---- bounded
	{
		loops := condlessLoops(acq)
		okCounter, okPrompt := false, false
		getPrompt := c.LookupFunc("driver/generic", "Driver", "GetPrompt")
		levelsF := c.LookupField("driver/network", "Driver", "PrivilegeLevels")
		for _, lp := range loops {
			for _, from := range sortedBlocks(lp.Blocks) {
				cond := ifCond(from)
				if cond == nil {
					continue
				}
				bo, ok := cond.(*ssa.BinOp)
				if !ok {
					continue
				}
				if (bo.Op == token.GTR || bo.Op == token.GEQ) && isLoopCounter(bo.X, lp) {
					// bound derives from len(PrivilegeLevels)
					lf := linOf(bo.Y, 0)
					for k := range lf.coef {
						if strings.HasPrefix(k, "len(") {
							okCounter = true
						}
					}
					_ = levelsF
					if okCounter && !retWrapsOnBlock(from.Succs[0], "ErrPrivilegeError") {
						okCounter = false
					}
				}
			}
			for b := range lp.Blocks {
				for _, in := range b.Instrs {
					if ci, ok := in.(*ssa.Call); ok && getPrompt != nil && ci.Call.StaticCallee() == getPrompt {
						okPrompt = true
					}
				}
			}
		}
		r.Check(okCounter, "C04/bounded", "AcquirePriv iteration bound", c.Pos(acq.Pos()), "counter > k*len(levels) -> ErrPrivilegeError", "the AcquirePriv loop is not bounded by a step counter compared with the number of levels (returning ErrPrivilegeError): on a device that never reaches the target it loops forever")
		r.Check(okPrompt, "C04/bounded", "prompt re-read each iteration", c.Pos(acq.Pos()), "GetPrompt inside the loop", "AcquirePriv does not re-read the prompt on every iteration")
	}

	checkAcquireBeforeSend(c, r, acq)
	sub := NewReport("C04")
	checkOptionTable(c, sub, "C04x", "driver/opoptions", specNetworkOpOptions, map[string]bool{"WithPrivilegeLevel": true})
	for _, o := range sub.Obs {
		construct := strings.TrimPrefix(o.Key, o.Rule+" @ ")
		r.add("C04/acquire-before-send", construct+" ("+strings.TrimPrefix(o.Rule, "C04x/")+")", o.Status, o.Pos, o.Msg, nil)
	}
}

func checkAcquireBeforeSend(c *Ctx, r *Report, acq *ssa.Function) {
	rule := "C04/acquire-before-send"
	pure := func(call *ssa.Call) bool {
		o := CalleeObj(call)
		return o != nil && o.Pkg() != nil && o.Pkg().Path() == "fmt"
	}
	// commands: acquire default desired level when the cache differs
	for _, name := range []string{"SendCommand", "SendCommands", "SendCommandsFromFile"} {
		fn := c.LookupFunc("driver/network", "Driver", name)
		if fn == nil {
			r.Anchor(rule, "(*network.Driver)."+name)
			continue
		}
		d := "param:" + fn.Params[0].Name()
		paths := EnumeratePaths(c, fn, &dtConfig{IsAtomCall: pure})
		ok := len(paths) > 0
		msg := ""
		eq := "(" + d + ".CurrentPriv==" + d + ".DefaultDesiredPriv)"
		for _, p := range paths {
			if p.Undecided != "" {
				ok, msg = false, p.Undecided
				continue
			}
			var acquire, delegate *dtEffect
			acquireFirst := false
			for i := range p.Effects {
				e := &p.Effects[i]
				if e.Kind == "call" && e.What == "network.Driver.AcquirePriv" {
					acquire = e
					if delegate == nil {
						acquireFirst = true
					}
				}
				if e.Kind == "call" && strings.HasPrefix(e.What, "generic.Driver.Send") {
					delegate = e
				}
			}
			same := p.Assume[eq]
			switch same {
			case "true":
				if acquire != nil || delegate == nil {
					ok, msg = false, "with the cached level equal to the default desired level the command must be delegated directly"
				}
			case "false":
				if acquire == nil || len(acquire.Args) < 2 || acquire.Args[1] != d+".DefaultDesiredPriv" {
					ok, msg = false, "with a different cached level the default desired level is not acquired first"
				} else if delegate != nil && !acquireFirst {
					ok, msg = false, "the command is sent before the level is acquired"
				}
				// delegate only when the acquire succeeded
				failed := false
				for k, v := range p.Assume {
					if strings.HasPrefix(k, "network.Driver.AcquirePriv(") && v == "!=nil" {
						failed = true
					}
				}
				if failed && delegate != nil {
					ok, msg = false, "the command is sent although acquiring the level failed"
				}
				if !failed && delegate == nil {
					ok, msg = false, "after a successful acquire the command is not sent"
				}
			default:
				ok, msg = false, "the operation does not compare the cached level with the default desired level"
			}
		}
		r.Check(ok, rule, shortFn(fn), c.Pos(fn.Pos()), "acquire(default desired) iff cached level differs, then delegate", shortFn(fn)+": "+msg)
	}
	// configs / interactive: unconditional acquire of requested-or-default
	for _, sp := range []struct {
		name, fallback string
	}{{"SendConfigs", `"configuration"`}, {"SendInteractive", "DefaultDesiredPriv"}} {
		fn := c.LookupFunc("driver/network", "Driver", sp.name)
		if fn == nil {
			r.Anchor(rule, "(*network.Driver)."+sp.name)
			continue
		}
		d := "param:" + fn.Params[0].Name()
		paths := EnumeratePaths(c, fn, &dtConfig{IsAtomCall: pure})
		ok := len(paths) > 0
		msg := ""
		seenReq, seenDef := false, false
		for _, p := range paths {
			if p.Undecided != "" {
				ok, msg = false, p.Undecided
				continue
			}
			opErr := false
			for k, v := range p.Assume {
				if strings.HasPrefix(k, "network.NewOperation(") && v == "!=nil" {
					opErr = true
				}
			}
			if opErr {
				continue
			}
			var acquire, delegate *dtEffect
			for i := range p.Effects {
				e := &p.Effects[i]
				if e.Kind == "call" && e.What == "network.Driver.AcquirePriv" && acquire == nil {
					acquire = e
					if delegate != nil {
						ok, msg = false, "configuration lines are sent before the level is acquired"
					}
				}
				if e.Kind == "call" && strings.HasPrefix(e.What, "generic.Driver.Send") {
					delegate = e
				}
			}
			if acquire == nil {
				ok, msg = false, "no AcquirePriv on a path that sends"
				continue
			}
			// requested level?
			req := ""
			var reqKey string
			for k, v := range p.Assume {
				if strings.HasSuffix(k, ".PrivilegeLevel") {
					req, reqKey = v, k
				}
			}
			want := ""
			switch {
			case req == `=""`:
				seenDef = true
				want = sp.fallback
				if sp.fallback == "DefaultDesiredPriv" {
					want = d + ".DefaultDesiredPriv"
				}
			case strings.HasPrefix(req, "!="):
				seenReq = true
				want = reqKey
			default:
				ok, msg = false, "the level to acquire does not depend on the requested privilege level"
				continue
			}
			if acquire.Args[1] != want {
				ok, msg = false, fmt.Sprintf("acquires %s, specified %s", acquire.Args[1], want)
			}
			failed := false
			for k, v := range p.Assume {
				if strings.HasPrefix(k, "network.Driver.AcquirePriv(") && v == "!=nil" {
					failed = true
				}
			}
			if failed == (delegate != nil) {
				ok, msg = false, "the operation is delegated exactly when acquiring the level succeeded is violated"
			}
		}
		r.Check(ok && seenReq && seenDef, rule, shortFn(fn), c.Pos(fn.Pos()), "acquire(requested or "+sp.fallback+") then delegate", shortFn(fn)+": "+msg)
	}
	// SendConfig / SendConfigsFromFile delegate to SendConfigs
	sc := c.LookupFunc("driver/network", "Driver", "SendConfigs")
	for _, name := range []string{"SendConfig", "SendConfigsFromFile"} {
		fn := c.LookupFunc("driver/network", "Driver", name)
		if fn == nil || sc == nil {
			r.Anchor(rule, "(*network.Driver)."+name)
			continue
		}
		r.Check(len(staticCallsTo(fn, sc)) == 1, rule, shortFn(fn)+" delegates to SendConfigs", c.Pos(fn.Pos()), "", shortFn(fn)+" does not go through SendConfigs (which acquires the configuration level)")
	}
	_ = acq
}
