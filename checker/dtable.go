package main

// E3: decision-table extraction. Enumerates the entry->exit paths of a
// LOOP-FREE function's SSA control-flow graph. Branch conditions are decided
// only over a finite vocabulary: comparisons of keyed values (parameters,
// field loads, len(), pure calls) with constants, nil tests, boolean keyed
// values, membership of a byte in a constant set. Each path yields the set of
// literals assumed and the effects performed (stores, calls, returned values),
// all described by position-free keys. No arithmetic, no solver: a construct
// outside the vocabulary makes the path set "undecided".

import (
	"fmt"
	"go/constant"
	"go/token"
	"go/types"
	"regexp"
	"sort"
	"strings"

	"golang.org/x/tools/go/ssa"
)

type dtEffect struct {
	Kind  string // "store", "call", "return"
	What  string // target key / callee
	Args  []string
	Instr ssa.Instruction
}

func (e dtEffect) String() string {
	return e.Kind + " " + e.What + "(" + strings.Join(e.Args, ", ") + ")"
}

// knowledge about one keyed value on a path
type dtKnow struct {
	eq    *constant.Value
	isNil *bool
	neq   []constant.Value
}

type dtPath struct {
	Locals    map[string]string // final values stored into local cells / fields of local literals
	Assume    map[string]string // literal key -> "true"/"false"/"=const"/"!=c1,c2"
	know      map[string]*dtKnow
	Effects   []dtEffect
	Returns   []string
	Undecided string
}

type dtConfig struct {
	// IsAtomCall: calls whose (boolean or value) result is an opaque atom keyed by callee+args (no effect recorded).
	IsAtomCall func(call *ssa.Call) bool
	// ConstSetMember: callee implementing "byte is member of constant set" (util.ByteIsAny)
	ConstSetMember *ssa.Function
	// Preset knowledge: key -> constant (to enumerate a domain from outside)
	Preset    map[string]constant.Value
	PresetNil map[string]bool
	MaxPaths  int
	// Keep: library callees that must stay opaque calls (their call is an effect / a key the rule's specification
	// names). Every other unexported, loop-free helper of the library is inlined into the path, so that a block of the
	// analysed function that was moved into a helper reads exactly as it did in place.
	Keep func(callee *ssa.Function) bool
	// NoInline switches helper inlining off altogether.
	NoInline bool
}

type dtWalker struct {
	c     *Ctx
	fn    *ssa.Function
	cfg   *dtConfig
	paths []*dtPath
}

type dtState struct {
	env     map[ssa.Value]string // value -> key (or "#const")
	consts  map[ssa.Value]constant.Value
	store   map[string]string         // address key -> value key
	storeC  map[string]constant.Value // address key -> const
	path    *dtPath
	visited map[*ssa.BasicBlock]bool
	alias   map[ssa.Value]ssa.Value // boolean phi -> the value of the edge taken (so that evalCond can look through `a && b` built as a value)
	frames  []dtFrame               // inlined calls in progress
	tuples  map[ssa.Value][]dtRes   // results of inlined multi-result calls, read by Extract
}

// dtFrame: where to resume when the helper being inlined returns.
type dtFrame struct {
	call    *ssa.Call
	block   *ssa.BasicBlock
	idx     int
	visited map[*ssa.BasicBlock]bool
}

type dtRes struct {
	key string
	c   constant.Value
}

func (s *dtState) clone() *dtState {
	n := &dtState{env: map[ssa.Value]string{}, consts: map[ssa.Value]constant.Value{}, store: map[string]string{}, storeC: map[string]constant.Value{}, visited: map[*ssa.BasicBlock]bool{}, alias: map[ssa.Value]ssa.Value{}, tuples: map[ssa.Value][]dtRes{}}
	for k, v := range s.alias {
		n.alias[k] = v
	}
	for k, v := range s.tuples {
		n.tuples[k] = v
	}
	for _, f := range s.frames {
		vis := map[*ssa.BasicBlock]bool{}
		for k, v := range f.visited {
			vis[k] = v
		}
		n.frames = append(n.frames, dtFrame{call: f.call, block: f.block, idx: f.idx, visited: vis})
	}
	for k, v := range s.env {
		n.env[k] = v
	}
	for k, v := range s.consts {
		n.consts[k] = v
	}
	for k, v := range s.store {
		n.store[k] = v
	}
	for k, v := range s.storeC {
		n.storeC[k] = v
	}
	for k, v := range s.visited {
		n.visited[k] = v
	}
	p := &dtPath{Assume: map[string]string{}, know: map[string]*dtKnow{}, Locals: map[string]string{}}
	for k, v := range s.path.Assume {
		p.Assume[k] = v
	}
	for k, v := range s.path.Locals {
		p.Locals[k] = v
	}
	for k, v := range s.path.know {
		kk := *v
		kk.neq = append([]constant.Value{}, v.neq...)
		p.know[k] = &kk
	}
	p.Effects = append(p.Effects, s.path.Effects...)
	p.Undecided = s.path.Undecided
	n.path = p
	return n
}

// EnumeratePaths walks fn.
func EnumeratePaths(c *Ctx, fn *ssa.Function, cfg *dtConfig) []*dtPath {
	if cfg.MaxPaths == 0 {
		cfg.MaxPaths = 4096
	}
	w := &dtWalker{c: c, fn: fn, cfg: cfg}
	st := &dtState{env: map[ssa.Value]string{}, consts: map[ssa.Value]constant.Value{}, store: map[string]string{}, storeC: map[string]constant.Value{}, visited: map[*ssa.BasicBlock]bool{}, alias: map[ssa.Value]ssa.Value{}, tuples: map[ssa.Value][]dtRes{},
		path: &dtPath{Assume: map[string]string{}, know: map[string]*dtKnow{}, Locals: map[string]string{}}}
	for k, v := range cfg.Preset {
		vv := v
		st.path.know[k] = &dtKnow{eq: &vv}
	}
	for k, v := range cfg.PresetNil {
		vv := v
		st.path.know[k] = &dtKnow{isNil: &vv}
	}
	if len(fn.Blocks) == 0 {
		return nil
	}
	w.walk(st, fn.Blocks[0], nil)
	return w.paths
}

// keyOf computes a stable key for a value (or "" if outside the vocabulary).
func (w *dtWalker) keyOf(st *dtState, v ssa.Value) string {
	if k, ok := st.env[v]; ok {
		return k
	}
	switch x := v.(type) {
	case *ssa.Const:
		if x.Value == nil {
			return "nil"
		}
		return x.Value.ExactString()
	case *ssa.Parameter:
		return "param:" + x.Name()
	case *ssa.FreeVar:
		return "free:" + x.Name()
	case *ssa.Global:
		return "global:" + x.Name()
	case *ssa.Function:
		return "func:" + x.Name()
	}
	return ""
}

func (w *dtWalker) constOfVal(st *dtState, v ssa.Value) (constant.Value, bool) {
	if c, ok := v.(*ssa.Const); ok {
		if c.Value == nil {
			return nil, false
		}
		return c.Value, true
	}
	if cv, ok := st.consts[v]; ok {
		return cv, true
	}
	if k := w.keyOf(st, v); k != "" {
		if kn := st.path.know[k]; kn != nil && kn.eq != nil {
			return *kn.eq, true
		}
	}
	return nil, false
}

func (w *dtWalker) finish(st *dtState) {
	w.paths = append(w.paths, st.path)
}

func (w *dtWalker) undecided(st *dtState, in ssa.Instruction, why string) {
	if st.path.Undecided == "" {
		st.path.Undecided = fmt.Sprintf("%s at %s", why, w.c.Pos(in.Pos()))
	}
}

func (w *dtWalker) walk(st *dtState, b *ssa.BasicBlock, pred *ssa.BasicBlock) {
	if len(w.paths) >= w.cfg.MaxPaths {
		return
	}
	if st.visited[b] {
		st.path.Undecided = fmt.Sprintf("loop through block %d (function is not loop-free)", b.Index)
		w.finish(st)
		return
	}
	st.visited[b] = true
	w.walkFrom(st, b, pred, 0)
}

// walkFrom executes b from instruction `start` on (start > 0: resuming after an inlined call).
func (w *dtWalker) walkFrom(st *dtState, b *ssa.BasicBlock, pred *ssa.BasicBlock, start int) {
	for i := start; i < len(b.Instrs); i++ {
		in := b.Instrs[i]
		switch x := in.(type) {
		case *ssa.Phi:
			for i, p := range b.Preds {
				if p == pred {
					e := x.Edges[i]
					if bt, isB := x.Type().Underlying().(*types.Basic); isB && bt.Kind() == types.Bool {
						if _, isConst := e.(*ssa.Const); !isConst {
							st.alias[x] = e
						}
					}
					if cv, ok := w.constOfVal(st, e); ok {
						st.consts[x] = cv
						st.env[x] = cv.ExactString()
					} else if k := w.keyOf(st, e); k != "" {
						st.env[x] = k
					}
				}
			}
		case *ssa.If:
			w.branch(st, b, x)
			return
		case *ssa.Jump:
			w.walk(st, b.Succs[0], b)
			return
		case *ssa.Return:
			if len(st.frames) > 0 {
				w.leave(st, x)
				return
			}
			// a boolean result that is an expression over keyed values (`return !(a && b)`): decide it like a branch
			if len(x.Results) == 1 {
				if bt, ok := x.Results[0].Type().Underlying().(*types.Basic); ok && bt.Kind() == types.Bool {
					if _, isC := w.constOfVal(st, x.Results[0]); !isC {
						res, lit, kind, cval := w.evalCond(st, x.Results[0])
						switch res {
						case "true", "false":
							st.path.Returns = append(st.path.Returns, res)
							w.finish(st)
							return
						case "fork", "forkneg":
							for _, truth := range []bool{true, false} {
								n := st.clone()
								w.assume(n, lit, kind, cval, truth)
								val := truth
								if res == "forkneg" {
									val = !truth
								}
								n.path.Returns = append(n.path.Returns, fmt.Sprint(val))
								w.finish(n)
							}
							return
						}
					}
				}
			}
			for _, rv := range x.Results {
				st.path.Returns = append(st.path.Returns, w.describeRet(st, rv))
			}
			w.finish(st)
			return
		case *ssa.Panic:
			st.path.Returns = append(st.path.Returns, "panic")
			w.finish(st)
			return
		case *ssa.Call:
			if w.inlinable(st, x) {
				w.enter(st, x, b, i+1)
				return
			}
			w.exec(st, in)
		default:
			w.exec(st, in)
		}
	}
}

// inlinable: an unexported, loop-free helper of the library that the rule did not ask to keep opaque.
func (w *dtWalker) inlinable(st *dtState, call *ssa.Call) bool {
	if w.cfg.NoInline {
		return false
	}
	callee := call.Call.StaticCallee()
	if callee == nil || callee == w.fn || callee.Pkg == nil || callee.Parent() != nil || len(callee.Blocks) == 0 || len(callee.Blocks) > 80 {
		return false
	}
	if !isLibPkgPath(callee.Pkg.Pkg.Path()) || callee.Object() == nil || callee.Object().Exported() {
		return false
	}
	if len(st.frames) >= 3 {
		return false
	}
	for _, f := range st.frames {
		if f.call.Call.StaticCallee() == callee {
			return false
		}
	}
	if (w.cfg.IsAtomCall != nil && w.cfg.IsAtomCall(call)) || (w.cfg.Keep != nil && w.cfg.Keep(callee)) {
		return false
	}
	if w.cfg.ConstSetMember != nil && callee == w.cfg.ConstSetMember {
		return false
	}
	if len(callee.Params) != len(call.Call.Args) {
		return false
	}
	return !hasBackEdge(callee)
}

// atomsExcept: every call is an opaque atom, except calls to unexported functions of the library that the rule's
// specification does not name (those are helpers a block was moved into, and are inlined).
func atomsExcept(specNames ...string) func(call *ssa.Call) bool {
	return func(call *ssa.Call) bool {
		sc := call.Call.StaticCallee()
		if sc == nil || sc.Pkg == nil || sc.Object() == nil || sc.Object().Exported() || !isLibPkgPath(sc.Pkg.Pkg.Path()) {
			return true
		}
		for _, n := range specNames {
			if sc.Name() == n {
				return true
			}
		}
		return false
	}
}

var backEdgeCache = map[*ssa.Function]bool{}

func hasBackEdge(fn *ssa.Function) bool {
	if v, ok := backEdgeCache[fn]; ok {
		return v
	}
	res := false
	for _, b := range fn.Blocks {
		for _, s := range b.Succs {
			if s.Dominates(b) {
				res = true
			}
		}
		// sync.Once bodies, goroutines and defers are not modelled across a call boundary
		for _, in := range b.Instrs {
			switch in.(type) {
			case *ssa.Go, *ssa.Defer, *ssa.Select:
				res = true
			}
		}
	}
	backEdgeCache[fn] = res
	return res
}

// enter binds the helper's parameters to the caller's argument keys and walks its body; leave resumes the caller.
func (w *dtWalker) enter(st *dtState, call *ssa.Call, b *ssa.BasicBlock, resume int) {
	callee := call.Call.StaticCallee()
	for i, p := range callee.Params {
		a := call.Call.Args[i]
		delete(st.consts, p)
		delete(st.alias, p)
		if cv, ok := w.constOfVal(st, a); ok {
			st.consts[p] = cv
			st.env[p] = cv.ExactString()
			continue
		}
		if bt, isB := p.Type().Underlying().(*types.Basic); isB && bt.Kind() == types.Bool {
			st.alias[p] = a
		}
		if isNilConst(a) {
			st.env[p] = "nil"
		} else if k := w.keyOf(st, a); k != "" {
			st.env[p] = k
		} else {
			st.env[p] = "?"
		}
	}
	st.frames = append(st.frames, dtFrame{call: call, block: b, idx: resume, visited: st.visited})
	st.visited = map[*ssa.BasicBlock]bool{callee.Blocks[0]: true}
	w.walkFrom(st, callee.Blocks[0], nil, 0)
}

func (w *dtWalker) leave(st *dtState, ret *ssa.Return) {
	fr := st.frames[len(st.frames)-1]
	resume := func(s *dtState) {
		s.frames = s.frames[:len(s.frames)-1]
		s.visited = fr.visited
		w.walkFrom(s, fr.block, nil, fr.idx)
	}
	opaque := func(s *dtState) string {
		// the key the call would have had, had it not been inlined
		name := w.calleeName(fr.call)
		var args []string
		for _, a := range fr.call.Call.Args {
			k := w.keyOf(s, a)
			if cv, ok := w.constOfVal(s, a); ok {
				k = cv.ExactString()
			}
			if k == "" {
				k = "?"
			}
			args = append(args, k)
		}
		return name + "(" + strings.Join(args, ",") + ")"
	}
	delete(st.consts, fr.call)
	delete(st.env, fr.call)
	delete(st.alias, fr.call)
	delete(st.tuples, fr.call)
	switch len(ret.Results) {
	case 0:
		resume(st)
	case 1:
		rv := ret.Results[0]
		if cv, ok := w.constOfVal(st, rv); ok {
			st.consts[fr.call] = cv
			st.env[fr.call] = cv.ExactString()
			resume(st)
			return
		}
		if bt, ok := rv.Type().Underlying().(*types.Basic); ok && bt.Kind() == types.Bool {
			res, lit, kind, cval := w.evalCond(st, rv)
			switch res {
			case "true", "false":
				st.consts[fr.call] = constant.MakeBool(res == "true")
				st.env[fr.call] = res
				resume(st)
				return
			case "fork", "forkneg":
				for _, truth := range []bool{true, false} {
					n := st.clone()
					w.assume(n, lit, kind, cval, truth)
					val := truth
					if res == "forkneg" {
						val = !truth
					}
					n.consts[fr.call] = constant.MakeBool(val)
					n.env[fr.call] = fmt.Sprint(val)
					// the clone owns a copy of the frame's visited set
					nfr := n.frames[len(n.frames)-1]
					n.frames = n.frames[:len(n.frames)-1]
					n.visited = nfr.visited
					w.walkFrom(n, nfr.block, nil, nfr.idx)
				}
				return
			}
		}
		switch {
		case isNilConst(rv):
			st.env[fr.call] = "nil"
		default:
			if k := w.keyOf(st, rv); k != "" && k != "?" {
				st.env[fr.call] = k
			} else {
				st.env[fr.call] = opaque(st)
			}
		}
		resume(st)
	default:
		var rs []dtRes
		base := opaque(st)
		for i, rv := range ret.Results {
			switch {
			case isNilConst(rv):
				rs = append(rs, dtRes{key: "nil"})
			default:
				if cv, ok := w.constOfVal(st, rv); ok {
					rs = append(rs, dtRes{key: cv.ExactString(), c: cv})
				} else if ek := w.errClassKey(rv); ek != "" {
					// an error built inside the inlined helper reads like one built in place
					rs = append(rs, dtRes{key: ek})
				} else if k := w.keyOf(st, rv); k != "" && k != "?" {
					rs = append(rs, dtRes{key: k})
				} else {
					rs = append(rs, dtRes{key: fmt.Sprintf("%s#%d", base, i)})
				}
			}
		}
		st.tuples[fr.call] = rs
		resume(st)
	}
}

func (w *dtWalker) describeRet(st *dtState, v ssa.Value) string {
	if k, ok := st.env[v]; ok && (k == "nil" || strings.HasPrefix(k, "param:")) {
		return k
	}
	if isNilConst(v) {
		return "nil"
	}
	if cv, ok := w.constOfVal(st, v); ok {
		return cv.ExactString()
	}
	for _, cl := range returnErrClasses(v, 0) {
		if cl.wraps != nil {
			return "errwrap:" + cl.wraps.Name()
		}
		if cl.global != nil {
			return "err:" + cl.global.Name()
		}
	}
	if k := w.keyOf(st, v); k != "" {
		// an error built inside an inlined helper: fmt.Errorf("%w: ...",{*global:ErrX ...}) reads like one built in place
		if m := inlinedErrwrapRe.FindStringSubmatch(k); m != nil {
			return "errwrap:" + m[1]
		}
		return k
	}
	return "?"
}

var inlinedErrwrapRe = regexp.MustCompile(`^fmt\.Errorf\("%w[^"]*",\{\*global:(Err\w+)[,}]`)

// addrKey: key of an address (field chain / alloc).
func (w *dtWalker) addrKey(st *dtState, a ssa.Value) string {
	switch x := a.(type) {
	case *ssa.FieldAddr:
		base := w.keyOf(st, x.X)
		if base == "" {
			base = w.addrKey(st, x.X)
		}
		if base == "" {
			return ""
		}
		return base + "." + fieldOfAddr(x).Name()
	case *ssa.Alloc:
		if k, ok := st.env[x]; ok {
			return k
		}
		return w.allocName(x)
	case *ssa.FreeVar:
		// captured variable (pointer to the parent's cell)
		if _, isPtr := x.Type().Underlying().(*types.Pointer); isPtr {
			return "local:captured:" + x.Name()
		}
	case *ssa.IndexAddr:
		base := w.keyOf(st, x.X)
		if base == "" {
			return ""
		}
		if cv, ok := w.constOfVal(st, x.Index); ok {
			// X[lo:hi][i] == X[lo+i]
			if j := strings.LastIndex(base, "["); j >= 0 && strings.HasSuffix(base, "]") && strings.Contains(base[j:], ":") {
				lo := strings.SplitN(base[j+1:len(base)-1], ":", 2)[0]
				if lo == "" {
					lo = "0"
				}
				var l, i int64
				if _, err := fmt.Sscan(lo, &l); err == nil {
					if _, err := fmt.Sscan(cv.ExactString(), &i); err == nil {
						return fmt.Sprintf("%s[%d]", base[:j], l+i)
					}
				}
			}
			return base + "[" + cv.ExactString() + "]"
		}
		if ik := w.keyOf(st, x.Index); ik != "" {
			return base + "[" + ik + "]"
		}
	}
	return ""
}

func (w *dtWalker) exec(st *dtState, in ssa.Instruction) {
	switch x := in.(type) {
	case *ssa.Alloc:
		st.env[x] = w.allocName(x)
	case *ssa.FieldAddr, *ssa.IndexAddr:
		if k := w.addrKey(st, x.(ssa.Value)); k != "" {
			st.env[x.(ssa.Value)] = "&" + k
		}
	case *ssa.UnOp:
		switch x.Op {
		case token.MUL:
			ak := w.addrKey(st, x.X)
			if ak == "" {
				if k := w.keyOf(st, x.X); strings.HasPrefix(k, "&") {
					ak = k[1:]
				} else if k != "" {
					ak = "*" + k
				}
			}
			if ak == "" {
				return
			}
			if cv, ok := st.storeC[ak]; ok {
				st.consts[x] = cv
				st.env[x] = cv.ExactString()
				return
			}
			if vk, ok := st.store[ak]; ok {
				st.env[x] = vk
				return
			}
			st.env[x] = ak
		case token.NOT:
			if cv, ok := w.constOfVal(st, x.X); ok && cv.Kind() == constant.Bool {
				st.consts[x] = constant.MakeBool(!constant.BoolVal(cv))
			} else if k := w.keyOf(st, x.X); k != "" {
				st.env[x] = "!" + k
			}
		default:
			if k := w.keyOf(st, x.X); k != "" {
				st.env[x] = x.Op.String() + k
			}
		}
	case *ssa.Store:
		ak := w.addrKey(st, x.Addr)
		if ak == "" {
			if k := w.keyOf(st, x.Addr); strings.HasPrefix(k, "&") {
				ak = k[1:]
			}
		}
		if ak == "" {
			w.undecided(st, in, "store through an address outside the vocabulary")
			return
		}
		vk := ""
		if cv, ok := w.constOfVal(st, x.Val); ok {
			st.storeC[ak] = cv
			delete(st.store, ak)
			vk = cv.ExactString()
		} else {
			vk = w.keyOf(st, x.Val)
			if isNilConst(x.Val) {
				vk = "nil"
			}
			delete(st.storeC, ak)
			st.store[ak] = vk
		}
		if !strings.HasPrefix(ak, "local:") && !strings.HasPrefix(ak, "&local:") {
			st.path.Effects = append(st.path.Effects, dtEffect{Kind: "store", What: ak, Args: []string{vk}, Instr: in})
		} else {
			st.path.Locals[ak] = vk
		}
	case *ssa.Convert:
		if cv, ok := w.constOfVal(st, x.X); ok {
			st.consts[x] = cv
			st.env[x] = cv.ExactString()
		} else if k := w.keyOf(st, x.X); k != "" {
			st.env[x] = k
		}
	case *ssa.ChangeType:
		if k := w.keyOf(st, x.X); k != "" {
			st.env[x] = k
		}
	case *ssa.ChangeInterface:
		if k := w.keyOf(st, x.X); k != "" {
			st.env[x] = k
		}
	case *ssa.MakeInterface:
		if k := w.keyOf(st, x.X); k != "" {
			st.env[x] = k
		}
	case *ssa.Slice:
		if x.Low == nil && x.High == nil {
			if ks, ok := w.sliceElemKeys(st, x); ok {
				st.env[x] = "{" + strings.Join(ks, ",") + "}"
				return
			}
		}
		k := w.keyOf(st, x.X)
		if k == "" {
			return
		}
		lo, hi := "", ""
		if x.Low != nil {
			if cv, ok := w.constOfVal(st, x.Low); ok {
				lo = cv.ExactString()
			} else if lk := w.keyOf(st, x.Low); lk != "" {
				lo = lk
			} else {
				lo = "?"
			}
		}
		if x.High != nil {
			if cv, ok := w.constOfVal(st, x.High); ok {
				hi = cv.ExactString()
			} else if hk := w.keyOf(st, x.High); hk != "" {
				hi = hk
			} else {
				hi = "?"
			}
		}
		if lo == "" && hi == "" {
			st.env[x] = strings.TrimPrefix(k, "&")
		} else {
			st.env[x] = strings.TrimPrefix(k, "&") + "[" + lo + ":" + hi + "]"
		}
	case *ssa.Extract:
		if rs, ok := st.tuples[x.Tuple]; ok && x.Index < len(rs) {
			delete(st.consts, x)
			st.env[x] = rs[x.Index].key
			if rs[x.Index].c != nil {
				st.consts[x] = rs[x.Index].c
			}
			return
		}
		if k := w.keyOf(st, x.Tuple); k != "" {
			st.env[x] = fmt.Sprintf("%s#%d", k, x.Index)
		}
	case *ssa.BinOp:
		// comparisons handled lazily in evalCond; folded here when both sides are known constants
		switch x.Op {
		case token.EQL, token.NEQ, token.LSS, token.LEQ, token.GTR, token.GEQ:
			lc, lok := w.constOfVal(st, x.X)
			rc, rok := w.constOfVal(st, x.Y)
			if lok && rok && lc.Kind() == rc.Kind() && lc.Kind() != constant.Unknown {
				st.consts[x] = constant.MakeBool(constant.Compare(lc, x.Op, rc))
			}
		}
		l, r := w.keyOf(st, x.X), w.keyOf(st, x.Y)
		if l != "" && r != "" {
			st.env[x] = "(" + l + x.Op.String() + r + ")"
		}
	case *ssa.MakeSlice:
		if cv, ok := w.constOfVal(st, x.Len); ok {
			st.env[x] = "make[" + cv.ExactString() + "]"
		} else {
			st.env[x] = "make[?]"
		}
	case *ssa.MakeClosure:
		if f, ok := x.Fn.(*ssa.Function); ok {
			st.env[x] = "func:" + f.Name()
		}
	case *ssa.Lookup:
		k, i := w.keyOf(st, x.X), w.keyOf(st, x.Index)
		if k != "" && i != "" {
			st.env[x] = k + "[" + i + "]"
		}
	case *ssa.TypeAssert:
		if k := w.keyOf(st, x.X); k != "" {
			st.env[x] = k + ".(" + typeShort(x.AssertedType) + ")"
		}
	case *ssa.Call:
		w.execCall(st, x)
	case *ssa.Defer, *ssa.Go:
		ci := in.(ssa.CallInstruction)
		name := describeCall(w.c, ci)
		st.path.Effects = append(st.path.Effects, dtEffect{Kind: "defer/go", What: name, Instr: in})
	case *ssa.RunDefers, *ssa.DebugRef:
	case *ssa.MapUpdate, *ssa.Send:
		st.path.Effects = append(st.path.Effects, dtEffect{Kind: "effect", What: fmt.Sprintf("%T", in), Instr: in})
	default:
	}
}

func (w *dtWalker) calleeName(call *ssa.Call) string {
	if b, ok := call.Call.Value.(*ssa.Builtin); ok {
		return b.Name()
	}
	if o := CalleeObj(call); o != nil {
		recv := ""
		if sig, ok := o.Type().(*types.Signature); ok && sig.Recv() != nil {
			recv = typeShort(sig.Recv().Type()) + "."
		} else if o.Pkg() != nil {
			recv = o.Pkg().Name() + "."
		}
		return recv + o.Name()
	}
	// dynamic call: name it by its possible callees (VTA), not by an SSA register
	var names []string
	for _, f := range w.c.Callees(call) {
		names = append(names, f.Name())
	}
	if len(names) > 0 {
		sort.Strings(names)
		return "dyn:{" + strings.Join(names, "|") + "}"
	}
	if f, _, ok := fieldLoad(call.Call.Value); ok {
		return "dyn:field:" + f.Name()
	}
	return "dyn:?"
}

// variadic/literal slice contents as constants (e.g. []byte{do,dont,will,wont}).
func constSliceElems(v ssa.Value) ([]constant.Value, bool) {
	sl, ok := v.(*ssa.Slice)
	if !ok {
		return nil, false
	}
	a, ok := sl.X.(*ssa.Alloc)
	if !ok {
		return nil, false
	}
	var out []constant.Value
	for _, ref := range *a.Referrers() {
		ia, ok := ref.(*ssa.IndexAddr)
		if !ok {
			continue
		}
		for _, r2 := range *ia.Referrers() {
			if st, ok := r2.(*ssa.Store); ok {
				c := constOf(st.Val)
				if c == nil || c.Value == nil {
					return nil, false
				}
				out = append(out, c.Value)
			}
		}
	}
	return out, len(out) > 0
}

func (w *dtWalker) execCall(st *dtState, call *ssa.Call) {
	name := w.calleeName(call)
	var args []string
	for _, a := range call.Call.Args {
		if els, ok := constSliceElems(a); ok {
			var ss []string
			for _, e := range els {
				ss = append(ss, e.ExactString())
			}
			args = append(args, "{"+strings.Join(ss, ",")+"}")
			continue
		}
		if ks, ok := w.sliceElemKeys(st, a); ok {
			args = append(args, "{"+strings.Join(ks, ",")+"}")
			continue
		}
		if cv, ok := w.constOfVal(st, a); ok {
			args = append(args, cv.ExactString())
			continue
		}
		k := w.keyOf(st, a)
		if k == "" {
			k = "?"
		}
		args = append(args, k)
	}
	if call.Call.IsInvoke() {
		k := w.keyOf(st, call.Call.Value)
		if k == "" {
			k = "?"
		}
		args = append([]string{k}, args...)
	}
	key := name + "(" + strings.Join(args, ",") + ")"
	// a local bytes.Buffer (or strings.Builder) used to assemble a byte string: model its content as the append chain
	// of what was written to it, so that `buf.Write(a); buf.WriteString(b); buf.Bytes()` reads append(a,b)
	if o := CalleeObj(call); o != nil && o.Pkg() != nil && len(args) > 0 && len(call.Call.Args) > 0 {
		isBuf := func(v ssa.Value) bool {
			v = stripConv(v)
			t := v.Type()
			if p, ok := t.(*types.Pointer); ok {
				t = p.Elem()
			}
			n, ok := t.(*types.Named)
			return ok && n.Obj().Pkg() != nil && ((n.Obj().Pkg().Path() == "bytes" && n.Obj().Name() == "Buffer") || (n.Obj().Pkg().Path() == "strings" && n.Obj().Name() == "Builder"))
		}
		if isBuf(call.Call.Args[0]) && strings.HasPrefix(args[0], "local:") {
			ck := "bufcontent:" + args[0]
			add := func(piece string) {
				if cur := st.store[ck]; cur == "" {
					st.store[ck] = piece
				} else {
					st.store[ck] = "append(" + cur + "," + piece + ")"
				}
			}
			full := o.Pkg().Path() + "." + o.Name()
			switch {
			case (o.Pkg().Path() == "bytes" || o.Pkg().Path() == "strings") && (o.Name() == "Write" || o.Name() == "WriteString" || o.Name() == "WriteByte" || o.Name() == "WriteRune") && len(args) == 2:
				add(args[1])
				st.env[call] = key
				return
			case full == "fmt.Fprintf" && len(args) >= 2:
				add("fmt.Sprintf(" + strings.Join(args[1:], ",") + ")")
				st.env[call] = key
				return
			case full == "fmt.Fprint" && len(args) >= 2:
				add("fmt.Sprint(" + strings.Join(args[1:], ",") + ")")
				st.env[call] = key
				return
			case (o.Pkg().Path() == "bytes" || o.Pkg().Path() == "strings") && (o.Name() == "Bytes" || o.Name() == "String") && len(args) == 1:
				if cur, ok := st.store[ck]; ok {
					st.env[call] = cur
					return
				}
			}
		}
	}
	if b, ok := call.Call.Value.(*ssa.Builtin); ok {
		switch b.Name() {
		case "len":
			st.env[call] = "len(" + args[0] + ")"
			return
		case "append":
			st.env[call] = key
			return
		}
	}
	// constant-set membership with a known element
	if w.cfg.ConstSetMember != nil && call.Call.StaticCallee() == w.cfg.ConstSetMember && len(call.Call.Args) == 2 {
		if els, ok := constSliceElems(call.Call.Args[1]); ok {
			if cv, ok := w.constOfVal(st, call.Call.Args[0]); ok {
				member := false
				for _, e := range els {
					if constant.Compare(e, token.EQL, cv) {
						member = true
					}
				}
				st.consts[call] = constant.MakeBool(member)
				st.env[call] = constant.MakeBool(member).ExactString()
				return
			}
		}
	}
	st.env[call] = key
	if w.cfg.IsAtomCall != nil && w.cfg.IsAtomCall(call) {
		return
	}
	st.path.Effects = append(st.path.Effects, dtEffect{Kind: "call", What: name, Args: args, Instr: call})
}

// evalCond returns (value, decided). When undecided over a keyed literal, forks.
func (w *dtWalker) branch(st *dtState, b *ssa.BasicBlock, ifi *ssa.If) {
	res, lit, kind, cval := w.evalCond(st, ifi.Cond)
	switch res {
	case "true":
		w.walk(st, b.Succs[0], b)
	case "false":
		w.walk(st, b.Succs[1], b)
	case "fork", "forkneg":
		for _, truth := range []bool{true, false} {
			n := st.clone()
			w.assume(n, lit, kind, cval, truth)
			condTrue := truth
			if res == "forkneg" {
				condTrue = !truth
			}
			idx := 1
			if condTrue {
				idx = 0
			}
			w.walk(n, b.Succs[idx], b)
		}
	default:
		st.path.Undecided = fmt.Sprintf("branch condition outside the vocabulary at %s: %s", w.c.Pos(ifi.Cond.Pos()), ifi.Cond.String())
		w.finish(st)
	}
}

// assume records literal truth. kind: "bool" (key is a boolean), "eq" (key == cval), "nil" (key == nil)
func (w *dtWalker) assume(st *dtState, key, kind string, cval constant.Value, truth bool) {
	kn := st.path.know[key]
	if kn == nil {
		kn = &dtKnow{}
		st.path.know[key] = kn
	}
	switch kind {
	case "bool":
		v := constant.MakeBool(truth)
		kn.eq = &v
		st.path.Assume[key] = fmt.Sprint(truth)
	case "nil":
		t := truth
		kn.isNil = &t
		if truth {
			st.path.Assume[key] = "=nil"
		} else {
			st.path.Assume[key] = "!=nil"
		}
	case "eq":
		if truth {
			v := cval
			kn.eq = &v
			st.path.Assume[key] = "=" + cval.ExactString()
		} else {
			kn.neq = append(kn.neq, cval)
			var ss []string
			for _, n := range kn.neq {
				ss = append(ss, n.ExactString())
			}
			sort.Strings(ss)
			st.path.Assume[key] = "!=" + strings.Join(ss, ",")
		}
	}
}

// stringEmptinessTest: bo compares len(s) of a string s with 0 or 1 so that its truth means "s is empty" (empty=true)
// or "s is not empty" (empty=false).
func stringEmptinessTest(bo *ssa.BinOp) (ssa.Value, bool, bool) {
	lenArg := func(v ssa.Value) ssa.Value {
		call, ok := v.(*ssa.Call)
		if !ok {
			return nil
		}
		if b, ok := call.Call.Value.(*ssa.Builtin); !ok || b.Name() != "len" || len(call.Call.Args) != 1 {
			return nil
		}
		if bt, ok := call.Call.Args[0].Type().Underlying().(*types.Basic); !ok || bt.Info()&types.IsString == 0 {
			return nil
		}
		return call.Call.Args[0]
	}
	op := bo.Op
	x, y := bo.X, bo.Y
	if lenArg(x) == nil && lenArg(y) != nil {
		// constant on the left: mirror the comparison
		x, y = y, x
		switch op {
		case token.LSS:
			op = token.GTR
		case token.GTR:
			op = token.LSS
		case token.LEQ:
			op = token.GEQ
		case token.GEQ:
			op = token.LEQ
		}
	}
	s := lenArg(x)
	k, isC := constInt(y)
	if s == nil || !isC {
		return nil, false, false
	}
	switch {
	case k == 0 && (op == token.EQL || op == token.LEQ):
		return s, true, true
	case k == 0 && (op == token.NEQ || op == token.GTR):
		return s, false, true
	case k == 1 && op == token.LSS:
		return s, true, true
	case k == 1 && op == token.GEQ:
		return s, false, true
	}
	return nil, false, false
}

// evalCond: returns "true"/"false"/"fork"/"" with literal description.
func (w *dtWalker) evalCond(st *dtState, cond ssa.Value) (string, string, string, constant.Value) {
	v, neg := unwrapNot(cond)
	for i := 0; i < 8; i++ {
		a, ok := st.alias[v]
		if !ok {
			break
		}
		if _, known := w.constOfVal(st, v); known {
			break
		}
		inner, n2 := unwrapNot(a)
		v = inner
		if n2 {
			neg = !neg
		}
	}
	flip := func(s string) string {
		if !neg {
			return s
		}
		switch s {
		case "true":
			return "false"
		case "false":
			return "true"
		}
		return s
	}
	if cv, ok := w.constOfVal(st, v); ok && cv.Kind() == constant.Bool {
		if constant.BoolVal(cv) {
			return flip("true"), "", "", nil
		}
		return flip("false"), "", "", nil
	}
	decideEq := func(key string, cv constant.Value, eqMeansTrue bool) (string, string, string, constant.Value) {
		if key == "" {
			return "", "", "", nil
		}
		if kn := st.path.know[key]; kn != nil {
			if kn.eq != nil {
				r := constant.Compare(*kn.eq, token.EQL, cv)
				if !eqMeansTrue {
					r = !r
				}
				return fmt.Sprint(r), "", "", nil
			}
			for _, n := range kn.neq {
				if constant.Compare(n, token.EQL, cv) {
					return fmt.Sprint(!eqMeansTrue), "", "", nil
				}
			}
		}
		if eqMeansTrue {
			return "fork", key, "eq", cv
		}
		return "forkneg", key, "eq", cv
	}
	if bo, ok := v.(*ssa.BinOp); ok {
		// emptiness of a string spelled with len(): len(s) == 0, len(s) > 0, len(s) != 0, len(s) < 1 ... reads s == ""
		if sv, empty, ok := stringEmptinessTest(bo); ok {
			if cv, known := w.constOfVal(st, sv); known && cv.Kind() == constant.String {
				r := (constant.StringVal(cv) == "") == empty
				if neg {
					r = !r
				}
				return fmt.Sprint(r), "", "", nil
			}
			return decideEq(w.keyOf(st, sv), constant.MakeString(""), empty != neg)
		}
		switch bo.Op {
		case token.EQL, token.NEQ:
			// nil test
			var x ssa.Value
			if isNilConst(bo.Y) {
				x = bo.X
			} else if isNilConst(bo.X) {
				x = bo.Y
			}
			if x != nil {
				key := w.keyOf(st, x)
				if key == "" {
					return "", "", "", nil
				}
				// values whose nil-ness is known from how they were built on this path: a nil handed through an inlined
				// helper, a slice literal, a made slice, a function value, the address of a local
				known := ""
				switch {
				case key == "nil":
					known = "nil"
				case strings.HasPrefix(key, "{"), strings.HasPrefix(key, "make["), strings.HasPrefix(key, "func:"), strings.HasPrefix(key, "local:complit"), strings.HasPrefix(key, "&local:"):
					known = "non-nil"
				case strings.HasPrefix(key, "fmt.Errorf("), strings.HasPrefix(key, "errors.New("), strings.HasPrefix(key, "errwrap:"):
					known = "non-nil" // the error constructors never return nil
				}
				if known != "" {
					r := known == "nil"
					if bo.Op == token.NEQ {
						r = !r
					}
					if neg {
						r = !r
					}
					return fmt.Sprint(r), "", "", nil
				}
				if kn := st.path.know[key]; kn != nil && kn.isNil != nil {
					r := *kn.isNil
					if bo.Op == token.NEQ {
						r = !r
					}
					if neg {
						r = !r
					}
					return fmt.Sprint(r), "", "", nil
				}
				// fork on "key is nil"; account for op/neg by mapping truth at assume time:
				// we return a synthetic literal whose truth == (cond true)
				return w.forkNil(st, key, bo.Op == token.NEQ != neg)
			}
			// const comparison
			lc, lok := w.constOfVal(st, bo.X)
			rc, rok := w.constOfVal(st, bo.Y)
			if lok && rok {
				r := constant.Compare(lc, bo.Op, rc)
				if neg {
					r = !r
				}
				return fmt.Sprint(r), "", "", nil
			}
			var key string
			var cv constant.Value
			if rok {
				key, cv = w.keyOf(st, bo.X), rc
			} else if lok {
				key, cv = w.keyOf(st, bo.Y), lc
			} else {
				// two keyed values compared with each other: an opaque boolean literal
				l, r := w.keyOf(st, bo.X), w.keyOf(st, bo.Y)
				if l == "" || r == "" {
					return "", "", "", nil
				}
				if l == r {
					res := bo.Op == token.EQL
					if neg {
						res = !res
					}
					return fmt.Sprint(res), "", "", nil
				}
				if r < l {
					l, r = r, l
				}
				bkey := "(" + l + "==" + r + ")"
				eqTrue := (bo.Op == token.EQL) != neg
				if kn := st.path.know[bkey]; kn != nil && kn.eq != nil {
					b := constant.BoolVal(*kn.eq)
					if !eqTrue {
						b = !b
					}
					return fmt.Sprint(b), "", "", nil
				}
				if eqTrue {
					return "fork", bkey, "bool", nil
				}
				return "forkneg", bkey, "bool", nil
			}
			return decideEq(key, cv, (bo.Op == token.EQL) != neg)
		case token.LSS, token.LEQ, token.GTR, token.GEQ:
			lc, lok := w.constOfVal(st, bo.X)
			rc, rok := w.constOfVal(st, bo.Y)
			if lok && rok {
				r := constant.Compare(lc, bo.Op, rc)
				if neg {
					r = !r
				}
				return fmt.Sprint(r), "", "", nil
			}
			l, r := w.keyOf(st, bo.X), w.keyOf(st, bo.Y)
			if rok {
				r = rc.ExactString()
			}
			if lok {
				l = lc.ExactString()
			}
			if l == "" || r == "" {
				return "", "", "", nil
			}
			key := "(" + l + bo.Op.String() + r + ")"
			if kn := st.path.know[key]; kn != nil && kn.eq != nil {
				b := constant.BoolVal(*kn.eq)
				if neg {
					b = !b
				}
				return fmt.Sprint(b), "", "", nil
			}
			if neg {
				return "forkneg", key, "bool", nil
			}
			return "fork", key, "bool", nil
		}
	}
	// boolean keyed value
	key := w.keyOf(st, v)
	if key == "" {
		return "", "", "", nil
	}
	if kn := st.path.know[key]; kn != nil && kn.eq != nil && (*kn.eq).Kind() == constant.Bool {
		b := constant.BoolVal(*kn.eq)
		if neg {
			b = !b
		}
		return fmt.Sprint(b), "", "", nil
	}
	if neg {
		return "forkneg", key, "bool", nil
	}
	return "fork", key, "bool", nil
}

func (w *dtWalker) forkNil(st *dtState, key string, trueMeansNonNil bool) (string, string, string, constant.Value) {
	if trueMeansNonNil {
		return "forkneg", key, "nil", nil
	}
	return "fork", key, "nil", nil
}

// sliceElemKeys describes a slice literal / varargs pack by the keys of its elements (index order).
func (w *dtWalker) sliceElemKeys(st *dtState, v ssa.Value) ([]string, bool) {
	sl, ok := v.(*ssa.Slice)
	if !ok {
		return nil, false
	}
	a, ok := sl.X.(*ssa.Alloc)
	if !ok {
		return nil, false
	}
	if _, isArr := a.Type().Underlying().(*types.Pointer).Elem().Underlying().(*types.Array); !isArr {
		return nil, false
	}
	byIdx := map[int64]string{}
	max := int64(-1)
	for _, ref := range *a.Referrers() {
		ia, ok := ref.(*ssa.IndexAddr)
		if !ok {
			continue
		}
		idx, ok := constInt(ia.Index)
		if !ok {
			return nil, false
		}
		for _, r2 := range *ia.Referrers() {
			if s, ok := r2.(*ssa.Store); ok {
				k := ""
				if cv, ok := w.constOfVal(st, s.Val); ok {
					k = cv.ExactString()
				} else {
					k = w.keyOf(st, s.Val)
				}
				if k == "" {
					k = "?"
				}
				byIdx[idx] = k
				if idx > max {
					max = idx
				}
			}
		}
	}
	if max < 0 {
		return nil, false
	}
	out := make([]string, max+1)
	for i := range out {
		out[i] = byIdx[int64(i)]
	}
	return out, true
}

// allocName: "local:<comment>" for the first alloc with that comment in the function, "local:<comment>#k" for later ones.
func (w *dtWalker) allocName(a *ssa.Alloc) string {
	k := 0
	found := false
	for _, b := range w.fn.Blocks {
		for _, in := range b.Instrs {
			if al, ok := in.(*ssa.Alloc); ok && al.Comment == a.Comment {
				if al == a {
					found = true
					break
				}
				k++
			}
		}
		if found {
			break
		}
	}
	if !found {
		// function-level locals (fn.Locals) are not instructions
		for i, al := range w.fn.Locals {
			if al == a {
				k = 0
				for _, other := range w.fn.Locals[:i] {
					if other.Comment == a.Comment {
						k++
					}
				}
			}
		}
	}
	if k == 0 {
		return "local:" + a.Comment
	}
	return fmt.Sprintf("local:%s#%d", a.Comment, k+1)
}

// relAliases: for a key of the form "(A op B)" with a relational operator at nesting depth 1, the other three
// spellings of the same fact with their truth values.
func relAliases(key string, truth bool) map[string]bool {
	if len(key) < 5 || key[0] != '(' || key[len(key)-1] != ')' {
		return nil
	}
	depth := 0
	for i := 0; i < len(key); i++ {
		switch key[i] {
		case '(', '[', '{':
			depth++
		case ')', ']', '}':
			depth--
		case '<', '>':
			if depth != 1 || i == 0 {
				continue
			}
			if key[i] == '>' && key[i-1] == '-' { // "->"
				continue
			}
			if key[i] == '<' && i+1 < len(key) && key[i+1] == '-' { // "<-"
				continue
			}
			op := string(key[i])
			j := i + 1
			if j < len(key) && key[j] == '=' {
				op += "="
				j++
			}
			a, b := key[1:i], key[j:len(key)-1]
			if a == "" || b == "" {
				return nil
			}
			neg := map[string]string{"<": ">=", "<=": ">", ">": "<=", ">=": "<"}
			flip := map[string]string{"<": ">", "<=": ">=", ">": "<", ">=": "<="}
			return map[string]bool{
				"(" + a + neg[op] + b + ")":       !truth,
				"(" + b + flip[op] + a + ")":      truth,
				"(" + b + neg[flip[op]] + a + ")": !truth,
			}
		}
	}
	return nil
}

// Lit: the truth value the path assumes for a literal key, also when the source spelled a relational test the
// other way round (a>b == !(a<=b) == b<a == !(b>=a)); "" when the path says nothing about it.
func (p *dtPath) Lit(key string) string {
	if v, ok := p.Assume[key]; ok {
		return v
	}
	for k, v := range p.Assume {
		if v != "true" && v != "false" {
			continue
		}
		if t, ok := relAliases(k, v == "true")[key]; ok {
			return fmt.Sprint(t)
		}
	}
	return ""
}

// errClassKey: the class key ("errwrap:ErrX" / "err:ErrX") of an error value built by fmt.Errorf("%w", sentinel) or
// loaded from a sentinel; "" otherwise.
func (w *dtWalker) errClassKey(v ssa.Value) string {
	if !isErrorType(v.Type()) {
		return ""
	}
	if _, isCall := v.(*ssa.Call); !isCall {
		if _, isUn := v.(*ssa.UnOp); !isUn {
			return ""
		}
	}
	for _, cl := range returnErrClasses(v, 0) {
		if cl.wraps != nil {
			return "errwrap:" + cl.wraps.Name()
		}
		if cl.global != nil {
			return "err:" + cl.global.Name()
		}
	}
	return ""
}
