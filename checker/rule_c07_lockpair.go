package main

// C07/lock-paired — every acquisition of a library mutex is released on every path to the function's return
// (directly or by a deferred unlock registered on that path).

import (
	"fmt"

	"golang.org/x/tools/go/ssa"
)

func checkLockPaired(c *Ctx, r *Report) {
	rule := "C07/lock-paired"
	n := 0
	for _, fn := range c.LibFns {
		k := 0
		for _, ci := range callInstrs(fn) {
			call, ok := ci.(*ssa.Call)
			if !ok {
				continue
			}
			key, op, ok := lockOp(call)
			if !ok || (op != "Lock" && op != "RLock") {
				continue
			}
			want := "Unlock"
			if op == "RLock" {
				want = "RUnlock"
			}
			n++
			k++
			construct := fmt.Sprintf("%s %s#%d of %s", shortFn(fn), op, k, key)
			release := func(in ssa.Instruction) bool {
				ci2, ok := in.(ssa.CallInstruction)
				if !ok {
					return false
				}
				if _, isGo := in.(*ssa.Go); isGo {
					return false
				}
				k2, op2, ok := lockOp(ci2)
				return ok && op2 == want && k2 == key
			}
			rr := reachFrom(fn, call, release, nil)
			var leak ssa.Instruction
			for _, b := range fn.Blocks {
				for _, in := range b.Instrs {
					if isReturn(in) && rr.visited[in] && leak == nil {
						leak = in
					}
				}
			}
			if leak != nil {
				r.Bad(rule, construct, c.Pos(call.Pos()), fmt.Sprintf("a path from this %s reaches the return at %s without releasing the mutex (no %s, no deferred %s on that path): the next acquisition -- the read loop's next read, or Transport.Close taking the read lock -- blocks forever", op, c.Pos(leak.Pos()), want, want), rr.witness(c, leak)...)
			} else {
				r.OK(rule, construct, c.Pos(call.Pos()), "released (or its release deferred) on every path to a return")
			}
		}
	}
	if n == 0 {
		r.Unk(rule, "mutex acquisitions", "-", "no Lock/RLock on a struct-field mutex found in the library")
	}
}
