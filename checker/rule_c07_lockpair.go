package main

// C07/lock-paired — every acquisition of a library mutex is released on every path to the function's return
// (directly or by a deferred unlock registered on that path).

import (
	"fmt"

	"golang.org/x/tools/go/ssa"
)

func checkLockPaired(c *Ctx, r *Report) {
	rule := "C07/lock-paired"
	n := 0
	for _, fn := range c.LibFns {
		k := 0
		for _, ci := range callInstrs(fn) {
			call, ok := ci.(*ssa.Call)
			if !ok {
				continue
			}
			key, op, ok := lockOp(call)
			if !ok || (op != "Lock" && op != "RLock") {
				continue
			}
			want := "Unlock"
			if op == "RLock" {
				want = "RUnlock"
			}
			n++
			k++
			construct := fmt.Sprintf("%s %s#%d of %s", shortFn(fn), op, k, key)
			release := func(in ssa.Instruction) bool {
				ci2, ok := in.(ssa.CallInstruction)
				if !ok {
					return false
				}
				if _, isGo := in.(*ssa.Go); isGo {
					return false
				}
				k2, op2, ok := lockOp(ci2)
				return ok && op2 == want && k2 == key
			}
			rr := reachFrom(fn, call, release, nil)
			var leak ssa.Instruction
			for _, b := range fn.Blocks {
				for _, in := range b.Instrs {
					if isReturn(in) && rr.visited[in] && leak == nil {
						leak = in
					}
				}
			}
			if leak != nil {
				r.Bad(rule, construct, c.Pos(call.Pos()), fmt.Sprintf("a path from this %s reaches the return at %s without releasing the mutex (no %s, no deferred %s on that path): the next acquisition -- the read loop's next read, or Transport.Close taking the read lock -- blocks forever", op, c.Pos(leak.Pos()), want, want), rr.witness(c, leak)...)
			} else {
				r.OK(rule, construct, c.Pos(call.Pos()), "released (or its release deferred) on every path to a return")
			}
		}
	}
	if n == 0 {
		r.Unk(rule, "mutex acquisitions", "-", "no Lock/RLock on a struct-field mutex found in the library")
	}
}

// checkEOFChain: the channel reader recognises "the peer closed the stream" with errors.Is(err, io.EOF) and then leaves
// quietly; every function that hands a transport read error upwards must therefore keep the chain (return it as is, or
// wrap it with %w). A %v/%s wrap turns EOF into an ordinary error: the reader forwards it to Errs and parks there, and
// the next Close closes Errs under it (panic: send on closed channel).
func checkEOFChain(c *Ctx, r *Report) {
	rule := "C07/eof-chain"
	var fns []*ssa.Function
	for _, impl := range []string{"System", "Standard", "Telnet", "File"} {
		if fn := c.LookupFunc("transport", impl, "Read"); fn != nil {
			fns = append(fns, fn)
		}
	}
	for _, n := range []string{"read", "Read", "ReadN"} {
		if fn := c.LookupFunc("transport", "Transport", n); fn != nil {
			fns = append(fns, fn)
		}
	}
	if len(fns) < 5 {
		r.Anchor(rule, "transport.{System,Standard,Telnet}.Read / Transport.read / Read / ReadN")
		return
	}
	for _, fn := range fns {
		construct := shortFn(fn) + " keeps the error chain"
		bad := ""
		pos := c.Pos(fn.Pos())
		undec := false
		allInstrs(fn, func(in ssa.Instruction) {
			call, ok := in.(*ssa.Call)
			if !ok {
				return
			}
			verbs, decided := relayedErrorVerbs(call)
			if !decided {
				undec = true
				pos = c.Pos(call.Pos())
				return
			}
			for _, v := range verbs {
				if v != 'w' {
					bad = "a read error is wrapped with a verb other than %w: errors.Is(err, io.EOF) in the channel's read loop no longer recognises that the peer closed the stream, so the reader forwards the error and parks in the send on Errs -- where the next Close kills it (send on closed channel)"
					pos = c.Pos(call.Pos())
				}
			}
		})
		switch {
		case bad != "":
			r.Bad(rule, construct, pos, bad)
		case undec:
			r.Unk(rule, construct, pos, "an error is built with a non-constant format")
		default:
			r.OK(rule, construct, pos, "read errors are returned as they are or wrapped with %w")
		}
	}
}
