package main

// C05/deadline-chain — errors relayed from a worker to its operation keep their chain, so that the operation's
// errors.Is(err, context.DeadlineExceeded) classification (-> ErrTimeoutError) sees an expired deadline.

import (
	"fmt"
	"go/types"
	"strings"

	"golang.org/x/tools/go/ssa"
)

// varargValues lists the values packed into a `new [n]T; slice` varargs argument, by index; nil when v is not such a pack.
func varargValues(v ssa.Value) []ssa.Value {
	sl, ok := v.(*ssa.Slice)
	if !ok {
		return nil
	}
	a, ok := sl.X.(*ssa.Alloc)
	if !ok {
		return nil
	}
	byIdx := map[int64]ssa.Value{}
	max := int64(-1)
	for _, ref := range *a.Referrers() {
		ia, ok := ref.(*ssa.IndexAddr)
		if !ok {
			continue
		}
		idx, ok := constInt(ia.Index)
		if !ok {
			return nil
		}
		for _, r2 := range *ia.Referrers() {
			if s, ok := r2.(*ssa.Store); ok {
				byIdx[idx] = s.Val
				if idx > max {
					max = idx
				}
			}
		}
	}
	out := make([]ssa.Value, max+1)
	for i := range out {
		out[i] = byIdx[int64(i)]
	}
	return out
}

// formatVerbs returns the verb letter consumed by each successive operand of a Printf-style format
// ('*' width/precision operands are reported as '*'); explicit argument indexes make the result nil.
func formatVerbs(f string) []byte {
	var out []byte
	for i := 0; i < len(f); i++ {
		if f[i] != '%' {
			continue
		}
		i++
		for i < len(f) && strings.IndexByte("+-# 0123456789.", f[i]) >= 0 {
			i++
		}
		if i >= len(f) {
			break
		}
		switch f[i] {
		case '%':
		case '[':
			return nil
		case '*':
			out = append(out, '*')
			i-- // re-scan the flags that follow
			i++
			for i+1 < len(f) && strings.IndexByte("+-# 0123456789.", f[i+1]) >= 0 {
				i++
			}
			if i+1 < len(f) {
				i++
				out = append(out, f[i])
			}
		default:
			out = append(out, f[i])
		}
	}
	return out
}

// relayedErrorVerbs: for a fmt.Errorf call, the verbs under which non-sentinel error operands are formatted.
// A sentinel is a load of a package-level variable (util.ErrTimeoutError, ...).
func relayedErrorVerbs(call *ssa.Call) (verbs []byte, decided bool) {
	o := CalleeObj(call)
	if o == nil || o.Pkg() == nil || o.Pkg().Path() != "fmt" || o.Name() != "Errorf" || len(call.Call.Args) != 2 {
		return nil, true
	}
	format, ok := constString(call.Call.Args[0])
	if !ok {
		return nil, false
	}
	if isNilConst(call.Call.Args[1]) {
		return nil, true
	}
	args := varargValues(call.Call.Args[1])
	fv := formatVerbs(format)
	if args == nil || fv == nil {
		return nil, false
	}
	for i, a := range args {
		if a == nil {
			continue
		}
		inner := a
		switch x := a.(type) {
		case *ssa.MakeInterface:
			inner = x.X
		case *ssa.ChangeInterface:
			inner = x.X
		}
		if !isErrorType(inner.Type()) {
			continue
		}
		if u, ok := inner.(*ssa.UnOp); ok {
			if _, isG := u.X.(*ssa.Global); isG {
				continue
			}
		}
		if i < len(fv) {
			verbs = append(verbs, fv[i])
		} else {
			verbs = append(verbs, '!')
		}
	}
	return verbs, true
}

func checkDeadlineChain(c *Ctx, r *Report) {
	rule := "C05/deadline-chain"
	n := 0
	// positive example for the operand/verb pairing (the tree itself has no wrapper to show it on)
	if string(formatVerbs("reading back input of event %d (%q): %v")) != "dqv" || string(formatVerbs("%w: at %5.2f%% of %*d %s")) != "wf*ds" {
		r.Unk(rule, "format scanner self-check", "-", "the Printf verb scanner does not pair operands with verbs as expected")
		return
	}
	sendsResult := func(fn *ssa.Function) bool {
		found := false
		allInstrs(fn, func(in ssa.Instruction) {
			send, ok := in.(*ssa.Send)
			if !ok {
				return
			}
			pt, ok := send.X.Type().Underlying().(*types.Pointer)
			if !ok {
				return
			}
			st, ok := pt.Elem().Underlying().(*types.Struct)
			if !ok {
				return
			}
			for i := 0; i < st.NumFields(); i++ {
				if isErrorType(st.Field(i).Type()) {
					found = true
				}
			}
		})
		return found
	}
	capturesCtx := func(fn *ssa.Function) bool {
		for _, fv := range fn.FreeVars {
			t := fv.Type()
			if p, ok := t.(*types.Pointer); ok {
				t = p.Elem()
			}
			if isContextType(t) {
				return true
			}
		}
		return false
	}
	domain := 0
	for _, fn := range c.LibFns {
		if !(hasCtxParam(fn) || capturesCtx(fn) || sendsResult(fn)) {
			continue
		}
		domain++
		allInstrs(fn, func(in ssa.Instruction) {
			call, ok := in.(*ssa.Call)
			if !ok {
				return
			}
			verbs, decided := relayedErrorVerbs(call)
			if !decided {
				n++
				r.Unk(rule, "relayed error in "+shortFn(fn), c.Pos(call.Pos()), "the format of an error built on the deadline path is not a constant / its operands are not a literal list")
				return
			}
			if len(verbs) == 0 {
				return
			}
			n++
			construct := fmt.Sprintf("error wrapped in %s", shortFn(fn))
			bad := false
			for _, v := range verbs {
				if v != 'w' {
					bad = true
				}
			}
			if bad {
				r.Bad(rule, construct, c.Pos(call.Pos()), "a context-bounded reader / worker builds the error it hands on with fmt.Errorf, formatting the underlying error with a verb other than %w: the chain to context.DeadlineExceeded is cut, so a stall at this point is reported as a plain error instead of ErrTimeoutError")
			} else {
				r.OK(rule, construct, c.Pos(call.Pos()), "wrapped with %w")
			}
		})
	}
	if domain < 10 {
		r.Unk(rule, "deadline-path functions", "-", fmt.Sprintf("only %d context-taking / result-sending functions found (>= 10 confirmed by reading)", domain))
	}
	// the rule is mostly about absence: state what was looked at
	r.Notes = append(r.Notes, fmt.Sprintf("C05/deadline-chain: %d context-taking / result-sending functions scanned, %d fmt.Errorf wrappers of relayed errors found", domain, n))
	r.OK(rule, "deadline-path functions relay errors unwrapped or with %w", "-", fmt.Sprintf("%d functions scanned, %d wrapper(s) inspected", domain, n))
}
