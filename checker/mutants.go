package main

// Seeded mutants (thorough tier self-validation). Each mutant is a
// string-anchored edit applied to a scratch copy of the tree under test; the
// checker is run on the copy in a separate process and must report a
// violation of the named rule. Scratch copies live under os.TempDir and are
// removed immediately.

import (
	"encoding/json"
	"fmt"
	"io"
	"io/fs"
	"os"
	"os/exec"
	"path/filepath"
	"sort"
	"strings"
	"sync"
)

type Edit struct {
	File string // relative to repo root
	Old  string
	New  string
}

type Mutant struct {
	ID    string
	Desc  string
	Edits []Edit
	Rule  string // rule id (prefix) that must report it; "" = any rule of the property
	Patch string // instead of Edits: a unified diff (an independently seeded change kept under <verif>/seeded)
}

// seededPatches lists the independently produced breaking changes kept for a property (DESIGN.md Appendix B) whose
// recorded validation says the property's own check reports them; the thorough tier replays them as mutants.
func seededPatches(verifDir, prop string) []Mutant {
	ds, _ := filepath.Glob(filepath.Join(verifDir, "seeded", prop+"-*"))
	sort.Strings(ds)
	var out []Mutant
	for _, d := range ds {
		pf := filepath.Join(d, "patch.diff")
		if _, err := os.Stat(pf); err != nil {
			continue
		}
		mb, err := os.ReadFile(filepath.Join(d, "meta.json"))
		if err != nil {
			continue
		}
		var meta struct {
			Checks map[string]json.RawMessage `json:"checks_reporting"`
		}
		if json.Unmarshal(mb, &meta) != nil {
			continue
		}
		if _, ok := meta.Checks[prop]; !ok {
			continue // recorded as reported by another property's check only (or by none): not this check's obligation
		}
		out = append(out, Mutant{ID: "seeded/" + filepath.Base(d), Desc: "independently seeded change", Patch: pf})
	}
	return out
}

func applyPatch(root, patch string) bool {
	cmd := exec.Command("git", "apply", "--whitespace=nowarn", patch)
	cmd.Dir = root
	cmd.Env = append(os.Environ(), "GIT_CEILING_DIRECTORIES="+filepath.Dir(root))
	return cmd.Run() == nil
}

func copyTree(src, dst string) error {
	return filepath.WalkDir(src, func(p string, d fs.DirEntry, err error) error {
		if err != nil {
			return err
		}
		rel, _ := filepath.Rel(src, p)
		if rel == ".git" {
			return filepath.SkipDir
		}
		target := filepath.Join(dst, rel)
		if d.IsDir() {
			return os.MkdirAll(target, 0o755)
		}
		if !d.Type().IsRegular() {
			return nil
		}
		in, err := os.Open(p)
		if err != nil {
			return err
		}
		defer in.Close()
		out, err := os.Create(target)
		if err != nil {
			return err
		}
		defer out.Close()
		_, err = io.Copy(out, in)
		return err
	})
}

func applyEdits(root string, edits []Edit) (bool, error) {
	for _, e := range edits {
		p := filepath.Join(root, e.File)
		b, err := os.ReadFile(p)
		if err != nil {
			return false, nil // anchor file gone: skip
		}
		s := string(b)
		if strings.Count(s, e.Old) != 1 {
			return false, nil
		}
		s = strings.Replace(s, e.Old, e.New, 1)
		if err := os.WriteFile(p, []byte(s), 0o644); err != nil {
			return false, err
		}
	}
	return true, nil
}

func runMutants(p *Property, repo, verifDir string) (map[string]interface{}, []string) {
	self, err := os.Executable()
	if err != nil {
		return map[string]interface{}{"error": err.Error()}, []string{"cannot locate own binary"}
	}
	type res struct {
		id, status, detail string
	}
	all := append(append([]Mutant{}, p.Mutants...), seededPatches(verifDir, p.ID)...)
	results := make([]res, len(all))
	sem := make(chan struct{}, 6)
	var wg sync.WaitGroup
	for i, m := range all {
		wg.Add(1)
		go func(i int, m Mutant) {
			defer wg.Done()
			sem <- struct{}{}
			defer func() { <-sem }()
			results[i] = res{id: m.ID}
			scratch, err := os.MkdirTemp("", "scrapcheck-mut-")
			if err != nil {
				results[i].status = "error"
				results[i].detail = err.Error()
				return
			}
			defer os.RemoveAll(scratch)
			tree := filepath.Join(scratch, "repo")
			vdir := filepath.Join(scratch, "verif")
			_ = os.MkdirAll(filepath.Join(vdir, "evidence"), 0o755)
			if err := copyTree(repo, tree); err != nil {
				results[i].status = "error"
				results[i].detail = err.Error()
				return
			}
			if b, err := os.ReadFile(filepath.Join(verifDir, "known_findings.txt")); err == nil {
				_ = os.WriteFile(filepath.Join(vdir, "known_findings.txt"), b, 0o644)
			}
			var ok bool
			if m.Patch != "" {
				ok = applyPatch(tree, m.Patch)
			} else {
				ok, err = applyEdits(tree, m.Edits)
			}
			if err != nil {
				results[i].status = "error"
				results[i].detail = err.Error()
				return
			}
			if !ok {
				results[i].status = "skipped"
				results[i].detail = "anchor text does not apply to the tree under test"
				return
			}
			cmd := exec.Command(self, "-prop", p.ID, "-tier", "quick", "-repo", tree, "-verif", vdir)
			cmd.Env = append(os.Environ(), "GOFLAGS=-mod=mod", "GOPROXY=off", "GOSUMDB=off", "GOTOOLCHAIN=local", "GOWORK=off")
			out, _ := cmd.CombinedOutput()
			s := string(out)
			code := cmd.ProcessState.ExitCode()
			hit := false
			for _, line := range strings.Split(s, "\n") {
				if (m.Rule == "" || strings.Contains(line, "["+m.Rule)) && (strings.Contains(line, ": violated:") || strings.Contains(line, ": undecided:")) {
					hit = true
				}
			}
			switch {
			case code == 1 && hit:
				results[i].status = "detected"
			case code == 1:
				results[i].status = "detected-other-rule"
				results[i].detail = firstLines(s, 6)
			default:
				results[i].status = "MISSED"
				results[i].detail = fmt.Sprintf("exit %d: %s", code, firstLines(s, 6))
			}
		}(i, m)
	}
	wg.Wait()
	var fails []string
	det, skipped := 0, 0
	list := []interface{}{}
	sort.Slice(results, func(i, j int) bool { return results[i].id < results[j].id })
	for _, r := range results {
		list = append(list, map[string]string{"id": r.id, "status": r.status, "detail": r.detail})
		switch r.status {
		case "detected":
			det++
		case "skipped":
			skipped++
		default:
			fails = append(fails, r.id+" ("+r.status+") "+r.detail)
		}
	}
	return map[string]interface{}{"applied": len(results) - skipped, "detected": det, "skipped": skipped, "results": list}, fails
}

func firstLines(s string, n int) string {
	ls := strings.Split(strings.TrimSpace(s), "\n")
	if len(ls) > n {
		ls = ls[:n]
	}
	return strings.Join(ls, " | ")
}
