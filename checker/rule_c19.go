package main

// C19 — driver options land on their target regardless of order; user options win.

import (
	"fmt"
	"go/ast"
	"go/constant"
	"go/token"
	"go/types"
	"sort"
	"strings"

	"golang.org/x/tools/go/ssa"
)

// specification: option -> the setting(s) it names and where the value comes from.
var specDriverOptions = map[string][]string{
	"WithAuthUsername":                    {"transport.Args.User<-param0"},
	"WithAuthPassword":                    {"transport.Args.Password<-param0"},
	"WithAuthSecondary":                   {"network.Driver.AuthSecondary<-param0"},
	"WithAuthPassphrase":                  {"transport.SSHArgs.PrivateKeyPassPhrase<-param0"},
	"WithAuthBypass":                      {"channel.Channel.AuthBypass<-const:true"},
	"WithPromptSearchDepth":               {"channel.Channel.PromptSearchDepth<-param0"},
	"WithPromptPattern":                   {"channel.Channel.PromptPattern<-param0"},
	"WithUsernamePattern":                 {"channel.Channel.UsernamePattern<-param0"},
	"WithPasswordPattern":                 {"channel.Channel.PasswordPattern<-param0"},
	"WithPassphrasePattern":               {"channel.Channel.PassphrasePattern<-param0"},
	"WithReturnChar":                      {"channel.Channel.ReturnChar<-param0"},
	"WithTimeoutOps":                      {"channel.Channel.TimeoutOps<-param0"},
	"WithReadDelay":                       {"channel.Channel.ReadDelay<-param0"},
	"WithChannelLog":                      {"channel.Channel.ChannelLog<-param0"},
	"WithCustomTransport":                 {"transport.Args.UserImplementation<-param0"},
	"WithTransportReadSize":               {"transport.Args.ReadSize<-param0"},
	"WithPort":                            {"transport.Args.Port<-param0"},
	"WithTermHeight":                      {"transport.Args.TermHeight<-param0"},
	"WithTermWidth":                       {"transport.Args.TermWidth<-param0"},
	"WithTimeoutSocket":                   {"transport.Args.TimeoutSocket<-param0"},
	"WithAuthPrivateKey":                  {"transport.SSHArgs.PrivateKeyPath<-param0", "transport.SSHArgs.PrivateKeyPassPhrase<-param1"},
	"WithAuthNoStrictKey":                 {"transport.SSHArgs.StrictKey<-const:false"},
	"WithSSHConfigFile":                   {"transport.SSHArgs.ConfigFile<-call:util.ResolveFilePath(param0)#0"},
	"WithSSHConfigFileSystem":             {"transport.SSHArgs.ConfigFile<-call:util.ResolveFilePath(const:\"~/.ssh/config\")#0", "transport.SSHArgs.ConfigFile<-call:util.ResolveFilePath(const:\"/etc/ssh/ssh_config\")#0"},
	"WithSSHKnownHostsFile":               {"transport.SSHArgs.KnownHostsFile<-call:util.ResolveFilePath(param0)#0"},
	"WithSSHKnownHostsFileSystem":         {"transport.SSHArgs.KnownHostsFile<-call:util.ResolveFilePath(const:\"~/.ssh/known_hosts\")#0", "transport.SSHArgs.KnownHostsFile<-call:util.ResolveFilePath(const:\"/etc/ssh/ssh_known_hosts\")#0"},
	"WithSystemTransportOpenBin":          {"transport.System.OpenBin<-param0"},
	"WithSystemTransportOpenArgs":         {"transport.System.ExtraArgs<-append(self,param0)"},
	"WithSystemTransportOpenArgsOverride": {"transport.System.OpenArgs<-param0"},
	"WithStandardTransportExtraCiphers":   {"transport.Standard.ExtraCiphers<-param0"},
	"WithStandardTransportExtraKexs":      {"transport.Standard.ExtraKexs<-param0"},
	"WithFileTransportFile":               {"transport.File.F<-param0"},
	"WithTransportType":                   {"generic.Driver.TransportType<-param0"},
	"WithFailedWhenContains":              {"generic.Driver.FailedWhenContains<-param0"},
	"WithOnOpen":                          {"generic.Driver.OnOpen<-param0"},
	"WithOnClose":                         {"generic.Driver.OnClose<-param0"},
	"WithNetworkOnOpen":                   {"network.Driver.OnOpen<-param0"},
	"WithNetworkOnClose":                  {"network.Driver.OnClose<-param0"},
	"WithNetconfPreferredVersion":         {"netconf.Driver.PreferredVersion<-param0"},
	"WithNetconfForceSelfClosingTags":     {"netconf.Driver.ForceSelfClosingTags<-const:true"},
	"WithNetconfExcludeHeader":            {"netconf.Driver.ExcludeHeader<-const:true"},
	"WithLogger":                          {"generic.Driver.Logger<-param0"},
	"WithDefaultLogger":                   {"generic.Driver.Logger<-call:logging.NewInstance(call:logging.WithLevel(const:\"info\"),call:logging.WithLogger(func))#0"},
	"WithPrivilegeLevels":                 {"network.Driver.PrivilegeLevels<-param0"},
	"WithDefaultDesiredPriv":              {"network.Driver.DefaultDesiredPriv<-param0"},
}

var specLoggingOptions = map[string][]string{
	"WithLevel":     {"logging.Instance.Level<-call:strings.ToLower(param0)"},
	"WithLogger":    {"logging.Instance.Loggers<-append(self,param0)"},
	"WithFormatter": {"logging.Instance.Formatter<-param0"},
}

// platform option name -> driver option it must produce
var specPlatformOptions = map[string]string{
	"port": "WithPort", "auth-bypass": "WithAuthBypass", "auth-strict-key": "WithAuthNoStrictKey",
	"prompt-pattern": "WithPromptPattern", "username-pattern": "WithUsernamePattern", "password-pattern": "WithPasswordPattern",
	"passphrase-pattern": "WithPassphrasePattern", "return-char": "WithReturnChar", "read-delay": "WithReadDelay",
	"timeout-ops": "WithTimeoutOps", "transport-type": "WithTransportType", "read-size": "WithTransportReadSize",
	"transport-pty-height": "WithTermHeight", "transport-pty-width": "WithTermWidth", "transport-system-open-args": "WithSystemTransportOpenArgs",
}

func init() {
	register(&Property{
		ID:  "C19",
		Run: runC19,
		Explanation: "Option-table extraction over every exported util.Option constructor of driver/options and logging (SSA of the returned closure): asserted target type, fields stored, provenance of the stored value, returns. " +
			"O1: the non-matching path returns exactly the ignored sentinel, never after a store; success is never returned without the store; other errors wrap the bad-option error (file-resolution exceptions named). " +
			"O2: stores go only to fields of the asserted target. O3: each option stores exactly the setting the specification table names, from its own parameter/constant. " +
			"O4: every public constructor (generic, network, NETCONF, platform) applies the FULL list, in range order, to every target type the options assert, skipping only the ignored sentinel and never leaving the loop early. " +
			"O5: options do not read other settings (order independence), additive ones append; the platform constructor passes append(platformOptions, userOptions...). " +
			"O6: netconf.NewDriver copies every field it re-declares from the generic driver. O7: every platform option name has a case producing the option the table names, asserting a Go type yaml.v3 can produce. " +
			"Permutation testing is replaced by the order-independence argument (O5) plus last-writer-wins by range order (O4).",
		Assumptions: []string{"option constructors are the exported functions returning util.Option", "specification tables in checker/rule_c19.go encode 'the setting it names'"},
		Mutants: []Mutant{
			{ID: "C19-unchecked-assert", Desc: "WithReturnChar asserts the channel type without the ok form (panics on every other object it is offered to)", Rule: "C19/asserts-checked",
				Edits: []Edit{{File: "driver/options/channel.go", Old: "\t\tc, ok := o.(*channel.Channel)\n\n\t\tif !ok {\n\t\t\treturn util.ErrIgnoredOption\n\t\t}\n\n\t\tc.ReturnChar = []byte(s)\n", New: "\t\tif _, isDriver := o.(*channel.Channel); !isDriver && o == nil {\n\t\t\treturn util.ErrIgnoredOption\n\t\t}\n\n\t\tc := o.(*channel.Channel)\n\n\t\tc.ReturnChar = []byte(s)\n"}}},
			{ID: "C19-resolve-before-assertion", Desc: "WithSSHConfigFile resolves the path before looking at the object", Rule: "C19/ignored-first",
				Edits: []Edit{{File: "driver/options/transportssh.go", Old: "func WithSSHConfigFile(s string) util.Option {\n\treturn func(o interface{}) error {\n\t\ta, ok := o.(*transport.SSHArgs)\n\n\t\tif !ok {\n\t\t\treturn util.ErrIgnoredOption\n\t\t}\n\n\t\tsshF, err := util.ResolveFilePath(s)\n\t\tif err != nil {\n\t\t\treturn util.ErrFileNotFoundError\n\t\t}\n", New: "func WithSSHConfigFile(s string) util.Option {\n\treturn func(o interface{}) error {\n\t\tsshF, err := util.ResolveFilePath(s)\n\t\tif err != nil {\n\t\t\treturn util.ErrFileNotFoundError\n\t\t}\n\n\t\ta, ok := o.(*transport.SSHArgs)\n\n\t\tif !ok {\n\t\t\treturn util.ErrIgnoredOption\n\t\t}\n"}}},
			{ID: "C19-stale-verdict", Desc: "generic NewDriver checks err behind the default-logger block, where it can still hold the last option's ErrIgnoredOption", Rule: "C19/verdict-in-loop-only",
				Edits: []Edit{{File: "driver/generic/driver.go", Old: "\t\tvar l *logging.Instance\n\n\t\tl, err = logging.NewInstance()\n\t\tif err != nil {\n\t\t\treturn nil, err\n\t\t}\n\n\t\td.Logger = l\n\t}\n", New: "\t\td.Logger, err = logging.NewInstance()\n\t}\n\n\tif err != nil {\n\t\treturn nil, err\n\t}\n"}}},
			{ID: "C19-tilde-cutset", Desc: "ResolveFilePath strips the home prefix with TrimLeft (a character set) instead of TrimPrefix", Rule: "C19/no-cutset-for-prefix",
				Edits: []Edit{{File: "util/file.go", Old: "strings.TrimPrefix(f, \"~/\")", New: "strings.TrimLeft(f, \"~/\")"}}},
			{ID: "C19-factory-forgets-args-error", Desc: "NewTransport goes on to build the transport without looking at the error of NewSSHArgs", Rule: "C19/error-before-use",
				Edits: []Edit{{File: "transport/factory.go", Old: "\t\t\tsshArgs, err = NewSSHArgs(options...)\n\t\t\tif err != nil {\n\t\t\t\treturn nil, err\n\t\t\t}\n", New: "\t\t\tsshArgs, err = NewSSHArgs(options...)\n"}}},
			{ID: "C19-platform-rewraps-option-error", Desc: "the platform constructor prints the driver constructor's error instead of wrapping it", Rule: "C19/constructors-relay",
				Edits: []Edit{{File: "platform/definition.go", Old: "\t\td, err = generic.NewDriver(host, finalOpts...)\n\t\tif err != nil {\n\t\t\treturn err\n\t\t}", New: "\t\td, err = generic.NewDriver(host, finalOpts...)\n\t\tif err != nil {\n\t\t\treturn fmt.Errorf(\"%w: failed creating generic driver: %s\", util.ErrPlatformError, err)\n\t\t}"}}},
			{ID: "C19-shared-ssh-args", Desc: "NewSSHArgs hands out one package-level SSHArgs", Rule: "C19/fresh-objects",
				Edits: []Edit{{File: "transport/transport.go", Old: "\ta := &SSHArgs{\n\t\tStrictKey: defaultSSHStrictKey,\n\t}\n", New: "\ta := &sharedSSHArgs\n"}, {File: "transport/transport.go", Old: "// NewSSHArgs returns an instance of SSH arguments", New: "var sharedSSHArgs = SSHArgs{StrictKey: defaultSSHStrictKey} //nolint:gochecknoglobals\n\n// NewSSHArgs returns an instance of SSH arguments"}}},
			{ID: "C19-transport-type-checked-lowercase", Desc: "WithTransportType validates the lower-cased name but stores the original", Rule: "C19/validated-is-stored",
				Edits: []Edit{{File: "driver/options/generic.go", Old: "\t\tswitch transportType {", New: "\t\tswitch strings.ToLower(transportType) {"}, {File: "driver/options/generic.go", Old: "import (\n\t\"fmt\"\n", New: "import (\n\t\"fmt\"\n\t\"strings\"\n"}}},
			{ID: "C19-wrong-field", Desc: "WithTermWidth stores TermHeight", Rule: "C19/O3",
				Edits: []Edit{{File: "driver/options/transport.go", Old: "a.TermWidth = i", New: "a.TermHeight = i"}}},
			{ID: "C19-platform-order", Desc: "platform options appended after the user's", Rule: "C19/O5",
				Edits: []Edit{{File: "platform/definition.go", Old: "finalOpts := p.AsOptions()\n\tfinalOpts = append(finalOpts, opts...)", New: "finalOpts := append([]util.Option{}, opts...)\n\tfinalOpts = append(finalOpts, p.AsOptions()...)"}}},
			{ID: "C19-channel-noopts", Desc: "channel built without the option list", Rule: "C19/O4",
				Edits: []Edit{{File: "driver/generic/driver.go", Old: "channel.NewChannel(d.Logger, d.Transport, opts...)", New: "channel.NewChannel(d.Logger, d.Transport)"}}},
			{ID: "C19-break-on-ignored", Desc: "transport args loop stops at the first ignored option", Rule: "C19/O4",
				Edits: []Edit{{File: "transport/transport.go", Old: "for _, option := range options {\n\t\terr := option(a)\n\t\tif err != nil {\n\t\t\tif !errors.Is(err, util.ErrIgnoredOption) {\n\t\t\t\treturn nil, err\n\t\t\t}\n\t\t}\n\t}\n\n\treturn a, nil\n}\n\n// Args is", New: "for _, option := range options {\n\t\terr := option(a)\n\t\tif err != nil {\n\t\t\tif !errors.Is(err, util.ErrIgnoredOption) {\n\t\t\t\treturn nil, err\n\t\t\t}\n\n\t\t\tbreak\n\t\t}\n\t}\n\n\treturn a, nil\n}\n\n// Args is"}}},
			{ID: "C19-ignored-after-store", Desc: "option stores, then reports itself ignored", Rule: "C19/O1O2",
				Edits: []Edit{{File: "driver/options/channel.go", Old: "c.ReadDelay = t\n\n\t\treturn nil", New: "c.ReadDelay = t\n\n\t\treturn util.ErrIgnoredOption"}}},
			{ID: "C19-reads-other", Desc: "option depends on another setting", Rule: "C19/O",
				Edits: []Edit{{File: "driver/options/transport.go", Old: "a.Port = i\n", New: "if a.Port == 22 {\n\t\t\ta.Port = i\n\t\t}\n"}}},
			{ID: "C19-netconf-logger", Desc: "netconf constructor drops the configured logger", Rule: "C19/O6",
				Edits: []Edit{{File: "driver/netconf/driver.go", Old: "Logger:        gd.Logger,\n", New: ""}}},
			{ID: "C19-platform-wrong-option", Desc: "platform pty height feeds the width option", Rule: "C19/O7",
				Edits: []Edit{{File: "platform/options.go", Old: "opts[i] = options.WithTermHeight(intVal)", New: "opts[i] = options.WithTermWidth(intVal)"}}},
			{ID: "C19-platform-truncated-seconds", Desc: "platform readDelay truncated to whole seconds before scaling", Rule: "C19/O7",
				Edits: []Edit{{File: "platform/options.go", Old: "opts[i] = options.WithReadDelay(\n\t\t\t\ttime.Duration(floatVal * float64(time.Second)),\n\t\t\t)", New: "opts[i] = options.WithReadDelay(time.Duration(floatVal) * time.Second)"}}},
			{ID: "C19-ctor-resets-zero-delay", Desc: "NewChannel replaces a zero read delay by the default after the options ran", Rule: "C19/O8",
				Edits: []Edit{{File: "channel/channel.go", Old: "\t\t\t\treturn nil, err\n\t\t\t}\n\t\t}\n\t}\n\n\treturn c, nil\n}", New: "\t\t\t\treturn nil, err\n\t\t\t}\n\t\t}\n\t}\n\n\tif c.ReadDelay <= 0 {\n\t\tc.ReadDelay = DefaultReadDelayMicroSeconds * time.Microsecond\n\t}\n\n\treturn c, nil\n}"}}},
			{ID: "C19-side-effect", Desc: "telnet transport type also rewrites the failure strings", Rule: "C19/O3",
				Edits: []Edit{{File: "driver/options/generic.go", Old: "d.TransportType = transportType\n", New: "d.TransportType = transportType\n\t\t\td.FailedWhenContains = nil\n"}}},
		},
	})
}

func runC19(c *Ctx, r *Report) {
	r.Rule("C19/definition-decoder", "platform definitions are decoded by yaml.v3 only (the option table asserts the Go types that decoder produces)", 1)
	checkDefinitionDecoder(c, r, "C19/definition-decoder")
	r.Rule("C19/asserts-checked", "every type assertion of the library is comma-ok or part of a type switch (an option or definition value of an unexpected type is an error, never a panic)", 1)
	checkNoUncheckedAssert(c, r, "C19/asserts-checked")
	r.Rule("C19/no-shared-defaults", "no constructor copies maps or lock pointers out of a package-level value (options applied to one object never show up in another)", 1)
	checkNoSharedDefaults(c, r, "C19/no-shared-defaults")
	r.Rule("C19/settings-writers", "a setting an option can store is otherwise written only by constructors and by its listed run-time owner", 5)
	checkSettingsWriters(c, r, "C19/settings-writers", nil)
	r.Rule("C19/ignored-first", "before it has examined the type of the object it is applied to an option returns no error other than the rejection of its own value (bad-option)", 40)
	checkOptionIgnoredFirst(c, r, "C19/ignored-first")
	r.Rule("C19/constructors-relay", "constructors hand on the errors of options and nested constructors unwrapped or wrapped with %w", 1)
	checkConstructorsRelayErrors(c, r, "C19/constructors-relay")
	r.Rule("C19/no-cutset-for-prefix", "no strings/bytes Trim, TrimLeft or TrimRight is handed a constant set of two or more distinct non-blank characters (a prefix or suffix was meant: the value an option stores is the value the caller named)", 1)
	checkNoCutsetForPrefix(c, r, "C19/no-cutset-for-prefix")
	r.Rule("C19/float-scaled-first", "wherever the library converts a float to an integer type (a Duration) the scaling to the unit comes before the conversion, in whatever helper the conversion sits", 1)
	checkFloatScaledBeforeConversion(c, r, "C19/float-scaled-first")
	r.Rule("C19/verdict-in-loop-only", "the error an option returned is examined inside the constructor's apply loop and never again behind it (a tolerated ErrIgnoredOption of the last option cannot fail the constructor)", 4)
	checkOptionVerdictNotReexamined(c, r, "C19/verdict-in-loop-only")
	r.Rule("C19/error-before-use", "in the constructors (and the helpers they reach) no product of a call is used before the error that came with it has been tested: an option that one constructor rejected is not forgotten by the next", 1)
	checkValueBeforeErrorCheck(c, r, "C19/error-before-use", constructorScope(c), "constructors")
	importFoundation(c, r, "C19", "platform-fresh")
	r.Rule("C19/O1O2", "ignored sentinel only on the non-matching path and never after a store; no success without the store; stores only into the asserted target", 45)
	r.Rule("C19/O3", "each option stores exactly the setting the specification names, taking the value from its own parameter or constant", 45)
	r.Rule("C19/O4", "every constructor applies the full option list, in order, to every target type, skipping only the ignored sentinel", 6)
	r.Rule("C19/fresh-objects", "every exported New* constructor of the library hands out an object allocated by that call: settings applied to one driver / transport / channel / operation never show up in another", 15)
	checkFreshConstructors(c, r, "C19/fresh-objects", nil, "the object is shared between callers, so a setting applied through one of them is in force for all the others")
	r.Rule("C19/validated-is-stored", "an option that checks its argument against a list of valid values stores the very value it checked", 2)
	checkValidatedIsStored(c, r, "C19/validated-is-stored")
	r.Rule("C19/O5", "options do not read other settings; platform constructor passes platform options first and user options after", 1)
	r.Rule("C19/O6", "netconf.NewDriver copies every field it re-declares from the generic driver", 3)
	r.Rule("C19/O8", "behind its apply loop a constructor assigns an option-settable field only to default it while it is still nil", 9)
	r.Rule("C19/O7", "every platform option name has a case producing the driver option the table names, from a value asserted to a type yaml.v3 can produce", 14)

	infos := checkOptionTable(c, r, "C19", "driver/options", specDriverOptions, nil)
	linfos := checkOptionTable(c, r, "C19", "logging", specLoggingOptions, nil)
	// O3(i): no two options store the same setting, except synonyms
	synonyms := map[string]bool{
		"transport.SSHArgs.ConfigFile": true, "transport.SSHArgs.KnownHostsFile": true, // explicit path vs system default
		"transport.SSHArgs.PrivateKeyPassPhrase": true, // WithAuthPassphrase / WithAuthPrivateKey
		"generic.Driver.Logger":                  true, // WithLogger / WithDefaultLogger
	}
	byField := map[string][]string{}
	for name, oi := range infos {
		seen := map[string]bool{}
		for _, s := range oi.Stores {
			k := s.Target + "." + s.Field
			if !seen[k] {
				seen[k] = true
				byField[k] = append(byField[k], name)
			}
		}
	}
	for k, names := range byField {
		sort.Strings(names)
		allKnown := true
		for _, n := range names {
			if _, ok := specDriverOptions[n]; !ok {
				allKnown = false
			}
		}
		if len(names) > 1 && !synonyms[k] && !allKnown {
			r.Notes = append(r.Notes, fmt.Sprintf("C19/O3: setting %s is written by %v, one of which is not in the specification table (a second spelling of an option is not a violation)", k, names))
		}
		if len(names) > 1 && !synonyms[k] && allKnown {
			r.Bad("C19/O3", "setting "+k, "-", fmt.Sprintf("setting %s is written by several options %v: each takes effect on something it does not name", k, names))
		}
	}
	_ = linfos
	checkNoPostLoopOverride(c, r, infos)

	// targets the options assert
	targets := map[string]bool{}
	for _, oi := range infos {
		for _, t := range oi.Targets {
			targets[t] = true
		}
	}
	checkConstructors(c, r, targets)
	checkPlatformOrder(c, r)
	checkNetconfRedeclared(c, r)
	checkPlatformOptionSwitch(c, r)
	tl := keysOf(targets)
	r.Extra["option_targets"] = tl
	r.Extra["driver_options"] = len(infos)
	r.Extra["logging_options"] = len(linfos)
}

// ---- O4 ---------------------------------------------------------------------

// derivesFull reports whether v is the full list `list` or a superset built by append.
func derivesFull(v, list ssa.Value, depth int) bool {
	if v == list {
		return true
	}
	if depth > 5 {
		return false
	}
	switch x := v.(type) {
	case *ssa.Call:
		if b, ok := x.Call.Value.(*ssa.Builtin); ok && b.Name() == "append" {
			for _, a := range x.Call.Args {
				if derivesFull(a, list, depth+1) {
					return true
				}
			}
		}
	case *ssa.Phi:
		for _, e := range x.Edges {
			if !derivesFull(e, list, depth+1) {
				return false
			}
		}
		return len(x.Edges) > 0
	case *ssa.UnOp:
		// load of a local holding the list
		if x.Op == token.MUL {
			if a, ok := x.X.(*ssa.Alloc); ok {
				okAll := false
				for _, ref := range *a.Referrers() {
					if st, ok := ref.(*ssa.Store); ok && st.Addr == a {
						if !derivesFull(st.Val, list, depth+1) {
							return false
						}
						okAll = true
					}
				}
				return okAll
			}
		}
	}
	return false
}

type applySite struct {
	Type string
	Pos  token.Pos
	Fn   *ssa.Function
}

// concreteTypesOf enumerates the dynamic types an interface-typed SSA value may hold (through phis/locals).
func concreteTypesOf(v ssa.Value, seen map[ssa.Value]bool, out map[string]bool) {
	if seen[v] {
		return
	}
	seen[v] = true
	switch x := v.(type) {
	case *ssa.MakeInterface:
		out[typeShort(x.X.Type())] = true
	case *ssa.ChangeInterface:
		concreteTypesOf(x.X, seen, out)
	case *ssa.Phi:
		for _, e := range x.Edges {
			concreteTypesOf(e, seen, out)
		}
	case *ssa.UnOp:
		if x.Op == token.MUL {
			if a, ok := x.X.(*ssa.Alloc); ok {
				for _, ref := range *a.Referrers() {
					if st, ok := ref.(*ssa.Store); ok && st.Addr == a {
						concreteTypesOf(st.Val, seen, out)
					}
				}
				return
			}
			if f, _, ok := fieldLoad(x); ok {
				out["<"+f.Name()+">"] = true
			}
		}
	case *ssa.Const:
		// nil
	case *ssa.Extract:
		// result of a constructor call returning (T, error): static result type
		if call, ok := x.Tuple.(*ssa.Call); ok {
			if sc := call.Call.StaticCallee(); sc != nil {
				t := sc.Signature.Results().At(x.Index).Type()
				if !types.IsInterface(t) {
					out[typeShort(t)] = true
				} else if len(sc.Blocks) > 0 && sc.Pkg != nil && isLibPkgPath(sc.Pkg.Pkg.Path()) {
					// a helper that selects the implementation: whatever its returns may hold
					allInstrs(sc, func(in ssa.Instruction) {
						if ret, ok := in.(*ssa.Return); ok && x.Index < len(ret.Results) {
							concreteTypesOf(ret.Results[x.Index], seen, out)
						}
					})
				}
			}
		}
	}
}

func (c *Ctx) applyTargets(fn *ssa.Function, list ssa.Value, r *Report, visited map[*ssa.Function]bool, out map[string]bool) {
	c.applyTargetsBound(fn, list, r, map[string]bool{}, out, nil)
}

// applyTargetsBound: bind maps the parameters of fn to the caller's values, so that an apply loop written once in a
// helper (applyOptions(o interface{}, options)) is attributed to the type each call site passes for o.
func (c *Ctx) applyTargetsBound(fn *ssa.Function, list ssa.Value, r *Report, visited map[string]bool, out map[string]bool, bind map[*ssa.Parameter]ssa.Value) {
	vk := fmt.Sprintf("%p", fn)
	for _, p := range fn.Params {
		if b := bind[p]; b != nil {
			vk += fmt.Sprintf("/%p", b)
		}
	}
	if visited[vk] {
		return
	}
	visited[vk] = true
	resolve := func(v ssa.Value) ssa.Value {
		if p, ok := v.(*ssa.Parameter); ok && bind[p] != nil {
			return bind[p]
		}
		return v
	}
	ignored := c.LookupVar("util", "ErrIgnoredOption")
	for _, ci := range callInstrs(fn) {
		call, ok := ci.(*ssa.Call)
		if !ok {
			continue
		}
		cc := call.Common()
		// (a) application: callee value is a load of list[idx]
		if u, ok := cc.Value.(*ssa.UnOp); ok && u.Op == token.MUL && len(cc.Args) == 1 {
			if ia, ok := u.X.(*ssa.IndexAddr); ok && derivesFull(ia.X, list, 0) {
				construct := shortFn(fn) + " apply-loop"
				// ordered, complete iteration: index is (phi + 1) of a rangeindex loop
				hdr := rangeHeader(ia.Index)
				if hdr == nil {
					r.Unk("C19/O4", construct, c.Pos(call.Pos()), "option list is not iterated by a range loop; iteration order/completeness cannot be established")
					continue
				}
				arg := resolve(cc.Args[0])
				ts := map[string]bool{}
				if mi, ok := arg.(*ssa.MakeInterface); ok {
					ts[typeShort(mi.X.Type())] = true
				} else {
					concreteTypesOf(arg, map[ssa.Value]bool{}, ts)
				}
				names := keysOf(ts)
				construct = shortFn(fn) + " apply-loop " + strings.Join(names, ",")
				if msg := c.loopSkipsOnlyIgnored(fn, call, hdr, ignored); msg != "" {
					r.Bad("C19/O4", construct, c.Pos(call.Pos()), msg)
				} else if skip := successAvoidsLoop(fn, hdr); skip != nil {
					r.Bad("C19/O4", construct, c.Pos(call.Pos()), fmt.Sprintf("the constructor can return successfully (%s) without having run this apply loop: on that path -- e.g. when the object was supplied by the user instead of built here -- every option aimed at the %s is silently dropped", c.Pos(skip.Pos()), strings.Join(names, "/")))
				} else {
					r.OK("C19/O4", construct, c.Pos(call.Pos()), "range loop over the full list; leaves only on a non-ignored error")
				}
				for t := range ts {
					out[t] = true
				}
			}
			continue
		}
		// (b) forwarding to a library callee's variadic parameter
		sc := cc.StaticCallee()
		if sc == nil || sc.Pkg == nil || !isLibPkgPath(sc.Pkg.Pkg.Path()) || sc.Blocks == nil {
			continue
		}
		for i, a := range cc.Args {
			if i < len(sc.Params) && derivesFull(a, list, 0) {
				nb := map[*ssa.Parameter]ssa.Value{}
				for j, other := range cc.Args {
					if j != i && j < len(sc.Params) {
						nb[sc.Params[j]] = resolve(other)
					}
				}
				c.applyTargetsBound(sc, sc.Params[i], r, visited, out, nb)
			}
		}
	}
}

// rangeHeader returns the loop header block if idx is the induction value of a
// go/ssa range-over-slice loop (phi(-1, next); next = phi + 1), else nil.
func rangeHeader(idx ssa.Value) *ssa.BasicBlock {
	// the counted spelling of the same loop: for i := 0; i < len(s); i++ { ... s[i] ... }
	if phi, ok := idx.(*ssa.Phi); ok && isCountingPhi(phi) {
		if k, ok := constInt(phi.Edges[0]); ok && k != 0 {
			return nil
		}
		if k, ok := constInt(phi.Edges[1]); ok && k != 0 {
			return nil
		}
		if cmp, ok := ifCond(phi.Block()).(*ssa.BinOp); ok && cmp.X == ssa.Value(phi) {
			isLen := func(v ssa.Value) bool {
				call, ok := v.(*ssa.Call)
				if !ok {
					return false
				}
				bi, ok := call.Call.Value.(*ssa.Builtin)
				return ok && bi.Name() == "len"
			}
			// i < len(s)   or   i <= len(s)-1
			if cmp.Op == token.LSS && isLen(cmp.Y) {
				return phi.Block()
			}
			if sub, ok := cmp.Y.(*ssa.BinOp); ok && cmp.Op == token.LEQ && sub.Op == token.SUB && isLen(sub.X) {
				if k, ok := constInt(sub.Y); ok && k == 1 {
					return phi.Block()
				}
			}
		}
		return nil
	}
	b, ok := idx.(*ssa.BinOp)
	if !ok || b.Op != token.ADD {
		return nil
	}
	one, ok := constInt(b.Y)
	if !ok || one != 1 {
		return nil
	}
	phi, ok := b.X.(*ssa.Phi)
	if !ok || len(phi.Edges) < 2 {
		return nil
	}
	nInit, nNext := 0, 0
	for _, e := range phi.Edges {
		if v, ok := constInt(e); ok && v == -1 {
			nInit++
		} else if e == idx {
			nNext++
		} else {
			return nil
		}
	}
	if nInit != 1 || nNext == 0 {
		return nil
	}
	return phi.Block()
}

// loopBlocks: natural loop of header h.
func loopBlocks(h *ssa.BasicBlock) map[*ssa.BasicBlock]bool {
	in := map[*ssa.BasicBlock]bool{h: true}
	var work []*ssa.BasicBlock
	for _, p := range h.Preds {
		if h.Dominates(p) && !in[p] {
			in[p] = true
			work = append(work, p)
		}
	}
	for len(work) > 0 {
		b := work[len(work)-1]
		work = work[:len(work)-1]
		for _, p := range b.Preds {
			if !in[p] && h.Dominates(p) {
				in[p] = true
				work = append(work, p)
			}
		}
	}
	return in
}

type edgeCond struct {
	Cond  ssa.Value
	Truth bool
}

// edgeConds lists branch conditions known on entry to blk (dominating single-pred edges).
func edgeConds(blk *ssa.BasicBlock) []edgeCond {
	var out []edgeCond
	cur := blk
	for {
		d := cur.Idom()
		if d == nil {
			break
		}
		if cond := ifCond(d); cond != nil && len(d.Succs) == 2 && d.Succs[0] != d.Succs[1] {
			for i, s := range d.Succs {
				if (s == cur || s.Dominates(cur)) && len(s.Preds) == 1 {
					out = append(out, edgeCond{cond, i == 0})
				}
			}
		}
		cur = d
	}
	return out
}

// loopSkipsOnlyIgnored: after the option call, control either returns to the
// loop header or leaves through a return guarded by errors.Is(err, Ignored)==false.
func (c *Ctx) loopSkipsOnlyIgnored(fn *ssa.Function, call *ssa.Call, hdr *ssa.BasicBlock, ignored *types.Var) string {
	loop := loopBlocks(hdr)
	if !loop[call.Block()] {
		return "option call is not inside the range loop"
	}
	stop := func(in ssa.Instruction) bool { return in.Block() == hdr }
	rr := reachFrom(fn, call, stop, nil)
	exits := map[*ssa.BasicBlock]bool{}
	for in := range rr.visited {
		b := in.Block()
		if !loop[b] {
			exits[b] = true
		}
	}
	for b := range exits {
		// only the outermost exit blocks matter: predecessor inside loop
		fromLoop := false
		for _, p := range b.Preds {
			if loop[p] && p != hdr {
				fromLoop = true
			}
		}
		if !fromLoop {
			continue
		}
		guarded := false
		for _, ec := range edgeConds(b) {
			v, neg := unwrapNot(ec.Cond)
			truth := ec.Truth
			if neg {
				truth = !truth
			}
			if cl, ok := v.(*ssa.Call); ok && !truth && isIgnoredSentinelTest(cl, ignored, 0) {
				guarded = true
			}
		}
		endsInReturn := false
		if n := len(b.Instrs); n > 0 {
			_, endsInReturn = b.Instrs[n-1].(*ssa.Return)
		}
		if !guarded || !endsInReturn {
			return fmt.Sprintf("the loop can be left after an option was applied without a non-ignored error (block %d, %s): later options in the list are not applied", b.Index, c.Pos(firstPos(b)))
		}
	}
	return ""
}

func firstPos(b *ssa.BasicBlock) token.Pos {
	for _, in := range b.Instrs {
		if in.Pos().IsValid() {
			return in.Pos()
		}
	}
	return token.NoPos
}

func checkConstructors(c *Ctx, r *Report, targets map[string]bool) {
	type ctor struct {
		pkg, name string
		exclude   []string
	}
	ctors := []ctor{
		{"driver/generic", "NewDriver", []string{"network.Driver", "netconf.Driver"}},
		{"driver/network", "NewDriver", []string{"netconf.Driver"}},
		{"driver/netconf", "NewDriver", []string{"network.Driver"}},
	}
	for _, ct := range ctors {
		fn := c.LookupFunc(ct.pkg, "", ct.name)
		if fn == nil {
			r.Anchor("C19/O4", ct.pkg+"."+ct.name)
			continue
		}
		var list ssa.Value
		if n := len(fn.Params); n > 0 && fn.Signature.Variadic() {
			list = fn.Params[n-1]
		}
		if list == nil {
			r.Unk("C19/O4", ct.pkg+"."+ct.name, c.Pos(fn.Pos()), "constructor has no variadic option list")
			continue
		}
		got := map[string]bool{}
		c.applyTargets(fn, list, r, map[*ssa.Function]bool{}, got)
		ex := map[string]bool{}
		for _, e := range ct.exclude {
			ex[e] = true
		}
		for _, t := range keysOf(targets) {
			if ex[t] {
				continue
			}
			construct := ct.pkg + "." + ct.name + " covers " + t
			if got[t] {
				r.OK("C19/O4", construct, c.Pos(fn.Pos()), "full list applied")
			} else {
				r.Bad("C19/O4", construct, c.Pos(fn.Pos()), fmt.Sprintf("constructor %s.%s never applies the full option list to a %s: options for it have no effect (applied to: %v)", ct.pkg, ct.name, t, keysOf(got)))
			}
		}
	}
}

// ---- O5: platform order --------------------------------------------------------

func checkPlatformOrder(c *Ctx, r *Report) {
	fn := c.LookupFunc("platform", "", "setDriver")
	if fn == nil {
		r.Anchor("C19/O5", "platform.setDriver")
		return
	}
	asOpts := c.LookupFunc("platform", "Platform", "AsOptions")
	var user ssa.Value
	if n := len(fn.Params); n > 0 && fn.Signature.Variadic() {
		user = fn.Params[n-1]
	}
	if asOpts == nil || user == nil {
		r.Anchor("C19/O5", "(*platform.Platform).AsOptions / setDriver options")
		return
	}
	n := 0
	for _, ci := range callInstrs(fn) {
		call, ok := ci.(*ssa.Call)
		if !ok {
			continue
		}
		sc := call.Call.StaticCallee()
		if sc == nil || sc.Name() != "NewDriver" || !sc.Signature.Variadic() {
			continue
		}
		n++
		arg := call.Call.Args[len(call.Call.Args)-1]
		construct := "setDriver -> " + shortFn(sc)
		msg := platformThenUser(c, arg, asOpts, user)
		if msg == "" {
			r.OK("C19/O5", construct, c.Pos(call.Pos()), "append(platform options, user options...)")
		} else {
			r.Bad("C19/O5", construct, c.Pos(call.Pos()), msg)
		}
	}
	if n == 0 {
		r.Unk("C19/O5", "setDriver constructors", c.Pos(fn.Pos()), "setDriver calls no NewDriver constructor")
	}
}

// platformThenUser: v must be append(X, user...) where X derives from AsOptions() and not from user.
func platformThenUser(c *Ctx, v ssa.Value, asOpts *ssa.Function, user ssa.Value) string {
	// see through locals
	for i := 0; i < 4; i++ {
		if u, ok := v.(*ssa.UnOp); ok && u.Op == token.MUL {
			if a, ok := u.X.(*ssa.Alloc); ok {
				var last ssa.Value
				cnt := 0
				for _, ref := range *a.Referrers() {
					if st, ok := ref.(*ssa.Store); ok && st.Addr == a {
						last = st.Val
						cnt++
					}
				}
				if cnt == 1 {
					v = last
					continue
				}
			}
		}
		break
	}
	call, ok := v.(*ssa.Call)
	if !ok {
		return "option list passed to the constructor is not an append of platform and user options"
	}
	b, ok := call.Call.Value.(*ssa.Builtin)
	if !ok || b.Name() != "append" || len(call.Call.Args) != 2 {
		return "option list passed to the constructor is not an append of platform and user options"
	}
	first, second := call.Call.Args[0], call.Call.Args[1]
	fromPlatform := func(x ssa.Value) bool {
		var rec func(x ssa.Value, d int) bool
		rec = func(x ssa.Value, d int) bool {
			if d > 5 {
				return false
			}
			switch y := x.(type) {
			case *ssa.Call:
				if sc := y.Call.StaticCallee(); sc == asOpts {
					return true
				}
				if bb, ok := y.Call.Value.(*ssa.Builtin); ok && bb.Name() == "append" {
					return rec(y.Call.Args[0], d+1)
				}
			}
			return false
		}
		return rec(x, 0)
	}
	if !fromPlatform(first) || derivesFull(first, user, 0) {
		return "the user's options do not come after the platform definition's options: a platform setting overrides the user's"
	}
	if second != user {
		return "the list appended after the platform options is not the user's option list"
	}
	return ""
}

// ---- O6 -------------------------------------------------------------------------

func checkNetconfRedeclared(c *Ctx, r *Report) {
	fn := c.LookupFunc("driver/netconf", "", "NewDriver")
	nd := c.LookupType("driver/netconf", "Driver")
	gd := c.LookupType("driver/generic", "Driver")
	if fn == nil || nd == nil || gd == nil {
		r.Anchor("C19/O6", "netconf.NewDriver / netconf.Driver / generic.Driver")
		return
	}
	gst := gd.Underlying().(*types.Struct)
	nst := nd.Underlying().(*types.Struct)
	gfields := map[string]*types.Var{}
	for i := 0; i < gst.NumFields(); i++ {
		gfields[gst.Field(i).Name()] = gst.Field(i)
	}
	// stores in NewDriver to fields of a *netconf.Driver
	copied := map[string]bool{}
	allInstrs(fn, func(in ssa.Instruction) {
		f, base, val, ok := fieldStore(in)
		if !ok {
			return
		}
		pt, ok := base.Type().Underlying().(*types.Pointer)
		if !ok || !types.Identical(pt.Elem(), nd) {
			return
		}
		if gf, srcBase, ok := fieldLoad(val); ok && gf.Name() == f.Name() {
			if spt, ok := srcBase.Type().Underlying().(*types.Pointer); ok && types.Identical(spt.Elem(), gd) {
				copied[f.Name()] = true
			}
		}
	})
	for i := 0; i < nst.NumFields(); i++ {
		f := nst.Field(i)
		g := gfields[f.Name()]
		if g == nil || !types.Identical(g.Type(), f.Type()) || !f.Exported() {
			continue
		}
		construct := "netconf.Driver." + f.Name()
		if copied[f.Name()] {
			r.OK("C19/O6", construct, c.Pos(fn.Pos()), "copied from the generic driver")
		} else {
			r.Bad("C19/O6", construct, c.Pos(fn.Pos()), fmt.Sprintf("netconf.NewDriver re-declares %s but does not copy it from the generic driver it builds: the driver option that sets generic.Driver.%s has no effect on the NETCONF driver", f.Name(), f.Name()))
		}
	}
}

// ---- O7 -------------------------------------------------------------------------

func checkPlatformOptionSwitch(c *Ctx, r *Report) {
	fd, p := c.funcDecl("platform", "optionDefinitions", "asOptions")
	if fd == nil {
		r.Anchor("C19/O7", "(*platform.optionDefinitions).asOptions")
		return
	}
	var sw *switchInfo
	for _, s := range stringSwitchesDeep(p, fd, 2) {
		if f := selField(p, s.Tag); f != nil && f.Name() == "Option" {
			sw = s
		}
	}
	if sw == nil {
		r.Unk("C19/O7", "asOptions switch", c.Pos(fd.Pos()), "no switch over the option name found")
		return
	}
	yamlTypes := map[string]bool{"string": true, "int": true, "float64": true, "bool": true, "[]interface {}": true, "[]interface{}": true,
		"map[string]interface {}": true, "map[string]interface{}": true, "int64": true, "uint64": true, "time.Time": true, "[]any": true, "map[string]any": true}
	// option-name constants: string constants declared in the file of asOptions
	file := c.FileOf(fd.Pos())
	declared := map[string]token.Pos{}
	if file != nil {
		for _, d := range file.Decls {
			gd, ok := d.(*ast.GenDecl)
			if !ok || gd.Tok != token.CONST {
				continue
			}
			for _, sp := range gd.Specs {
				vs := sp.(*ast.ValueSpec)
				for _, n := range vs.Names {
					if co, ok := p.TypesInfo.Defs[n].(*types.Const); ok && co.Val().Kind() == constant.String {
						declared[constant.StringVal(co.Val())] = n.Pos()
					}
				}
			}
		}
	}
	for _, name := range keysOfPos(declared) {
		if _, ok := sw.Clauses[name]; !ok {
			r.Bad("C19/O7", "platform option "+name, c.Pos(declared[name]), fmt.Sprintf("platform option name %q is declared but asOptions has no case for it: a definition naming it gets a nil option (panic)", name))
		}
	}
	names := append([]string{}, sw.Cases...)
	sort.Strings(names)
	for _, name := range names {
		cc := sw.Clauses[name]
		construct := "platform option " + name
		var problems []string
		// asserted type
		asserted := ""
		var assertedObj types.Object
		ast.Inspect(cc, func(n ast.Node) bool {
			as, ok := n.(*ast.AssignStmt)
			if !ok || len(as.Rhs) != 1 {
				return true
			}
			ta, ok := ast.Unparen(as.Rhs[0]).(*ast.TypeAssertExpr)
			if !ok || ta.Type == nil {
				return true
			}
			if f := selField(p, ta.X); f != nil && f.Name() == "Value" && asserted == "" {
				asserted = types.TypeString(p.TypesInfo.TypeOf(ta.Type), nil)
				if len(as.Lhs) > 0 {
					assertedObj = identObj(p, as.Lhs[0])
				}
			}
			return true
		})
		if asserted != "" && !yamlTypes[asserted] {
			problems = append(problems, fmt.Sprintf("the value is asserted to %s, a type yaml.v3 never produces for an interface{} target: every definition using the option panics", asserted))
		}
		// produced option
		var produced []string
		usesValue := false
		ast.Inspect(cc, func(n ast.Node) bool {
			var call *ast.CallExpr
			switch st := n.(type) {
			case *ast.AssignStmt:
				if len(st.Lhs) != 1 || len(st.Rhs) != 1 {
					return true
				}
				if _, ok := ast.Unparen(st.Lhs[0]).(*ast.IndexExpr); !ok {
					return true
				}
				call, _ = ast.Unparen(st.Rhs[0]).(*ast.CallExpr)
			case *ast.ReturnStmt:
				// the per-entry spelling: the clause returns the option instead of storing it into its slot
				if len(st.Results) >= 1 {
					call, _ = ast.Unparen(st.Results[0]).(*ast.CallExpr)
				}
			}
			if call == nil {
				return true
			}
			var fobj types.Object
			switch f := ast.Unparen(call.Fun).(type) {
			case *ast.SelectorExpr:
				fobj = p.TypesInfo.Uses[f.Sel]
			case *ast.Ident:
				fobj = p.TypesInfo.Uses[f]
			}
			if fo, ok := fobj.(*types.Func); ok && fo.Pkg() != nil && strings.HasSuffix(fo.Pkg().Path(), "driver/options") {
				produced = append(produced, fo.Name())
				for _, a := range call.Args {
					ast.Inspect(a, func(m ast.Node) bool {
						if id, ok := m.(*ast.Ident); ok && assertedObj != nil && p.TypesInfo.Uses[id] != nil {
							if valueDerives(p, cc, p.TypesInfo.Uses[id], assertedObj) {
								usesValue = true
							}
						}
						return true
					})
				}
			}
			return true
		})
		// a float (seconds) value must be scaled before it is converted to an integer type: converting the bare
		// value first truncates fractional seconds (0.5 -> 0)
		if asserted == "float64" && assertedObj != nil {
			ast.Inspect(cc, func(n ast.Node) bool {
				call, ok := n.(*ast.CallExpr)
				if !ok || len(call.Args) != 1 {
					return true
				}
				tv, ok := p.TypesInfo.Types[call.Fun]
				if !ok || !tv.IsType() {
					return true
				}
				bt, ok := tv.Type.Underlying().(*types.Basic)
				if !ok || bt.Info()&types.IsInteger == 0 {
					return true
				}
				at, ok := p.TypesInfo.TypeOf(call.Args[0]).Underlying().(*types.Basic)
				if !ok || at.Info()&types.IsFloat == 0 || !mentions(p, call.Args[0], assertedObj, cc, 0) {
					return true
				}
				scaled := false
				ast.Inspect(call.Args[0], func(m ast.Node) bool {
					if be, ok := m.(*ast.BinaryExpr); ok && be.Op == token.MUL {
						scaled = true
					}
					return true
				})
				if !scaled {
					problems = append(problems, fmt.Sprintf("the float value is converted to %s before it is scaled: the fractional part of the definition's value is lost (0.5 becomes 0)", types.TypeString(tv.Type, nil)))
				}
				return true
			})
		}
		want, known := specPlatformOptions[name]
		switch {
		case len(produced) == 0:
			problems = append(problems, "the case does not assign a driver option to its slot: a nil option is applied (panic)")
		case known && (len(produced) != 1 || produced[0] != want):
			problems = append(problems, fmt.Sprintf("the case produces %v but the option name stands for %s", produced, want))
		}
		if asserted != "" && len(produced) > 0 && !usesValue {
			problems = append(problems, "the produced option does not take the definition's value")
		}
		if !known {
			r.Notes = append(r.Notes, fmt.Sprintf("C19/O7: platform option %q is not in the specification table (produces %v)", name, produced))
		}
		if len(problems) > 0 {
			r.Bad("C19/O7", construct, c.Pos(cc.Pos()), strings.Join(problems, "; "))
		} else {
			r.OK("C19/O7", construct, c.Pos(cc.Pos()), fmt.Sprintf("asserts %q -> %v", asserted, produced))
		}
	}
}

// valueDerives: obj is the asserted variable itself, or a local of the clause assigned from an expression mentioning it (one level, e.g. element-wise conversion).
func valueDerives(pk *packagesPackage, cc *ast.CaseClause, obj, asserted types.Object) bool {
	if obj == asserted {
		return true
	}
	found := false
	ast.Inspect(cc, func(n ast.Node) bool {
		switch s := n.(type) {
		case *ast.AssignStmt:
			for i, l := range s.Lhs {
				lo := identObj(pk, l)
				if lo == nil {
					// element assignment x[i] = ...
					if ix, ok := ast.Unparen(l).(*ast.IndexExpr); ok {
						lo = identObj(pk, ix.X)
					}
				}
				if lo != obj {
					continue
				}
				var rhs ast.Expr
				if i < len(s.Rhs) {
					rhs = s.Rhs[i]
				} else if len(s.Rhs) == 1 {
					rhs = s.Rhs[0]
				}
				if rhs != nil && mentions(pk, rhs, asserted, cc, 0) {
					found = true
				}
			}
		case *ast.RangeStmt:
			// for i, v := range asserted { obj[i] = f(v) }
			if mentions(pk, s.X, asserted, cc, 0) {
				for _, kv := range []ast.Expr{s.Key, s.Value} {
					if kv != nil {
						if ko := identObj(pk, kv); ko != nil {
							ast.Inspect(s.Body, func(m ast.Node) bool {
								if as, ok := m.(*ast.AssignStmt); ok {
									for i, l := range as.Lhs {
										var lo types.Object
										if ix, ok := ast.Unparen(l).(*ast.IndexExpr); ok {
											lo = identObj(pk, ix.X)
										} else {
											lo = identObj(pk, l)
										}
										if lo == obj && i < len(as.Rhs) {
											found = true
										}
									}
								}
								return true
							})
						}
					}
				}
			}
		}
		return true
	})
	return found
}

func mentions(pk *packagesPackage, e ast.Expr, obj types.Object, cc *ast.CaseClause, depth int) bool {
	hit := false
	ast.Inspect(e, func(n ast.Node) bool {
		if id, ok := n.(*ast.Ident); ok {
			if pk.TypesInfo.Uses[id] == obj {
				hit = true
			}
		}
		return true
	})
	return hit
}

func keysOfPos(m map[string]token.Pos) []string {
	var ks []string
	for k := range m {
		ks = append(ks, k)
	}
	sort.Strings(ks)
	return ks
}

// successAvoidsLoop: a return with a nil error that is reachable from the function entry without entering the loop
// headed by hdr (nil when there is none).
func successAvoidsLoop(fn *ssa.Function, hdr *ssa.BasicBlock) ssa.Instruction {
	rr := reachFrom(fn, nil, func(in ssa.Instruction) bool { return in.Block() == hdr }, nil)
	var found ssa.Instruction
	for _, b := range fn.Blocks {
		for _, in := range b.Instrs {
			ret, ok := in.(*ssa.Return)
			if !ok || !rr.visited[in] || len(ret.Results) == 0 || (len(b.Preds) == 0 && b.Index != 0) {
				continue
			}
			last := ret.Results[len(ret.Results)-1]
			if !isErrorType(last.Type()) {
				continue
			}
			v := last
			if u, ok := v.(*ssa.UnOp); ok {
				if a, ok := u.X.(*ssa.Alloc); ok {
					if sv := lastStoreBefore(a, u); sv != nil {
						v = sv
					}
				}
			}
			if isNilConst(v) {
				found = in
			}
		}
	}
	return found
}

// isIgnoredSentinelTest: cl is errors.Is(x, util.ErrIgnoredOption), or a call of a one-line helper of the library
// that returns exactly that test of its parameter.
func isIgnoredSentinelTest(cl *ssa.Call, ignored *types.Var, depth int) bool {
	if ignored == nil || depth > 1 {
		return false
	}
	if o := CalleeObj(cl); o != nil && o.Pkg() != nil && o.Pkg().Path() == "errors" && o.Name() == "Is" && len(cl.Call.Args) == 2 {
		if u, ok := cl.Call.Args[1].(*ssa.UnOp); ok {
			if g, ok := u.X.(*ssa.Global); ok && g.Object() == ignored {
				return true
			}
		}
		return false
	}
	h := cl.Call.StaticCallee()
	if h == nil || h.Pkg == nil || !isLibPkgPath(h.Pkg.Pkg.Path()) || len(h.Blocks) != 1 || len(h.Params) != 1 || len(cl.Call.Args) != 1 {
		return false
	}
	ok := false
	allInstrs(h, func(in ssa.Instruction) {
		if ret, isRet := in.(*ssa.Return); isRet && len(ret.Results) == 1 {
			if inner, isCall := ret.Results[0].(*ssa.Call); isCall && len(inner.Call.Args) == 2 && inner.Call.Args[0] == ssa.Value(h.Params[0]) && isIgnoredSentinelTest(inner, ignored, depth+1) {
				ok = true
			}
		}
	})
	return ok
}
