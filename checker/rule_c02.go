package main

// C02 — NETCONF replies decode to exactly the payload, or are explicitly failed.

import (
	"fmt"
	"go/token"
	"go/types"
	"strings"

	"golang.org/x/tools/go/ssa"
)

func init() {
	register(&Property{
		ID:  "C02",
		Run: runC02,
		Explanation: "Guarded-index analysis of the reply decoder (every function of package response reachable from NetconfResponse.Record, plus the NETCONF reader's id helper): for every index and slice operation the obligations 0 <= i < len(s) / 0 <= lo <= hi <= len(s) (len, not cap: reading up to the capacity returns bytes the server never sent) are discharged as linear inequalities from dominating branch edges, non-negativity of len() and of loop counters (inductive over phis) and case splits over phi operands; so decoding cannot panic on an index/slice and cannot over-read for ANY byte string. " +
			"Also: every strconv conversion error is checked and leads to an error return; every error of the chunk parser stores a non-nil OperationError in Failed; the success return of the chunk parser is reachable only through the end-of-chunks ('##') detection; on the 1.1 path the failure scan is also applied to the de-chunked payload (markers split by a chunk boundary); every value stored to Result derives from RawResult through slicing, append, bytes.Trim* and conversion only. " +
			"NOT decided: equality of Result with the payload for every chunk partition (cursor arithmetic beyond bounds), the message-boundary regular expressions of the reader, read segmentation.",
		Assumptions: []string{"no integer overflow in cursor arithmetic (sizes are bounded by the length of the data by the guards themselves)", "bytes.Trim*/TrimSpace/TrimPrefix return sub-slices of their argument", "bytes.IndexByte / strings.IndexByte return -1 or an index smaller than the length of their first argument (documented result)"},
		Mutants: []Mutant{
			{ID: "C02-marker-without-element", Desc: "recordFailed gives up when the error-text pattern finds nothing", Rule: "C02/mark-failed",
				Edits: []Edit{{File: "response/netconf.go", Old: "\tpatterns := getNetconfPatterns()\n\n\tr.Failed = &OperationError{", New: "\tpatterns := getNetconfPatterns()\n\n\tif patterns.rpcErrors.Find(b) == nil {\n\t\treturn\n\t}\n\n\tr.Failed = &OperationError{"}}},
			{ID: "C02-delimiter-before-preference", Desc: "the delimiter is installed before the preferred-version override", Rule: "C02/found-netconf-version",
				Edits: []Edit{{File: "driver/netconf/capabilities.go", Old: "\tswitch d.SelectedVersion {\n\tcase V1Dot0:\n\t\td.Channel.PromptPattern = ncPatterns.v1Dot0Delim\n\tcase V1Dot1:\n\t\td.Channel.PromptPattern = ncPatterns.v1Dot1Delim\n\t}\n\n\treturn nil", New: "\tif d.ServerHasCapability(v1Dot1Cap) {\n\t\td.Channel.PromptPattern = ncPatterns.v1Dot1Delim\n\t} else {\n\t\td.Channel.PromptPattern = ncPatterns.v1Dot0Delim\n\t}\n\n\treturn nil"}}},
			{ID: "C02-size-clamped", Desc: "a chunk size larger than what is left is clamped to the data received", Rule: "C02/size-as-declared",
				Edits: []Edit{{File: "response/netconf.go", Old: "\t\tif chunkSize <= 0 || chunkSize > len(d)-cursor {", New: "\t\tif chunkSize > len(d)-cursor {\n\t\t\tchunkSize = len(d) - cursor - len(\"\\n##\")\n\t\t}\n\n\t\tif chunkSize <= 0 {"}}},
			{ID: "C02-eom-open-ended", Desc: "1.1 end-of-chunks pattern loses its end-of-line anchor", Rule: "C02/eom-pattern-shape",
				Edits: []Edit{{File: "driver/netconf/driver.go", Old: "v1Dot1Delim = `(?m)^##$`", New: "v1Dot1Delim = `(?m)^##`"}}},
			{ID: "C02-eom-1dot0-short", Desc: "1.0 end-of-message pattern accepts a single ]]>", Rule: "C02/eom-pattern-shape",
				Edits: []Edit{{File: "driver/netconf/driver.go", Old: "\tv1Dot0Delim = `]]>]]>`", New: "\tv1Dot0Delim = `(]]>)+`"}}},
			{ID: "C02-eom-window", Desc: "reader looks for the end-of-message marker in the last 1000 bytes only", Rule: "C02/eom-whole-buffer",
				Edits: []Edit{{File: "driver/netconf/read.go", Old: "\t\tfor d.Channel.PromptPattern.Match(b) { //nolint: nestif", New: "\t\ttail := b\n\t\tif len(tail) > d.Channel.PromptSearchDepth {\n\t\t\ttail = tail[len(tail)-d.Channel.PromptSearchDepth:]\n\t\t}\n\n\t\tfor d.Channel.PromptPattern.Match(tail) { //nolint: nestif"},
					{File: "driver/netconf/read.go", Old: "\t\t\t\tb = []byte(ss[1])\n\n\t\t\t\tcontinue", New: "\t\t\t\tb = []byte(ss[1])\n\t\t\t\ttail = b\n\n\t\t\t\tcontinue"},
					{File: "driver/netconf/read.go", Old: "\t\t\tb = nil\n\t\t}\n\n\t\ttime.Sleep(d.Channel.ReadDelay)", New: "\t\t\tb = nil\n\t\t\ttail = nil\n\t\t}\n\n\t\ttime.Sleep(d.Channel.ReadDelay)"}}},
			{ID: "C02-skip-unidentified", Desc: "any byte that is not a chunk marker is stepped over between chunks", Rule: "C02/skip-only-identified",
				Edits: []Edit{{File: "response/netconf.go", Old: "\t\tif d[cursor] == byte('\\n') {\n", New: "\t\tif d[cursor] != byte('#') {\n"}}},
			{ID: "C02-no-header-bound", Desc: "bound check after the chunk marker removed", Rule: "C02/bounds",
				Edits: []Edit{{File: "response/netconf.go", Old: "\t\tif cursor >= len(d) {\n\t\t\treturn errNetconf1Dot1ParseError(\n\t\t\t\t\"unable to parse netconf response: data ends inside a chunk header\",\n\t\t\t)\n\t\t}\n\n", New: ""}}},
			{ID: "C02-cap-instead-of-len", Desc: "chunk size compared with the capacity", Rule: "C02/bounds",
				Edits: []Edit{{File: "response/netconf.go", Old: "chunkSize > len(d)-cursor", New: "chunkSize > cap(d)-cursor"}}},
			{ID: "C02-negative-size", Desc: "non-positive sizes accepted", Rule: "C02/bounds",
				Edits: []Edit{{File: "response/netconf.go", Old: "if chunkSize <= 0 || chunkSize > len(d)-cursor {", New: "if chunkSize > len(d)-cursor {"}}},
			{ID: "C02-size-scan-unbounded", Desc: "size digits scanned past the data", Rule: "C02/bounds",
				Edits: []Edit{{File: "response/netconf.go", Old: "chunkSizeLen <= maxChunkSizeCharLen &&\n\t\t\tcursor+chunkSizeLen < len(d); chunkSizeLen++ {", New: "chunkSizeLen <= maxChunkSizeCharLen; chunkSizeLen++ {"}}},
			{ID: "C02-off-by-one-fit", Desc: "size may exceed the remaining data by one", Rule: "C02/bounds",
				Edits: []Edit{{File: "response/netconf.go", Old: "chunkSize > len(d)-cursor", New: "chunkSize > len(d)-cursor+1"}}},
			{ID: "C02-atoi-ignored", Desc: "size conversion error ignored", Rule: "C02/conv-checked",
				Edits: []Edit{{File: "response/netconf.go", Old: "\t\tchunkSize, err := strconv.Atoi(chunkSizeStr)\n\t\tif err != nil {", New: "\t\tchunkSize, err := strconv.Atoi(chunkSizeStr)\n\t\tif err != nil && len(chunkSizeStr) > maxChunkSizeCharLen {"}}},
			{ID: "C02-parse-error-not-failed", Desc: "parse error not recorded as failure", Rule: "C02/failed-on-parse-error",
				Edits: []Edit{{File: "response/netconf.go", Old: "\terr := r.record1dot1Chunks()\n\tif err != nil {\n\t\tr.Failed = &OperationError{", New: "\terr := r.record1dot1Chunks()\n\tif err != nil && r.Result != \"\" {\n\t\tr.Failed = &OperationError{"}}},
			{ID: "C02-terminator-optional", Desc: "missing end-of-chunks marker accepted", Rule: "C02/terminator-required",
				Edits: []Edit{{File: "response/netconf.go", Old: "\tif !terminated {\n\t\treturn errNetconf1Dot1ParseError(\n\t\t\t\"unable to parse netconf response: end of chunks marker missing\",\n\t\t)\n\t}\n\n", New: "\t_ = terminated\n\n"}}},
			{ID: "C02-classify-framed-only", Desc: "failure scan only on the framed bytes", Rule: "C02/classify-decoded",
				Edits: []Edit{{File: "response/netconf.go", Old: "\tif r.Failed == nil {\n\t\t// an rpc-error marker can be split by a chunk boundary in the framed bytes, so look at the\n\t\t// decoded payload too\n\t\tr.recordFailed([]byte(r.Result))\n\t}\n", New: ""}}},
			{ID: "C02-result-padded", Desc: "result taken from a scratch buffer sized by the header", Rule: "C02/provenance",
				Edits: []Edit{{File: "response/netconf.go", Old: "\t\tjoined = append(joined, d[cursor:cursor+chunkSize]...)\n", New: "\t\tscratch := make([]byte, chunkSize+1)\n\t\tcopy(scratch, d[cursor:cursor+chunkSize])\n\t\tjoined = append(joined, scratch...)\n"}}},
			{ID: "C02-id-unchecked", Desc: "reader id helper indexes without the length test", Rule: "C02/bounds",
				Edits: []Edit{{File: "driver/netconf/read.go", Old: "\tif len(match) != idOrSubMatchLen {\n\t\treturn 0\n\t}\n\n", New: ""}}},
		},
	})
}

func runC02(c *Ctx, r *Report) {
	r.Rule("C02/mark-only-on-marker", "recordFailed stores a failure only on the true edge of the failure-marker scan", 1)
	checkMarkOnlyOnMarker(c, r, "C02/mark-only-on-marker")
	importFoundation(c, r, "C02", "netconf-reader")
	importFoundation(c, r, "C02", "read-loop")
	importFoundation(c, r, "C02", "transport-pipe")
	importFoundation(c, r, "C02", "netconf-version")
	r.Rule("C02/mark-failed", "recordFailed stores a non-nil Failed on every path on which one of the response's failure markers was found in the bytes it was given", 1)
	checkNetconfMarkFailed(c, r, "C02/mark-failed")
	r.Rule("C02/bounds", "every index/slice of the decoder satisfies 0<=i<len / 0<=lo<=hi<=len (len, not cap) on every path", 8)
	r.Rule("C02/conv-checked", "every strconv conversion error is tested and leads to an error return", 1)
	r.Rule("C02/failed-on-parse-error", "every error of the chunk parser stores a non-nil OperationError in Failed", 1)
	r.Rule("C02/terminator-required", "the chunk parser's success return is reachable only through the end-of-chunks detection", 1)
	r.Rule("C02/classify-decoded", "on the 1.1 path the failure scan is also applied to the de-chunked payload", 1)
	r.Rule("C02/eom-whole-buffer", "the NETCONF reader applies the anchored end-of-message pattern to the whole accumulated buffer, never to a window of it", 1)
	r.Rule("C02/provenance", "every value stored to Result derives from RawResult through slicing, append, bytes.Trim* and conversion only", 2)

	checkEOMWholeBuffer(c, r)
	r.Rule("C02/eom-pattern-shape", "the end-of-message patterns the reader waits for are RFC 6242's delimiters and nothing shorter: the 1.1 pattern is bounded by line boundaries on both sides of ##, the 1.0 pattern requires the whole literal ]]>]]>", 2)
	checkEOMPatternShape(c, r, "C02/eom-pattern-shape")
	rec := c.LookupFunc("response", "NetconfResponse", "Record")
	if rec == nil {
		r.Anchor("C02/bounds", "(*response.NetconfResponse).Record")
		return
	}
	scope := c.reachFns([]*ssa.Function{rec}, func(_ ssa.CallInstruction, callee *ssa.Function) bool {
		return callee.Pkg != nil && callee.Pkg.Pkg.Path() == modPath+"/response"
	}, false)
	if g := c.LookupFunc("driver/netconf", "", "getID"); g != nil {
		scope[g] = true
	} else {
		r.Anchor("C02/bounds", "netconf.getID")
	}
	var fns []*ssa.Function
	for fn := range scope {
		fns = append(fns, fn)
	}
	sortFns(fns)
	r.Rule("C02/chunk-whole", "what the decode loop appends to the payload is the chunk's sub-slice of the received data as it is", 1)
	checkChunkAppendedWhole(c, r, "C02/chunk-whole", fns)
	r.Rule("C02/size-as-declared", "the chunk the decode loop appends is data[cursor : cursor+size] with size the converted header value itself on every path", 1)
	checkChunkSizeAsDeclared(c, r, "C02/size-as-declared", fns)
	names := []string{}
	for _, fn := range fns {
		names = append(names, shortFn(fn))
		n := 0
		for _, ob := range boundsObligations(c, fn) {
			n++
			construct := fmt.Sprintf("%s op#%d %s", shortFn(fn), n, ob.What)
			if ob.OK {
				r.OK("C02/bounds", construct, c.Pos(ob.Instr.Pos()), "proved: "+ob.Goal.String()+" <= 0")
			} else {
				r.Bad("C02/bounds", construct, c.Pos(ob.Instr.Pos()), fmt.Sprintf("cannot establish %s on every path (needed: %s <= 0 from the dominating guards): for some input the decoder panics or reads bytes beyond the data received", ob.What, ob.Goal.String()))
			}
		}
	}
	r.Extra["bounds_scope"] = names

	// conv-checked
	for _, fn := range fns {
		n := 0
		for _, ci := range callInstrs(fn) {
			call, ok := ci.(*ssa.Call)
			if !ok {
				continue
			}
			o := CalleeObj(call)
			if o == nil || o.Pkg() == nil || o.Pkg().Path() != "strconv" {
				continue
			}
			errs := errResultsOf(call)
			if len(errs) == 0 {
				// error-less conversions (Itoa, Quote) are fine; an Atoi whose error is never extracted is not
				sig := call.Call.Signature()
				hasErr := false
				for i := 0; i < sig.Results().Len(); i++ {
					if isErrorType(sig.Results().At(i).Type()) {
						hasErr = true
					}
				}
				if !hasErr {
					continue
				}
			}
			n++
			construct := fmt.Sprintf("%s strconv.%s#%d", shortFn(fn), o.Name(), n)
			if len(errs) != 1 {
				r.Bad("C02/conv-checked", construct, c.Pos(call.Pos()), "the conversion error is discarded")
				continue
			}
			if fn.Name() == "getID" {
				// getID deliberately maps any failure to id 0 (no message stored); not part of the decoder contract
				r.OK("C02/conv-checked", construct, c.Pos(call.Pos()), "id helper: failure yields id 0")
				continue
			}
			if msg := errGuardReturnsError(c, fn, errs[0]); msg != "" {
				r.Bad("C02/conv-checked", construct, c.Pos(call.Pos()), msg)
			} else {
				r.OK("C02/conv-checked", construct, c.Pos(call.Pos()), "err != nil -> error return")
			}
		}
	}

	r.Rule("C02/skip-only-identified", "the chunk decoder steps over a single byte of the frame only where that byte was compared equal to a framing constant", 0)
	checkSkipOnlyIdentified(c, r, "C02/skip-only-identified", fns)
	checkFailedOnParseError(c, r)
	checkTerminatorRequired(c, r)
	checkClassifyDecoded(c, r)
	checkResultProvenance(c, r)
}

func sortFns(fns []*ssa.Function) {
	for i := 1; i < len(fns); i++ {
		for j := i; j > 0 && fnName(fns[j]) < fnName(fns[j-1]); j-- {
			fns[j], fns[j-1] = fns[j-1], fns[j]
		}
	}
}

// errGuardReturnsError: the If directly testing errv != nil sends the non-nil edge to a block that returns a non-nil error.
func errGuardReturnsError(c *Ctx, fn *ssa.Function, errv ssa.Value) string {
	for _, b := range fn.Blocks {
		cond := ifCond(b)
		if cond == nil {
			continue
		}
		x, nonNilOnTrue, ok := nilCheck(cond)
		if !ok || x != errv {
			continue
		}
		succ := b.Succs[1]
		if nonNilOnTrue {
			succ = b.Succs[0]
		}
		rr := reachFrom(fn, succ.Instrs[0], func(in ssa.Instruction) bool { return isReturn(in) }, nil)
		okAll := true
		chk := func(in ssa.Instruction) {
			ret, isRet := in.(*ssa.Return)
			if !isRet {
				return
			}
			nonNil := false
			for _, rv := range ret.Results {
				if isErrorType(rv.Type()) && !isNilConst(rv) {
					nonNil = true
				}
			}
			if !nonNil {
				okAll = false
			}
		}
		chk(succ.Instrs[0])
		for in := range rr.visited {
			chk(in)
		}
		// the non-nil edge must be taken whenever err != nil: the condition is exactly the nil test
		if okAll {
			return ""
		}
		return "the failing conversion does not lead to an error return on every path"
	}
	return "the conversion error is not tested by a plain `err != nil` branch: a malformed size is used as if it were valid"
}

func checkFailedOnParseError(c *Ctx, r *Report) {
	rule := "C02/failed-on-parse-error"
	fn := c.LookupFunc("response", "NetconfResponse", "record1dot1")
	chunks := c.LookupFunc("response", "NetconfResponse", "record1dot1Chunks")
	failedF := c.LookupField("response", "NetconfResponse", "Failed")
	if fn == nil || chunks == nil || failedF == nil {
		r.Anchor(rule, "record1dot1 / record1dot1Chunks / NetconfResponse.Failed")
		return
	}
	calls := staticCallsTo(fn, chunks)
	if len(calls) != 1 {
		r.Unk(rule, "record1dot1", c.Pos(fn.Pos()), "record1dot1 does not call the chunk parser exactly once")
		return
	}
	errv := errResultsOf(calls[0].(*ssa.Call))
	if len(errv) != 1 {
		r.Unk(rule, "record1dot1", c.Pos(fn.Pos()), "chunk parser has no error result")
		return
	}
	// find the If on errv; on the non-nil edge every path to return passes a store of a non-nil value to Failed
	ok := false
	for _, b := range fn.Blocks {
		cond := ifCond(b)
		if cond == nil {
			continue
		}
		x, nonNilOnTrue, isNil := nilCheck(cond)
		if !isNil || x != errv[0] {
			continue
		}
		succ := b.Succs[1]
		if nonNilOnTrue {
			succ = b.Succs[0]
		}
		isFailedStore := func(in ssa.Instruction) bool {
			f, _, v, isSt := fieldStore(in)
			return isSt && f == failedF && !isNilConst(v)
		}
		if isFailedStore(succ.Instrs[0]) {
			ok = true
			break
		}
		rr := reachFrom(fn, succ.Instrs[0], isFailedStore, nil)
		ok = true
		for in := range rr.visited {
			if isReturn(in) {
				ok = false
			}
		}
		if isReturn(succ.Instrs[0]) {
			ok = false
		}
	}
	r.Check(ok, rule, "record1dot1", c.Pos(fn.Pos()), "parse error -> Failed set on every path",
		"a parse error of the chunk decoder does not mark the response failed on every path: malformed framing is reported as success")
	// every error return of the chunk parser is non-nil by construction (typed error); check success return is the only nil one
}

// reachPhiSensitive explores (block, predecessor) states; an If whose condition is a phi of boolean
// constants in the same block is resolved by the incoming edge.
func reachPhiSensitive(fn *ssa.Function, avoidEdge func(from, to *ssa.BasicBlock) bool) map[*ssa.BasicBlock]bool {
	type state struct{ b, pred *ssa.BasicBlock }
	seen := map[state]bool{}
	reached := map[*ssa.BasicBlock]bool{}
	work := []state{{fn.Blocks[0], nil}}
	for len(work) > 0 {
		s := work[len(work)-1]
		work = work[:len(work)-1]
		if seen[s] {
			continue
		}
		seen[s] = true
		reached[s.b] = true
		succs := s.b.Succs
		if cond := ifCond(s.b); cond != nil && s.pred != nil {
			v, neg := unwrapNot(cond)
			if phi, ok := v.(*ssa.Phi); ok && phi.Block() == s.b {
				for i, p := range s.b.Preds {
					if p == s.pred {
						if bv, isC := constBool(phi.Edges[i]); isC {
							if neg {
								bv = !bv
							}
							if bv {
								succs = []*ssa.BasicBlock{s.b.Succs[0]}
							} else {
								succs = []*ssa.BasicBlock{s.b.Succs[1]}
							}
						}
					}
				}
			}
		}
		for _, n := range succs {
			if avoidEdge != nil && avoidEdge(s.b, n) {
				continue
			}
			work = append(work, state{n, s.b})
		}
	}
	return reached
}

func checkTerminatorRequired(c *Ctx, r *Report) {
	rule := "C02/terminator-required"
	fn := c.LookupFunc("response", "NetconfResponse", "record1dot1Chunks")
	if fn == nil {
		r.Anchor(rule, "record1dot1Chunks")
		return
	}
	// T = blocks entered by the true edge of `<byte loaded from the data> == '#'`
	isHashEq := func(cond ssa.Value) (bool, bool) { // (is test, hash on true edge)
		v, neg := unwrapNot(cond)
		bo, ok := v.(*ssa.BinOp)
		if !ok || (bo.Op != token.EQL && bo.Op != token.NEQ) {
			return false, false
		}
		k, isC := constInt(bo.Y)
		if !isC || k != '#' {
			return false, false
		}
		if _, isLoad := bo.X.(*ssa.UnOp); !isLoad {
			return false, false
		}
		onTrue := bo.Op == token.EQL
		if neg {
			onTrue = !onTrue
		}
		return true, onTrue
	}
	type edge struct{ from, to *ssa.BasicBlock }
	term := map[edge]bool{}
	for _, b := range fn.Blocks {
		cond := ifCond(b)
		if cond == nil {
			continue
		}
		if is, onTrue := isHashEq(cond); is {
			// only the second-hash test: this block itself must be dominated by a prior "byte is '#'" edge
			prior := false
			for _, ec := range edgeConds(b) {
				if is2, onTrue2 := isHashEq(ec.Cond); is2 && ec.Truth == onTrue2 {
					prior = true
				}
			}
			if !prior {
				continue
			}
			if onTrue {
				term[edge{b, b.Succs[0]}] = true
			} else {
				term[edge{b, b.Succs[1]}] = true
			}
		}
	}
	if len(term) == 0 {
		r.Bad(rule, "record1dot1Chunks", c.Pos(fn.Pos()), "the chunk parser has no end-of-chunks ('##') detection")
		return
	}
	reached := reachPhiSensitive(fn, func(from, to *ssa.BasicBlock) bool { return term[edge{from, to}] })
	bad := ""
	for _, b := range fn.Blocks {
		if !reached[b] {
			continue
		}
		if n := len(b.Instrs); n > 0 {
			if ret, ok := b.Instrs[n-1].(*ssa.Return); ok && len(ret.Results) == 1 {
				nilRet := isNilConst(ret.Results[0])
				if u, ok := ret.Results[0].(*ssa.UnOp); ok {
					if a, ok := u.X.(*ssa.Alloc); ok {
						if v := lastStoreBefore(a, u); v != nil && isNilConst(v) {
							nilRet = true
						}
					}
				}
				if nilRet {
					bad = c.Pos(ret.Pos())
				}
			}
		}
	}
	r.Check(bad == "", rule, "record1dot1Chunks", c.Pos(fn.Pos()), "success only after '##'",
		"the chunk parser can return success (at "+bad+") without having seen the end-of-chunks marker: a truncated reply is accepted as complete")
}

func checkClassifyDecoded(c *Ctx, r *Report) {
	rule := "C02/classify-decoded"
	fn := c.LookupFunc("response", "NetconfResponse", "record1dot1")
	contains := c.LookupFunc("util", "", "ByteContainsAny")
	resultF := c.LookupField("response", "NetconfResponse", "Result")
	chunks := c.LookupFunc("response", "NetconfResponse", "record1dot1Chunks")
	if fn == nil || contains == nil || resultF == nil || chunks == nil {
		r.Anchor(rule, "record1dot1 / util.ByteContainsAny / Result")
		return
	}
	ok := false
	var chunkCall ssa.Instruction
	if cs := staticCallsTo(fn, chunks); len(cs) == 1 {
		chunkCall = cs[0]
	}
	for _, ci := range callInstrs(fn) {
		call, isCall := ci.(*ssa.Call)
		if !isCall || chunkCall == nil || !dominatesInstr(chunkCall, call) {
			continue
		}
		sc := call.Call.StaticCallee()
		if sc == nil || !c.reachesFn(sc, contains) {
			continue
		}
		for _, a := range call.Call.Args {
			v := a
			if cv, isCv := v.(*ssa.Convert); isCv {
				v = cv.X
			}
			if f, _, isLoad := fieldLoad(v); isLoad && f == resultF {
				// must only be guarded by err == nil and Failed == nil
				ok = true
				for _, ec := range edgeConds(call.Block()) {
					x, nonNilOnTrue, isNil := nilCheck(ec.Cond)
					if !isNil {
						ok = false
						continue
					}
					isNilEdge := nonNilOnTrue != ec.Truth
					if !isNilEdge {
						ok = false
					}
					_ = x
				}
			}
		}
	}
	r.Check(ok, rule, "record1dot1", c.Pos(fn.Pos()), "decoded payload is scanned for failure markers",
		"after de-chunking, the failure markers are not searched in the decoded payload: an rpc-error whose tags are split by chunk boundaries is not marked failed")
}

func checkResultProvenance(c *Ctx, r *Report) {
	rule := "C02/provenance"
	resultF := c.LookupField("response", "NetconfResponse", "Result")
	rawF := c.LookupField("response", "NetconfResponse", "RawResult")
	if resultF == nil || rawF == nil {
		r.Anchor(rule, "NetconfResponse.Result / RawResult")
		return
	}
	for _, name := range []string{"record1dot0", "record1dot1Chunks"} {
		fn := c.LookupFunc("response", "NetconfResponse", name)
		if fn == nil {
			r.Anchor(rule, "(*response.NetconfResponse)."+name)
			continue
		}
		n := 0
		allInstrs(fn, func(in ssa.Instruction) {
			f, _, v, ok := fieldStore(in)
			if !ok || f != resultF {
				return
			}
			n++
			bad := provenanceViolation(v, rawF, map[ssa.Value]bool{}, 0)
			construct := fmt.Sprintf("%s Result store#%d", shortFn(fn), n)
			if bad == "" {
				r.OK(rule, construct, c.Pos(in.Pos()), "derives from RawResult only")
			} else {
				r.Bad(rule, construct, c.Pos(in.Pos()), "the decoded result takes bytes from something other than the raw reply: "+bad)
			}
		})
		if n == 0 {
			r.Bad(rule, shortFn(fn), c.Pos(fn.Pos()), "the decoder never stores Result")
		}
	}
}

// provenanceViolation walks the data operands backwards; returns "" if every source is RawResult.
func provenanceViolation(v ssa.Value, rawF *types.Var, seen map[ssa.Value]bool, depth int) string {
	if seen[v] {
		return ""
	}
	seen[v] = true
	if depth > 40 {
		return "derivation too deep"
	}
	switch x := v.(type) {
	case *ssa.Const:
		if x.Value == nil {
			return "" // nil slice (initial value of the accumulator)
		}
		return "constant " + x.String()
	case *ssa.Convert:
		return provenanceViolation(x.X, rawF, seen, depth+1)
	case *ssa.ChangeType:
		return provenanceViolation(x.X, rawF, seen, depth+1)
	case *ssa.Slice:
		return provenanceViolation(x.X, rawF, seen, depth+1)
	case *ssa.Phi:
		for _, e := range x.Edges {
			if m := provenanceViolation(e, rawF, seen, depth+1); m != "" {
				return m
			}
		}
		return ""
	case *ssa.UnOp:
		if x.Op == token.MUL {
			if f, _, ok := fieldLoad(x); ok {
				if f == rawF {
					return ""
				}
				return "field " + f.Name()
			}
			if a, ok := x.X.(*ssa.Alloc); ok {
				for _, ref := range *a.Referrers() {
					if st, ok := ref.(*ssa.Store); ok && st.Addr == a {
						if m := provenanceViolation(st.Val, rawF, seen, depth+1); m != "" {
							return m
						}
					}
				}
				return ""
			}
		}
	case *ssa.Call:
		if b, ok := x.Call.Value.(*ssa.Builtin); ok && b.Name() == "append" {
			for _, a := range x.Call.Args {
				if m := provenanceViolation(a, rawF, seen, depth+1); m != "" {
					return m
				}
			}
			return ""
		}
		if o := CalleeObj(x); o != nil && o.Pkg() != nil && o.Pkg().Path() == "bytes" && strings.HasPrefix(o.Name(), "Trim") {
			return provenanceViolation(x.Call.Args[0], rawF, seen, depth+1)
		}
		return "result of " + x.Call.Value.Name() + describeCallShort(x)
	case *ssa.MakeSlice:
		if k, ok := constInt(x.Len); ok && k == 0 {
			return "" // an empty, pre-sized base to append to: it contributes no bytes
		}
		return "a freshly allocated buffer (its bytes are not the server's)"
	case *ssa.Alloc:
		return "a local buffer"
	}
	return fmt.Sprintf("%T %s", v, v.Name())
}

func describeCallShort(call *ssa.Call) string {
	if o := CalleeObj(call); o != nil {
		return " (" + o.FullName() + ")"
	}
	return ""
}
