package main

// Rules added after the eleventh round of independently seeded changes.

import (
	"fmt"
	"go/token"
	"go/types"
	"regexp/syntax"
	"sort"
	"strings"

	"golang.org/x/tools/go/ssa"
)

var _ = sort.Strings
var _ = strings.Join
var _ = syntax.Parse
var _ = token.NoPos

// ---- C05: the zero value of a closed result channel is never taken for an answer ----------------------------------
//
// closed-result-nil looks at pointer results (a nil dereference). A worker that hands back a slice or a string and
// closes its result channel on every exit has the same problem in a quieter form: when it leaves without sending, the
// spawner's receive yields the zero value, and a spawner that does not look at it reports an empty *successful* answer
// instead of the timeout. That is sound only where the worker's send-less exits can be reached solely because the
// spawner itself has already left (its deferred cancel of a cancel-only context): then nobody is receiving any more.

func checkClosedResultZero(c *Ctx, r *Report, rule string) {
	n := 0
	for _, wi := range collectWorkers(c) {
		if len(wi.Closes) == 0 {
			continue
		}
		ch, ok := wi.Chan.Type().Underlying().(*types.Chan)
		if !ok {
			continue
		}
		if _, isPtr := ch.Elem().Underlying().(*types.Pointer); isPtr {
			continue // closed-result-nil
		}
		isSend := func(in ssa.Instruction) bool {
			for _, s := range wi.Sends {
				if s.Instr == in {
					return true
				}
			}
			return false
		}
		rr := reachFrom(wi.Worker, nil, isSend, nil)
		var sendless []ssa.Instruction
		for in := range rr.visited {
			if isReturn(in) && !(len(in.Block().Preds) == 0 && in.Block() != wi.Worker.Blocks[0]) {
				sendless = append(sendless, in)
			}
		}
		if len(sendless) == 0 {
			continue
		}
		// the values the spawner takes out of the channel without asking whether it was closed
		var vals []ssa.Value
		for _, rc := range wi.Recvs {
			switch x := rc.Instr.(type) {
			case *ssa.UnOp:
				if !x.CommaOk && x.Referrers() != nil && len(*x.Referrers()) > 0 {
					vals = append(vals, x)
				}
			case *ssa.Select:
				okUsed := false
				var got []ssa.Value
				for _, ref := range *x.Referrers() {
					ex, isEx := ref.(*ssa.Extract)
					if !isEx {
						continue
					}
					if ex.Index == 1 && ex.Referrers() != nil && len(*ex.Referrers()) > 0 {
						okUsed = true
					}
					if ex.Index >= 2 && types.Identical(ex.Type(), ch.Elem()) && ex.Referrers() != nil && len(*ex.Referrers()) > 0 {
						got = append(got, ex)
					}
				}
				if !okUsed {
					vals = append(vals, got...)
				}
			}
		}
		if len(vals) == 0 {
			continue // a pure signal, or the spawner asks whether the channel was closed
		}
		n++
		construct := shortFn(wi.Spawner) + " result of " + shortFn(wi.Worker)
		pos := c.Pos(wi.Go.Pos())
		// (a) the spawner examines the value before it uses it
		examined := true
		for _, v := range vals {
			for _, ref := range *v.Referrers() {
				if _, isDbg := ref.(*ssa.DebugRef); isDbg {
					continue
				}
				if b, isBin := ref.(*ssa.BinOp); isBin && (isNilConst(b.X) || isNilConst(b.Y)) {
					continue
				}
				if call, isCall := ref.(*ssa.Call); isCall {
					if bi, isB := call.Call.Value.(*ssa.Builtin); isB && bi.Name() == "len" {
						continue
					}
				}
				guarded := false
				for _, ec := range edgeConds(ref.Block()) {
					x, nonNilOnTrue, isNil := nilCheck(ec.Cond)
					if isNil && x == v && nonNilOnTrue == ec.Truth {
						guarded = true
					}
				}
				if !guarded {
					examined = false
				}
			}
		}
		if examined {
			r.OK(rule, construct, pos, "the received value is compared with nil before it is used")
			continue
		}
		// (b) the contexts the worker is started with are cancel-only contexts of the spawner: it then leaves without an
		// answer only after the spawner's deferred cancel, i.e. once nobody receives any more. A context with a deadline of
		// its own lets the worker close the channel while the spawner still waits.
		var ctxVals []ssa.Value
		for _, a := range wi.Go.Call.Args {
			if isContextType(a.Type()) {
				ctxVals = append(ctxVals, a)
			}
		}
		if mc, isMC := wi.Go.Call.Value.(*ssa.MakeClosure); isMC {
			for _, b := range mc.Bindings {
				if isContextType(b.Type()) {
					ctxVals = append(ctxVals, b)
				} else if pt, isP := b.Type().(*types.Pointer); isP && isContextType(pt.Elem()) {
					if a, isA := b.(*ssa.Alloc); isA {
						for _, ref := range *a.Referrers() {
							if st, isSt := ref.(*ssa.Store); isSt && st.Addr == ssa.Value(a) {
								ctxVals = append(ctxVals, st.Val)
							}
						}
					}
				}
			}
		}
		bad := ""
		for _, cv := range ctxVals {
			kind, src := ctxOrigin(cv, 0)
			call, _ := src.(*ssa.Call)
			if kind != "with-timeout" || call == nil {
				continue
			}
			if o := CalleeObj(call); o != nil && o.Name() != "WithCancel" {
				bad = fmt.Sprintf("the worker is started with a context that ends by itself (context.%s at %s) and can leave without sending once it is over: it then closes the result channel while %s is still waiting, the receive yields the zero value and an empty answer is recorded as a success instead of the timeout error", o.Name(), c.Pos(call.Pos()), shortFn(wi.Spawner))
			}
		}
		// (c) a send-less exit that is not taken because a context is over at all (the connection looks dead, a counter ran
		// out, ...): the channel is closed under the spawner's feet for a reason the spawner does not know about
		if bad == "" {
			rr2 := reachFrom(wi.Worker, nil, isSend, func(bb *ssa.BasicBlock, si int) bool { return !ctxOverEdge(c, bb, si, 0) })
			for _, ret := range sendless {
				if rr2.visited[ret] {
					bad = fmt.Sprintf("the worker can leave at %s without sending although no context is over (it gives up for a reason of its own); it then closes the result channel, the spawner's receive yields the zero value and an empty answer is recorded as a success instead of an error", posOr(c, ret, wi.Worker))
				}
			}
		}
		if bad == "" {
			r.OK(rule, construct, pos, "the worker's context is cancel-only: it leaves without sending only after the spawner's deferred cancel, when nobody receives any more")
		} else {
			r.Bad(rule, construct, pos, bad)
		}
	}
	if n == 0 {
		r.OK(rule, "no worker hands a non-pointer result over a channel it may close without sending", "-", "")
	}
}

// ---- C02: the end-of-message patterns match the RFC 6242 delimiters and nothing shorter ---------------------------
//
// The NETCONF reader decides that a message is complete when the delimiter pattern of the selected framing matches the
// accumulated buffer. For 1.1 the delimiter is the line "##" (LF '#' '#' LF); a pattern that is not bounded by line
// assertions on both sides also matches a payload line that merely starts (or ends) with "##", and the reader files the
// message before all of it has arrived. For 1.0 the delimiter is the literal "]]>]]>".

func lineBounded(re *syntax.Regexp) bool {
	switch re.Op {
	case syntax.OpCapture:
		return lineBounded(re.Sub[0])
	case syntax.OpAlternate:
		for _, s := range re.Sub {
			if !lineBounded(s) {
				return false
			}
		}
		return len(re.Sub) > 0
	case syntax.OpConcat:
		if len(re.Sub) < 2 {
			return false
		}
		first, last := re.Sub[0], re.Sub[len(re.Sub)-1]
		okFirst := first.Op == syntax.OpBeginLine || first.Op == syntax.OpBeginText || (first.Op == syntax.OpLiteral && len(first.Rune) > 0 && first.Rune[0] == '\n')
		okLast := last.Op == syntax.OpEndLine || last.Op == syntax.OpEndText || (last.Op == syntax.OpLiteral && len(last.Rune) > 0 && last.Rune[len(last.Rune)-1] == '\n')
		return okFirst && okLast
	case syntax.OpLiteral:
		return len(re.Rune) > 2 && re.Rune[0] == '\n' && re.Rune[len(re.Rune)-1] == '\n'
	}
	return false
}

func checkEOMPatternShape(c *Ctx, r *Report, rule string) {
	pat11, at11 := patternOfField(c, "v1Dot1Delim")
	if at11 == nil {
		r.Anchor(rule, "netconfPatterns.v1Dot1Delim = regexp.MustCompile(<constant>)")
	} else if re, err := syntax.Parse(pat11, syntax.Perl); err != nil {
		r.Bad(rule, "1.1 end-of-chunks pattern", c.Pos(at11.Pos()), "the pattern does not compile: "+err.Error())
	} else {
		hasMarker := false
		var walk func(x *syntax.Regexp)
		walk = func(x *syntax.Regexp) {
			if x.Op == syntax.OpLiteral && strings.Contains(string(x.Rune), "##") {
				hasMarker = true
			}
			for _, s := range x.Sub {
				walk(s)
			}
		}
		walk(re)
		switch {
		case !hasMarker:
			r.Bad(rule, "1.1 end-of-chunks pattern", c.Pos(at11.Pos()), fmt.Sprintf("the pattern %q does not contain the literal ## of RFC 6242's end-of-chunks marker", pat11))
		case !lineBounded(re):
			r.Bad(rule, "1.1 end-of-chunks pattern", c.Pos(at11.Pos()), fmt.Sprintf("the pattern %q is not bounded by a line (or text) boundary on both sides: a line of the payload that merely begins or ends with ## counts as the end-of-chunks marker, so the reader files the message before all of it has arrived and the decoder sees a truncated chunk", pat11))
		default:
			r.OK(rule, "1.1 end-of-chunks pattern", c.Pos(at11.Pos()), fmt.Sprintf("%q matches whole lines only", pat11))
		}
	}
	pat10, at10 := patternOfField(c, "v1Dot0Delim")
	if at10 == nil {
		r.Anchor(rule, "netconfPatterns.v1Dot0Delim = regexp.MustCompile(<constant>)")
	} else if re, err := syntax.Parse(pat10, syntax.Perl); err != nil {
		r.Bad(rule, "1.0 end-of-message pattern", c.Pos(at10.Pos()), "the pattern does not compile: "+err.Error())
	} else {
		full := false
		var walk func(x *syntax.Regexp)
		walk = func(x *syntax.Regexp) {
			if x.Op == syntax.OpLiteral && strings.Contains(string(x.Rune), "]]>]]>") && x.Flags&syntax.FoldCase == 0 {
				full = true
			}
			for _, s := range x.Sub {
				walk(s)
			}
		}
		walk(re)
		if full {
			r.OK(rule, "1.0 end-of-message pattern", c.Pos(at10.Pos()), "contains the whole literal ]]>]]>")
		} else {
			r.Bad(rule, "1.0 end-of-message pattern", c.Pos(at10.Pos()), fmt.Sprintf("the pattern %q does not require the whole six-character delimiter ]]>]]> of RFC 6242: a shorter run inside a payload (a CDATA end followed by '>') ends the message early", pat10))
		}
	}
}

// ---- C01/C04: every chunk a read-until loop takes in is examined before the next read ----------------------------
//
// The four read-until loops append each chunk to their accumulation and test the accumulation for the awaited text.
// A path from the append back to the next Channel.Read on which the accumulation is handed to nothing (a "this chunk
// cannot matter" shortcut) lets the awaited text complete unnoticed: the prompt whose last byte arrives alone in a
// read, a chunk of blanks that completes "# ", ... The operation then waits for its timeout although the device
// answered.

func readUntilLoopParts(c *Ctx, name string) (outer, fn *ssa.Function, read *ssa.Call, acc *ssa.Call, why string) {
	chRead := c.LookupFunc("channel", "Channel", "Read")
	outer = c.LookupFunc("channel", "Channel", name)
	if outer == nil || chRead == nil {
		return nil, nil, nil, nil, "anchor"
	}
	fn = outer
	reads := chunkReads(fn, chRead)
	if len(reads) == 0 {
		if d := readUntilDelegate(fn, chRead); d != nil {
			fn = d.Loop
			reads = chunkReads(fn, chRead)
		}
	}
	if len(reads) != 1 {
		return outer, fn, nil, nil, "the loop does not contain exactly one Channel.Read"
	}
	nb := resultOf(reads[0], 0)
	allInstrs(fn, func(in ssa.Instruction) {
		call, ok := in.(*ssa.Call)
		if !ok {
			return
		}
		if b, ok := call.Call.Value.(*ssa.Builtin); ok && b.Name() == "append" && len(call.Call.Args) == 2 && call.Call.Args[1] == nb {
			acc = call
		}
	})
	if acc == nil {
		return outer, fn, reads[0], nil, "the chunk returned by Channel.Read is not appended to the accumulated buffer"
	}
	return outer, fn, reads[0], acc, ""
}

func checkMatchEveryChunk(c *Ctx, r *Report, rule string) {
	for _, name := range []string{"ReadUntilFuzzy", "ReadUntilExplicit", "ReadUntilPrompt", "ReadUntilAnyPrompt"} {
		outer, fn, read, acc, why := readUntilLoopParts(c, name)
		if why == "anchor" {
			r.Anchor(rule, "(*channel.Channel)."+name+" / Read")
			continue
		}
		construct := shortFn(outer) + " examines every chunk"
		if why != "" {
			r.Unk(rule, construct, c.Pos(outer.Pos()), why)
			continue
		}
		examines := func(in ssa.Instruction) bool {
			call, ok := in.(*ssa.Call)
			if !ok || in == ssa.Instruction(acc) {
				return false
			}
			if _, isB := call.Call.Value.(*ssa.Builtin); isB {
				return false
			}
			for _, a := range call.Call.Args {
				if a == ssa.Value(acc) {
					return true
				}
			}
			if call.Call.IsInvoke() {
				return false
			}
			return false
		}
		rr := reachFrom(fn, acc, examines, nil)
		if rr.visited[read] {
			r.Bad(rule, construct, c.Pos(acc.Pos()), shortFn(outer)+": there is a path from the append of a chunk back to the next Channel.Read on which the accumulated buffer is handed to no matcher: text that is completed by such a chunk (a prompt whose last bytes arrive alone) goes unnoticed and the operation runs into its timeout", rr.witness(c, read)...)
		} else {
			r.OK(rule, construct, c.Pos(acc.Pos()), "after every append the accumulation is handed to the matcher before the next read")
		}
	}
}

// ---- C10/C11: one prompt, one answer -- a pass of the login loop that saw one credential's prompt types no other credential --
//
// The login loops look at everything received since the last answer, so that text can satisfy two patterns at once (a
// banner that mentions "password:" above a "login:" prompt). credential-prompt demands that a credential is typed on
// the true edge of its own pattern; this rule adds the other half: on the true edge of a pattern's match, nothing but
// that pattern's own credential is typed before the next chunk is read. A loop that lets the password through although
// the user-name pattern matched types the password at a prompt that echoes -- it ends up on the device's screen, in the
// accumulated output and in the channel log.

func checkOneAnswerPerPass(c *Ctx, r *Report, rule string) {
	war := c.LookupFunc("channel", "Channel", "WriteAndReturn")
	if war == nil {
		r.Anchor(rule, "(*channel.Channel).WriteAndReturn")
		return
	}
	pairing := map[string]string{"User": "UsernamePattern", "Password": "PasswordPattern", "PrivateKeyPassPhrase": "PassphrasePattern"}
	own := map[string]string{}
	for k, v := range pairing {
		own[v] = k
	}
	for _, name := range []string{"authenticateSSH", "authenticateTelnet"} {
		fn := c.LookupFunc("channel", "Channel", name)
		if fn == nil {
			r.Anchor(rule, "(*channel.Channel)."+name)
			continue
		}
		isChunkRead := func(in ssa.Instruction) bool {
			call, ok := in.(*ssa.Call)
			if !ok {
				return false
			}
			h := call.Call.StaticCallee()
			return h != nil && h.Signature.Recv() != nil && strings.HasPrefix(h.Name(), "Read") && h.Pkg == fn.Pkg
		}
		n := 0
		ord := map[string]int{}
		for _, b := range fn.Blocks {
			cond := ifCond(b)
			if cond == nil || len(b.Succs) != 2 {
				continue
			}
			v, neg := unwrapNot(cond)
			m, isCall := v.(*ssa.Call)
			if !isCall {
				continue
			}
			if o := CalleeObj(m); o == nil || o.Name() != "Match" || len(m.Call.Args) == 0 {
				continue
			}
			f, _, isLoad := fieldLoad(m.Call.Args[0])
			if !isLoad || f == nil {
				continue
			}
			cred, isCred := own[f.Name()]
			if !isCred {
				continue
			}
			n++
			trueIdx := 0
			if neg {
				trueIdx = 1
			}
			ifb := b
			first := true
			ef := func(bb *ssa.BasicBlock, si int) bool {
				if bb == ifb && first {
					return si == trueIdx
				}
				return true
			}
			rr := reachFrom(fn, b.Instrs[len(b.Instrs)-1], isChunkRead, ef)
			first = false
			ord[f.Name()]++
			construct := fmt.Sprintf("%s: a pass that saw the %s (test #%d) types nothing but the %s", shortFn(fn), f.Name(), ord[f.Name()], cred)
			bad := ""
			for in := range rr.visited {
				call, ok := in.(*ssa.Call)
				if !ok || call.Call.StaticCallee() != war {
					continue
				}
				p, isParam := call.Call.Args[1].(*ssa.Parameter)
				if !isParam {
					continue
				}
				pidx := -1
				for k, q := range fn.Params {
					if q == p {
						pidx = k
					}
				}
				got := credentialOfParam(c, fn, pidx, 0)
				if got != cred {
					bad = fmt.Sprintf("although the %s matched what was received since the last answer, the same pass of the loop can type the %s (at %s): a credential is typed at another credential's prompt -- a secret typed at a prompt that echoes appears on the device's screen, in the output and in the channel log", f.Name(), got, c.Pos(call.Pos()))
				}
			}
			if bad != "" {
				r.Bad(rule, construct, c.Pos(m.Pos()), bad)
			} else {
				r.OK(rule, construct, c.Pos(m.Pos()), "")
			}
		}
		if n == 0 {
			r.Unk(rule, shortFn(fn), c.Pos(fn.Pos()), "no branch on a credential prompt pattern found in the login loop")
		}
	}
}

// ---- C09/C05: every deadline of the NETCONF driver resolves its duration through Channel.GetTimeout ----------------
//
// GetTimeout is where "0 = the maximum" and "-1 = the connection-wide value" are resolved. A NETCONF session uses
// none of the channel's own raw-TimeoutOps operations (no get-prompt, no in-channel login with the standard
// transport), so a connection-wide timeout of 0 is a working configuration of such a session exactly as long as
// every deadline the package sets up goes through GetTimeout -- sendRPC does, and so must the hello exchange: a
// duration of 0 handed to context.WithTimeout directly expires at once and a valid hello is never read.

func checkNetconfDeadlinesResolved(c *Ctx, r *Report, rule string) {
	getTimeout := c.LookupFunc("channel", "Channel", "GetTimeout")
	if getTimeout == nil {
		r.Anchor(rule, "(*channel.Channel).GetTimeout")
		return
	}
	n := 0
	for _, fn := range c.LibFns {
		if fn.Pkg == nil || !strings.HasSuffix(fn.Pkg.Pkg.Path(), "driver/netconf") {
			continue
		}
		ord := 0
		for _, ci := range callInstrs(fn) {
			call, ok := ci.(*ssa.Call)
			if !ok {
				continue
			}
			o := CalleeObj(call)
			if o == nil || o.Pkg() == nil {
				continue
			}
			var dur ssa.Value
			switch {
			case o.Pkg().Path() == "context" && o.Name() == "WithTimeout" && len(call.Call.Args) == 2:
				dur = call.Call.Args[1]
			case o.Pkg().Path() == "time" && (o.Name() == "NewTimer" || o.Name() == "After") && len(call.Call.Args) == 1:
				dur = call.Call.Args[0]
			case o.Pkg().Path() == "time" && o.Name() == "AfterFunc" && len(call.Call.Args) == 2:
				dur = call.Call.Args[0]
			default:
				continue
			}
			n++
			ord++
			construct := fmt.Sprintf("%s deadline#%d (%s.%s)", shortFn(fn), ord, o.Pkg().Name(), o.Name())
			src := dur
			if fv, isFV := src.(*ssa.FreeVar); isFV {
				if b := freeVarBinding(fv); b != nil {
					src = b
				}
			}
			if u, isU := src.(*ssa.UnOp); isU && u.Op == token.MUL {
				if a, isA := u.X.(*ssa.Alloc); isA {
					if v := lastStoreBefore(a, u); v != nil {
						src = v
					}
				}
			}
			if rc, isCall := src.(*ssa.Call); isCall && rc.Call.StaticCallee() == getTimeout {
				r.OK(rule, construct, c.Pos(call.Pos()), "duration = Channel.GetTimeout(...)")
				continue
			}
			if k, isC := constInt(src); isC && k > 0 {
				r.OK(rule, construct, c.Pos(call.Pos()), "a positive constant")
				continue
			}
			r.Bad(rule, construct, c.Pos(call.Pos()), "the duration of this deadline is not the result of Channel.GetTimeout: a configured timeout of 0 (which GetTimeout resolves to the maximum) makes it expire at once -- with the connection-wide timeout set to 0 the hello of a server that answers correctly is never read and Open fails")
		}
	}
	if n == 0 {
		r.Unk(rule, "driver/netconf", "-", "no deadline found in the NETCONF driver")
	}
}

// ---- C16: the ssh child is never told to interpret the byte stream ------------------------------------------------
//
// With a remote terminal requested (-t / -tt / RequestTTY) the OpenSSH client enables its escape character: a '~' at
// the start of a written line is consumed or acted upon by the client ("~." ends the connection) instead of being sent.
// The shell flavour of the system transport gets its terminal because ssh inherits a local pty; the NETCONF flavour
// requests a subsystem and must stay an 8-bit clean pipe. Neither passes -t, -e or an EscapeChar / RequestTTY option.

func checkNoRemoteTTY(c *Ctx, r *Report, rule string) {
	n := 0
	var bad []string
	for _, fn := range c.LibFns {
		if fn.Pkg == nil || !strings.HasSuffix(fn.Pkg.Pkg.Path(), "/transport") {
			continue
		}
		recv := fn.Signature.Recv()
		isSystem := false
		if recv != nil {
			if p, ok := recv.Type().(*types.Pointer); ok {
				if nm, ok := p.Elem().(*types.Named); ok && nm.Obj().Name() == "System" {
					isSystem = true
				}
			}
		}
		if !isSystem {
			continue
		}
		allInstrs(fn, func(in ssa.Instruction) {
			for _, op := range in.Operands(nil) {
				if op == nil || *op == nil {
					continue
				}
				s, ok := constString(*op)
				if !ok {
					continue
				}
				n++
				t := strings.TrimSpace(s)
				low := strings.ToLower(t)
				switch {
				case t == "-t" || t == "-tt" || t == "-e":
					bad = append(bad, fmt.Sprintf("%q at %s", s, posOr(c, in, fn)))
				case strings.HasPrefix(low, "requesttty") && !strings.HasSuffix(low, "=no") && !strings.HasSuffix(low, " no"):
					bad = append(bad, fmt.Sprintf("%q at %s", s, posOr(c, in, fn)))
				case strings.HasPrefix(low, "escapechar") && !strings.HasSuffix(low, "none"):
					bad = append(bad, fmt.Sprintf("%q at %s", s, posOr(c, in, fn)))
				}
			}
		})
	}
	sort.Strings(bad)
	switch {
	case n == 0:
		r.Unk(rule, "system transport argument constants", "-", "no string constants found in the methods of transport.System")
	case len(bad) > 0:
		r.Bad(rule, "system transport argument constants", strings.SplitN(bad[0], " at ", 2)[1], "the ssh child is started with an option that makes the client interpret the session's bytes ("+strings.Join(bad, ", ")+"): with a remote terminal requested OpenSSH enables its escape character, so a written line that starts with '~' is swallowed or acted upon (\"~.\" ends the connection) instead of reaching the peer")
	default:
		r.OK(rule, "system transport argument constants", "-", fmt.Sprintf("%d string constants examined: no -t / -tt / -e / RequestTTY / EscapeChar", n))
	}
}

func posOr(c *Ctx, in ssa.Instruction, fn *ssa.Function) string {
	if p := c.Pos(in.Pos()); p != "-" && p != "" {
		return p
	}
	return c.Pos(fn.Pos())
}

// ---- C13: the aggregate understands every kind of failure a member can carry --------------------------------------
//
// Response.Failed is an `error`; MultiResponse.AppendResponse decides whether a member failed by asserting the dynamic
// type of that value. The writers (the Record methods of the response package) and that reader must agree on the set of
// types: a member whose failure is recorded as a type the aggregate does not assert counts as a success there, and a
// list of commands of which one was rejected is reported as not failed.

func checkFailedTypesAgree(c *Ctx, r *Report, rule string) {
	failed := c.LookupField("response", "Response", "Failed")
	app := c.LookupFunc("response", "MultiResponse", "AppendResponse")
	if failed == nil || app == nil {
		r.Anchor(rule, "response.Response.Failed / (*response.MultiResponse).AppendResponse")
		return
	}
	// reader: the types asserted on a load of the member's Failed field (directly or in a helper of the package)
	var asserted []types.Type
	scan := append([]*ssa.Function{app}, AnonFuncsDeep(app)...)
	for _, ci := range callInstrs(app) {
		if h := ci.Common().StaticCallee(); h != nil && h.Pkg == app.Pkg && len(h.Blocks) > 0 && h != app {
			scan = append(scan, h)
		}
	}
	for _, f := range scan {
		allInstrs(f, func(in ssa.Instruction) {
			ta, ok := in.(*ssa.TypeAssert)
			if !ok {
				return
			}
			if fl, _, isLoad := fieldLoad(ta.X); isLoad && fl == failed {
				asserted = append(asserted, ta.AssertedType)
				return
			}
			if _, isParam := ta.X.(*ssa.Parameter); isParam && f != app {
				asserted = append(asserted, ta.AssertedType)
			}
		})
		// errors.As(r.Failed, &target)
		for _, ci := range callInstrs(f) {
			call, ok := ci.(*ssa.Call)
			if !ok {
				continue
			}
			if o := CalleeObj(call); o != nil && o.Pkg() != nil && o.Pkg().Path() == "errors" && o.Name() == "As" && len(call.Call.Args) == 2 {
				if mi, isMI := call.Call.Args[1].(*ssa.MakeInterface); isMI {
					if p, isP := mi.X.Type().Underlying().(*types.Pointer); isP {
						asserted = append(asserted, p.Elem())
					}
				}
			}
		}
	}
	if len(asserted) == 0 {
		r.Unk(rule, "failure types understood by AppendResponse", c.Pos(app.Pos()), "AppendResponse does not assert the type of the member's Failed value")
		return
	}
	understood := func(t types.Type) bool {
		for _, a := range asserted {
			if types.Identical(a, t) {
				return true
			}
			if it, ok := a.Underlying().(*types.Interface); ok && types.Implements(t, it) && !types.Identical(a, failed.Type()) {
				return true
			}
		}
		return false
	}
	n := 0
	ord := map[string]int{}
	for _, fn := range c.LibFns {
		allInstrs(fn, func(in ssa.Instruction) {
			f, _, v, ok := fieldStore(in)
			if !ok || f != failed {
				return
			}
			mi, isMI := v.(*ssa.MakeInterface)
			if !isMI {
				return // nil, or an error value handed on as it is
			}
			n++
			ord[shortFn(fn)]++
			construct := fmt.Sprintf("%s stores Failed #%d", shortFn(fn), ord[shortFn(fn)])
			t := mi.X.Type()
			if understood(t) {
				r.OK(rule, construct, c.Pos(in.Pos()), "a "+types.TypeString(t, shortQual)+", which AppendResponse asserts")
			} else {
				r.Bad(rule, construct, c.Pos(in.Pos()), fmt.Sprintf("a failed response carries a %s here, but MultiResponse.AppendResponse recognises a failed member only by asserting %s: such a member is left out of the aggregate, so a list of inputs of which this one was rejected is reported as not failed (and stop-on-failed callers carry on)", types.TypeString(t, shortQual), typeList(asserted)))
			}
		})
	}
	if n == 0 {
		r.Unk(rule, "failure types stored", "-", "no concrete failure value is stored to Response.Failed")
	}
}

func shortQual(p *types.Package) string { return p.Name() }

func typeList(ts []types.Type) string {
	var out []string
	for _, t := range ts {
		out = append(out, types.TypeString(t, shortQual))
	}
	sort.Strings(out)
	return strings.Join(out, ", ")
}

// ---- C19/C14: the product of a call is not used before that call's error has been looked at -------------------------
//
// `a, err = NewArgs(opts...)` followed by `t, err = NewTransport(a)` without a test in between loses the first error:
// the bad option value that NewArgs rejected is forgotten, the half-configured object is used, and the constructor
// reports success. For every call of a module function that returns (value, error), no use of the value is reachable
// from the call without passing a nil test of that error (handing both on in one return is fine).

func errorTestedOn(v ssa.Value, errv ssa.Value, depth int) bool {
	if depth > 4 {
		return false
	}
	if v == errv {
		return true
	}
	switch x := v.(type) {
	case *ssa.Phi:
		for _, e := range x.Edges {
			if errorTestedOn(e, errv, depth+1) {
				return true
			}
		}
	case *ssa.UnOp:
		if x.Op == token.MUL {
			if a, ok := x.X.(*ssa.Alloc); ok {
				for _, ref := range *a.Referrers() {
					if st, ok := ref.(*ssa.Store); ok && st.Addr == ssa.Value(a) && errorTestedOn(st.Val, errv, depth+1) {
						return true
					}
				}
			}
		}
	}
	return false
}

func checkValueBeforeErrorCheck(c *Ctx, r *Report, rule string, fns []*ssa.Function, what string) {
	n := 0
	var bad []string
	badPos := ""
	for _, fn := range fns {
		for _, g := range append([]*ssa.Function{fn}, AnonFuncsDeep(fn)...) {
			for _, ci := range callInstrs(g) {
				call, ok := ci.(*ssa.Call)
				if !ok {
					continue
				}
				sig := call.Call.Signature()
				if sig == nil || sig.Results().Len() != 2 || !isErrorType(sig.Results().At(1).Type()) {
					continue
				}
				callee := call.Call.StaticCallee()
				if callee == nil || callee.Pkg == nil || !isLibPkgPath(callee.Pkg.Pkg.Path()) {
					continue
				}
				val, errv := resultOf(call, 0), resultOf(call, 1)
				if val == nil || val.Referrers() == nil || len(*val.Referrers()) == 0 {
					continue
				}
				n++
				if errv == nil {
					// the error is not even extracted: explicit discards are the business of C06/propagate
					continue
				}
				isTest := func(in ssa.Instruction) bool {
					switch x := in.(type) {
					case *ssa.If:
						if tv, _, isNil := nilCheck(x.Cond); isNil && errorTestedOn(tv, errv, 0) {
							return true
						}
					case *ssa.Return:
						for _, rv := range x.Results {
							if errorTestedOn(rv, errv, 0) {
								return true
							}
						}
					case *ssa.Call:
						// errors.Is(err, ...) / a helper that is handed the error
						for _, a := range x.Call.Args {
							if errorTestedOn(a, errv, 0) {
								return true
							}
						}
					}
					return false
				}
				rr := reachFrom(g, call, isTest, nil)
				// real uses: the value (or a phi / conversion of it) is handed to a call, dereferenced, indexed or sliced;
				// storing it or returning it together with the error is not a use
				var uses []ssa.Instruction
				seenV := map[ssa.Value]bool{}
				var collect func(v ssa.Value)
				collect = func(v ssa.Value) {
					if seenV[v] || v.Referrers() == nil {
						return
					}
					seenV[v] = true
					for _, ref := range *v.Referrers() {
						switch x := ref.(type) {
						case *ssa.DebugRef, *ssa.Store, *ssa.Return:
						case *ssa.Phi:
							collect(x)
						case *ssa.MakeInterface:
							collect(x)
						case *ssa.ChangeType:
							collect(x)
						case *ssa.ChangeInterface:
							collect(x)
						case *ssa.BinOp:
							// comparisons with nil etc.
						default:
							uses = append(uses, ref)
						}
					}
				}
				collect(val)
				for _, ref := range uses {
					if isTest(ref) {
						continue
					}
					if rr.visited[ref] {
						bad = append(bad, fmt.Sprintf("%s: the result of %s (called at %s) is used at %s before the error of that call has been tested", shortFn(g), shortFn(callee), c.Pos(call.Pos()), c.Pos(ref.Pos())))
						if badPos == "" {
							badPos = c.Pos(call.Pos())
						}
						break
					}
				}
			}
		}
	}
	sort.Strings(bad)
	construct := what + ": no value is used before the error that came with it was tested"
	switch {
	case n == 0:
		r.Unk(rule, construct, "-", "no call returning (value, error) found")
	case len(bad) > 0:
		r.Bad(rule, construct, badPos, strings.Join(bad, "; ")+" -- the error is overwritten or forgotten: what the callee rejected (a bad option value, an unreadable key file) goes unreported and a half-built object is used")
	default:
		r.OK(rule, construct, "-", fmt.Sprintf("%d calls returning (value, error) examined", n))
	}
}

// constructorScope: the New* constructors that return an error and the same-package unexported helpers / nested
// constructors they reach.
func constructorScope(c *Ctx) []*ssa.Function {
	var roots []*ssa.Function
	for _, fn := range c.LibFns {
		if fn.Parent() != nil || fn.Pkg == nil || fn.Signature.Recv() != nil || !strings.HasPrefix(fn.Name(), "New") {
			continue
		}
		res := fn.Signature.Results()
		if res.Len() == 2 && isErrorType(res.At(1).Type()) {
			roots = append(roots, fn)
		}
	}
	scope := c.reachFns(roots, func(site ssa.CallInstruction, callee *ssa.Function) bool {
		caller := site.Parent()
		return callee.Pkg != nil && caller.Pkg != nil && (callee.Pkg == caller.Pkg && (callee.Object() == nil || !callee.Object().Exported()) || strings.HasPrefix(callee.Name(), "New"))
	}, false)
	var fns []*ssa.Function
	for fn := range scope {
		if fn.Parent() == nil {
			fns = append(fns, fn)
		}
	}
	sortFns(fns)
	return fns
}

// ---- C17/C11: each list of a platform definition feeds the driver option of its own name, and only that one ---------
//
// Platform.AsOptions turns the definition into driver options. The on-open / on-close lists of the generic driver and
// the network-on-open / network-on-close lists of the network driver are different hooks that both run when a network
// driver opens; a list that reaches two of them is replayed -- its blind writes (an enable secret typed at what was a
// password prompt the first time) land on the command line the second time, where they are echoed.

func platformFieldsOf(v ssa.Value, recv ssa.Value, depth int, seen map[ssa.Value]bool, out map[string]bool) {
	if v == nil || depth > 10 || seen[v] {
		return
	}
	seen[v] = true
	switch x := v.(type) {
	case *ssa.FieldAddr:
		if x.X == recv {
			out[fieldOfAddr(x).Name()] = true
			return
		}
		platformFieldsOf(x.X, recv, depth+1, seen, out)
	case *ssa.UnOp:
		platformFieldsOf(x.X, recv, depth+1, seen, out)
	case *ssa.Phi:
		for _, e := range x.Edges {
			platformFieldsOf(e, recv, depth+1, seen, out)
		}
	case *ssa.Alloc:
		for _, ref := range *x.Referrers() {
			if st, ok := ref.(*ssa.Store); ok && st.Addr == ssa.Value(x) {
				platformFieldsOf(st.Val, recv, depth+1, seen, out)
			}
		}
	case *ssa.Call:
		for _, a := range x.Call.Args {
			platformFieldsOf(a, recv, depth+1, seen, out)
		}
		if x.Call.IsInvoke() {
			platformFieldsOf(x.Call.Value, recv, depth+1, seen, out)
		}
	case *ssa.MakeInterface:
		platformFieldsOf(x.X, recv, depth+1, seen, out)
	case *ssa.ChangeType:
		platformFieldsOf(x.X, recv, depth+1, seen, out)
	case *ssa.Convert:
		platformFieldsOf(x.X, recv, depth+1, seen, out)
	case *ssa.Slice:
		platformFieldsOf(x.X, recv, depth+1, seen, out)
	case *ssa.MakeClosure:
		for _, b := range x.Bindings {
			platformFieldsOf(b, recv, depth+1, seen, out)
		}
	}
}

func checkAsOptionsWiring(c *Ctx, r *Report, rule string) {
	want := map[string]string{
		"WithFailedWhenContains": "FailedWhenContains",
		"WithOnOpen":             "OnOpen",
		"WithOnClose":            "OnClose",
		"WithPrivilegeLevels":    "PrivilegeLevels",
		"WithDefaultDesiredPriv": "DefaultDesiredPrivilegeLevel",
		"WithNetworkOnOpen":      "NetworkOnOpen",
		"WithNetworkOnClose":     "NetworkOnClose",
	}
	as := c.LookupFunc("platform", "Platform", "AsOptions")
	if as == nil {
		r.Anchor(rule, "(*platform.Platform).AsOptions")
		return
	}
	fns := []*ssa.Function{as}
	for _, ci := range callInstrs(as) {
		if h := ci.Common().StaticCallee(); h != nil && h.Pkg == as.Pkg && h.Signature.Recv() != nil && len(h.Blocks) > 0 && h != as && len(h.Params) == 1 {
			fns = append(fns, h)
		}
	}
	seenOpt := map[string]int{}
	for _, fn := range fns {
		recv := ssa.Value(fn.Params[0])
		for _, ci := range callInstrs(fn) {
			call, ok := ci.(*ssa.Call)
			if !ok {
				continue
			}
			o := CalleeObj(call)
			if o == nil || o.Pkg() == nil || !strings.HasSuffix(o.Pkg().Path(), "driver/options") {
				continue
			}
			field, known := want[o.Name()]
			if !known || len(call.Call.Args) == 0 {
				continue
			}
			seenOpt[o.Name()]++
			got := map[string]bool{}
			platformFieldsOf(call.Call.Args[0], recv, 0, map[ssa.Value]bool{}, got)
			var names []string
			for k := range got {
				names = append(names, k)
			}
			sort.Strings(names)
			construct := fmt.Sprintf("options.%s #%d is built from %s only", o.Name(), seenOpt[o.Name()], field)
			if len(names) == 1 && names[0] == field {
				r.OK(rule, construct, c.Pos(call.Pos()), "")
			} else {
				r.Bad(rule, construct, c.Pos(call.Pos()), fmt.Sprintf("the argument of options.%s derives from the definition field(s) %v, not from %s alone: a list of the definition reaches a hook it was not written for (an on-open list that also becomes the network driver's on-open is replayed, and a secret it types blind is typed a second time at a prompt that echoes)", o.Name(), names, field))
			}
		}
	}
	for name := range want {
		if seenOpt[name] == 0 {
			r.Bad(rule, "options."+name+" is produced", c.Pos(as.Pos()), "AsOptions never produces options."+name+": that part of every definition is ignored")
		} else if seenOpt[name] > 1 {
			r.Bad(rule, "options."+name+" is produced once", c.Pos(as.Pos()), fmt.Sprintf("AsOptions produces options.%s %d times", name, seenOpt[name]))
		}
	}
}

// ---- C02/C06: a chunk is exactly as long as its header says ---------------------------------------------------------
//
// The 1.1 decoder slices each chunk out of the received data as data[cursor : cursor+size]. `size` must be the number
// the chunk header declared -- the very result of the string-to-integer conversion -- on every path. A size that is
// "repaired" when it does not fit (clamped to what is left) turns a reply that was cut short by a lost connection into a
// shorter, well-formed-looking success.

func isConversionResult(v ssa.Value) bool {
	if cv, ok := v.(*ssa.Convert); ok {
		v = cv.X
	}
	ex, ok := v.(*ssa.Extract)
	if !ok || ex.Index != 0 {
		return false
	}
	call, ok := ex.Tuple.(*ssa.Call)
	if !ok {
		return false
	}
	o := CalleeObj(call)
	return o != nil && o.Pkg() != nil && o.Pkg().Path() == "strconv" && (o.Name() == "Atoi" || o.Name() == "ParseInt" || o.Name() == "ParseUint")
}

func checkChunkSizeAsDeclared(c *Ctx, r *Report, rule string, fns []*ssa.Function) {
	n := 0
	for _, fn := range fns {
		allInstrs(fn, func(in ssa.Instruction) {
			call, ok := in.(*ssa.Call)
			if !ok || !inLoop(call.Block()) {
				return
			}
			b, ok := call.Call.Value.(*ssa.Builtin)
			if !ok || b.Name() != "append" || len(call.Call.Args) != 2 || !isByteSeq(call.Call.Args[0].Type()) {
				return
			}
			if _, isPhi := call.Call.Args[0].(*ssa.Phi); !isPhi {
				return
			}
			sl, ok := call.Call.Args[1].(*ssa.Slice)
			if !ok {
				return
			}
			n++
			construct := fmt.Sprintf("%s chunk length#%d", shortFn(fn), n)
			if sl.Low == nil || sl.High == nil {
				r.Bad(rule, construct, c.Pos(call.Pos()), "the chunk appended is not data[cursor : cursor+size]")
				return
			}
			hi, isAdd := sl.High.(*ssa.BinOp)
			if !isAdd || hi.Op != token.ADD {
				r.Unk(rule, construct, c.Pos(call.Pos()), "the upper bound of the chunk's slice is not of the form cursor + size")
				return
			}
			var size ssa.Value
			switch {
			case hi.X == sl.Low:
				size = hi.Y
			case hi.Y == sl.Low:
				size = hi.X
			default:
				r.Unk(rule, construct, c.Pos(call.Pos()), "the upper bound of the chunk's slice is not of the form cursor + size")
				return
			}
			if isConversionResult(size) {
				r.OK(rule, construct, c.Pos(call.Pos()), "size is the converted header value itself")
			} else {
				r.Bad(rule, construct, c.Pos(call.Pos()), "the length of the chunk that is appended is not the number its header declared on every path (the converted value is replaced or adjusted before use): a declared size that does not fit what was received -- the mark of a reply cut short by a lost connection -- is bent to fit, and a truncated reply is reported as a complete, successful one")
			}
		})
	}
	if n == 0 {
		r.Notes = append(r.Notes, rule+": no chunk append of the form append(acc, data[lo:hi]...) found in the decoder; nothing decided by this rule")
	}
}

// ---- C06/C16: an in-process pipe the library reads device output from has a write end that somebody closes ---------
//
// A transport that reads from an io.Pipe sees the end of the stream only when the pipe's write end is closed. The ssh
// library closes the pipes it hands out itself (Session.StdoutPipe); an io.Pipe the transport makes on its own and
// plugs in as Session.Stdout is never closed by anybody: when the peer goes away the copy goroutine ends, the pending
// Read stays parked, and the operation in flight waits out its whole timeout instead of failing at once.

func checkPipeWriterClosed(c *Ctx, r *Report, rule string) {
	closes := map[*ssa.Package]bool{}
	for _, fn := range c.LibFns {
		for _, ci := range callInstrs(fn) {
			o := CalleeObj(ci)
			if o == nil || o.Pkg() == nil || o.Pkg().Path() != "io" || recvTypeName(o) != "PipeWriter" {
				continue
			}
			if o.Name() == "Close" || o.Name() == "CloseWithError" {
				closes[fn.Pkg] = true
			}
		}
	}
	n := 0
	for _, fn := range c.LibFns {
		for _, ci := range callInstrs(fn) {
			o := CalleeObj(ci)
			if o == nil || o.Pkg() == nil || o.Pkg().Path() != "io" || o.Name() != "Pipe" {
				continue
			}
			n++
			construct := fmt.Sprintf("io.Pipe #%d in %s", n, shortFn(fn))
			if closes[fn.Pkg] {
				r.OK(rule, construct, c.Pos(ci.Pos()), "the package closes a pipe writer")
			} else {
				r.Bad(rule, construct, c.Pos(ci.Pos()), "the package makes an in-process pipe but never closes a pipe's write end: a reader of that pipe can never see the end of the stream, so when the connection is lost the blocked read does not return and the operation in flight waits out its timeout instead of failing promptly")
			}
		}
	}
	if n == 0 {
		r.OK(rule, "the library makes no in-process pipe", "-", "no call of io.Pipe in the library")
	}
}

// ---- C08/C09: a sub-match of a device-supplied text is indexed only after the match was seen to exist ---------------
//
// FindSubmatch returns nil when the pattern does not match. Every constant index into such a result must be dominated
// by a test of the result (nil / len), or the result must come out of a range over FindAllSubmatch (whose elements are
// matches), and the index must not exceed the number of groups of the pattern. An unguarded index is a panic that a
// peer's reply can trigger (found on the pinned tree: G23).

func checkSubmatchGuarded(c *Ctx, r *Report, rule string, pkgSuffixes []string) {
	n := 0
	for _, fn := range c.LibFns {
		if fn.Pkg == nil {
			continue
		}
		inScope := false
		for _, sfx := range pkgSuffixes {
			if strings.HasSuffix(fn.Pkg.Pkg.Path(), sfx) {
				inScope = true
			}
		}
		if !inScope {
			continue
		}
		ord := 0
		for _, ci := range callInstrs(fn) {
			call, ok := ci.(*ssa.Call)
			if !ok {
				continue
			}
			o := CalleeObj(call)
			if o == nil || o.Pkg() == nil || o.Pkg().Path() != "regexp" || !strings.Contains(o.Name(), "Submatch") || strings.Contains(o.Name(), "All") {
				continue
			}
			// constant indexes into the result
			var idx []*ssa.IndexAddr
			for _, ref := range *call.Referrers() {
				if ia, isIA := ref.(*ssa.IndexAddr); isIA && ia.X == ssa.Value(call) {
					idx = append(idx, ia)
				}
			}
			if len(idx) == 0 {
				continue
			}
			n++
			ord++
			construct := fmt.Sprintf("%s sub-match #%d (%s)", shortFn(fn), ord, o.Name())
			groups := -1
			if f, _, isLoad := fieldLoad(call.Call.Args[0]); isLoad && f != nil {
				if pat, at := patternOfAnyField(c, f); at != nil {
					if re, err := syntax.Parse(pat, syntax.Perl); err == nil {
						groups = re.MaxCap()
					}
				}
			}
			bad := ""
			for _, ia := range idx {
				k, isC := constInt(ia.Index)
				guarded := false
				for _, ec := range edgeConds(ia.Block()) {
					if x, nonNilOnTrue, isNil := nilCheck(ec.Cond); isNil && x == ssa.Value(call) && nonNilOnTrue == ec.Truth {
						guarded = true
					}
					v, _ := unwrapNot(ec.Cond)
					if bo, isBo := v.(*ssa.BinOp); isBo {
						for _, side := range []ssa.Value{bo.X, bo.Y} {
							if lc, isCall := side.(*ssa.Call); isCall {
								if b, isB := lc.Call.Value.(*ssa.Builtin); isB && b.Name() == "len" && lc.Call.Args[0] == ssa.Value(call) {
									guarded = true
								}
							}
						}
					}
				}
				switch {
				case !guarded:
					bad = fmt.Sprintf("the result of %s is indexed at %s without a test that the pattern matched: text in which the pattern does not occur (a reply without the expected element) makes the call panic with an index out of range instead of returning an error", o.Name(), c.Pos(ia.Pos()))
				case isC && groups >= 0 && int(k) > groups:
					bad = fmt.Sprintf("sub-match %d is read at %s but the pattern has only %d group(s)", k, c.Pos(ia.Pos()), groups)
				}
			}
			if bad != "" {
				r.Bad(rule, construct, c.Pos(call.Pos()), bad)
			} else {
				r.OK(rule, construct, c.Pos(call.Pos()), "every index is dominated by a nil / len test of the match")
			}
		}
	}
	if n == 0 {
		r.Unk(rule, "sub-match indexes", "-", "no indexed FindSubmatch result found in scope")
	}
}

// patternOfAnyField: the constant pattern compiled into the given struct field (any pattern table of the library).
func patternOfAnyField(c *Ctx, f *types.Var) (string, ssa.Instruction) {
	var pat string
	var at ssa.Instruction
	for _, fn := range c.LibFns {
		allInstrs(fn, func(in ssa.Instruction) {
			ff, _, v, ok := fieldStore(in)
			if !ok || ff != f {
				return
			}
			if call, ok := v.(*ssa.Call); ok {
				if o := CalleeObj(call); o != nil && o.Pkg() != nil && o.Pkg().Path() == "regexp" && len(call.Call.Args) == 1 {
					if s, ok := constString(call.Call.Args[0]); ok {
						pat, at = s, in
					}
				}
			}
		})
	}
	return pat, at
}

// ---- C19/C14: no cutset trim where a prefix or suffix is meant -------------------------------------------------------
//
// strings.Trim / TrimLeft / TrimRight (and their bytes twins) take a *set* of characters. Handed a multi-character
// constant such as "~/" they strip every leading '~' and '/' -- "~/~lab/config" loses the tilde of its first component,
// and the option lands on another file. Wherever the library hands these functions a constant cutset of two or more
// distinct characters that are not all white space, a prefix / suffix operation was meant.

func checkNoCutsetForPrefix(c *Ctx, r *Report, rule string) {
	n := 0
	var bad []string
	badPos := ""
	for _, fn := range c.LibFns {
		for _, ci := range callInstrs(fn) {
			call, ok := ci.(*ssa.Call)
			if !ok {
				continue
			}
			o := CalleeObj(call)
			if o == nil || o.Pkg() == nil || (o.Pkg().Path() != "strings" && o.Pkg().Path() != "bytes") {
				continue
			}
			if o.Name() != "Trim" && o.Name() != "TrimLeft" && o.Name() != "TrimRight" {
				continue
			}
			if len(call.Call.Args) != 2 {
				continue
			}
			n++
			cut, isC := constString(call.Call.Args[1])
			if !isC {
				continue
			}
			distinct := map[rune]bool{}
			allSpace := true
			for _, ch := range cut {
				distinct[ch] = true
				if ch != ' ' && ch != '\t' && ch != '\n' && ch != '\r' {
					allSpace = false
				}
			}
			if len(distinct) >= 2 && !allSpace {
				bad = append(bad, fmt.Sprintf("%s.%s(…, %q) in %s at %s", o.Pkg().Name(), o.Name(), cut, shortFn(fn), c.Pos(call.Pos())))
				if badPos == "" {
					badPos = c.Pos(call.Pos())
				}
			}
		}
	}
	sort.Strings(bad)
	construct := "no character-set trim with a multi-character constant"
	if len(bad) > 0 {
		r.Bad(rule, construct, badPos, strings.Join(bad, "; ")+": the second argument is a set of characters, not a prefix or suffix -- every leading (trailing) character of the set is removed, so a value whose own first characters belong to the set (a home-relative path whose first component begins with '~') is altered and the setting lands on something else than what the caller named")
	} else {
		r.OK(rule, construct, "-", fmt.Sprintf("%d Trim / TrimLeft / TrimRight calls examined", n))
	}
}

// ---- C19/C17: a number of seconds is scaled before it becomes a Duration -------------------------------------------
//
// time.Duration(f) * time.Second with f a float converts first: the fractional part is gone before the multiplication
// (0.75 s becomes 0, which for a timeout means "expired"). Wherever the library converts a float to an integer type
// and multiplies the result by a constant, the scaling has to come first. Library-wide, so that the conversion may sit
// in any helper.

func checkFloatScaledBeforeConversion(c *Ctx, r *Report, rule string) {
	n := 0
	var bad []string
	badPos := ""
	for _, fn := range c.LibFns {
		allInstrs(fn, func(in ssa.Instruction) {
			cv, ok := in.(*ssa.Convert)
			if !ok {
				return
			}
			from, okF := cv.X.Type().Underlying().(*types.Basic)
			to, okT := cv.Type().Underlying().(*types.Basic)
			if !okF || !okT || from.Info()&types.IsFloat == 0 || to.Info()&types.IsInteger == 0 {
				return
			}
			n++
			// already a product (f * unit)? then the scaling came first
			if bo, isBo := cv.X.(*ssa.BinOp); isBo && bo.Op == token.MUL {
				return
			}
			for _, ref := range *cv.Referrers() {
				if bo, isBo := ref.(*ssa.BinOp); isBo && bo.Op == token.MUL {
					other := bo.Y
					if other == ssa.Value(cv) {
						other = bo.X
					}
					if k, isC := constInt(other); isC && k > 1 {
						bad = append(bad, fmt.Sprintf("%s at %s", shortFn(fn), c.Pos(cv.Pos())))
						if badPos == "" {
							badPos = c.Pos(cv.Pos())
						}
					}
				}
			}
		})
	}
	sort.Strings(bad)
	construct := "floats are scaled before they are converted to an integer type"
	if len(bad) > 0 {
		r.Bad(rule, construct, badPos, "a float is converted to an integer type and only then multiplied by a constant ("+strings.Join(bad, "; ")+"): the fractional part is lost before the scaling -- a definition's `timeout-ops: 0.75` becomes 0 (expired at once), `read-delay: 0.0005` becomes 0")
	} else {
		r.OK(rule, construct, "-", fmt.Sprintf("%d float-to-integer conversions examined", n))
	}
}

// ---- C19: the verdict of an option is looked at inside the apply loop and nowhere else ------------------------------
//
// The constructors tolerate ErrIgnoredOption inside their apply loops. The variable that held an option's verdict must
// not be tested again behind the loop: a later `if err != nil` that can still see the last option's (tolerated)
// ErrIgnoredOption turns "the last option in the list was not for this object" into a failed constructor -- the
// outcome then depends on the position of the options.

func checkOptionVerdictNotReexamined(c *Ctx, r *Report, rule string) {
	n := 0
	for _, fn := range constructorScope(c) {
		k := 0
		for _, ci := range callInstrs(fn) {
			call, ok := ci.(*ssa.Call)
			if !ok || call.Call.IsInvoke() || call.Call.StaticCallee() != nil {
				continue
			}
			nt, isNamed := call.Call.Value.Type().(*types.Named)
			if !isNamed || nt.Obj().Name() != "Option" || !inLoop(call.Block()) {
				continue
			}
			hdr := loopHeaderOf(call.Block())
			if hdr == nil {
				continue
			}
			loop := loopBlocks(hdr)
			n++
			k++
			construct := fmt.Sprintf("%s option call #%d: verdict examined inside the apply loop only", shortFn(fn), k)
			// every value the verdict can flow into through phis
			flows := map[ssa.Value]bool{call: true}
			work := []ssa.Value{call}
			for len(work) > 0 {
				v := work[len(work)-1]
				work = work[:len(work)-1]
				if v.Referrers() == nil {
					continue
				}
				for _, ref := range *v.Referrers() {
					if ph, isPhi := ref.(*ssa.Phi); isPhi && !flows[ph] {
						flows[ph] = true
						work = append(work, ph)
					}
				}
			}
			bad := ""
			allInstrs(fn, func(in ssa.Instruction) {
				iff, isIf := in.(*ssa.If)
				if !isIf || loop[iff.Block()] {
					return
				}
				if x, _, isNil := nilCheck(iff.Cond); isNil && flows[x] {
					bad = c.Pos(iff.Cond.Pos())
				}
			})
			if bad != "" {
				r.Bad(rule, construct, bad, "behind the apply loop the constructor tests an error variable that can still hold the verdict of the last option: when that option was (rightly) ignored by this object its ErrIgnoredOption is now taken for a failure -- the same option list succeeds or fails depending on which option comes last")
			} else {
				r.OK(rule, construct, c.Pos(call.Pos()), "")
			}
		}
	}
	if n == 0 {
		r.Unk(rule, "apply loops", "-", "no option call inside a loop found in the constructors")
	}
}

// ---- C04/C12/C17: the send-command step of a platform hook is the driver's own plain SendCommand --------------------
//
// A network definition's `driver.send-command` step must go through (*network.Driver).SendCommand -- the method that
// first brings the device to the default desired level -- and not through the embedded generic driver's method, and it
// passes no per-operation option of its own (an eager send leaves the prompt of that command unread in the queue, and the
// next dialogue is paced by the leftover instead of by the device).

func checkOnXSendCommand(c *Ctx, r *Report, rule string) {
	for _, sp := range [][2]string{{"asNetworkOnX", "driver/network"}, {"asGenericOnX", "driver/generic"}} {
		outer := c.LookupFunc("platform", "onXDefinitions", sp[0])
		if outer == nil {
			r.Anchor(rule, "(*platform.onXDefinitions)."+sp[0])
			continue
		}
		n := 0
		// the hook's closure and the unexported helpers of the package it reaches (two levels)
		scope := append([]*ssa.Function{outer}, AnonFuncsDeep(outer)...)
		inScope := map[*ssa.Function]bool{}
		for _, f := range scope {
			inScope[f] = true
		}
		for level := 0; level < 2; level++ {
			for _, f := range append([]*ssa.Function{}, scope...) {
				for _, ci := range callInstrs(f) {
					h := ci.Common().StaticCallee()
					if h == nil || h.Pkg != outer.Pkg || inScope[h] || len(h.Blocks) == 0 || strings.HasPrefix(h.Name(), "as") && h.Signature.Recv() != nil {
						continue
					}
					if o := h.Object(); o != nil && o.Exported() {
						continue
					}
					inScope[h] = true
					scope = append(scope, h)
					for _, a := range AnonFuncsDeep(h) {
						if !inScope[a] {
							inScope[a] = true
							scope = append(scope, a)
						}
					}
				}
			}
		}
		for _, fn := range scope {
			for _, ci := range callInstrs(fn) {
				call, ok := ci.(*ssa.Call)
				if !ok {
					continue
				}
				callee := call.Call.StaticCallee()
				if callee == nil || callee.Name() != "SendCommand" || callee.Signature.Recv() == nil {
					continue
				}
				n++
				construct := fmt.Sprintf("%s send-command step #%d", sp[0], n)
				recvPkg := ""
				if pt, isP := callee.Signature.Recv().Type().(*types.Pointer); isP {
					if nt, isN := pt.Elem().(*types.Named); isN && nt.Obj().Pkg() != nil {
						recvPkg = nt.Obj().Pkg().Path()
					}
				}
				var probs []string
				if !strings.HasSuffix(recvPkg, sp[1]) {
					probs = append(probs, fmt.Sprintf("the step calls the SendCommand of %s, not the one of %s: the command is typed at whatever level the device happens to be in (the network driver's method is the one that first acquires the default desired level)", recvPkg, sp[1]))
				}
				if len(call.Call.Args) >= 3 {
					if !isNilConst(call.Call.Args[len(call.Call.Args)-1]) {
						probs = append(probs, "the step passes per-operation options of its own to SendCommand (e.g. an eager send, which leaves that command's prompt unread in the queue: the next dialogue is then paced by the leftover prompt, not by the device)")
					}
				}
				if len(probs) > 0 {
					r.Bad(rule, construct, c.Pos(call.Pos()), strings.Join(probs, "; "))
				} else {
					r.OK(rule, construct, c.Pos(call.Pos()), "the driver's own SendCommand, no extra options")
				}
			}
		}
		if n == 0 {
			r.OK(rule, sp[0]+" has no send-command step in reach", c.Pos(outer.Pos()), "")
		}
	}
}

// ---- C03: a framed request goes out through sendRPC only -------------------------------------------------------------
//
// sendRPC is where a serialized request becomes one complete message on the wire: framed bytes, a return, and under 1.1
// one more return (the LF that completes the end-of-chunks marker). Any other place that hands framedXML to the channel
// re-implements that sequence -- and a bare Channel.Write of a 1.1 message leaves the marker unterminated.

func checkFramedOnlyThroughSendRPC(c *Ctx, r *Report, rule string) {
	send := c.LookupFunc("driver/netconf", "Driver", "sendRPC")
	if send == nil {
		r.Anchor(rule, "(*netconf.Driver).sendRPC")
		return
	}
	// functions that are called (statically) by sendRPC only
	onlyFromSend := func(f *ssa.Function) bool {
		if f == send {
			return true
		}
		if f.Object() == nil || f.Object().Exported() {
			return false
		}
		n := 0
		for _, g := range c.LibFns {
			if len(staticCallsTo(g, f)) > 0 {
				if g != send && g.Parent() != send {
					return false
				}
				n++
			}
		}
		return n > 0
	}
	n := 0
	for _, fn := range c.LibFns {
		if fn.Pkg == nil || !strings.HasSuffix(fn.Pkg.Pkg.Path(), "driver/netconf") {
			continue
		}
		// every use of the framed bytes of a serialized request (a load of the field framedXML that is handed to a call:
		// the channel's Write*, a write helper, the response constructor) sits in sendRPC or in a helper only it calls
		seenTop := map[*ssa.Function]bool{}
		allInstrs(fn, func(in ssa.Instruction) {
			call, ok := in.(*ssa.Call)
			if !ok {
				return
			}
			framed := false
			for _, a := range call.Call.Args {
				if f, _, isLoad := fieldLoad(a); isLoad && f != nil && f.Name() == "framedXML" {
					framed = true
				}
			}
			if !framed {
				return
			}
			top := fn
			for top.Parent() != nil {
				top = top.Parent()
			}
			if seenTop[top] {
				return
			}
			seenTop[top] = true
			n++
			construct := fmt.Sprintf("framed request used in %s", shortFn(top))
			if onlyFromSend(top) {
				r.OK(rule, construct, c.Pos(call.Pos()), "inside sendRPC")
			} else {
				r.Bad(rule, construct, c.Pos(call.Pos()), "a serialized request is handed on outside sendRPC: the write sequence that makes it one complete message (framed bytes, a return, and under 1.1 the further return that completes the end-of-chunks marker) is not applied, so under 1.1 the message stays unterminated on the wire")
			}
		})
	}
	if n == 0 {
		r.Unk(rule, "framed request uses", "-", "no use of framedXML found in the NETCONF driver")
	}
}

// ctxOverEdge: taking successor succIdx of block b means "a context is over": the branch tests ctx.Err() (non-nil on this
// edge), or it is the `case <-ctx.Done()` of a select, or it tests the verdict of a same-package helper all of whose
// returns with that verdict can only be reached over such an edge (one `ok` result handed up, two levels at most).
func ctxOverEdge(c *Ctx, b *ssa.BasicBlock, succIdx int, depth int) bool {
	cond := ifCond(b)
	if cond == nil || len(b.Succs) != 2 {
		return false
	}
	truthOfEdge := succIdx == 0
	if x, nonNilOnTrue, isNil := nilCheck(cond); isNil && nonNilOnTrue == truthOfEdge {
		if call, ok := x.(*ssa.Call); ok && call.Call.IsInvoke() && call.Call.Method.Name() == "Err" && isContextType(call.Call.Value.Type()) {
			return true
		}
	}
	v, neg := unwrapNot(cond)
	truth := truthOfEdge != neg
	// select case on ctx.Done()
	if bo, ok := v.(*ssa.BinOp); ok && bo.Op == token.EQL && truth {
		if ex, isEx := bo.X.(*ssa.Extract); isEx && ex.Index == 0 {
			if sel, isSel := ex.Tuple.(*ssa.Select); isSel {
				if k, isC := constInt(bo.Y); isC && int(k) < len(sel.States) {
					if call, isCall := sel.States[k].Chan.(*ssa.Call); isCall && call.Call.IsInvoke() && call.Call.Method.Name() == "Done" && isContextType(call.Call.Value.Type()) {
						return true
					}
				}
			}
		}
	}
	if depth >= 2 {
		return false
	}
	var hc *ssa.Call
	idx := 0
	switch x := v.(type) {
	case *ssa.Extract:
		if cl, ok := x.Tuple.(*ssa.Call); ok {
			hc, idx = cl, x.Index
		}
	case *ssa.Call:
		hc = x
	}
	if hc == nil {
		return false
	}
	h := hc.Call.StaticCallee()
	if h == nil || h.Pkg != b.Parent().Pkg || len(h.Blocks) == 0 {
		return false
	}
	rr := reachFrom(h, nil, nil, func(bb *ssa.BasicBlock, si int) bool { return !ctxOverEdge(c, bb, si, depth+1) })
	some := false
	for _, bb := range h.Blocks {
		ret, ok := bb.Instrs[len(bb.Instrs)-1].(*ssa.Return)
		if !ok || idx >= len(ret.Results) {
			continue
		}
		k, isC := ret.Results[idx].(*ssa.Const)
		if !isC {
			return false
		}
		if isConstTrue(k) != truth {
			continue
		}
		some = true
		if rr.visited[ret] {
			return false // this verdict can be returned without any context being over
		}
	}
	return some
}

// ---- C08: a recognised reply is filed, whatever the session's history -------------------------------------------------

func checkStoreUnconditional(c *Ctx, r *Report, rule string) {
	for _, name := range []string{"storeMessage", "storeSubscriptionMessage"} {
		fn := c.LookupFunc("driver/netconf", "Driver", name)
		if fn == nil {
			r.Anchor(rule, "(*netconf.Driver)."+name)
			continue
		}
		isStore := func(in ssa.Instruction) bool {
			_, ok := in.(*ssa.MapUpdate)
			return ok
		}
		construct := name + " files on every path"
		// declining to file an empty message is not dropping a reply: edges on which the bytes parameter is nil / empty
		// are not followed
		var payload ssa.Value
		for _, prm := range fn.Params {
			if isByteSeq(prm.Type()) {
				payload = prm
			}
		}
		emptyEdge := func(bb *ssa.BasicBlock, si int) bool {
			cond := ifCond(bb)
			if cond == nil || payload == nil || len(bb.Succs) != 2 {
				return true
			}
			truth := si == 0
			if x, nonNilOnTrue, isNil := nilCheck(cond); isNil && x == payload {
				return nonNilOnTrue == truth // follow only the non-nil edge
			}
			v, neg := unwrapNot(cond)
			if bo, ok := v.(*ssa.BinOp); ok {
				if _, isLen := linOf(bo.X, 0).coef["len("+payload.Name()+")"]; isLen {
					if k, isC := constInt(bo.Y); isC && k == 0 {
						t := truth != neg
						switch bo.Op {
						case token.EQL, token.LEQ:
							return !t
						case token.NEQ, token.GTR:
							return t
						}
					}
				}
			}
			return true
		}
		rrE := reachFrom(fn, nil, isStore, emptyEdge)
		var ret ssa.Instruction
		for _, bb := range fn.Blocks {
			for _, in := range bb.Instrs {
				if isReturn(in) && rrE.visited[in] && !(len(bb.Preds) == 0 && bb != fn.Blocks[0]) {
					ret = in
				}
			}
		}
		if rr := rrE; ret != nil {
			r.Bad(rule, construct, c.Pos(ret.Pos()), name+" can return without putting the message into its map: a reply that arrived in full and was recognised is dropped (for instance because an earlier call timed out), and the call it belongs to ends in a timeout", rr.witness(c, ret)...)
		} else {
			r.OK(rule, construct, c.Pos(fn.Pos()), "every return is preceded by the map update")
		}
	}
}

// ---- C09: the hello is read with the end-of-message delimiter, whatever options the caller passed -------------------
//
// The hello exchange is always framed with ]]>]]>. netconf.NewDriver therefore installs that delimiter as the channel's
// prompt pattern itself, *behind* the option loop (a prompt-pattern option meant for CLI drivers that reaches the
// NETCONF constructor -- a shared option list, a platform's options -- must not decide how the hello is read).

func checkHelloDelimiterInstalled(c *Ctx, r *Report, rule string) {
	fn := c.LookupFunc("driver/netconf", "", "NewDriver")
	gen := c.LookupFunc("driver/generic", "", "NewDriver")
	if fn == nil || gen == nil {
		r.Anchor(rule, "netconf.NewDriver / generic.NewDriver")
		return
	}
	construct := "NewDriver installs the 1.0 delimiter behind the options"
	isInstall := func(in ssa.Instruction) bool {
		f, _, v, ok := fieldStore(in)
		if !ok || f == nil || f.Name() != "PromptPattern" {
			return false
		}
		vf, _, isLoad := fieldLoad(v)
		return isLoad && vf != nil && vf.Name() == "v1Dot0Delim"
	}
	var genCalls []ssa.Instruction
	for _, ci := range staticCallsTo(fn, gen) {
		genCalls = append(genCalls, ci)
	}
	if len(genCalls) != 1 {
		r.Unk(rule, construct, c.Pos(fn.Pos()), "netconf.NewDriver does not call generic.NewDriver exactly once")
		return
	}
	rr := reachFrom(fn, genCalls[0], isInstall, nil)
	bad := ""
	for in := range rr.visited {
		ret, ok := in.(*ssa.Return)
		if !ok || len(ret.Results) != 2 || !isNilConst(ret.Results[1]) {
			continue
		}
		bad = c.Pos(ret.Pos())
	}
	if bad != "" {
		r.Bad(rule, construct, bad, "netconf.NewDriver can return a driver without having stored the end-of-message delimiter into the channel's prompt pattern after the options were applied: a prompt-pattern option in the caller's list then decides how the server's hello is read, the hello is never recognised and Open ends in a timeout for every cell of the negotiation table")
	} else {
		r.OK(rule, construct, c.Pos(fn.Pos()), "every success return is preceded by PromptPattern = v1Dot0Delim, behind generic.NewDriver")
	}
}

// ---- C14: a configured key that cannot be read or parsed fails the open ----------------------------------------------
//
// "The connection uses the configured key": both ssh transports read (and parse) the configured private key before they
// connect, and the error of that step must surface. OpenSSH only warns about an identity file it cannot use and goes on
// with the password or a default identity -- a system transport that merely logs the failure connects without the key
// the caller configured.

func checkKeyErrorsSurface(c *Ctx, r *Report, rule string) {
	n := 0
	for _, fn := range c.LibFns {
		if fn.Pkg == nil || !strings.HasSuffix(fn.Pkg.Pkg.Path(), "/transport") {
			continue
		}
		ord := 0
		for _, ci := range callInstrs(fn) {
			call, ok := ci.(*ssa.Call)
			if !ok {
				continue
			}
			o := CalleeObj(call)
			if o == nil || o.Pkg() == nil {
				continue
			}
			isKeyStep := false
			switch {
			case o.Pkg().Path() == "os" && o.Name() == "ReadFile":
				// the file read is the private key's: the argument loads a field named PrivateKeyPath
				for _, a := range call.Call.Args {
					if f, _, isLoad := fieldLoad(a); isLoad && f != nil && f.Name() == "PrivateKeyPath" {
						isKeyStep = true
					}
				}
			case strings.HasSuffix(o.Pkg().Path(), "crypto/ssh") && strings.HasPrefix(o.Name(), "ParsePrivateKey"):
				isKeyStep = true
			}
			if !isKeyStep {
				continue
			}
			n++
			ord++
			construct := fmt.Sprintf("%s key step #%d (%s.%s)", shortFn(fn), ord, o.Pkg().Name(), o.Name())
			// the failing edge of the step's error test does nothing but log and return
			errv := resultOf(call, 1)
			why := ""
			if errv == nil || errv.Referrers() == nil {
				why = "the error result is discarded"
			} else {
				tested := false
				for _, ref := range *errv.Referrers() {
					bo, isBo := ref.(*ssa.BinOp)
					if !isBo || bo.Referrers() == nil {
						continue
					}
					x, nonNilOnTrue, isNil := nilCheck(bo)
					if !isNil || x != errv {
						continue
					}
					for _, use := range *bo.Referrers() {
						iff, isIf := use.(*ssa.If)
						if !isIf {
							continue
						}
						tested = true
						idx := 1
						if nonNilOnTrue {
							idx = 0
						}
						fail := iff.Block().Succs[idx]
						ifb := iff.Block()
						rr := reachFrom(fn, iff, isReturn, func(bb *ssa.BasicBlock, si int) bool { return bb != ifb || bb.Succs[si] == fail })
						for in := range rr.visited {
							cl, isCall := in.(*ssa.Call)
							if !isCall {
								continue
							}
							if co := CalleeObj(cl); co != nil && co.Pkg() != nil && (strings.HasSuffix(co.Pkg().Path(), "/logging") || co.Pkg().Path() == "fmt" || co.Pkg().Path() == "errors") {
								continue
							}
							if _, isB := cl.Call.Value.(*ssa.Builtin); isB {
								continue
							}
							why = fmt.Sprintf("on the failing edge the open carries on (call at %s) instead of returning the error", c.Pos(cl.Pos()))
						}
						for in := range rr.visited {
							if ret, isRet := in.(*ssa.Return); isRet && len(ret.Results) > 0 && isNilConst(ret.Results[len(ret.Results)-1]) {
								why = fmt.Sprintf("on the failing edge the function returns nil at %s", c.Pos(ret.Pos()))
							}
						}
					}
				}
				if !tested {
					why = "the error is never tested"
				}
			}
			if why == "" {
				r.OK(rule, construct, c.Pos(call.Pos()), "the failing edge only logs and returns the error")
			} else {
				r.Bad(rule, construct, c.Pos(call.Pos()), "the error of reading / parsing the configured private key does not fail the open ("+why+"): the connection is made without the key the caller configured -- OpenSSH only warns about an unusable identity file and logs in with the password or a default identity")
			}
		}
	}
	if n == 0 {
		r.Unk(rule, "key steps", "-", "no read / parse of the configured private key found in the transports")
	}
}

// ---- C06/C07: only Open (on its failure path) and Close close the channel ------------------------------------------
//
// Channel.Close is not idempotent (known finding G4) and a closed channel's Read answers (nil, nil) for ever. An
// operation that closes the channel itself when it sees a connection error turns the caller's own `defer d.Close()`
// into a panic and makes every later read-first operation wait out its timeout instead of failing promptly.

func checkCloseCallers(c *Ctx, r *Report, rule string) {
	chClose := c.LookupFunc("channel", "Channel", "Close")
	if chClose == nil {
		r.Anchor(rule, "(*channel.Channel).Close")
		return
	}
	n := 0
	for _, fn := range c.LibFns {
		calls := staticCallsTo(fn, chClose)
		if len(calls) == 0 {
			continue
		}
		top := fn
		for top.Parent() != nil {
			top = top.Parent()
		}
		n++
		construct := "Channel.Close called from " + shortFn(top)
		if closeCallerAllowed(c, top, 0) {
			r.OK(rule, construct, c.Pos(calls[0].Pos()), "an Open (failure path) or Close method")
		} else {
			r.Bad(rule, construct, c.Pos(calls[0].Pos()), "the channel is closed by something other than an Open or Close method: Channel.Close is not idempotent, so the caller's own Close panics afterwards (close of closed channel), and a closed channel's Read answers (nil, nil) for ever, so later read-first operations wait out their timeout instead of failing at once")
		}
	}
	if n == 0 {
		r.Unk(rule, "Channel.Close callers", "-", "no caller of Channel.Close found")
	}
}

// ---- C12: the caller's dialogue description is read, never written ---------------------------------------------------
//
// A list of SendInteractiveEvent values belongs to the caller and is typically reused (the same dialogue on many
// devices). An operation that fills defaults into the events it was handed -- this driver's prompt pattern where no
// expected response was given -- makes the next driver wait for the first one's prompt.

func checkEventsNotMutated(c *Ctx, r *Report, rule string) {
	n := 0
	var bad []string
	badPos := ""
	for _, fn := range c.LibFns {
		allInstrs(fn, func(in ssa.Instruction) {
			st, ok := in.(*ssa.Store)
			if !ok {
				return
			}
			fa, ok := st.Addr.(*ssa.FieldAddr)
			if !ok {
				return
			}
			pt, ok := fa.X.Type().Underlying().(*types.Pointer)
			if !ok {
				return
			}
			nt, ok := pt.Elem().(*types.Named)
			if !ok || nt.Obj().Name() != "SendInteractiveEvent" {
				return
			}
			n++
			if _, isAlloc := fa.X.(*ssa.Alloc); isAlloc {
				return // an event built here
			}
			bad = append(bad, fmt.Sprintf("%s writes %s of an event it did not build (at %s)", shortFn(fn), fieldOfAddr(fa).Name(), c.Pos(st.Pos())))
			if badPos == "" {
				badPos = c.Pos(st.Pos())
			}
		})
	}
	sort.Strings(bad)
	construct := "no write into a caller's SendInteractiveEvent"
	if len(bad) > 0 {
		r.Bad(rule, construct, badPos, strings.Join(bad, "; ")+": the caller's dialogue description is altered in place -- the same list sent to a second driver is paced by what the first one filled in (its prompt pattern) instead of by that device's prompt")
	} else {
		r.OK(rule, construct, "-", fmt.Sprintf("%d stores into events examined (all into events built on the spot)", n))
	}
}

// ---- C05: every pass of a read-until loop looks at the deadline ------------------------------------------------------
//
// loops-cancellable demands that a waiting loop has an exit governed by its context. That exit must lie on *every*
// cycle: a check that was moved behind the "nothing read yet: sleep and continue" branch is never reached while the
// device is silent -- which is exactly the situation the deadline exists for.

func checkDeadlineEveryPass(c *Ctx, r *Report, rule string) {
	for _, name := range []string{"ReadUntilFuzzy", "ReadUntilExplicit", "ReadUntilPrompt", "ReadUntilAnyPrompt"} {
		outer, fn, read, _, why := readUntilLoopParts(c, name)
		if why == "anchor" {
			r.Anchor(rule, "(*channel.Channel)."+name+" / Read")
			continue
		}
		construct := shortFn(outer) + " looks at its context on every pass"
		if read == nil {
			r.OK(rule, construct, c.Pos(outer.Pos()), "loop shape decided elsewhere (enqueue-once)")
			continue
		}
		isCtxCheck := func(in ssa.Instruction) bool {
			switch x := in.(type) {
			case *ssa.Select:
				for _, st := range x.States {
					if call, ok := st.Chan.(*ssa.Call); ok && call.Call.IsInvoke() && call.Call.Method.Name() == "Done" && isContextType(call.Call.Value.Type()) {
						return true
					}
				}
			case *ssa.UnOp:
				if x.Op == token.ARROW {
					if call, ok := x.X.(*ssa.Call); ok && call.Call.IsInvoke() && call.Call.Method.Name() == "Done" && isContextType(call.Call.Value.Type()) {
						return true
					}
				}
			case *ssa.Call:
				if x.Call.IsInvoke() && x.Call.Method.Name() == "Err" && isContextType(x.Call.Value.Type()) {
					return true
				}
				// a helper of the package that is handed the context (isDone(ctx), next(ctx))
				if h := x.Call.StaticCallee(); h != nil && h.Pkg == fn.Pkg && h != fn {
					for _, a := range x.Call.Args {
						if isContextType(a.Type()) {
							return true
						}
					}
				}
			}
			return false
		}
		if isCtxCheck(read) {
			r.OK(rule, construct, c.Pos(read.Pos()), "the chunk helper is handed the context")
			continue
		}
		rr := reachFrom(fn, read, isCtxCheck, nil)
		if rr.visited[read] {
			r.Bad(rule, construct, c.Pos(read.Pos()), shortFn(outer)+": there is a cycle from one Channel.Read to the next that does not pass the context check (the branch taken while nothing arrives only sleeps and reads again): when the device goes silent the loop never sees its deadline and the operation hangs", rr.witness(c, read)...)
		} else {
			r.OK(rule, construct, c.Pos(read.Pos()), "every path from one read to the next passes the context check")
		}
	}
}

// closeCallerAllowed: an Open or Close method, or an unexported helper all of whose static callers are allowed (the
// failure path of Open moved into a helper), two levels.
func closeCallerAllowed(c *Ctx, fn *ssa.Function, depth int) bool {
	if fn.Signature.Recv() != nil && (fn.Name() == "Open" || fn.Name() == "Close") {
		return true
	}
	if depth >= 2 || fn.Object() == nil || fn.Object().Exported() {
		return false
	}
	n := 0
	for _, g := range c.LibFns {
		if len(staticCallsTo(g, fn)) == 0 {
			continue
		}
		top := g
		for top.Parent() != nil {
			top = top.Parent()
		}
		if top == fn {
			continue
		}
		n++
		if !closeCallerAllowed(c, top, depth+1) {
			return false
		}
	}
	return n > 0
}
