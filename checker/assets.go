package main

// E8: platform-definition validator. Decodes YAML nodes following the Go
// struct types of the repository (yaml tags read through go/types), the way
// yaml.v3 would, without running any scrapligo code.

import (
	"fmt"
	"go/types"
	"reflect"
	"sort"
	"strings"

	"gopkg.in/yaml.v3"
)

// yval is a decoded value: map[string]*yval (struct by Go field name or map by
// key), []*yval, or scalar.
type yval struct {
	Node    *yaml.Node
	Fields  map[string]*yval // struct: Go field name -> value (only fields present in YAML)
	Map     map[string]*yval // map[string]T
	Keys    []string         // map key order
	Seq     []*yval
	Str     string   // scalar text
	Kind    string   // "struct","map","seq","scalar","null","any"
	Tag     string   // resolved yaml tag for scalars (!!str, !!int, !!bool, !!float, !!null)
	Unknown []string // unknown keys (struct)
}

type ydecoder struct {
	errs  []string
	notes []string
}

func yamlKeyOf(f *types.Var, tag string) (string, bool) {
	st := reflect.StructTag(tag)
	y, ok := st.Lookup("yaml")
	if !ok {
		// yaml.v3 default: lower-cased field name
		if !f.Exported() {
			return "", false
		}
		return strings.ToLower(f.Name()), true
	}
	name := strings.Split(y, ",")[0]
	if name == "-" {
		return "", false
	}
	if name == "" {
		name = strings.ToLower(f.Name())
	}
	if !f.Exported() {
		return "", false
	}
	return name, true
}

func (d *ydecoder) errf(n *yaml.Node, format string, a ...interface{}) {
	d.errs = append(d.errs, fmt.Sprintf("line %d: ", n.Line)+fmt.Sprintf(format, a...))
}

func isNullNode(n *yaml.Node) bool {
	return n.Kind == yaml.ScalarNode && n.ShortTag() == "!!null"
}

// decode follows yaml.v3's decoding rules closely enough for the kinds used by
// the platform definitions: struct, map[string]T, []T, *T, string, bool, int,
// float, interface{}.
func (d *ydecoder) decode(n *yaml.Node, t types.Type, where string) *yval {
	if n.Kind == yaml.AliasNode {
		n = n.Alias
	}
	if p, ok := t.(*types.Pointer); ok {
		if isNullNode(n) {
			return &yval{Node: n, Kind: "null"}
		}
		return d.decode(n, p.Elem(), where)
	}
	u := t.Underlying()
	switch ut := u.(type) {
	case *types.Struct:
		if isNullNode(n) {
			return &yval{Node: n, Kind: "null"}
		}
		if n.Kind != yaml.MappingNode {
			d.errf(n, "%s: cannot unmarshal %s into struct %s", where, kindName(n), t.String())
			return &yval{Node: n, Kind: "null"}
		}
		v := &yval{Node: n, Kind: "struct", Fields: map[string]*yval{}}
		keyTo := map[string]*types.Var{}
		for i := 0; i < ut.NumFields(); i++ {
			f := ut.Field(i)
			if k, ok := yamlKeyOf(f, ut.Tag(i)); ok {
				keyTo[k] = f
			}
		}
		for i := 0; i+1 < len(n.Content); i += 2 {
			k := n.Content[i].Value
			f, ok := keyTo[k]
			if !ok {
				v.Unknown = append(v.Unknown, k)
				continue
			}
			v.Fields[f.Name()] = d.decode(n.Content[i+1], f.Type(), where+"."+k)
		}
		return v
	case *types.Map:
		if isNullNode(n) {
			return &yval{Node: n, Kind: "null"}
		}
		if n.Kind != yaml.MappingNode {
			d.errf(n, "%s: cannot unmarshal %s into map", where, kindName(n))
			return &yval{Node: n, Kind: "null"}
		}
		v := &yval{Node: n, Kind: "map", Map: map[string]*yval{}}
		for i := 0; i+1 < len(n.Content); i += 2 {
			k := n.Content[i].Value
			v.Keys = append(v.Keys, k)
			v.Map[k] = d.decode(n.Content[i+1], ut.Elem(), where+"["+k+"]")
		}
		return v
	case *types.Slice:
		if isNullNode(n) {
			return &yval{Node: n, Kind: "null"}
		}
		if n.Kind != yaml.SequenceNode {
			d.errf(n, "%s: cannot unmarshal %s into slice", where, kindName(n))
			return &yval{Node: n, Kind: "null"}
		}
		v := &yval{Node: n, Kind: "seq"}
		for i, c := range n.Content {
			v.Seq = append(v.Seq, d.decode(c, ut.Elem(), fmt.Sprintf("%s[%d]", where, i)))
		}
		return v
	case *types.Interface:
		return d.decodeAny(n)
	case *types.Basic:
		if isNullNode(n) {
			return &yval{Node: n, Kind: "null"}
		}
		if n.Kind != yaml.ScalarNode {
			d.errf(n, "%s: cannot unmarshal %s into %s", where, kindName(n), ut.Name())
			return &yval{Node: n, Kind: "null"}
		}
		tag := n.ShortTag()
		switch {
		case ut.Info()&types.IsString != 0:
			// any scalar decodes into a string
		case ut.Info()&types.IsBoolean != 0:
			if tag != "!!bool" {
				d.errf(n, "%s: cannot unmarshal %s `%s` into bool", where, tag, n.Value)
			}
		case ut.Info()&types.IsInteger != 0:
			if tag != "!!int" {
				d.errf(n, "%s: cannot unmarshal %s `%s` into int", where, tag, n.Value)
			}
		case ut.Info()&types.IsFloat != 0:
			if tag != "!!float" && tag != "!!int" {
				d.errf(n, "%s: cannot unmarshal %s `%s` into float", where, tag, n.Value)
			}
		}
		return &yval{Node: n, Kind: "scalar", Str: n.Value, Tag: tag}
	}
	d.errf(n, "%s: unsupported Go type %s in definition struct", where, t.String())
	return &yval{Node: n, Kind: "null"}
}

// decodeAny mirrors yaml.v3 decoding into interface{}: mapping ->
// map[string]interface{}, sequence -> []interface{}, scalars by resolved tag.
func (d *ydecoder) decodeAny(n *yaml.Node) *yval {
	if n.Kind == yaml.AliasNode {
		n = n.Alias
	}
	switch n.Kind {
	case yaml.MappingNode:
		v := &yval{Node: n, Kind: "map", Map: map[string]*yval{}}
		for i := 0; i+1 < len(n.Content); i += 2 {
			k := n.Content[i].Value
			v.Keys = append(v.Keys, k)
			v.Map[k] = d.decodeAny(n.Content[i+1])
		}
		return v
	case yaml.SequenceNode:
		v := &yval{Node: n, Kind: "seq"}
		for _, c := range n.Content {
			v.Seq = append(v.Seq, d.decodeAny(c))
		}
		return v
	case yaml.ScalarNode:
		if isNullNode(n) {
			return &yval{Node: n, Kind: "null", Tag: "!!null"}
		}
		return &yval{Node: n, Kind: "scalar", Str: n.Value, Tag: n.ShortTag()}
	}
	return &yval{Node: n, Kind: "null"}
}

// goDynType names the Go dynamic type yaml.v3 produces for an interface{} target.
func (v *yval) goDynType() string {
	switch v.Kind {
	case "map":
		return "map[string]interface {}"
	case "seq":
		return "[]interface {}"
	case "null":
		return "nil"
	case "scalar":
		switch v.Tag {
		case "!!str":
			return "string"
		case "!!int":
			return "int"
		case "!!float":
			return "float64"
		case "!!bool":
			return "bool"
		case "!!timestamp":
			return "time.Time"
		}
		return "string"
	}
	return "?"
}

func kindName(n *yaml.Node) string {
	switch n.Kind {
	case yaml.MappingNode:
		return "mapping"
	case yaml.SequenceNode:
		return "sequence"
	case yaml.ScalarNode:
		return "scalar " + n.ShortTag()
	}
	return "node"
}

func (v *yval) str(field string) string {
	if v == nil || v.Fields == nil {
		return ""
	}
	f := v.Fields[field]
	if f == nil || f.Kind != "scalar" {
		return ""
	}
	return f.Str
}

func (v *yval) has(field string) bool {
	if v == nil || v.Fields == nil {
		return false
	}
	f := v.Fields[field]
	return f != nil && f.Kind != "null"
}

func sortedKeys(m map[string]*yval) []string {
	var ks []string
	for k := range m {
		ks = append(ks, k)
	}
	sort.Strings(ks)
	return ks
}
