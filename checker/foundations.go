package main

// Shared structural foundations. Several properties are stated end-to-end ("what the caller gets is exactly what the
// device sent") and therefore rest on the same lower-layer facts. Each dependent check restates those facts for
// itself, so that a change which breaks one of them is reported by the check of every property it breaks -- not only
// by the property in whose name the rule was first written.

import (
	"strings"
)

type foundation struct {
	name  string
	text  string
	floor int
	run   func(c *Ctx, sub *Report)
	rules []string // rules of the sub-report to import
	share string   // name of another foundation whose (cached) sub-report is reused
}

func foundationTable() map[string]foundation {
	return map[string]foundation{
		"read-loop": {"read-loop", "the channel read loop enqueues every successful non-empty transport read exactly once, with only CR removal and ANSI stripping applied; the read-until loops return everything they dequeued", 6,
			func(c *Ctx, sub *Report) { checkReadLoopEnqueue(c, sub); checkReadUntilLoops(c, sub) }, []string{"C01/enqueue-once"}, ""},
		"transport-pipe": {"transport-pipe", "each built-in transport's Read returns exactly the bytes of one underlying read, Write forwards the caller's bytes, and the Transport wrapper passes both through unchanged", 9,
			func(c *Ctx, sub *Report) {
				for _, typ := range []string{"System", "Standard", "Telnet"} {
					checkReadPrefix(c, sub, typ)
					checkWriteForward(c, sub, typ)
				}
				checkTransportWrapper(c, sub)
			}, []string{"C16/read-prefix", "C16/write-forward", "C16/wrapper"}, ""},
		"queue": {"queue", "the byte queue between the read loop and the operations is a lossless FIFO with a consistent depth mailbox", 20,
			func(c *Ctx, sub *Report) { runC20(c, sub) }, []string{"C20/locked", "C20/token", "C20/republish", "C20/fifo-shape", "C20/non-blocking-empty"}, ""},
		"netconf-framing": {"netconf-framing", "serialize frames the payload it reports, in the framing of the version it is given", 8,
			func(c *Ctx, sub *Report) { checkSerializeFraming(c, sub) }, []string{"C03/framing"}, ""},
		"priv-steps": {"priv-steps", "processAcquirePriv / escalate / deescalate implement the step table of the privilege machinery", 9,
			func(c *Ctx, sub *Report) { runC04(c, sub) }, []string{"C04/step-table", "C04/step-wiring", "C04/level-detection", "C04/graph-links"}, ""},
		"send-input": {"send-input", "one send = write(input), read until the echo, write one return, read until the prompt; the echo matchers test what they are meant to test", 8,
			func(c *Ctx, sub *Report) {
				checkSendInputWorker(c, sub)
				checkFuzzyConsume(c, sub)
				checkFuzzyThreaded(c, sub)
				checkWritePrimitives(c, sub)
				checkExplicitMatcherArgs(c, sub, "C01/explicit-matcher")
			}, []string{"C01/tx-seq", "C01/fuzzy-consume", "C01/write-primitives", "C01/explicit-matcher"}, ""},
		"netconf-reader": {"netconf-reader", "the NETCONF reader keeps what follows its echo, examines it before reading on, and files each reply under the id found in it", 4,
			func(c *Ctx, sub *Report) { runC08(c, sub) }, []string{"C08/echo-keeps-rest", "C08/echo-remainder-examined", "C08/own-id", "C08/id-pattern"}, ""},
		"netconf-version": {"netconf-version", "determineVersion implements the negotiation table: the selected version and the delimiter installed in the channel always agree", 12,
			func(c *Ctx, sub *Report) { runC09(c, sub) }, []string{"C09/version-table"}, ""},
		"write-primitives": {"write-primitives", "Channel.Write hands the caller's bytes unchanged to the transport; WriteAndReturn is that write followed by exactly one return", 3,
			func(c *Ctx, sub *Report) { checkWritePrimitives(c, sub) }, []string{"C01/write-primitives"}, ""},
		"client-hello": {"client-hello", "the client hello written is the constant of the selected version, advertising exactly that version", 4,
			func(c *Ctx, sub *Report) { checkHellos(c, sub) }, []string{"C09/hello"}, ""},
		"callbacks": {"callbacks", "the callback machinery scans every callback on every pass and executes the first one whose trigger holds with the bookkeeping of the specification (once, reset, next timeout)", 8,
			func(c *Ctx, sub *Report) { runC18(c, sub) }, []string{"C18/execute", "C18/scan-every-pass", "C18/scan-every-callback", "C18/first-in-order", "C18/timeout"}, ""},
		"interactive": {"interactive", "the interactive send paces its events on the device's responses and stops at a completion pattern before typing the next (hidden) input", 5,
			func(c *Ctx, sub *Report) { runC12(c, sub) }, []string{"C12/pace", "C12/completion-gate", "C12/accumulate", "C12/escalation-shape"}, ""},
		"response-record": {"response-record", "Response.Record stores the recorded output unchanged as the result and marks failure exactly on a contained failure string", 3,
			func(c *Ctx, sub *Report) { checkRecordMark(c, sub) }, []string{"C13/mark"}, ""},
		"driver-options": {"driver-options", "every driver option stores exactly the setting it names, from its own argument, on every success path", 45,
			func(c *Ctx, sub *Report) { runC19(c, sub) }, []string{"C19/O1O2", "C19/O3", "C19/O5", "C19/O8"}, ""},
		"platform-fresh": {"platform-fresh", "every load of a platform definition yields objects of its own", 1,
			func(c *Ctx, sub *Report) { checkFreshDefinition(c, sub) }, []string{"C17/fresh-definition"}, ""},
		"telnet-negotiation": {"telnet-negotiation", "the telnet opening is parsed byte by byte by the specified automaton and everything else is handed to the first read", 50,
			func(c *Ctx, sub *Report) { runC15(c, sub) }, []string{"C15/automaton", "C15/feed-all", "C15/first-read"}, ""},
		"open-cleanup": {"open-cleanup", "a failed Channel.Open closes channel and transport exactly once and requeues what the login consumed", 4,
			func(c *Ctx, sub *Report) {
				checkOpenCleanup(c, sub)
				checkNoDoubleChannelClose(c, sub, "C10/no-double-close")
			}, []string{"C10/cleanup-requeue", "C10/no-double-close"}, ""},
		"priv-bounded": {"priv-bounded", "the privilege navigation loop gives up after a number of steps bounded by the size of the level graph (Close of a network driver runs it from the on-close hook)", 2,
			func(c *Ctx, sub *Report) { runC04(c, sub) }, []string{"C04/bounded"}, "priv-steps"},
		"escalation-secret": {"escalation-secret", "the escalation dialogue types the secondary secret and nothing else in answer to the escalation prompt", 6,
			func(c *Ctx, sub *Report) { runC04(c, sub) }, []string{"C04/step-wiring"}, "priv-steps"},
		"platform-options": {"platform-options", "every option name a platform definition can carry produces the driver option of that name", 14,
			func(c *Ctx, sub *Report) { runC19(c, sub) }, []string{"C19/O7"}, "driver-options"},
		"netconf-reader-lifecycle": {"netconf-reader-lifecycle", "the NETCONF reader stays in its loop on channel errors and sendRPC hands on the error it is offered", 2,
			func(c *Ctx, sub *Report) { checkNetconfForward(c, sub); checkNetconfReaderKeepsReporting(c, sub) }, []string{"C06/netconf-forward"}, ""},
		"lock-paired": {"lock-paired", "every Lock of a library mutex is released on all paths to the return", 4,
			func(c *Ctx, sub *Report) { checkLockPaired(c, sub) }, []string{"C07/lock-paired"}, ""},
		"multi-response": {"multi-response", "AppendResponse appends every response it is given (the i-th response belongs to the i-th command)", 2,
			func(c *Ctx, sub *Report) { checkAggregate(c, sub) }, []string{"C13/aggregate"}, ""},
		"eof-chain": {"eof-chain", "every transport read function hands its error on unwrapped or wrapped with %w (the reader's errors.Is(err, io.EOF) sees the end of the stream)", 6,
			func(c *Ctx, sub *Report) { checkEOFChain(c, sub) }, []string{"C07/eof-chain"}, ""},
		"search-window": {"search-window", "prompt / response searches look at a suffix of the buffer that starts on a line boundary found in itself", 4,
			func(c *Ctx, sub *Report) { checkSearchDepth(c, sub) }, []string{"C01/search-depth"}, ""},
		"read-until": {"read-until", "each read-until loop hands its accumulation to the matcher after every chunk it appended, before it reads again", 4,
			func(c *Ctx, sub *Report) { checkMatchEveryChunk(c, sub, "C01/match-every-chunk") }, []string{"C01/match-every-chunk"}, ""},
		"chunk-decoder": {"chunk-decoder", "the NETCONF 1.1 decoder takes each chunk exactly as long as its header declares, fails on any disagreement between framing and data, and succeeds only through the end-of-chunks marker", 3,
			func(c *Ctx, sub *Report) { runC02(c, sub) }, []string{"C02/size-as-declared", "C02/terminator-required", "C02/failed-on-parse-error"}, ""},
		"get-prompt": {"get-prompt", "GetPrompt writes one return, reads until the prompt once and hands back the prompt found in exactly those bytes; nothing it read is put back", 1,
			func(c *Ctx, sub *Report) { checkGetPromptShape(c, sub) }, []string{"C04/get-prompt"}, ""},
		"read-returns-dequeued": {"read-returns-dequeued", "whatever Channel.Read / ReadAll take out of the queue is returned to the caller on every path", 2,
			func(c *Ctx, sub *Report) { runC20(c, sub) }, []string{"C20/dequeued-returned"}, "queue"},
		"ansi": {"ansi", "the escape-sequence pattern applied by the read loop cannot run across ESC or a line end and never cuts a complete sequence short, and matches the specimen control sequences whole", 3,
			func(c *Ctx, sub *Report) {
				checkANSIPatternBounded(c, sub, "x/ansi")
				checkANSINoShadow(c, sub, "x/ansi")
				checkANSISpecimens(c, sub, "x/ansi")
			}, []string{"x/ansi"}, ""},
	}
}

// foundationCache keeps one sub-report per foundation and run (the rules are deterministic).
var foundationCache = map[string]*Report{}

// foundationRunning guards against re-entry.
var foundationRunning = map[string]bool{}

func importFoundation(c *Ctx, r *Report, prop, name string) {
	f, ok := foundationTable()[name]
	if !ok {
		return
	}
	rule := prop + "/found-" + f.name
	r.Rule(rule, "(foundation) "+f.text, f.floor)
	key := name
	if f.share != "" {
		key = f.share
	}
	sub := foundationCache[key]
	if sub == nil {
		if foundationRunning[key] {
			// re-entered while it is being computed (a rule of the foundation consults data prepared by the importing
			// property): the outer computation imports the result
			return
		}
		foundationRunning[key] = true
		sub = NewReport("x")
		f.run(c, sub)
		foundationRunning[key] = false
		foundationCache[key] = sub
	}
	want := map[string]bool{}
	for _, x := range f.rules {
		want[x] = true
	}
	for _, o := range sub.Obs {
		if !want[o.Rule] {
			continue
		}
		construct := strings.TrimPrefix(o.Key, o.Rule+" @ ")
		r.add(rule, construct+" (via "+strings.SplitN(o.Rule, "/", 2)[1]+")", o.Status, o.Pos, o.Msg, nil)
	}
}
