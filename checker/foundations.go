package main

// Shared structural foundations. Several properties are stated end-to-end ("what the caller gets is exactly what the
// device sent") and therefore rest on the same lower-layer facts. Each dependent check restates those facts for
// itself, so that a change which breaks one of them is reported by the check of every property it breaks -- not only
// by the property in whose name the rule was first written.

import (
	"strings"
)

type foundation struct {
	name  string
	text  string
	floor int
	run   func(c *Ctx, sub *Report)
	rules []string // rules of the sub-report to import
}

func foundationTable() map[string]foundation {
	return map[string]foundation{
		"read-loop": {"read-loop", "the channel read loop enqueues every successful non-empty transport read exactly once, with only CR removal and ANSI stripping applied; the read-until loops return everything they dequeued", 6,
			func(c *Ctx, sub *Report) { checkReadLoopEnqueue(c, sub); checkReadUntilLoops(c, sub) }, []string{"C01/enqueue-once"}},
		"transport-pipe": {"transport-pipe", "each built-in transport's Read returns exactly the bytes of one underlying read, Write forwards the caller's bytes, and the Transport wrapper passes both through unchanged", 10,
			func(c *Ctx, sub *Report) {
				for _, typ := range []string{"System", "Standard", "Telnet"} {
					checkReadPrefix(c, sub, typ)
					checkWriteForward(c, sub, typ)
				}
				checkTransportWrapper(c, sub)
			}, []string{"C16/read-prefix", "C16/write-forward", "C16/wrapper"}},
		"queue": {"queue", "the byte queue between the read loop and the operations is a lossless FIFO with a consistent depth mailbox", 20,
			func(c *Ctx, sub *Report) { runC20(c, sub) }, []string{"C20/locked", "C20/token", "C20/republish", "C20/fifo-shape", "C20/non-blocking-empty"}},
		"netconf-framing": {"netconf-framing", "serialize frames the payload it reports, in the framing of the version it is given", 8,
			func(c *Ctx, sub *Report) { checkSerializeFraming(c, sub) }, []string{"C03/framing"}},
		"priv-steps": {"priv-steps", "processAcquirePriv / escalate / deescalate implement the step table of the privilege machinery", 9,
			func(c *Ctx, sub *Report) { runC04(c, sub) }, []string{"C04/step-table", "C04/step-wiring", "C04/level-detection", "C04/graph-links"}},
		"ansi": {"ansi", "the escape-sequence pattern applied by the read loop cannot run across ESC or a line end", 1,
			func(c *Ctx, sub *Report) { checkANSIPatternBounded(c, sub, "x/ansi") }, []string{"x/ansi"}},
	}
}

// foundationCache keeps one sub-report per foundation and run (the rules are deterministic).
var foundationCache = map[string]*Report{}

func importFoundation(c *Ctx, r *Report, prop, name string) {
	f, ok := foundationTable()[name]
	if !ok {
		return
	}
	rule := prop + "/found-" + f.name
	r.Rule(rule, "(foundation) "+f.text, f.floor)
	sub := foundationCache[name]
	if sub == nil {
		sub = NewReport("x")
		f.run(c, sub)
		foundationCache[name] = sub
	}
	want := map[string]bool{}
	for _, x := range f.rules {
		want[x] = true
	}
	for _, o := range sub.Obs {
		if !want[o.Rule] {
			continue
		}
		construct := strings.TrimPrefix(o.Key, o.Rule+" @ ")
		r.add(rule, construct+" ["+strings.SplitN(o.Rule, "/", 2)[1]+"]", o.Status, o.Pos, o.Msg, nil)
	}
}
