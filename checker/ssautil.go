package main

// Small SSA helpers shared by all engines: instruction order, reachability
// queries with avoid-sets and edge filters (E2), field access decoding,
// condition classification.

import (
	"fmt"
	"go/constant"
	"go/token"
	"go/types"
	"strings"

	"golang.org/x/tools/go/ssa"
)

func instrIndex(in ssa.Instruction) int {
	b := in.Block()
	for i, x := range b.Instrs {
		if x == in {
			return i
		}
	}
	return -1
}

// dominatesInstr reports whether a is executed before b on every path to b.
func dominatesInstr(a, b ssa.Instruction) bool {
	if a.Block() == b.Block() {
		return instrIndex(a) < instrIndex(b)
	}
	return a.Block().Dominates(b.Block())
}

// EdgeFilter decides whether the edge from block b to its succ index i may be followed.
type EdgeFilter func(b *ssa.BasicBlock, succIdx int) bool

// reachResult holds the instructions visited and parent links for witnesses.
type reachResult struct {
	visited map[ssa.Instruction]bool
	parentB map[*ssa.BasicBlock]*ssa.BasicBlock
	startB  *ssa.BasicBlock
}

// reachFrom explores forward from just after `start` (or from function entry if
// start is nil), not continuing past instructions for which stop() is true
// (those instructions are still marked visited). Returns the visited set.
func reachFrom(fn *ssa.Function, start ssa.Instruction, stop func(ssa.Instruction) bool, ef EdgeFilter) *reachResult {
	res := &reachResult{visited: map[ssa.Instruction]bool{}, parentB: map[*ssa.BasicBlock]*ssa.BasicBlock{}}
	if len(fn.Blocks) == 0 {
		return res
	}
	type item struct {
		b   *ssa.BasicBlock
		idx int
	}
	seenBlockStart := map[*ssa.BasicBlock]bool{}
	var work []item
	if start == nil {
		work = append(work, item{fn.Blocks[0], 0})
		seenBlockStart[fn.Blocks[0]] = true
		res.startB = fn.Blocks[0]
	} else {
		work = append(work, item{start.Block(), instrIndex(start) + 1})
		res.startB = start.Block()
	}
	for len(work) > 0 {
		it := work[len(work)-1]
		work = work[:len(work)-1]
		stopped := false
		for i := it.idx; i < len(it.b.Instrs); i++ {
			in := it.b.Instrs[i]
			res.visited[in] = true
			if stop != nil && stop(in) {
				stopped = true
				break
			}
		}
		if stopped {
			continue
		}
		for si, s := range it.b.Succs {
			if ef != nil && !ef(it.b, si) {
				continue
			}
			if !seenBlockStart[s] {
				seenBlockStart[s] = true
				res.parentB[s] = it.b
				work = append(work, item{s, 0})
			}
		}
	}
	return res
}

// witness renders the block path from the start to the block of `to`.
func (r *reachResult) witness(c *Ctx, to ssa.Instruction) []string {
	var chain []*ssa.BasicBlock
	b := to.Block()
	for b != nil {
		chain = append(chain, b)
		if b == r.startB {
			break
		}
		b = r.parentB[b]
		if len(chain) > 200 {
			break
		}
	}
	var out []string
	for i := len(chain) - 1; i >= 0; i-- {
		bb := chain[i]
		pos := token.NoPos
		for _, in := range bb.Instrs {
			if in.Pos().IsValid() {
				pos = in.Pos()
				break
			}
		}
		out = append(out, fmt.Sprintf("block %d (%s) %s", bb.Index, bb.Comment, c.Pos(pos)))
	}
	return out
}

// isReturn reports a normal function exit.
func isReturn(in ssa.Instruction) bool {
	_, ok := in.(*ssa.Return)
	return ok
}

// allInstrs iterates all instructions of fn.
func allInstrs(fn *ssa.Function, f func(ssa.Instruction)) {
	for _, b := range fn.Blocks {
		for _, in := range b.Instrs {
			f(in)
		}
	}
}

// callInstrs lists call/go/defer instructions of fn.
func callInstrs(fn *ssa.Function) []ssa.CallInstruction {
	var out []ssa.CallInstruction
	allInstrs(fn, func(in ssa.Instruction) {
		if ci, ok := in.(ssa.CallInstruction); ok {
			out = append(out, ci)
		}
	})
	return out
}

// ---- field access decoding ------------------------------------------------

// fieldLoad: if v is a load of x.f (through FieldAddr+deref or Field), return
// the field and the base value.
func fieldLoad(v ssa.Value) (*types.Var, ssa.Value, bool) {
	switch x := v.(type) {
	case *ssa.UnOp:
		if x.Op == token.MUL {
			if fa, ok := x.X.(*ssa.FieldAddr); ok {
				return fieldOfAddr(fa), fa.X, true
			}
		}
	case *ssa.Field:
		st := x.X.Type().Underlying().(*types.Struct)
		return st.Field(x.Field), x.X, true
	}
	return nil, nil, false
}

func fieldOfAddr(fa *ssa.FieldAddr) *types.Var {
	pt := fa.X.Type().Underlying().(*types.Pointer)
	st := pt.Elem().Underlying().(*types.Struct)
	return st.Field(fa.Field)
}

// fieldStore: if in stores to x.f return field, base, value.
func fieldStore(in ssa.Instruction) (*types.Var, ssa.Value, ssa.Value, bool) {
	st, ok := in.(*ssa.Store)
	if !ok {
		return nil, nil, nil, false
	}
	if fa, ok := st.Addr.(*ssa.FieldAddr); ok {
		return fieldOfAddr(fa), fa.X, st.Val, true
	}
	return nil, nil, nil, false
}

// fieldPathLoad decodes nested loads like d.Channel.PromptPattern into the
// field chain [Channel, PromptPattern] and the root value.
func fieldPathLoad(v ssa.Value) ([]*types.Var, ssa.Value) {
	var chain []*types.Var
	cur := v
	for {
		f, base, ok := fieldLoad(cur)
		if !ok {
			// FieldAddr used directly (address of nested struct)
			if fa, ok2 := cur.(*ssa.FieldAddr); ok2 {
				chain = append([]*types.Var{fieldOfAddr(fa)}, chain...)
				cur = fa.X
				continue
			}
			break
		}
		chain = append([]*types.Var{f}, chain...)
		cur = base
	}
	return chain, cur
}

func fieldChainString(ch []*types.Var) string {
	var s []string
	for _, f := range ch {
		s = append(s, f.Name())
	}
	return strings.Join(s, ".")
}

// ---- conditions -------------------------------------------------------------

// unwrapNot strips boolean negations, returning the inner value and polarity.
func unwrapNot(v ssa.Value) (ssa.Value, bool) {
	neg := false
	for {
		u, ok := v.(*ssa.UnOp)
		if !ok || u.Op != token.NOT {
			return v, neg
		}
		v = u.X
		neg = !neg
	}
}

// constOf returns the constant value of v if it is a constant (through
// conversions), else nil.
func constOf(v ssa.Value) *ssa.Const {
	for {
		switch x := v.(type) {
		case *ssa.Const:
			return x
		case *ssa.Convert:
			v = x.X
		case *ssa.ChangeType:
			v = x.X
		default:
			return nil
		}
	}
}

func isNilConst(v ssa.Value) bool {
	c := constOf(v)
	return c != nil && c.Value == nil
}

func constString(v ssa.Value) (string, bool) {
	c := constOf(v)
	if c == nil || c.Value == nil || c.Value.Kind() != constant.String {
		return "", false
	}
	return constant.StringVal(c.Value), true
}

func constInt(v ssa.Value) (int64, bool) {
	c := constOf(v)
	if c == nil || c.Value == nil || c.Value.Kind() != constant.Int {
		return 0, false
	}
	i, ok := constant.Int64Val(c.Value)
	return i, ok
}

func constBool(v ssa.Value) (bool, bool) {
	c := constOf(v)
	if c == nil || c.Value == nil || c.Value.Kind() != constant.Bool {
		return false, false
	}
	return constant.BoolVal(c.Value), true
}

// ifCond returns the condition of the If terminating block b (nil if none).
func ifCond(b *ssa.BasicBlock) ssa.Value {
	if len(b.Instrs) == 0 {
		return nil
	}
	if i, ok := b.Instrs[len(b.Instrs)-1].(*ssa.If); ok {
		return i.Cond
	}
	return nil
}

// nilCheck: if cond is `x != nil` or `x == nil` returns x and whether the TRUE
// edge means non-nil.
func nilCheck(cond ssa.Value) (ssa.Value, bool, bool) {
	v, neg := unwrapNot(cond)
	b, ok := v.(*ssa.BinOp)
	if !ok || (b.Op != token.NEQ && b.Op != token.EQL) {
		return nil, false, false
	}
	var x ssa.Value
	switch {
	case isNilConst(b.Y):
		x = b.X
	case isNilConst(b.X):
		x = b.Y
	default:
		return nil, false, false
	}
	nonNilOnTrue := b.Op == token.NEQ
	if neg {
		nonNilOnTrue = !nonNilOnTrue
	}
	return x, nonNilOnTrue, true
}

// stripValue sees through ChangeType/ChangeInterface/MakeInterface/Convert-free wrappers.
func stripValue(v ssa.Value) ssa.Value {
	for {
		switch x := v.(type) {
		case *ssa.ChangeType:
			v = x.X
		case *ssa.ChangeInterface:
			v = x.X
		case *ssa.MakeInterface:
			v = x.X
		default:
			return v
		}
	}
}

// extractOf: if v is Extract of a tuple-returning call, return the call and index.
func extractOf(v ssa.Value) (*ssa.Call, int, bool) {
	e, ok := v.(*ssa.Extract)
	if !ok {
		return nil, 0, false
	}
	c, ok := e.Tuple.(*ssa.Call)
	if !ok {
		return nil, 0, false
	}
	return c, e.Index, true
}

// isErrorType reports whether t is the predeclared error type.
func isErrorType(t types.Type) bool {
	return types.Identical(t, types.Universe.Lookup("error").Type())
}

// errResultOf returns the SSA value(s) holding the error result of call (the
// call itself when it returns a single error, or its Extract).
func errResultsOf(call *ssa.Call) []ssa.Value {
	sig := call.Call.Signature()
	res := sig.Results()
	if res.Len() == 0 {
		return nil
	}
	if res.Len() == 1 {
		if isErrorType(res.At(0).Type()) {
			return []ssa.Value{call}
		}
		return nil
	}
	var out []ssa.Value
	for _, ref := range *call.Referrers() {
		if e, ok := ref.(*ssa.Extract); ok && isErrorType(res.At(e.Index).Type()) {
			out = append(out, e)
		}
	}
	return out
}

// resultOf returns the i-th result value of a call (call itself for single result).
func resultOf(call *ssa.Call, i int) ssa.Value {
	sig := call.Call.Signature()
	if sig.Results().Len() == 1 {
		if i == 0 {
			return call
		}
		return nil
	}
	for _, ref := range *call.Referrers() {
		if e, ok := ref.(*ssa.Extract); ok && e.Index == i {
			return e
		}
	}
	return nil
}

// freeVarBinding: for an anonymous function's FreeVar, return the value bound
// at the (unique) MakeClosure site in the parent.
func freeVarBinding(fv *ssa.FreeVar) ssa.Value {
	fn := fv.Parent()
	parent := fn.Parent()
	if parent == nil {
		return nil
	}
	idx := -1
	for i, f := range fn.FreeVars {
		if f == fv {
			idx = i
		}
	}
	if idx < 0 {
		return nil
	}
	var found ssa.Value
	n := 0
	allInstrs(parent, func(in ssa.Instruction) {
		if mc, ok := in.(*ssa.MakeClosure); ok && mc.Fn == fn {
			found = mc.Bindings[idx]
			n++
		}
	})
	if n != 1 {
		return nil
	}
	return found
}

// recvName returns the receiver's named type name of a method, or "".
func recvName(fn *ssa.Function) string {
	if fn.Signature.Recv() == nil {
		return ""
	}
	t := fn.Signature.Recv().Type()
	if p, ok := t.(*types.Pointer); ok {
		t = p.Elem()
	}
	if n, ok := t.(*types.Named); ok {
		return n.Obj().Name()
	}
	return ""
}

// isParamValue: v is parameter p of its function, or a load of the cell p was spilled to
// (go/ssa spills parameters captured by closures to `new T (p)`).
func isParamValue(v ssa.Value, p *ssa.Parameter) bool {
	if v == ssa.Value(p) {
		return true
	}
	u, ok := v.(*ssa.UnOp)
	if !ok || u.Op != token.MUL {
		return false
	}
	a, ok := u.X.(*ssa.Alloc)
	if !ok {
		return false
	}
	n := 0
	okStore := false
	for _, ref := range *a.Referrers() {
		if st, ok := ref.(*ssa.Store); ok && st.Addr == a {
			n++
			if st.Val == ssa.Value(p) {
				okStore = true
			}
		}
	}
	return n == 1 && okStore
}

// callInstrsDeep: the call instructions of fn and of the unexported functions of its package that it calls (to the
// given depth): where a block was moved into a helper, its calls are still found.
func callInstrsDeep(fn *ssa.Function, depth int) []ssa.CallInstruction {
	seen := map[*ssa.Function]bool{}
	var out []ssa.CallInstruction
	var visit func(f *ssa.Function, d int)
	visit = func(f *ssa.Function, d int) {
		if f == nil || seen[f] || len(f.Blocks) == 0 {
			return
		}
		seen[f] = true
		for _, ci := range callInstrs(f) {
			out = append(out, ci)
			if d <= 0 {
				continue
			}
			h := ci.Common().StaticCallee()
			if h != nil && h.Pkg == fn.Pkg && h.Object() != nil && !h.Object().Exported() {
				visit(h, d-1)
			}
		}
	}
	visit(fn, depth)
	return out
}

// anonFuncsWithHelpers: the closures of fn and those of the unexported functions of its package that fn calls
// (one level): an option closure built in place or returned by a small constructor helper.
func anonFuncsWithHelpers(fn *ssa.Function) []*ssa.Function {
	out := AnonFuncsDeep(fn)
	seen := map[*ssa.Function]bool{fn: true}
	for _, f := range append([]*ssa.Function{fn}, out...) {
		for _, ci := range callInstrs(f) {
			h := ci.Common().StaticCallee()
			if h == nil || seen[h] || h.Pkg != fn.Pkg || h.Object() == nil || h.Object().Exported() || len(h.Blocks) == 0 {
				continue
			}
			seen[h] = true
			out = append(out, AnonFuncsDeep(h)...)
		}
	}
	return out
}
