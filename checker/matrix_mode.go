package main

// -matrix: self-validation aid (not used by any registered check). Loads the tree once and evaluates every property's
// rule set in one process, printing for each property the obligations its quick tier would report (known findings and
// instance floors applied exactly as Report.Finish does), without writing evidence. tools/seeded_matrix.py uses it to
// compute a whole row of the seeded-change matrix in one run.

import (
	"fmt"
	"path/filepath"
	"runtime/debug"
	"sort"
)

func runMatrix(repo, verif string) {
	c, err := Load(repo)
	var ids []string
	for id := range registry {
		ids = append(ids, id)
	}
	sort.Strings(ids)
	if err != nil {
		for _, id := range ids {
			fmt.Printf("MATRIX %s -: undecided: cannot load/type-check the tree: %s [%s/load @ load]\n", id, err.Error(), id)
		}
		return
	}
	known, _, _ := loadKnown(filepath.Join(verif, "known_findings.txt"))
	for _, id := range ids {
		p := registry[id]
		// each property starts from a clean slate, as in a process of its own
		foundationCache = map[string]*Report{}
		foundationRunning = map[string]bool{}
		platformLevelsDone = false
		platformLevelsSeen = nil
		r := NewReport(id)
		func() {
			defer func() {
				if e := recover(); e != nil {
					r.Unk(id+"/checker", "panic", "-", fmt.Sprintf("checker panicked: %v\n%s", e, debug.Stack()))
				}
			}()
			p.Run(c, r)
		}()
		counts := map[string]int{}
		for _, o := range r.Obs {
			counts[o.Rule]++
		}
		for rule, floor := range r.floors {
			if counts[rule] < floor {
				r.Unk(rule, "instance-floor", "-", fmt.Sprintf("rule matched %d instances, fewer than the %d confirmed by reading", counts[rule], floor))
			}
		}
		knownBy := map[string]bool{}
		for _, k := range known {
			if k.Prop == id {
				knownBy[k.Key] = true
			}
		}
		for _, o := range r.Obs {
			if o.Status == Discharged || (o.Status == Violated && knownBy[o.Key]) {
				continue
			}
			fmt.Printf("MATRIX %s %s: %s: %s [%s]\n", id, o.Pos, o.Status, o.Msg, o.Key)
		}
	}
	fmt.Println("MATRIX done")
}
