package main

// Obligations, reports, known findings, evidence and replay files.

import (
	"bufio"
	"encoding/json"
	"fmt"
	"os"
	"path/filepath"
	"sort"
	"strings"
	"time"
)

type Status string

const (
	Discharged Status = "discharged"
	Violated   Status = "violated"
	Undecided  Status = "undecided"
)

// Oblig is one (rule, construct) obligation. Key carries no positions.
type Oblig struct {
	Prop   string   `json:"property"`
	Rule   string   `json:"rule"`
	Key    string   `json:"key"`
	Status Status   `json:"status"`
	Pos    string   `json:"pos,omitempty"`
	Msg    string   `json:"msg,omitempty"`
	Path   []string `json:"witness,omitempty"`
}

// Report accumulates the obligations of one property run.
type Report struct {
	Prop     string
	Obs      []*Oblig
	floors   map[string]int
	ruleText map[string]string
	Notes    []string
	Extra    map[string]interface{}
	Infra    []string // infrastructure failures (anchor unresolved etc.)
	keys     map[string]int
}

func NewReport(prop string) *Report {
	return &Report{Prop: prop, floors: map[string]int{}, ruleText: map[string]string{}, Extra: map[string]interface{}{}, keys: map[string]int{}}
}

// Rule declares a rule with its text and instance floor.
func (r *Report) Rule(id, text string, floor int) {
	r.ruleText[id] = text
	r.floors[id] = floor
}

func (r *Report) add(rule, construct string, st Status, pos, msg string, path []string) *Oblig {
	key := rule + " @ " + construct
	r.keys[key]++
	if n := r.keys[key]; n > 1 {
		key = fmt.Sprintf("%s #%d", key, n)
	}
	o := &Oblig{Prop: r.Prop, Rule: rule, Key: key, Status: st, Pos: pos, Msg: msg, Path: path}
	r.Obs = append(r.Obs, o)
	return o
}

func (r *Report) OK(rule, construct, pos, msg string) *Oblig {
	return r.add(rule, construct, Discharged, pos, msg, nil)
}
func (r *Report) Bad(rule, construct, pos, msg string, path ...string) *Oblig {
	return r.add(rule, construct, Violated, pos, msg, path)
}
func (r *Report) Unk(rule, construct, pos, msg string) *Oblig {
	return r.add(rule, construct, Undecided, pos, msg, nil)
}

// Check adds a discharged or violated obligation depending on ok.
func (r *Report) Check(ok bool, rule, construct, pos, okMsg, badMsg string) bool {
	if ok {
		r.OK(rule, construct, pos, okMsg)
	} else {
		r.Bad(rule, construct, pos, badMsg)
	}
	return ok
}

// Anchor reports an unresolved anchor as an undecided obligation.
func (r *Report) Anchor(rule, what string) {
	r.Unk(rule, "anchor "+what, "-", "anchor could not be resolved through go/types: "+what+" (renamed or removed; rule cannot be evaluated)")
}

// ---- known findings ------------------------------------------------------

type KnownFinding struct {
	Prop string
	Key  string
	Text string
}

func loadKnown(path string) ([]KnownFinding, []string, error) {
	f, err := os.Open(path)
	if err != nil {
		if os.IsNotExist(err) {
			return nil, nil, nil
		}
		return nil, nil, err
	}
	defer f.Close()
	var out []KnownFinding
	var fixed []string
	sc := bufio.NewScanner(f)
	sc.Buffer(make([]byte, 1<<20), 1<<20)
	for sc.Scan() {
		line := strings.TrimSpace(sc.Text())
		if line == "" || strings.HasPrefix(line, "#") {
			continue
		}
		if strings.HasPrefix(line, "fixed:") {
			fixed = append(fixed, line)
			continue
		}
		// property=C07 key=<key> :: text
		parts := strings.SplitN(line, " :: ", 2)
		head := parts[0]
		text := ""
		if len(parts) == 2 {
			text = parts[1]
		}
		if !strings.HasPrefix(head, "property=") {
			return nil, nil, fmt.Errorf("known_findings: bad line %q", line)
		}
		sp := strings.SplitN(head, " key=", 2)
		if len(sp) != 2 {
			return nil, nil, fmt.Errorf("known_findings: bad line %q", line)
		}
		out = append(out, KnownFinding{Prop: strings.TrimPrefix(sp[0], "property="), Key: strings.TrimSpace(sp[1]), Text: text})
	}
	return out, fixed, sc.Err()
}

// ---- evidence ------------------------------------------------------------

type runInfo struct {
	Tier      string
	Seed      int
	Start     time.Time
	VerifDir  string
	Packages  int
	Functions int
	LibFns    int
	Configs   []string
	Mutants   map[string]interface{}
	Fixtures  map[string]interface{}
}

// Finish evaluates floors and known findings, writes evidence + replay files,
// prints KNOWN-FINDING / VIOLATION lines and returns the exit code.
func (r *Report) Finish(info *runInfo, explanation string, assumptions []string) int {
	known, fixed, err := loadKnown(filepath.Join(info.VerifDir, "known_findings.txt"))
	if err != nil {
		fmt.Println("INFRA: " + err.Error())
		r.Infra = append(r.Infra, err.Error())
	}
	// floors
	counts := map[string]int{}
	for _, o := range r.Obs {
		counts[o.Rule]++
	}
	var ruleIDs []string
	for id := range r.floors {
		ruleIDs = append(ruleIDs, id)
	}
	sort.Strings(ruleIDs)
	for _, id := range ruleIDs {
		if counts[id] < r.floors[id] {
			r.Unk(id, "instance-floor", "-", fmt.Sprintf("rule matched %d instances, fewer than the %d confirmed by reading: the rule would pass vacuously", counts[id], r.floors[id]))
		}
	}
	knownBy := map[string]KnownFinding{}
	for _, k := range known {
		if k.Prop == r.Prop {
			knownBy[k.Key] = k
		}
	}
	var viol, knownHit, undec, disch int
	var violObs []*Oblig
	seenKnown := map[string]bool{}
	for _, o := range r.Obs {
		switch o.Status {
		case Discharged:
			disch++
		case Violated, Undecided:
			if k, ok := knownBy[o.Key]; ok && o.Status == Violated {
				knownHit++
				if !seenKnown[o.Key] {
					seenKnown[o.Key] = true
					fmt.Printf("KNOWN-FINDING: property=%s %s [%s at %s]\n", r.Prop, k.Text, o.Key, o.Pos)
				}
				continue
			}
			if o.Status == Undecided {
				undec++
			}
			viol++
			violObs = append(violObs, o)
		}
	}
	// replay files
	replayDir := filepath.Join(info.VerifDir, "evidence", "replay")
	_ = os.MkdirAll(replayDir, 0o755)
	old, _ := filepath.Glob(filepath.Join(replayDir, r.Prop+"-*.json"))
	for _, f := range old {
		_ = os.Remove(f)
	}
	for i, o := range violObs {
		p := filepath.Join(replayDir, fmt.Sprintf("%s-%d.json", r.Prop, i+1))
		rec := map[string]interface{}{
			"property": r.Prop, "rule": o.Rule, "rule_text": r.ruleText[o.Rule], "key": o.Key, "status": o.Status,
			"pos": o.Pos, "msg": o.Msg, "witness": o.Path,
			"rerun": fmt.Sprintf("cd /verif && ./run.sh %s quick", r.Prop),
		}
		b, _ := json.MarshalIndent(rec, "", " ")
		_ = os.WriteFile(p, b, 0o644)
		fmt.Printf("%s: %s: %s [%s]\n", o.Pos, o.Status, o.Msg, o.Key)
		for _, w := range o.Path {
			fmt.Printf("    %s\n", w)
		}
		fmt.Printf("VIOLATION property=%s replay=%s\n", r.Prop, p)
	}
	// evidence
	samples := []interface{}{}
	perRule := map[string]map[string]int{}
	for _, o := range r.Obs {
		m := perRule[o.Rule]
		if m == nil {
			m = map[string]int{}
			perRule[o.Rule] = m
		}
		m[string(o.Status)]++
	}
	// samples: first obligation of each rule + all non-discharged
	seenRule := map[string]int{}
	for _, o := range r.Obs {
		if o.Status != Discharged || seenRule[o.Rule] < 2 {
			samples = append(samples, o)
			seenRule[o.Rule]++
		}
		if len(samples) > 120 {
			break
		}
	}
	rules := map[string]interface{}{}
	for _, id := range ruleIDs {
		rules[id] = map[string]interface{}{"text": r.ruleText[id], "floor": r.floors[id], "instances": counts[id], "by_status": perRule[id]}
	}
	distinct := map[string]bool{}
	for _, o := range r.Obs {
		distinct[o.Key] = true
	}
	cov := map[string]interface{}{
		"explanation":                explanation,
		"obligations":                len(r.Obs),
		"discharged":                 disch,
		"known_findings_hit":         knownHit,
		"violated_or_undecided":      viol,
		"undecided":                  undec,
		"evaluations":                len(r.Obs),
		"distinct_nontrivial":        len(distinct),
		"rule":                       "one obligation per (rule, construct) pair found in /repo's current source; distinct = distinct obligation keys (rule id + qualified construct, no positions)",
		"rules":                      rules,
		"samples":                    samples,
		"packages_loaded":            info.Packages,
		"functions_in_program":       info.Functions,
		"library_functions_analysed": info.LibFns,
		"build_configurations":       info.Configs,
		"checker_cmd":                fmt.Sprintf("/verif/bin/scrapcheck -prop %s -tier %s -repo /repo", r.Prop, info.Tier),
		"trusted_base":               []string{"go/types type checker", "golang.org/x/tools v0.29.0 go/ssa + VTA call graph", "this checker's rule tables"},
		"fixed_findings":             fixed,
		"notes":                      r.Notes,
	}
	for k, v := range r.Extra {
		cov[k] = v
	}
	if info.Mutants != nil {
		cov["seeded_mutants"] = info.Mutants
	}
	if info.Fixtures != nil {
		cov["fixtures"] = info.Fixtures
	}
	if len(r.Infra) > 0 {
		cov["infra_failures"] = r.Infra
	}
	ev := map[string]interface{}{
		"property_id": r.Prop,
		"tier":        info.Tier,
		"seed":        info.Seed,
		"level":       "other",
		"coverage":    cov,
		"assumptions": assumptions,
		"wall_s":      time.Since(info.Start).Seconds(),
		"violations":  viol,
	}
	b, _ := json.MarshalIndent(ev, "", " ")
	evPath := filepath.Join(info.VerifDir, "evidence", r.Prop+".json")
	if err := os.WriteFile(evPath, b, 0o644); err != nil {
		fmt.Println("INFRA: cannot write evidence: " + err.Error())
		return 2
	}
	fmt.Printf("%s %s: %d obligations, %d discharged, %d known findings, %d violated/undecided (%.1fs)\n",
		r.Prop, info.Tier, len(r.Obs), disch, knownHit, viol, time.Since(info.Start).Seconds())
	if viol > 0 {
		return 1
	}
	if len(r.Infra) > 0 {
		for _, s := range r.Infra {
			fmt.Println("INFRA: " + s)
		}
		return 2
	}
	return 0
}
