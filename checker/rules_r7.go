package main

// Rules added after the seventh round of independently seeded changes.

import (
	"fmt"
	"go/token"
	"go/types"
	"regexp/syntax"
	"strings"

	"golang.org/x/tools/go/ssa"
)

// ---- C02: the chunk decoder steps over a byte only after identifying it ------------------------------

// indexedByteOf: v is a load of s[idx] for a byte slice / string; returns idx.
func indexedByteOf(v ssa.Value) (ssa.Value, bool) {
	v = stripConv(v)
	switch x := v.(type) {
	case *ssa.UnOp:
		if x.Op == token.MUL {
			if ia, ok := x.X.(*ssa.IndexAddr); ok {
				return ia.Index, true
			}
		}
	case *ssa.Index:
		return x.Index, true
	case *ssa.Lookup:
		if _, isStr := x.X.Type().Underlying().(*types.Basic); isStr {
			return x.Index, true
		}
	}
	return nil, false
}

// checkSkipOnlyIdentified: in the functions given, every `cursor + 1` whose cursor is itself used as an index into a
// byte sequence is executed only where that very byte was compared equal to a constant.
func checkSkipOnlyIdentified(c *Ctx, r *Report, rule string, fns []*ssa.Function) {
	total := 0
	defer func() {
		if total == 0 {
			r.Notes = append(r.Notes, rule+": no single-byte step of a payload cursor found in the decoder (the cursor arithmetic lives in a shape this rule does not cover); nothing decided by this rule")
		}
	}()
	for _, fn := range fns {
		cursors := map[ssa.Value]bool{}
		allInstrs(fn, func(in ssa.Instruction) {
			switch x := in.(type) {
			case *ssa.IndexAddr:
				if isByteSeq(x.X.Type()) {
					cursors[x.Index] = true
				}
			case *ssa.Index:
				if isByteSeq(x.X.Type()) {
					cursors[x.Index] = true
				}
			case *ssa.Lookup:
				if isByteSeq(x.X.Type()) {
					cursors[x.Index] = true
				}
			}
		})
		// the payload cursor: a loop-carried position from which a sub-slice of the byte sequence is cut
		payloadCursors := map[ssa.Value]bool{}
		allInstrs(fn, func(in ssa.Instruction) {
			sl, ok := in.(*ssa.Slice)
			if !ok || !isByteSeq(sl.X.Type()) || sl.Low == nil {
				return
			}
			collectPhis(sl.Low, payloadCursors, 0)
		})
		if len(payloadCursors) == 0 {
			continue
		}
		n := 0
		allInstrs(fn, func(in ssa.Instruction) {
			bo, ok := in.(*ssa.BinOp)
			if !ok || bo.Op != token.ADD {
				return
			}
			var x ssa.Value
			if k, ok := constInt(bo.Y); ok && k == 1 {
				x = bo.X
			} else if k, ok := constInt(bo.X); ok && k == 1 {
				x = bo.Y
			}
			if x == nil || !cursors[x] {
				return
			}
			if !derivesFromAny(x, payloadCursors, 0) {
				return
			}
			n++
			total++
			construct := fmt.Sprintf("%s cursor step#%d", shortFn(fn), n)
			ok = guardedBy(bo, func(cond ssa.Value, truth bool) bool {
				cmp, isCmp := cond.(*ssa.BinOp)
				if !isCmp || (cmp.Op != token.EQL && cmp.Op != token.NEQ) {
					return false
				}
				equal := (cmp.Op == token.EQL) == truth
				if !equal {
					return false
				}
				for _, pair := range [][2]ssa.Value{{cmp.X, cmp.Y}, {cmp.Y, cmp.X}} {
					if idx, isIdx := indexedByteOf(pair[0]); isIdx && idx == x && constOf(pair[1]) != nil {
						return true
					}
				}
				return false
			})
			if ok {
				r.OK(rule, construct, c.Pos(bo.Pos()), "the byte stepped over was compared equal to a framing constant on this path")
			} else {
				r.Bad(rule, construct, c.Pos(bo.Pos()), "the decoder steps over one byte of the frame without having identified it (no dominating `data[cursor] == constant` on this path): bytes that are neither framing nor copied to the result disappear silently -- a frame whose declared sizes disagree with its data decodes to a shortened document instead of a parse error")
			}
		})
	}
}

func isByteSeq(t types.Type) bool {
	switch u := t.Underlying().(type) {
	case *types.Slice:
		b, ok := u.Elem().Underlying().(*types.Basic)
		return ok && b.Kind() == types.Uint8
	case *types.Pointer:
		if a, ok := u.Elem().Underlying().(*types.Array); ok {
			b, ok := a.Elem().Underlying().(*types.Basic)
			return ok && b.Kind() == types.Uint8
		}
	case *types.Basic:
		return u.Info()&types.IsString != 0
	}
	return false
}

// collectPhis: the phis an index expression is built from through additions.
func collectPhis(v ssa.Value, out map[ssa.Value]bool, depth int) {
	if depth > 6 {
		return
	}
	switch x := v.(type) {
	case *ssa.Phi:
		out[x] = true
	case *ssa.BinOp:
		if x.Op == token.ADD || x.Op == token.SUB {
			collectPhis(x.X, out, depth+1)
			collectPhis(x.Y, out, depth+1)
		}
	}
}

func derivesFromAny(v ssa.Value, set map[ssa.Value]bool, depth int) bool {
	if set[v] {
		return true
	}
	if depth > 6 {
		return false
	}
	if x, ok := v.(*ssa.BinOp); ok && (x.Op == token.ADD || x.Op == token.SUB) {
		return derivesFromAny(x.X, set, depth+1) || derivesFromAny(x.Y, set, depth+1)
	}
	return false
}

// ---- C04: the network driver's other send methods only delegate -----------------------------------------

// checkNetworkSendDelegates: an exported Send* method of the network driver that is not one of the five analysed by
// acquire-before-send must reach the device only through those five: it may not acquire a level, call the embedded
// generic driver's sends or the channel itself (a private fast path skips the level the operation asked for).
func checkNetworkSendDelegates(c *Ctx, r *Report, rule string) {
	table := map[string]bool{"SendCommand": true, "SendCommands": true, "SendCommandsFromFile": true, "SendConfigs": true, "SendInteractive": true}
	ms := exportedMethodsOf(c, "driver/network", "Driver")
	if len(ms) == 0 {
		r.Anchor(rule, "network.Driver exported methods")
		return
	}
	sortFns(ms)
	for _, m := range ms {
		if !strings.HasPrefix(m.Name(), "Send") || table[m.Name()] {
			continue
		}
		bad := ""
		pos := m.Pos()
		delegates := 0
		for _, fn := range append([]*ssa.Function{m}, AnonFuncsDeep(m)...) {
			for _, ci := range callInstrs(fn) {
				for _, callee := range c.Callees(ci) {
					o, _ := callee.Object().(*types.Func)
					if o == nil || o.Pkg() == nil {
						continue
					}
					recv := recvTypeName(o)
					switch {
					case o.Pkg().Path() == modPath+"/driver/network" && recv == "Driver" && (table[o.Name()] || strings.HasPrefix(o.Name(), "Send")):
						delegates++
					case o.Pkg().Path() == modPath+"/driver/network" && recv == "Driver" && o.Name() == "AcquirePriv",
						o.Pkg().Path() == modPath+"/driver/generic" && recv == "Driver" && strings.HasPrefix(o.Name(), "Send"),
						o.Pkg().Path() == modPath+"/channel" && recv == "Channel" && (strings.HasPrefix(o.Name(), "Send") || strings.HasPrefix(o.Name(), "Write")):
						if bad == "" {
							bad = recv + "." + o.Name()
							pos = ci.Pos()
						}
					}
				}
			}
		}
		construct := shortFn(m) + " only delegates"
		switch {
		case bad != "":
			r.Bad(rule, construct, c.Pos(pos), fmt.Sprintf("%s calls %s itself instead of going through SendCommands / SendConfigs / SendInteractive: on that path the privilege level the operation requested (or the default for its kind) is not the one acquired", m.Name(), bad))
		case delegates == 0:
			r.Unk(rule, construct, c.Pos(m.Pos()), "no call to an analysed send method found")
		default:
			r.OK(rule, construct, c.Pos(m.Pos()), fmt.Sprintf("%d delegating call(s), no direct acquire / generic send / channel write", delegates))
		}
	}
}

func recvTypeName(o *types.Func) string {
	sig, _ := o.Type().(*types.Signature)
	if sig == nil || sig.Recv() == nil {
		return ""
	}
	t := sig.Recv().Type()
	if p, ok := t.(*types.Pointer); ok {
		t = p.Elem()
	}
	if n, ok := t.(*types.Named); ok {
		return n.Obj().Name()
	}
	return ""
}

// ---- C11/T7: a platform step that may be written redacted never reaches a log -----------------------------

// lookupOrigin walks from a gate's data argument back to the map lookup it was read from.
func lookupOrigin(v ssa.Value, depth int) *ssa.Lookup {
	if depth > 8 {
		return nil
	}
	switch x := v.(type) {
	case *ssa.Lookup:
		if _, ok := x.X.Type().Underlying().(*types.Map); ok {
			return x
		}
	case *ssa.Convert:
		return lookupOrigin(x.X, depth+1)
	case *ssa.ChangeType:
		return lookupOrigin(x.X, depth+1)
	case *ssa.Extract:
		return lookupOrigin(x.Tuple, depth+1)
	case *ssa.TypeAssert:
		return lookupOrigin(x.X, depth+1)
	case *ssa.Phi:
		for _, e := range x.Edges {
			if l := lookupOrigin(e, depth+1); l != nil {
				return l
			}
		}
	}
	return nil
}

func checkPlatformStepNotLogged(c *Ctx, r *Report, rule string, gates []gateSpec, isSink func(ci ssa.CallInstruction) (string, []int)) {
	t := NewTaint(c, map[*types.Var]string{}, gates)
	seeds := 0
	for _, fn := range c.LibFns {
		if fn.Pkg == nil || fn.Pkg.Pkg.Path() != modPath+"/platform" {
			continue
		}
		for _, ci := range callInstrs(fn) {
			for _, callee := range c.Callees(ci) {
				g, ok := t.gates[callee]
				if !ok {
					continue
				}
				args := ci.Common().Args
				if g.FlagParam >= len(args) || g.DataParam >= len(args) {
					continue
				}
				if b, isConst := constBool(args[g.FlagParam]); isConst && !b {
					continue // never redacted: not a secret by the definition's own account
				}
				lk := lookupOrigin(args[g.DataParam], 0)
				if lk == nil {
					continue
				}
				seeds++
				t.markVal(lk, "input of a platform step that may be written redacted")
				t.markVal(lk.X, "definition of a platform step that may be written redacted")
				// every other lookup of the same map in the function yields the same secret
				allInstrs(fn, func(in ssa.Instruction) {
					if l2, ok := in.(*ssa.Lookup); ok && l2.X == lk.X {
						if k, ok := constString(l2.Index); !ok || k == mustConstString(lk.Index) {
							t.markVal(l2, "input of a platform step that may be written redacted")
						}
					}
				})
			}
		}
	}
	construct := "platform steps written through the redaction gate"
	if seeds == 0 {
		r.Unk(rule, construct, "-", "no platform step reaches a write gate with a redaction flag")
		return
	}
	t.Run()
	hits, sites := t.FindSinkHits(isSink)
	if len(hits) == 0 {
		r.OK(rule, construct, "-", fmt.Sprintf("%d step source(s); none of %d log sites is reached by the step's input or its definition map", seeds, sites))
	}
	seen := map[string]bool{}
	for _, h := range hits {
		k := c.Pos(h.Instr.Pos())
		if pf := h.Instr.Parent(); pf != nil && pf.Pkg != nil && pf.Pkg.Pkg.Path() == modPath+"/logging" && len(hits) > 1 {
			continue // the logging package's own forwarding: a consequence of the hit at the caller
		}
		if seen[k] {
			continue
		}
		seen[k] = true
		r.Bad(rule, construct+" -> "+h.Sink+" in "+shortFn(h.Instr.Parent()), k, "the input of a platform step that the definition may mark `redacted` (or the whole step) reaches a log: "+h.Why)
	}
}

func mustConstString(v ssa.Value) string {
	s, _ := constString(v)
	return s
}

// ---- C20: ReadAll drains whatever is queued unless an error was taken from Errs ---------------------------

// selectRecvBlocks: blocks entered on the "case k fired" edge of a select (and the blocks they dominate).
func selectRecvBlocks(fn *ssa.Function) map[*ssa.BasicBlock]bool {
	out := map[*ssa.BasicBlock]bool{}
	for _, b := range fn.Blocks {
		cond := ifCond(b)
		cmp, ok := cond.(*ssa.BinOp)
		if !ok || cmp.Op != token.EQL || len(b.Succs) != 2 {
			continue
		}
		ex, ok := cmp.X.(*ssa.Extract)
		if !ok || ex.Index != 0 {
			continue
		}
		if _, isSel := ex.Tuple.(*ssa.Select); !isSel {
			continue
		}
		if _, isConst := constInt(cmp.Y); !isConst {
			continue
		}
		root := b.Succs[0]
		for _, bb := range fn.Blocks {
			if bb == root || root.Dominates(bb) {
				out[bb] = true
			}
		}
	}
	return out
}

func checkReadAllDrains(c *Ctx, r *Report, rule string) {
	fn := c.LookupFunc("channel", "Channel", "ReadAll")
	dq := c.LookupFunc("util", "Queue", "DequeueAll")
	if fn == nil || dq == nil {
		r.Anchor(rule, "(*channel.Channel).ReadAll / (*util.Queue).DequeueAll")
		return
	}
	// helpers one level down that only poll the error channel are looked through by treating their result test as a branch
	recv := selectRecvBlocks(fn)
	drains := func(in ssa.Instruction) bool {
		ci, ok := in.(ssa.CallInstruction)
		if !ok {
			return false
		}
		for _, callee := range c.Callees(ci) {
			if callee == dq {
				return true
			}
		}
		return false
	}
	rr := reachFrom(fn, nil, func(in ssa.Instruction) bool { return drains(in) || recv[in.Block()] }, nil)
	construct := "Channel.ReadAll reaches DequeueAll unless an error was received"
	var badRet ssa.Instruction
	for in := range rr.visited {
		if isReturn(in) && !recv[in.Block()] {
			if badRet == nil || in.Pos() < badRet.Pos() {
				badRet = in
			}
		}
	}
	if badRet != nil {
		// a return reached without draining: acceptable only when it hands on an error obtained from a helper that polls Errs
		if ret := badRet.(*ssa.Return); len(ret.Results) == 2 && !isNilConst(ret.Results[1]) && errFromErrsHelper(c, ret.Results[1]) {
			r.OK(rule, construct, c.Pos(fn.Pos()), "returns early only with an error taken from the error channel (through a helper)")
			return
		}
		r.Bad(rule, construct, c.Pos(badRet.Pos()), "ReadAll can return without taking what is queued although no error was received from the reader: chunks that were enqueued before the reader stopped stay in the queue for ever (the all-at-once consumer loses the tail of the stream, the depth never returns to zero)")
		return
	}
	r.OK(rule, construct, c.Pos(fn.Pos()), "every return not preceded by DequeueAll lies on the error-received edge")
}

// errFromErrsHelper: v is the error result of a same-package helper that contains a receive from a channel of errors.
func errFromErrsHelper(c *Ctx, v ssa.Value) bool {
	call, _, ok := extractOf(v)
	if !ok {
		if cl, isCall := v.(*ssa.Call); isCall {
			call = cl
		} else {
			return false
		}
	}
	for _, callee := range c.Callees(call) {
		found := false
		allInstrs(callee, func(in ssa.Instruction) {
			if sel, ok := in.(*ssa.Select); ok {
				for _, st := range sel.States {
					if ch, ok := st.Chan.Type().Underlying().(*types.Chan); ok && isErrorType(ch.Elem()) {
						found = true
					}
				}
			}
		})
		if found {
			return true
		}
	}
	return false
}

// ---- C18: SendWithCallbacks reads nothing outside the trigger scan ----------------------------------------

func checkCallbacksNoPrivateRead(c *Ctx, r *Report, rule string) {
	fn := c.LookupFunc("driver/generic", "Driver", "SendWithCallbacks")
	hc := c.LookupFunc("driver/generic", "Driver", "handleCallbacks")
	if fn == nil || hc == nil {
		r.Anchor(rule, "(*generic.Driver).SendWithCallbacks / handleCallbacks")
		return
	}
	scope := c.reachFns([]*ssa.Function{fn}, func(_ ssa.CallInstruction, callee *ssa.Function) bool {
		return callee != hc && callee.Pkg != nil && callee.Pkg.Pkg.Path() == modPath+"/driver/generic"
	}, false)
	construct := "SendWithCallbacks consumes device output only inside handleCallbacks"
	for f := range scope {
		for _, g := range append([]*ssa.Function{f}, AnonFuncsDeep(f)...) {
			for _, ci := range callInstrs(g) {
				for _, callee := range c.Callees(ci) {
					o, _ := callee.Object().(*types.Func)
					if o == nil || o.Pkg() == nil || o.Pkg().Path() != modPath+"/channel" || recvTypeName(o) != "Channel" {
						continue
					}
					if strings.HasPrefix(o.Name(), "Read") || strings.HasPrefix(o.Name(), "Send") || o.Name() == "GetPrompt" {
						r.Bad(rule, construct, c.Pos(ci.Pos()), fmt.Sprintf("%s calls Channel.%s before / outside the callback loop: what that call consumes (the echo and whatever the device sent in the same read) never enters the buffer the triggers are matched against, so a callback whose trigger arrived with it does not fire", shortFn(g), o.Name()))
						return
					}
				}
			}
		}
	}
	r.OK(rule, construct, c.Pos(fn.Pos()), fmt.Sprintf("%d function(s) outside handleCallbacks scanned: no Channel.Read*/Send*/GetPrompt", len(scope)))
}

// ---- C19: an option decides "not for this object" before anything that can fail ---------------------------

func checkOptionIgnoredFirst(c *Ctx, r *Report, rule string) {
	n := 0
	for _, fn := range c.LibFns {
		if fn.Parent() == nil || fn.Pkg == nil || !strings.HasSuffix(fn.Pkg.Pkg.Path(), "/driver/options") {
			continue
		}
		sig := fn.Signature
		if sig.Params().Len() != 1 || sig.Results().Len() != 1 || !isErrorType(sig.Results().At(0).Type()) {
			continue
		}
		if _, isIface := sig.Params().At(0).Type().Underlying().(*types.Interface); !isIface {
			continue
		}
		p := fn.Params[0]
		// blocks that assert the parameter's type
		asserts := map[*ssa.BasicBlock]bool{}
		hasAssert := false
		allInstrs(fn, func(in ssa.Instruction) {
			if ta, ok := in.(*ssa.TypeAssert); ok && isParamValue(ta.X, p) {
				asserts[in.Block()] = true
				hasAssert = true
			}
		})
		if !hasAssert {
			continue // combinators that hand the object on to other options
		}
		n++
		construct := "option " + shortFn(fn.Parent()) + " decides applicability first"
		rr := reachFrom(fn, nil, func(in ssa.Instruction) bool {
			_, isTA := in.(*ssa.TypeAssert)
			return isTA && asserts[in.Block()]
		}, nil)
		var bad ssa.Instruction
		for in := range rr.visited {
			if ret, ok := in.(*ssa.Return); ok && len(ret.Results) == 1 && !isNilConst(ret.Results[0]) {
				// rejecting the option's own value as such (bad-option error) does not depend on the object
				if call, isCall := ret.Results[0].(*ssa.Call); isCall {
					if g := errorfWraps(call); g != nil && g.Name() == "ErrBadOption" {
						continue
					}
				}
				bad = in
			}
		}
		if bad != nil {
			r.Bad(rule, construct, c.Pos(bad.Pos()), "the option can return an error other than bad-option before it has looked at the type of the object it is applied to: an object it does not apply to (another layer of the same driver) gets a failure instead of the ignored-option sentinel, so the whole constructor fails")
		} else {
			r.OK(rule, construct, c.Pos(fn.Pos()), "no error return precedes the type assertion on the object")
		}
	}
	if n == 0 {
		r.Unk(rule, "driver options", "-", "no option closure with a type assertion found")
	}
}

// ---- C19: constructors relay option errors with their class intact -----------------------------------------

func checkConstructorsRelayErrors(c *Ctx, r *Report, rule string) {
	var roots []*ssa.Function
	for _, fn := range c.LibFns {
		if fn.Parent() != nil || fn.Pkg == nil || fn.Signature.Recv() != nil || !strings.HasPrefix(fn.Name(), "New") {
			continue
		}
		res := fn.Signature.Results()
		if res.Len() == 2 && isErrorType(res.At(1).Type()) {
			roots = append(roots, fn)
		}
	}
	if len(roots) < 5 {
		r.Unk(rule, "constructors", "-", fmt.Sprintf("only %d New* constructors returning an error found", len(roots)))
		return
	}
	scope := c.reachFns(roots, func(site ssa.CallInstruction, callee *ssa.Function) bool {
		// same-package unexported helpers and other constructors
		caller := site.Parent()
		return callee.Pkg != nil && caller.Pkg != nil && (callee.Pkg == caller.Pkg && (callee.Object() == nil || !callee.Object().Exported()) || strings.HasPrefix(callee.Name(), "New"))
	}, false)
	var fns []*ssa.Function
	for fn := range scope {
		fns = append(fns, fn)
	}
	sortFns(fns)
	n := 0
	for _, fn := range fns {
		for _, g := range append([]*ssa.Function{fn}, AnonFuncsDeep(fn)...) {
			k := 0
			allInstrs(g, func(in ssa.Instruction) {
				call, ok := in.(*ssa.Call)
				if !ok {
					return
				}
				verbs, decided := relayedErrorVerbs(call)
				if decided && len(verbs) == 0 {
					return
				}
				n++
				k++
				construct := fmt.Sprintf("error wrapped in %s #%d", shortFn(g), k)
				if !decided {
					r.Unk(rule, construct, c.Pos(call.Pos()), "the format of an error built in a constructor is not a constant")
					return
				}
				for _, v := range verbs {
					if v != 'w' {
						r.Bad(rule, construct, c.Pos(call.Pos()), "a constructor formats the error of an option / a nested constructor with a verb other than %w: the bad-option (or ignored-option) class of the cause is no longer in the chain, so the same invalid value is classified differently depending on which constructor was used")
						return
					}
				}
				r.OK(rule, construct, c.Pos(call.Pos()), "wrapped with %w")
			})
		}
	}
	r.OK(rule, "constructors relay errors unwrapped or with %w", "-", fmt.Sprintf("%d constructor-side functions scanned, %d wrapper(s) inspected", len(fns), n))
}

// ---- C07: WaitGroup.Add happens before the goroutine it accounts for is started ------------------------------

func checkWaitGroupAddBeforeGo(c *Ctx, r *Report, rule string) {
	goTargets := map[*ssa.Function]bool{}
	for _, fn := range c.LibFns {
		allInstrs(fn, func(in ssa.Instruction) {
			if g, ok := in.(*ssa.Go); ok {
				for _, callee := range c.Callees(g) {
					goTargets[callee] = true
				}
			}
		})
	}
	n := 0
	for _, fn := range c.LibFns {
		for _, ci := range callInstrs(fn) {
			o := CalleeObj(ci)
			if o == nil || o.Pkg() == nil || o.Pkg().Path() != "sync" || recvTypeName(o) != "WaitGroup" || o.Name() != "Add" {
				continue
			}
			n++
			construct := fmt.Sprintf("WaitGroup.Add in %s", shortFn(fn))
			// the counter must be raised by the goroutine that will Wait (or its caller), never by the goroutine being counted
			captured := false
			if goTargets[fn] && len(ci.Common().Args) > 0 {
				recv := ci.Common().Args[0]
				if _, isFV := recv.(*ssa.FreeVar); isFV {
					captured = true
				}
				if u, ok := recv.(*ssa.UnOp); ok {
					if _, isFV := u.X.(*ssa.FreeVar); isFV {
						captured = true
					}
				}
			}
			if len(ci.Common().Args) > 0 {
				if g, isGlobal := ci.Common().Args[0].(*ssa.Global); isGlobal {
					r.Bad(rule, construct, c.Pos(ci.Pos()), "the WaitGroup "+g.Name()+" is a package-level variable shared by every concurrent caller (the reader goroutine and the operation both log): an Add that overlaps another caller's Wait panics with 'WaitGroup is reused before previous Wait has returned', or makes one caller wait for the other's work")
					continue
				}
			}
			if captured {
				r.Bad(rule, construct, c.Pos(ci.Pos()), "the WaitGroup counter is raised inside the goroutine it accounts for: Wait can observe zero before that goroutine has run and return while it is still alive (and Add concurrent with Wait is a misuse of the WaitGroup)")
			} else {
				r.OK(rule, construct, c.Pos(ci.Pos()), "Add is called by the spawning side")
			}
		}
	}
	if n == 0 {
		r.OK(rule, "WaitGroup.Add call sites", "-", "the library uses no sync.WaitGroup")
	}
}

// ---- C05: polling loops sleep for the configured read delay, not for a growing interval ---------------------

func checkPollInterval(c *Ctx, r *Report, rule string) {
	n := 0
	for _, fn := range c.LibFns {
		if fn.Pkg == nil || strings.HasSuffix(fn.Pkg.Pkg.Path(), "/transport") {
			continue
		}
		k := 0
		for _, ci := range callInstrs(fn) {
			o := CalleeObj(ci)
			if o == nil || o.Pkg() == nil || o.Pkg().Path() != "time" || o.Name() != "Sleep" || len(ci.Common().Args) != 1 {
				continue
			}
			if !inLoop(ci.Block()) {
				continue
			}
			n++
			k++
			construct := fmt.Sprintf("%s sleep#%d", shortFn(fn), k)
			if why := growingDuration(ci.Common().Args[0], 0); why != "" {
				r.Bad(rule, construct, c.Pos(ci.Pos()), "a polling loop sleeps for "+why+" instead of the configured read delay: the context is looked at only between sleeps, so a stalled operation overruns its timeout by up to the current interval")
			} else {
				r.OK(rule, construct, c.Pos(ci.Pos()), "sleeps for a configured or constant delay")
			}
		}
	}
	if n < 4 {
		r.Unk(rule, "polling sleeps", "-", fmt.Sprintf("only %d sleeps inside loops found (>= 4 confirmed by reading)", n))
	}
}

func inLoop(b *ssa.BasicBlock) bool {
	// b can reach itself
	seen := map[*ssa.BasicBlock]bool{}
	work := append([]*ssa.BasicBlock{}, b.Succs...)
	for len(work) > 0 {
		x := work[len(work)-1]
		work = work[:len(work)-1]
		if x == b {
			return true
		}
		if seen[x] {
			continue
		}
		seen[x] = true
		work = append(work, x.Succs...)
	}
	return false
}

// growingDuration: the sleep argument varies from one iteration to the next (a loop-carried value or arithmetic on one).
func growingDuration(v ssa.Value, depth int) string {
	if depth > 6 {
		return ""
	}
	switch x := v.(type) {
	case *ssa.Phi:
		return "a loop-carried interval (" + x.Name() + ")"
	case *ssa.BinOp:
		if x.Op == token.MUL || x.Op == token.ADD || x.Op == token.SHL {
			if s := growingDuration(x.X, depth+1); s != "" {
				return s
			}
			return growingDuration(x.Y, depth+1)
		}
		if x.Op == token.QUO || x.Op == token.SUB {
			return growingDuration(x.X, depth+1)
		}
	case *ssa.Convert:
		return growingDuration(x.X, depth+1)
	case *ssa.ChangeType:
		return growingDuration(x.X, depth+1)
	case *ssa.UnOp:
		if x.Op == token.MUL {
			if a, ok := x.X.(*ssa.Alloc); ok {
				// a local variable: growing when it is stored to inside a loop with a value derived from itself
				for _, ref := range *a.Referrers() {
					if st, ok := ref.(*ssa.Store); ok && st.Addr == a && inLoop(st.Block()) {
						if dependsOnLoadOf(st.Val, a, 0) {
							return "an interval that is rewritten from its own value inside the loop"
						}
					}
				}
			}
		}
	}
	return ""
}

func dependsOnLoadOf(v ssa.Value, a *ssa.Alloc, depth int) bool {
	if depth > 6 {
		return false
	}
	switch x := v.(type) {
	case *ssa.UnOp:
		return x.X == a
	case *ssa.BinOp:
		return dependsOnLoadOf(x.X, a, depth+1) || dependsOnLoadOf(x.Y, a, depth+1)
	case *ssa.Convert:
		return dependsOnLoadOf(x.X, a, depth+1)
	case *ssa.Phi:
		for _, e := range x.Edges {
			if dependsOnLoadOf(e, a, depth+1) {
				return true
			}
		}
	}
	return false
}

// ---- C09/C10/C11: the built-in password prompt pattern only matches at the end of a line ----------------------

// endAnchored: every match of the expression ends at an end-of-line / end-of-text assertion.
func endAnchored(x *syntax.Regexp) bool {
	switch x.Op {
	case syntax.OpEndLine, syntax.OpEndText:
		return true
	case syntax.OpConcat:
		return len(x.Sub) > 0 && endAnchored(x.Sub[len(x.Sub)-1])
	case syntax.OpCapture:
		return endAnchored(x.Sub[0])
	case syntax.OpAlternate:
		for _, s := range x.Sub {
			if !endAnchored(s) {
				return false
			}
		}
		return len(x.Sub) > 0
	}
	return false
}

func literalsOf(x *syntax.Regexp) string {
	s := ""
	if x.Op == syntax.OpLiteral {
		s = strings.ToLower(string(x.Rune))
	}
	for _, sub := range x.Sub {
		s += "\x00" + literalsOf(sub)
	}
	return s
}

func checkPasswordPromptAnchored(c *Ctx, r *Report, rule string) {
	n := 0
	for _, fn := range c.LibFns {
		if fn.Pkg == nil || fn.Pkg.Pkg.Path() != modPath+"/channel" {
			continue
		}
		for _, ci := range callInstrs(fn) {
			o := CalleeObj(ci)
			if o == nil || o.Pkg() == nil || o.Pkg().Path() != "regexp" || o.Name() != "MustCompile" || len(ci.Common().Args) != 1 {
				continue
			}
			pat, ok := constString(ci.Common().Args[0])
			if !ok {
				continue
			}
			re, err := syntax.Parse(pat, syntax.Perl)
			if err != nil || !strings.Contains(literalsOf(re), "password:") {
				continue
			}
			n++
			construct := fmt.Sprintf("built-in password prompt pattern #%d", n)
			if endAnchored(re.Simplify()) || endAnchored(re) {
				r.OK(rule, construct, c.Pos(ci.Pos()), "every match ends at a line end")
			} else {
				r.Bad(rule, construct, c.Pos(ci.Pos()), "the pattern that decides when the login password is typed also matches in the middle of a line: banner or capability text that merely contains `password:` makes the library type the password into whatever is listening (an echoing shell, a NETCONF session before the hello), and the bytes read so far are discarded")
			}
		}
	}
	if n == 0 {
		r.Unk(rule, "built-in password prompt pattern", "-", "no regexp constant recognising `password:` found in package channel")
	}
}

// ---- C16: the ssh child lives exactly as long as the transport -------------------------------------------------

func checkChildLifetime(c *Ctx, r *Report, rule string) {
	construct := "system transport: the child's lifetime is bound to Close only"
	bad := ""
	pos := "-"
	for _, fn := range c.LibFns {
		if fn.Pkg == nil || fn.Pkg.Pkg.Path() != modPath+"/transport" {
			continue
		}
		allInstrs(fn, func(in ssa.Instruction) {
			if f, _, _, ok := fieldStore(in); ok && f.Pkg() != nil && f.Pkg().Path() == "os/exec" && f.Name() == "SysProcAttr" {
				bad, pos = "sets exec.Cmd.SysProcAttr", c.Pos(in.Pos())
			}
			if ci, ok := in.(ssa.CallInstruction); ok {
				if o := CalleeObj(ci); o != nil && o.Pkg() != nil && o.Pkg().Path() == "os/exec" && o.Name() == "CommandContext" {
					bad, pos = "starts the child with exec.CommandContext", c.Pos(in.Pos())
				}
			}
		})
	}
	if bad != "" {
		r.Bad(rule, construct, pos, "the transport "+bad+": the ssh child can then be killed by something other than Close (a cancelled context, the exit of the OS thread that forked it), after Open reported the session up -- written bytes never reach the peer and reads fail")
	} else {
		r.OK(rule, construct, "-", "no SysProcAttr / CommandContext in package transport")
	}
}

// ---- C14: the "system default" file options take the first candidate that resolves, the user's first ----------

// nilErrEdgeSucc: for an `if err == nil` / `if err != nil` on the error result of call, the successor entered when the
// call succeeded.
func successSuccs(call *ssa.Call) []*ssa.BasicBlock {
	var out []*ssa.BasicBlock
	for _, ev := range errResultsOf(call) {
		for _, ref := range *ev.Referrers() {
			cmp, ok := ref.(*ssa.BinOp)
			if !ok {
				continue
			}
			v, nonNilOnTrue, okc := nilCheck(cmp)
			if !okc || v != ev {
				continue
			}
			isNil := !nonNilOnTrue
			for _, r2 := range *cmp.Referrers() {
				iff, ok := r2.(*ssa.If)
				if !ok {
					continue
				}
				b := iff.Block()
				if isNil {
					out = append(out, b.Succs[0])
				} else {
					out = append(out, b.Succs[1])
				}
			}
		}
	}
	return out
}

func checkSystemFilesFirstWins(c *Ctx, r *Report, rule string) {
	resolve := c.LookupFunc("util", "", "ResolveFilePath")
	if resolve == nil {
		r.Anchor(rule, "util.ResolveFilePath")
		return
	}
	n := 0
	for _, fn := range c.LibFns {
		if fn.Pkg == nil || !strings.HasSuffix(fn.Pkg.Pkg.Path(), "/driver/options") {
			continue
		}
		var calls []*ssa.Call
		for _, ci := range callInstrs(fn) {
			if call, ok := ci.(*ssa.Call); ok && call.Call.StaticCallee() == resolve {
				calls = append(calls, call)
			}
		}
		// (a) a resolve inside a loop: success must leave the loop
		for _, call := range calls {
			if !inLoop(call.Block()) {
				continue
			}
			n++
			construct := "candidate loop in " + shortFn(fn)
			bad := false
			for _, s := range successSuccs(call) {
				// from the success edge, can the resolve be reached again?
				seen := map[*ssa.BasicBlock]bool{}
				work := []*ssa.BasicBlock{s}
				for len(work) > 0 {
					b := work[len(work)-1]
					work = work[:len(work)-1]
					if seen[b] {
						continue
					}
					seen[b] = true
					if b == call.Block() {
						bad = true
						break
					}
					work = append(work, b.Succs...)
				}
			}
			if len(successSuccs(call)) == 0 {
				r.Unk(rule, construct, c.Pos(call.Pos()), "the error of the resolve inside the loop is not tested")
			} else if first := firstRangedConst(call.Call.Args[0]); first != "" && !strings.HasPrefix(first, "~") {
				r.Bad(rule, construct, c.Pos(call.Pos()), fmt.Sprintf("the candidate list starts with %q, not with the user-level path: a system-wide file is preferred over the user's own", first))
			} else if bad {
				r.Bad(rule, construct, c.Pos(call.Pos()), "after a candidate resolved the loop goes on to the next one: the LAST resolvable candidate wins, so a system-wide file overrides the user's own ssh config / known-hosts file")
			} else {
				r.OK(rule, construct, c.Pos(call.Pos()), "the first candidate that resolves ends the search")
			}
		}
		// (b) several constant candidates tried in sequence: the user's (~) first, later ones only after a failure
		var consts []string
		for _, call := range calls {
			if s, ok := constString(call.Call.Args[0]); ok {
				consts = append(consts, s)
			}
		}
		if len(consts) >= 2 && len(consts) == len(calls) {
			n++
			construct := "candidate order in " + shortFn(fn)
			ok := strings.HasPrefix(consts[0], "~")
			for i := 1; i < len(calls) && ok; i++ {
				// the later call must not be reachable from the earlier call's success edge
				for _, s := range successSuccs(calls[i-1]) {
					if s == calls[i].Block() || blockReaches(s, calls[i].Block()) {
						ok = false
					}
				}
				if !dominatesInstr(calls[i-1], calls[i]) {
					ok = false
				}
			}
			if ok {
				r.OK(rule, construct, c.Pos(calls[0].Pos()), "user-level path first, the next only after it failed to resolve")
			} else {
				r.Bad(rule, construct, c.Pos(calls[0].Pos()), fmt.Sprintf("the candidates %v are not tried user-level first with the next one only on failure: a system-wide file can override the user's own ssh config / known-hosts file", consts))
			}
		}
		// (c) constants handed to a candidate helper: user-level first
		for _, ci := range callInstrs(fn) {
			call, ok := ci.(*ssa.Call)
			if !ok || call.Call.StaticCallee() == nil || call.Call.StaticCallee().Pkg != fn.Pkg || call.Call.StaticCallee() == resolve {
				continue
			}
			var cs []string
			for _, a := range call.Call.Args {
				if vs := varargValues(a); vs != nil {
					for _, v := range vs {
						if s, ok := constString(v); ok {
							cs = append(cs, s)
						}
					}
				} else if s, ok := constString(a); ok {
					cs = append(cs, s)
				}
			}
			if len(cs) >= 2 && strings.Contains(cs[0]+cs[1], "ssh") {
				n++
				r.Check(strings.HasPrefix(cs[0], "~"), rule, "candidate list in "+shortFn(fn), c.Pos(call.Pos()), "user-level path listed first", fmt.Sprintf("the candidate list %v does not start with the user-level path", cs))
			}
		}
	}
	if n < 2 {
		r.Unk(rule, "system default file options", "-", fmt.Sprintf("only %d candidate searches found in driver/options (2 confirmed by reading)", n))
	}
}

func blockReaches(from, to *ssa.BasicBlock) bool {
	seen := map[*ssa.BasicBlock]bool{}
	work := []*ssa.BasicBlock{from}
	for len(work) > 0 {
		b := work[len(work)-1]
		work = work[:len(work)-1]
		if b == to {
			return true
		}
		if seen[b] {
			continue
		}
		seen[b] = true
		work = append(work, b.Succs...)
	}
	return false
}

// ---- C15: one Open dials (and negotiates on) one connection ------------------------------------------------

// dialPaths counts the static call-site paths from fn to net.Dial* (a site inside a loop counts as many).
func dialPaths(c *Ctx, fn *ssa.Function, onStack map[*ssa.Function]bool, depth int) int {
	if depth > 4 || onStack[fn] || fn.Blocks == nil {
		return 0
	}
	onStack[fn] = true
	defer delete(onStack, fn)
	total := 0
	for _, g := range append([]*ssa.Function{fn}, AnonFuncsDeep(fn)...) {
		for _, ci := range callInstrs(g) {
			k := 0
			if o := CalleeObj(ci); o != nil && o.Pkg() != nil && o.Pkg().Path() == "net" && strings.HasPrefix(o.Name(), "Dial") {
				k = 1
			} else if sc := ci.Common().StaticCallee(); sc != nil && sc.Pkg == fn.Pkg {
				k = dialPaths(c, sc, onStack, depth+1)
			}
			if k > 0 && inLoop(ci.Block()) {
				k = 100
			}
			total += k
		}
	}
	return total
}

func checkTelnetSingleDial(c *Ctx, r *Report, rule string) {
	open := c.LookupFunc("transport", "Telnet", "Open")
	buf := c.LookupField("transport", "Telnet", "initialBuf")
	if open == nil {
		r.Anchor(rule, "(*transport.Telnet).Open")
		return
	}
	n := dialPaths(c, open, map[*ssa.Function]bool{}, 0)
	construct := "Telnet.Open dials one connection"
	switch {
	case n == 1:
		r.OK(rule, construct, c.Pos(open.Pos()), "one call-site path to net.Dial, not in a loop")
	case n == 0:
		r.Unk(rule, construct, c.Pos(open.Pos()), "no net.Dial reachable from Telnet.Open through the package's own functions")
	default:
		// a retry is only sound when the data pre-read from the abandoned connection is dropped first
		reset := false
		if buf != nil {
			tree := c.reachFns([]*ssa.Function{open}, func(_ ssa.CallInstruction, callee *ssa.Function) bool { return callee.Pkg == open.Pkg }, false)
			for fn := range tree {
				allInstrs(fn, func(in ssa.Instruction) {
					if f, _, val, ok := fieldStore(in); ok && f == buf {
						if isNilConst(val) {
							reset = true
						}
						if sl, ok := val.(*ssa.Slice); ok && sl.High != nil {
							if k, ok := constInt(sl.High); ok && k == 0 {
								reset = true
							}
						}
						if mk, ok := val.(*ssa.MakeSlice); ok {
							if k, ok := constInt(mk.Len); ok && k == 0 {
								reset = true
							}
						}
					}
				})
			}
		}
		if reset {
			r.Unk(rule, construct, c.Pos(open.Pos()), "Telnet.Open can dial more than once and the pre-read buffer is reset somewhere: whether every re-dial is preceded by the reset is outside this rule's vocabulary")
		} else {
			r.Bad(rule, construct, c.Pos(open.Pos()), "one Open can dial (and negotiate on) more than one connection, and the bytes pre-read from an abandoned attempt are never dropped: the first reads of the session deliver the tail of a dead connection ahead of the real banner")
		}
	}
}

// ---- C06: no library consumer reads the queue without observing the reader's exit -----------------------------

// checkNoBlindConsumer: Channel.ReadAll polls the error channel but not the exited flag (the read loop leaves
// silently on end-of-stream), so a library loop that waits for device output through ReadAll never notices EOF.
func checkNoBlindConsumer(c *Ctx, r *Report, rule string) {
	ra := c.LookupFunc("channel", "Channel", "ReadAll")
	rd := c.LookupFunc("channel", "Channel", "Read")
	if ra == nil || rd == nil {
		r.Anchor(rule, "(*channel.Channel).ReadAll / Read")
		return
	}
	// does ReadAll observe the exited flag itself?
	exited := c.LookupField("channel", "Channel", "readLoopExited")
	observes := false
	if exited != nil {
		allInstrs(ra, func(in ssa.Instruction) {
			if u, ok := in.(*ssa.UnOp); ok {
				if f, _, ok := fieldLoad(u); ok && f == exited {
					observes = true
				}
			}
		})
	}
	n := 0
	for _, fn := range c.LibFns {
		for _, ci := range callInstrs(fn) {
			if ci.Common().StaticCallee() != ra {
				continue
			}
			n++
			construct := fmt.Sprintf("ReadAll used in %s", shortFn(fn))
			if observes {
				r.OK(rule, construct, c.Pos(ci.Pos()), "ReadAll observes the reader's exit")
			} else if inLoop(ci.Block()) {
				r.Bad(rule, construct, c.Pos(ci.Pos()), "a library loop waits for device output through Channel.ReadAll, which polls the error channel but not the reader's exited flag: the read loop leaves silently on end-of-stream, so the loss is never seen and the operation waits out its timeout")
			} else {
				r.OK(rule, construct, c.Pos(ci.Pos()), "a single drain, not a wait")
			}
		}
	}
	if n == 0 {
		r.OK(rule, "library consumers of the queue", "-", "no library function calls Channel.ReadAll: every wait goes through Channel.Read, which tests the exited flag")
	}
}

// ---- recognisers for one-level helper extraction ----------------------------------------------------------

// pollHelper: callee is a small library function that does nothing but poll a channel without blocking and report
// whether something was received: `select { case <-X: return true; default: return false }`. Returns the field the
// channel is loaded from ("" + isCtx for ctx.Done()).
func pollHelper(callee *ssa.Function) (field *types.Var, isCtx bool, ok bool) {
	if callee == nil || callee.Blocks == nil || len(callee.Blocks) > 8 {
		return nil, false, false
	}
	res := callee.Signature.Results()
	if res.Len() != 1 {
		return nil, false, false
	}
	if b, isB := res.At(0).Type().Underlying().(*types.Basic); !isB || b.Kind() != types.Bool {
		return nil, false, false
	}
	var sel *ssa.Select
	other := false
	allInstrs(callee, func(in ssa.Instruction) {
		switch x := in.(type) {
		case *ssa.Select:
			if sel != nil {
				other = true
			}
			sel = x
		case *ssa.Call, *ssa.Go, *ssa.Defer, *ssa.Send, *ssa.Store, *ssa.MapUpdate:
			if call, isCall := x.(*ssa.Call); isCall && call.Call.IsInvoke() && call.Call.Method.Name() == "Done" && isContextType(call.Call.Value.Type()) {
				return
			}
			other = true
		}
	})
	if sel == nil || other || sel.Blocking || len(sel.States) != 1 || sel.States[0].Dir != types.RecvOnly {
		return nil, false, false
	}
	// true is returned exactly where the receive fired
	recv := selectRecvBlocks(callee)
	good := true
	allInstrs(callee, func(in ssa.Instruction) {
		if ret, isRet := in.(*ssa.Return); isRet {
			b, isConst := constBool(ret.Results[0])
			if !isConst || b != recv[ret.Block()] {
				good = false
			}
		}
	})
	if !good {
		return nil, false, false
	}
	ch := sel.States[0].Chan
	if call, isCall := ch.(*ssa.Call); isCall && call.Call.IsInvoke() && call.Call.Method.Name() == "Done" && isContextType(call.Call.Value.Type()) {
		return nil, true, true
	}
	if f, _, _ := chanOrigin(ch); f != nil {
		return f, false, true
	}
	return nil, false, false
}

// helperReceivesFrom: callee is a small function whose select (or plain receive) takes from the channel held in field.
func helperReceivesFrom(callee *ssa.Function, field *types.Var) bool {
	if callee == nil || callee.Blocks == nil || len(callee.Blocks) > 10 {
		return false
	}
	found := false
	allInstrs(callee, func(in ssa.Instruction) {
		switch x := in.(type) {
		case *ssa.Select:
			for _, st := range x.States {
				if f, _, _ := chanOrigin(st.Chan); f == field && st.Dir == types.RecvOnly {
					found = true
				}
			}
		case *ssa.UnOp:
			if x.Op == token.ARROW {
				if f, _, _ := chanOrigin(x.X); f == field {
					found = true
				}
			}
		}
	})
	return found
}

// boundCall: a call of `target` found in root or in a same-package helper reached from root (to the given depth,
// `go` and `defer` statements included); Resolve maps a value used at that call (a parameter of the helper, at any
// level) back to the value it is bound to in root.
type boundCall struct {
	Call    ssa.CallInstruction
	Fn      *ssa.Function
	resolve func(v ssa.Value) ssa.Value
}

func (b boundCall) Resolve(v ssa.Value) ssa.Value { return b.resolve(v) }

func callsThroughHelpers(root, target *ssa.Function, depth int) []boundCall {
	var out []boundCall
	seen := map[*ssa.Function]bool{}
	var visit func(fn *ssa.Function, resolve func(ssa.Value) ssa.Value, d int)
	visit = func(fn *ssa.Function, resolve func(ssa.Value) ssa.Value, d int) {
		if seen[fn] || fn.Blocks == nil {
			return
		}
		seen[fn] = true
		defer delete(seen, fn)
		for _, g := range append([]*ssa.Function{fn}, AnonFuncsDeep(fn)...) {
			g := g
			gres := resolve
			if g != fn {
				// inside a closure of fn: captured variables resolve to their bindings in fn first
				gres = func(v ssa.Value) ssa.Value {
					if fv, ok := v.(*ssa.FreeVar); ok {
						if b := freeVarBinding(fv); b != nil {
							return resolve(b)
						}
					}
					if u, ok := v.(*ssa.UnOp); ok && u.Op == token.MUL {
						if fv, ok := u.X.(*ssa.FreeVar); ok {
							if a, ok := freeVarBinding(fv).(*ssa.Alloc); ok {
								var stored ssa.Value
								n := 0
								for _, ref := range *a.Referrers() {
									if st, ok := ref.(*ssa.Store); ok && st.Addr == a {
										stored = st.Val
										n++
									}
								}
								if n == 1 {
									return resolve(stored)
								}
							}
						}
					}
					return resolve(v)
				}
			}
			for _, ci := range callInstrs(g) {
				h := ci.Common().StaticCallee()
				if h == nil {
					continue
				}
				if h == target {
					out = append(out, boundCall{Call: ci, Fn: g, resolve: gres})
					continue
				}
				if d <= 0 || h.Pkg != root.Pkg || len(h.Blocks) == 0 || h == root {
					continue
				}
				args := ci.Common().Args
				hres := func(v ssa.Value) ssa.Value {
					for pi, p := range h.Params {
						if (v == ssa.Value(p) || isParamValue(v, p)) && pi < len(args) {
							return gres(args[pi])
						}
					}
					return v
				}
				visit(h, hres, d-1)
			}
		}
	}
	visit(root, func(v ssa.Value) ssa.Value { return v }, depth)
	return out
}

// firstRangedConst: v is the element of a literal list of string constants that a loop ranges over; returns element 0.
func firstRangedConst(v ssa.Value) string {
	u, ok := v.(*ssa.UnOp)
	if !ok || u.Op != token.MUL {
		return ""
	}
	ia, ok := u.X.(*ssa.IndexAddr)
	if !ok || rangeHeader(ia.Index) == nil {
		return ""
	}
	sl, ok := ia.X.(*ssa.Slice)
	if !ok {
		return ""
	}
	a, ok := sl.X.(*ssa.Alloc)
	if !ok {
		return ""
	}
	for _, ref := range *a.Referrers() {
		if ea, ok := ref.(*ssa.IndexAddr); ok && ea != ia {
			if k, ok := constInt(ea.Index); ok && k == 0 {
				for _, r2 := range *ea.Referrers() {
					if st, ok := r2.(*ssa.Store); ok {
						if s, ok := constString(st.Val); ok {
							return s
						}
					}
				}
			}
		}
	}
	return ""
}
