package main

// C01 — CLI exchanges return exactly the device's output, aligned per command.

import (
	"fmt"
	"go/token"
	"go/types"
	"strings"

	"golang.org/x/tools/go/ssa"
)

func init() {
	register(&Property{
		ID:  "C01",
		Run: runC01,
		Explanation: "Structural rules for the command exchange; the core clause (returned bytes equal the device's output for every segmentation, delay and search depth) is a statement about run-time byte values and regular-expression matching and is NOT decided. Decided, for every path: " +
			"tx-seq — every path of the send-input worker that hands over success performed exactly [write(input), read-until-echo(ctx, input), write-return, (nothing when eager | read-until-prompt | read-until-any-prompt(channel prompt + interim patterns))] in that order and nothing else that reaches the transport; the result is processOut(bytes of the final read only, StripPrompt) — bytes consumed by the echo read (stale output of earlier exchanges included) are discarded, never returned; exact-vs-fuzzy echo matching is selected by ExactMatchInput; sendCommand performs exactly one SendInput with its own command and records exactly that call's bytes. " +
			"enqueue-once — in the read loop every successful non-empty transport read reaches exactly one Enqueue before the next read, and the value enqueued is that read's bytes with CR removed (always) and ANSI sequences stripped (when an ESC is present) — nothing else; the read-until loops append every chunk they dequeue and return the whole accumulation on a match. " +
			"post-process — processOut right-trims spaces per line, removes the prompt exactly when asked, trims the return character and newlines; search-depth — the echo matchers search processReadBuf(buffer, max(PromptSearchDepth, 2*len(input))), the prompt matchers processReadBuf(buffer, PromptSearchDepth), and processReadBuf always returns a suffix of the buffer (the tail, where echo/prompt are, is never cut). one-response-per-command — SendCommands sends commands[i] in slice order and the last element last (append-before-next is C13/stop). " +
			"NOT decided: off-by-one inside the window computation, the prompt/ANSI regular expressions, fuzzy-match semantics beyond byte consumption (fuzzy-consume), alignment under arbitrary segmentations.",
		Assumptions: []string{"bytes.ReplaceAll/Trim*/regexp.ReplaceAll behave as documented", "Queue is a lossless FIFO (C20)"},
		Mutants: []Mutant{
			{ID: "C01-skip-blank-chunk", Desc: "ReadUntilPrompt does not look for the prompt after a chunk of blanks", Rule: "C01/match-every-chunk",
				Edits: []Edit{{File: "channel/read.go", Old: "\t\trb = append(rb, nb...)\n\n\t\tif c.PromptPattern.Match(processReadBuf(rb, c.PromptSearchDepth)) {", New: "\t\trb = append(rb, nb...)\n\n\t\tif len(bytes.TrimSpace(nb)) == 0 {\n\t\t\tcontinue\n\t\t}\n\n\t\tif c.PromptPattern.Match(processReadBuf(rb, c.PromptSearchDepth)) {"}}},
			{ID: "C01-write-and-return-skips-empty", Desc: "WriteAndReturn returns early for an empty input", Rule: "C01/write-primitives",
				Edits: []Edit{{File: "channel/write.go", Old: "func (c *Channel) WriteAndReturn(b []byte, r bool) error {\n", New: "func (c *Channel) WriteAndReturn(b []byte, r bool) error {\n\tif len(b) == 0 {\n\t\treturn nil\n\t}\n\n"}}},
			{ID: "C01-last-command-without-options", Desc: "the last command of SendCommands is sent without the per-operation options", Rule: "C01/opts-forwarded",
				Edits: []Edit{{File: "driver/generic/sendcommands.go", Old: "\t\tcommands[len(commands)-1],\n\t\top,\n\t\topts...,\n\t)", New: "\t\tcommands[len(commands)-1],\n\t\top,\n\t)"}}},
			{ID: "C01-extra-return-interim", Desc: "extra return on the interim-prompt branch", Rule: "C01/tx-seq",
				Edits: []Edit{{File: "channel/sendinput.go", Old: "\t\t\t\tprompts = append(prompts, op.InterimPromptPatterns...)\n", New: "\t\t\t\tprompts = append(prompts, op.InterimPromptPatterns...)\n\n\t\t\t\t_ = c.WriteReturn()\n"}}},
			{ID: "C01-explicit-depth-only", Desc: "exact echo matcher searches with PromptSearchDepth only", Rule: "C01/search-depth",
				Edits: []Edit{{File: "channel/read.go", Old: "\t\tif bytes.Contains(\n\t\t\tprocessReadBuf(rb, getProcessReadBufSearchDepth(c.PromptSearchDepth, len(b))),\n\t\t\tb,\n\t\t) {", New: "\t\tif bytes.Contains(\n\t\t\tprocessReadBuf(rb, c.PromptSearchDepth),\n\t\t\tb,\n\t\t) {"}}},
			{ID: "C01-strip-always", Desc: "prompt removed regardless of StripPrompt", Rule: "C01/tx-seq",
				Edits: []Edit{{File: "channel/sendinput.go", Old: "b:   c.processOut(b, op.StripPrompt),", New: "b:   c.processOut(b, true),"}}},
			{ID: "C01-echo-returned", Desc: "bytes consumed by the echo read are returned with the output", Rule: "C01/tx-seq",
				Edits: []Edit{{File: "channel/sendinput.go", Old: "\t\t_, err = readUntilF(ctx, input)\n", New: "\t\tb, err = readUntilF(ctx, input)\n"}}},
			{ID: "C01-ansi-csi-first", Desc: "the CSI alternative of the ANSI pattern is tried before the BEL-terminated one", Rule: "C01/ansi-no-shadow",
				Edits: []Edit{{File: "util/bytes.go", Old: "(?:(?:(?:[a-zA-Z\\\\d]*(?:;[a-zA-Z\\\\d]*)*)?\" +\n\t\"\\u0007)|(?:(?:\\\\d{1,4}(?:;\\\\d{0,4})*)?[\\\\dA-PRZcf-ntqry=><~]))", New: "(?:(?:(?:\\\\d{1,4}(?:;\\\\d{0,4})*)?[\\\\dA-PRZcf-ntqry=><~])|\" +\n\t\"(?:(?:[a-zA-Z\\\\d]*(?:;[a-zA-Z\\\\d]*)*)?\\u0007))"}}},
			{ID: "C01-ansi-skips-enqueue", Desc: "chunks containing an escape are stripped but not enqueued", Rule: "C01/enqueue-once",
				Edits: []Edit{{File: "channel/read.go", Old: "\t\tif bytes.Contains(b, []byte(\"\\x1b\")) {\n\t\t\tb = util.StripANSI(b)\n\t\t}\n", New: "\t\tif bytes.Contains(b, []byte(\"\\x1b\")) {\n\t\t\tb = util.StripANSI(b)\n\n\t\t\tif len(b) == 0 {\n\t\t\t\tcontinue\n\t\t\t}\n\t\t}\n"}}},
			{ID: "C01-cr-kept", Desc: "carriage returns no longer removed", Rule: "C01/enqueue-once",
				Edits: []Edit{{File: "channel/read.go", Old: "\t\tb = bytes.ReplaceAll(b, []byte(\"\\r\"), []byte(\"\"))\n", New: ""}}},
			{ID: "C01-chunk-dropped-on-sleep", Desc: "ReadUntilPrompt forgets the buffer when the queue was empty", Rule: "C01/enqueue-once",
				Edits: []Edit{{File: "channel/read.go", Old: "func (c *Channel) ReadUntilPrompt(ctx context.Context) ([]byte, error) {\n\tvar rb []byte\n\n\tfor {\n\t\tselect {\n\t\tcase <-ctx.Done():\n\t\t\treturn nil, ctx.Err()\n\t\tdefault:\n\t\t}\n\n\t\tnb, err := c.Read()\n\t\tif err != nil {\n\t\t\treturn nil, err\n\t\t}\n\n\t\tif nb == nil {\n\t\t\ttime.Sleep(c.ReadDelay)\n", New: "func (c *Channel) ReadUntilPrompt(ctx context.Context) ([]byte, error) {\n\tvar rb []byte\n\n\tfor {\n\t\tselect {\n\t\tcase <-ctx.Done():\n\t\t\treturn nil, ctx.Err()\n\t\tdefault:\n\t\t}\n\n\t\tnb, err := c.Read()\n\t\tif err != nil {\n\t\t\treturn nil, err\n\t\t}\n\n\t\tif nb == nil {\n\t\t\ttime.Sleep(c.ReadDelay)\n\t\t\trb = nil\n"}}},
			{ID: "C01-window-head", Desc: "search window taken from the head of the buffer", Rule: "C01/search-depth",
				Edits: []Edit{{File: "channel/read.go", Old: "\tprb := rb[len(rb)-searchDepth:]", New: "\tprb := rb[:searchDepth]"}}},
			{ID: "C01-trim-tabs", Desc: "per-line trim also removes tabs", Rule: "C01/post-process",
				Edits: []Edit{{File: "channel/channel.go", Old: "cleanLines[i] = bytes.TrimRight(l, \" \")", New: "cleanLines[i] = bytes.TrimRight(l, \" \\t\")"}}},
			{ID: "C01-fuzzy-no-consume", Desc: "fuzzy matcher does not consume the matched byte", Rule: "C01/fuzzy-consume",
				Edits: []Edit{{File: "util/bytes.go", Old: "return true, output[idx+1:]", New: "return true, output[idx:]"}}},
			{ID: "C01-newline-searched-in-whole-buffer", Desc: "line-boundary snap searches the whole buffer", Rule: "C01/search-depth",
				Edits: []Edit{{File: "channel/read.go", Old: "partitionIdx := bytes.Index(prb, []byte(\"\\n\"))", New: "partitionIdx := bytes.Index(rb, []byte(\"\\n\"))"}}},
			{ID: "C01-window-not-snapped", Desc: "search window no longer moved to a line boundary", Rule: "C01/search-depth",
				Edits: []Edit{{File: "channel/read.go", Old: "\tif partitionIdx > 0 {\n\t\tprb = prb[partitionIdx:]\n\t}\n", New: "\t_ = partitionIdx\n"}}},
			{ID: "C01-fuzzy-not-threaded", Desc: "fuzzy matcher searches the whole output for every input byte", Rule: "C01/fuzzy-consume",
				Edits: []Edit{{File: "util/bytes.go", Old: "\t\tshouldContinue, output = bytesRoughlyContainsIterOutputForInputChar(inputChar, output)", New: "\t\tshouldContinue, _ = bytesRoughlyContainsIterOutputForInputChar(inputChar, output)"}}},
			{ID: "C01-return-written-twice", Desc: "WriteAndReturn appends the return to the bytes and still writes the return", Rule: "C01/write-primitives",
				Edits: []Edit{{File: "channel/write.go", Old: "\terr := c.Write(b, r)\n", New: "\terr := c.Write(append(b, c.ReturnChar...), r)\n"}}},
			{ID: "C01-last-first", Desc: "SendCommands sends the last command first", Rule: "C01/one-response-per-command",
				Edits: []Edit{{File: "driver/generic/sendcommands.go", Old: "\tfor _, input := range commands[:len(commands)-1] {", New: "\tfor _, input := range commands[1:] {"}}},
			{ID: "C01-sendcommand-twice", Desc: "sendCommand sends the command twice when it failed", Rule: "C01/tx-seq",
				Edits: []Edit{{File: "driver/generic/sendcommand.go", Old: "\tb, err := d.Channel.SendInput(command, opts...)\n\tif err != nil {\n\t\treturn nil, err\n\t}\n", New: "\tb, err := d.Channel.SendInput(command, opts...)\n\tif err != nil {\n\t\tb, err = d.Channel.SendInput(command, opts...)\n\t\tif err != nil {\n\t\t\treturn nil, err\n\t\t}\n\t}\n"}}},
			{ID: "C01-exact-ignored", Desc: "exact-match option selects the fuzzy matcher", Rule: "C01/tx-seq",
				Edits: []Edit{{File: "channel/sendinput.go", Old: "\tif op.ExactMatchInput {\n\t\treadUntilF = c.ReadUntilExplicit\n\t}\n\n\tcr := make(chan *result)\n\n\tctx, cancel := context.WithTimeout(context.Background(), c.GetTimeout(op.Timeout))\n\n\t// we'll", New: "\tif op.ExactMatchInput {\n\t\treadUntilF = c.ReadUntilFuzzy\n\t}\n\n\tcr := make(chan *result)\n\n\tctx, cancel := context.WithTimeout(context.Background(), c.GetTimeout(op.Timeout))\n\n\t// we'll"}}},
		},
	})
}

func runC01(c *Ctx, r *Report) {
	importFoundation(c, r, "C01", "multi-response")
	r.Rule("C01/strip-whole", "StripANSI returns the escape-sequence pattern's ReplaceAll over its whole argument on every path", 1)
	checkStripWhole(c, r, "C01/strip-whole")
	r.Rule("C01/file-lines", "the from-file variants get one command per line of the file (what the device receives is each command followed by one return)", 1)
	checkFileLines(c, r, "C01/file-lines")
	importFoundation(c, r, "C01", "response-record")
	importFoundation(c, r, "C01", "queue")
	importFoundation(c, r, "C01", "transport-pipe")
	r.Rule("C01/opts-forwarded", "every operation of the generic and network drivers hands its full per-operation option list (prompt stripping, input matching mode, eager) to each option-taking library callee", 4)
	checkOptsForwarded(c, r, "C01/opts-forwarded", [][2]string{{"driver/generic", "Driver"}, {"driver/network", "Driver"}})
	r.Rule("C01/explicit-matcher", "the exact echo matcher tests that the search window contains the input", 1)
	r.Rule("C01/ansi-bounded", "no unbounded repetition of the escape-sequence pattern admits ESC or newline", 1)
	checkExplicitMatcherArgs(c, r, "C01/explicit-matcher")
	checkANSIPatternBounded(c, r, "C01/ansi-bounded")
	r.Rule("C01/ansi-no-shadow", "no alternative of the escape-sequence pattern is tried before another one of which it matches a proper prefix (leftmost-first matching would leave the tail of a complete sequence in the output)", 1)
	checkANSINoShadow(c, r, "C01/ansi-no-shadow")
	r.Rule("C01/ansi-specimens", "the escape-sequence pattern matches each specimen control sequence (CSI with and without private prefix, SGR, erase, cursor, keypad, OSC title) as one complete sequence", 1)
	checkANSISpecimens(c, r, "C01/ansi-specimens")
	r.Rule("C01/tx-seq", "send-input worker: exactly [write(input), echo read(ctx,input), write return, final prompt read per mode] on every success path; result = processOut(final read, StripPrompt); one SendInput per command", 6)
	r.Rule("C01/enqueue-once", "read loop: one Enqueue per successful non-empty read, of that read's bytes with CR removed and ANSI stripped; read-until loops append every chunk and return the accumulation", 6)
	r.Rule("C01/post-process", "processOut: per-line right-trim of spaces, prompt removal exactly when asked, trim of return char and newlines", 3)
	r.Rule("C01/search-depth", "echo matchers use max(PromptSearchDepth, 2*len(input)), prompt matchers PromptSearchDepth; the window is always a suffix of the buffer", 6)
	r.Rule("C01/fuzzy-consume", "the fuzzy echo matcher hands on output[I+1:] after matching an input byte at position I (each echoed byte satisfies one input byte)", 1)
	r.Rule("C01/write-primitives", "Channel.Write forwards the caller's bytes unchanged; WriteReturn writes the return character; WriteAndReturn is Write then, on success, one WriteReturn", 3)
	r.Rule("C01/one-response-per-command", "SendCommands sends the slice's elements in order, the last one last", 2)

	r.Rule("C01/op-options-applied", "channel.NewOperation applies the full per-operation option list in order (prompt stripping, input matching mode, eager): an option that is not for the object does not end the loop", 1)
	checkOperationApplyLoop(c, r, "C01/op-options-applied", "channel")
	r.Rule("C01/match-every-chunk", "each read-until loop hands its accumulation to the matcher after every chunk it appended, before it reads again", 4)
	checkMatchEveryChunk(c, r, "C01/match-every-chunk")
	checkSendInputWorker(c, r)
	checkSendCommandOnce(c, r)
	checkReadLoopEnqueue(c, r)
	checkReadUntilLoops(c, r)
	checkProcessOut(c, r)
	checkSearchDepth(c, r)
	checkCommandOrder(c, r)
	checkFuzzyConsume(c, r)
	checkFuzzyThreaded(c, r)
	checkWritePrimitives(c, r)
}

func checkSendInputWorker(c *Ctx, r *Report) {
	rule := "C01/tx-seq"
	fn := c.LookupFunc("channel", "Channel", "SendInputB")
	if fn == nil {
		r.Anchor(rule, "(*channel.Channel).SendInputB")
		return
	}
	wret := c.LookupFunc("channel", "Channel", "WriteReturn")
	worker, named, why := sendInputWorker(c, fn, wret)
	if worker == nil {
		r.Unk(rule, "SendInputB worker", c.Pos(fn.Pos()), "no worker closure found"+why)
		return
	}
	paths := EnumeratePaths(c, worker, &dtConfig{IsAtomCall: func(call *ssa.Call) bool {
		o := CalleeObj(call)
		return o != nil && o.Pkg() != nil && o.Pkg().Path() == "fmt"
	}})
	cK, inK, ctxK, opK := "local:captured:c", "local:captured:input", "local:captured:ctx", "local:captured:op"
	if named {
		// the exchange lives in a method the worker goroutine calls: its parameters play the captured variables' roles
		// (sendInputWorker verified that the call site binds them to SendInputB's receiver, input, context and options)
		cK, inK, ctxK, opK = "", "", "", ""
		for _, prm := range worker.Params {
			k := "param:" + prm.Name()
			switch t := prm.Type().(type) {
			case *types.Pointer:
				if n, ok := t.Elem().(*types.Named); ok && n.Obj().Name() == "Channel" {
					cK = k
				} else if ok && n.Obj().Name() == "OperationOptions" {
					opK = k
				}
			case *types.Slice:
				inK = k
			case *types.Named:
				if isContextType(t) {
					ctxK = k
				}
			}
		}
	}
	n := 0
	for _, p := range paths {
		if p.Undecided != "" {
			r.Unk(rule, "SendInputB worker paths", c.Pos(worker.Pos()), p.Undecided)
			return
		}
		// success path: the result literal that is sent has err == nil (a named worker: returns a nil error)
		success := false
		var resB string
		for k, v := range p.Locals {
			if strings.HasSuffix(k, ".err") && v == "nil" {
				success = true
				resB = p.Locals[strings.TrimSuffix(k, ".err")+".b"]
			}
		}
		if named {
			success = len(p.Returns) == 2 && p.Returns[1] == "nil"
			if success {
				resB = p.Returns[0]
			}
		}
		var ioCalls []string
		for _, e := range p.Effects {
			if e.Kind != "call" {
				continue
			}
			if strings.HasPrefix(e.What, "channel.Channel.") && e.What != "channel.Channel.processOut" || strings.HasPrefix(e.What, "dyn:") {
				ioCalls = append(ioCalls, e.What+"("+strings.Join(e.Args, ",")+")")
			}
		}
		if !success {
			continue
		}
		n++
		eager := p.Assume[opK+".Eager"]
		interim := p.Assume["len("+opK+".InterimPromptPatterns)"]
		construct := fmt.Sprintf("worker success path eager=%s interim%s", eager, interim)
		want := []string{
			"channel.Channel.Write(" + cK + "," + inK + ",false)",
			"dyn:{ReadUntilExplicit|ReadUntilFuzzy}(" + ctxK + "," + inK + ")",
			"channel.Channel.WriteReturn(" + cK + ")",
		}
		final := ""
		switch {
		case eager == "true":
		case eager == "false" && interim == "=0":
			final = "channel.Channel.ReadUntilPrompt(" + cK + "," + ctxK + ")"
		case eager == "false" && strings.HasPrefix(interim, "!="):
			final = "channel.Channel.ReadUntilAnyPrompt(" + cK + "," + ctxK + ",append({" + cK + ".PromptPattern}," + opK + ".InterimPromptPatterns))"
		default:
			r.Bad(rule, construct, c.Pos(worker.Pos()), "the final read does not depend on eager mode and on whether interim prompt patterns were given")
			continue
		}
		if final != "" {
			want = append(want, final)
		}
		var probs []string
		rawFinal := ""
		if final != "" && len(ioCalls) > 0 {
			rawFinal = ioCalls[len(ioCalls)-1]
		}
		for i := range ioCalls {
			ioCalls[i] = canonCallKey(ioCalls[i])
		}
		for i := range want {
			want[i] = canonCallKey(want[i])
		}
		if strings.Join(ioCalls, " ; ") != strings.Join(want, " ; ") {
			probs = append(probs, fmt.Sprintf("the exchange performs %v, specified %v", ioCalls, want))
		}
		wantB := "channel.Channel.processOut(" + cK + ",nil," + opK + ".StripPrompt)"
		if final != "" {
			wantB = "channel.Channel.processOut(" + cK + ",append(nil,<final read>#0)," + opK + ".StripPrompt)"
			if rawFinal != "" {
				resB = strings.Replace(resB, rawFinal, "<final read>", 1)
			}
		}
		if resB != wantB {
			probs = append(probs, fmt.Sprintf("the returned bytes are %s, specified %s (only what the final read consumed, post-processed with the StripPrompt setting)", resB, wantB))
		}
		if len(probs) == 0 {
			r.OK(rule, construct, c.Pos(worker.Pos()), strings.Join(want, " -> "))
		} else {
			r.Bad(rule, construct, c.Pos(worker.Pos()), strings.Join(probs, "; "))
		}
	}
	if n == 0 {
		r.Bad(rule, "worker success paths", c.Pos(worker.Pos()), "the worker never hands over a successful result")
	}
	// matcher selection in the parent: the captured function variable is set to the fuzzy matcher and
	// overwritten with the exact one on the ExactMatchInput edge (or an equivalent phi)
	okSel := false
	boundName := func(v ssa.Value) string {
		if ct, ok := v.(*ssa.ChangeType); ok { // a named function type
			v = ct.X
		}
		if mc, ok := v.(*ssa.MakeClosure); ok {
			if f, ok := mc.Fn.(*ssa.Function); ok {
				return strings.TrimSuffix(f.Name(), "$bound")
			}
		}
		return ""
	}
	guardExact := func(in ssa.Instruction) (bool, int) {
		exact := false
		n := 0
		for _, ec := range edgeConds(in.Block()) {
			if x, _, isNil := nilCheck(ec.Cond); isNil && isErrorType(x.Type()) {
				continue
			}
			n++
			if isFieldLoadNamed(ec.Cond, "ExactMatchInput") && ec.Truth {
				exact = true
			}
		}
		return exact, n
	}
	var fuzzyStore, exactStore *ssa.Store
	allInstrs(fn, func(in ssa.Instruction) {
		st, ok := in.(*ssa.Store)
		if !ok {
			return
		}
		switch boundName(st.Val) {
		case "ReadUntilFuzzy":
			fuzzyStore = st
		case "ReadUntilExplicit":
			exactStore = st
		}
	})
	if fuzzyStore != nil && exactStore != nil && fuzzyStore.Addr == exactStore.Addr && dominatesInstr(fuzzyStore, exactStore) {
		fe, fn1 := guardExact(fuzzyStore)
		ee, en1 := guardExact(exactStore)
		okSel = !fe && fn1 == 0 && ee && en1 == 1
	}
	// ... or assigned in the two arms of an if/else on the option
	if !okSel && fuzzyStore != nil && exactStore != nil && fuzzyStore.Addr == exactStore.Addr {
		exactOn := func(in ssa.Instruction, want bool) (bool, int) {
			hit, n := false, 0
			for _, ec := range edgeConds(in.Block()) {
				if x, _, isNil := nilCheck(ec.Cond); isNil && isErrorType(x.Type()) {
					continue
				}
				n++
				v, neg := unwrapNot(ec.Cond)
				t := ec.Truth
				if neg {
					t = !t
				}
				if isFieldLoadNamed(v, "ExactMatchInput") && t == want {
					hit = true
				}
			}
			return hit, n
		}
		ee, en := exactOn(exactStore, true)
		fe, fnn := exactOn(fuzzyStore, false)
		if ee && en == 1 && fe && fnn == 1 {
			okSel = true
		}
	}
	allInstrs(fn, func(in ssa.Instruction) {
		phi, ok := in.(*ssa.Phi)
		if !ok || len(phi.Edges) != 2 {
			return
		}
		names := map[int]string{}
		for i, e := range phi.Edges {
			names[i] = boundName(e)
		}
		for i, p := range phi.Block().Preds {
			exact := false
			for _, ec := range edgeConds(p) {
				if isFieldLoadNamed(ec.Cond, "ExactMatchInput") && ec.Truth {
					exact = true
				}
			}
			if exact && names[i] == "ReadUntilExplicit" && names[1-i] == "ReadUntilFuzzy" {
				okSel = true
			}
		}
	})
	// ... or the choice is made by a helper of the package that is handed the option's value
	if !okSel {
		for _, ci := range callInstrs(fn) {
			h := ci.Common().StaticCallee()
			if h == nil || h.Pkg != fn.Pkg || h.Object() == nil || h.Object().Exported() || len(h.Blocks) == 0 {
				continue
			}
			var flag *ssa.Parameter
			for ai, a := range ci.Common().Args {
				if isFieldLoadNamed(a, "ExactMatchInput") && ai < len(h.Params) {
					flag = h.Params[ai]
				}
			}
			if flag == nil {
				continue
			}
			exactOK, fuzzyOK, other := false, false, false
			allInstrs(h, func(in ssa.Instruction) {
				ret, ok := in.(*ssa.Return)
				if !ok || len(ret.Results) != 1 {
					return
				}
				onFlag, n := false, 0
				for _, ec := range edgeConds(ret.Block()) {
					n++
					v, neg := unwrapNot(ec.Cond)
					t := ec.Truth
					if neg {
						t = !t
					}
					if v == ssa.Value(flag) && t {
						onFlag = true
					}
				}
				switch boundName(ret.Results[0]) {
				case "ReadUntilExplicit":
					exactOK = onFlag && n == 1
				case "ReadUntilFuzzy":
					fuzzyOK = !onFlag
				default:
					other = true
				}
			})
			if exactOK && fuzzyOK && !other {
				okSel = true
			}
		}
	}
	r.Check(okSel, rule, "echo matcher selection", c.Pos(fn.Pos()), "ExactMatchInput -> ReadUntilExplicit, else ReadUntilFuzzy", "the input-matching mode option does not select the exact matcher when set and the fuzzy one otherwise")
	// SendInput -> SendInputB([]byte(input), opts...)
	si := c.LookupFunc("channel", "Channel", "SendInput")
	if si != nil {
		ok := false
		for _, ci := range staticCallsTo(si, fn) {
			a := ci.Common().Args
			ok = stripConv(a[1]) == ssa.Value(si.Params[1]) && a[2] == ssa.Value(si.Params[2])
		}
		r.Check(ok, rule, "SendInput delegates", c.Pos(si.Pos()), "SendInputB([]byte(input), opts...)", "SendInput does not pass its input and options unchanged to SendInputB")
	}
}

// sendInputWorker: the function that performs SendInputB's exchange: the worker closure that writes the return, or --
// when the closure only calls a method of the same package and sends its two results on the result channel -- that
// method (named=true), provided the call binds the method's parameters to SendInputB's own receiver, input bytes,
// context and operation options.
func sendInputWorker(c *Ctx, fn, wret *ssa.Function) (*ssa.Function, bool, string) {
	if wret == nil {
		return nil, false, ""
	}
	for _, a := range AnonFuncsDeep(fn) {
		if len(staticCallsTo(a, wret)) > 0 {
			return a, false, ""
		}
	}
	origin := func(v ssa.Value) ssa.Value {
		for i := 0; i < 6; i++ {
			switch x := v.(type) {
			case *ssa.FreeVar:
				if b := freeVarBinding(x); b != nil {
					v = b
					continue
				}
			case *ssa.UnOp:
				if a, ok := x.X.(*ssa.Alloc); ok && x.Op == token.MUL {
					var only ssa.Value
					n := 0
					for _, ref := range *a.Referrers() {
						if st, ok := ref.(*ssa.Store); ok && st.Addr == ssa.Value(a) {
							only = st.Val
							n++
						}
					}
					if n == 1 {
						v = only
						continue
					}
				}
				if fv, ok := x.X.(*ssa.FreeVar); ok && x.Op == token.MUL {
					if b := freeVarBinding(fv); b != nil {
						if a, ok := b.(*ssa.Alloc); ok {
							var only ssa.Value
							n := 0
							for _, ref := range *a.Referrers() {
								if st, ok := ref.(*ssa.Store); ok && st.Addr == ssa.Value(a) {
									only = st.Val
									n++
								}
							}
							if n == 1 {
								v = only
								continue
							}
						}
					}
				}
			}
			break
		}
		return v
	}
	for _, a := range AnonFuncsDeep(fn) {
		for _, ci := range callInstrs(a) {
			call, ok := ci.(*ssa.Call)
			h := ci.Common().StaticCallee()
			if !ok || h == nil || h.Pkg != fn.Pkg || len(h.Blocks) == 0 || len(staticCallsTo(h, wret)) == 0 || h.Signature.Results().Len() != 2 {
				continue
			}
			// argument binding
			for i, prm := range h.Params {
				if i >= len(call.Call.Args) {
					return nil, false, ": helper call has too few arguments"
				}
				arg := origin(call.Call.Args[i])
				okArg := true
				switch t := prm.Type().(type) {
				case *types.Pointer:
					if n, isN := t.Elem().(*types.Named); isN && n.Obj().Name() == "Channel" {
						okArg = arg == ssa.Value(fn.Params[0])
					} else if isN && n.Obj().Name() == "OperationOptions" {
						ex, isEx := arg.(*ssa.Extract)
						okArg = false
						if isEx && ex.Index == 0 {
							if cl, isCall := ex.Tuple.(*ssa.Call); isCall && cl.Parent() == fn {
								if sc := cl.Call.StaticCallee(); sc != nil && sc.Name() == "NewOperation" {
									okArg = true
								}
							}
						}
					}
				case *types.Slice:
					okArg = arg == ssa.Value(fn.Params[1])
				case *types.Named:
					if isContextType(t) {
						k, _ := ctxOrigin(call.Call.Args[i], 0)
						okArg = k == "with-timeout"
					}
				}
				if !okArg {
					return nil, false, ": the exchange helper " + shortFn(h) + " is not called with SendInputB's own " + prm.Name()
				}
			}
			// both results are sent on as they are
			b, e := resultOf(call, 0), resultOf(call, 1)
			sentB, sentE := false, false
			allInstrs(a, func(in ssa.Instruction) {
				if st, ok := in.(*ssa.Store); ok {
					if fa, ok := st.Addr.(*ssa.FieldAddr); ok {
						f := fieldOfAddr(fa)
						if f != nil && f.Name() == "b" && st.Val == b {
							sentB = true
						}
						if f != nil && f.Name() == "err" && st.Val == e {
							sentE = true
						}
					}
				}
			})
			if !sentB || !sentE {
				return nil, false, ": the worker does not hand the results of " + shortFn(h) + " to the caller unchanged"
			}
			return h, true, ""
		}
	}
	return nil, false, ""
}

func checkSendCommandOnce(c *Ctx, r *Report) {
	rule := "C01/tx-seq"
	fn := c.LookupFunc("driver/generic", "Driver", "sendCommand")
	if fn == nil {
		r.Anchor(rule, "(*generic.Driver).sendCommand")
		return
	}
	paths := EnumeratePaths(c, fn, &dtConfig{IsAtomCall: func(call *ssa.Call) bool {
		o := CalleeObj(call)
		return o != nil && o.Pkg() != nil && o.Pkg().Path() == "fmt"
	}})
	d := "param:" + fn.Params[0].Name()
	cmd := "param:" + fn.Params[1].Name()
	opts := "param:" + fn.Params[3].Name()
	ok := len(paths) > 0
	msg := ""
	for _, p := range paths {
		if p.Undecided != "" {
			ok, msg = false, p.Undecided
			continue
		}
		n := 0
		sendKey := "channel.Channel.SendInput(" + d + ".Channel," + cmd + "," + opts + ")"
		for _, e := range p.Effects {
			if e.Kind == "call" && strings.HasPrefix(e.What, "channel.Channel.") {
				n++
				if e.What+"("+strings.Join(e.Args, ",")+")" != sendKey {
					ok, msg = false, "sendCommand performs "+e.String()
				}
			}
			if e.Kind == "call" && e.What == "response.Response.Record" {
				if len(e.Args) != 2 || e.Args[1] != sendKey+"#0" {
					ok, msg = false, "the response records something other than the bytes returned by this command's send"
				}
			}
		}
		if n != 1 {
			ok, msg = false, fmt.Sprintf("%d channel operations per command (exactly one SendInput expected)", n)
		}
	}
	r.Check(ok, rule, "sendCommand sends its command once", c.Pos(fn.Pos()), "one SendInput(command, opts...), Record(its bytes)", "sendCommand: "+msg)
}

func checkReadLoopEnqueue(c *Ctx, r *Report) {
	rule := "C01/enqueue-once"
	fn := c.LookupFunc("channel", "Channel", "read")
	tRead := c.LookupFunc("transport", "Transport", "Read")
	enq := c.LookupFunc("util", "Queue", "Enqueue")
	strip := c.LookupFunc("util", "", "StripANSI")
	if fn == nil || tRead == nil || enq == nil || strip == nil {
		r.Anchor(rule, "(*channel.Channel).read / Transport.Read / Queue.Enqueue / util.StripANSI")
		return
	}
	reads := staticCallsTo(fn, tRead)
	enqs := staticCallsTo(fn, enq)
	if len(reads) != 1 || len(enqs) != 1 {
		r.Bad(rule, "read loop shape", c.Pos(fn.Pos()), fmt.Sprintf("the read loop must contain one transport read and one Enqueue (found %d/%d)", len(reads), len(enqs)))
		return
	}
	rd := reads[0].(*ssa.Call)
	en := enqs[0].(*ssa.Call)
	data, errv := resultOf(rd, 0), resultOf(rd, 1)
	// provenance of the enqueued value (the transformation may live in a helper that is handed the read's bytes)
	arg := en.Call.Args[1]
	okProv, msg := enqueueProvenance(arg, data, strip)
	if hc, ok := arg.(*ssa.Call); ok && !okProv {
		if sc := hc.Call.StaticCallee(); sc != nil && sc.Pkg != nil && isLibPkgPath(sc.Pkg.Pkg.Path()) && sc.Blocks != nil && sc != strip {
			for i, a := range hc.Call.Args {
				if a != data || i >= len(sc.Params) {
					continue
				}
				all := true
				n := 0
				var rets []*ssa.Return
				allInstrs(sc, func(in ssa.Instruction) {
					if ret, isRet := in.(*ssa.Return); isRet && len(ret.Results) == 1 {
						n++
						rets = append(rets, ret)
						if ok2, _ := enqueueProvenance(ret.Results[0], sc.Params[i], strip); !ok2 {
							all = false
						}
					}
				})
				if n > 0 && all {
					okProv = true
				}
				// the helper written with an early return: one return hands back the CR-free bytes where they contain
				// no ESC, the other the stripped bytes where they do
				if !okProv && len(rets) == 2 {
					if enqueueProvenanceTwoReturns(rets, sc.Params[i], strip) {
						okProv = true
					}
				}
			}
		}
	}
	r.Check(okProv, rule, "enqueued value provenance", c.Pos(en.Pos()), "ReplaceAll(read bytes, CR, \"\") then StripANSI iff ESC present", msg)
	// exactly one Enqueue between a successful non-empty read and the next read
	ef := func(b *ssa.BasicBlock, si int) bool {
		cond := ifCond(b)
		if cond == nil {
			return true
		}
		if x, nonNilOnTrue, ok := nilCheck(cond); ok && x == errv {
			if nonNilOnTrue {
				return si == 1
			}
			return si == 0
		}
		// len(b) == 0 edge is the empty-read path
		if bo, ok := cond.(*ssa.BinOp); ok && bo.Op == token.EQL {
			if k, isC := constInt(bo.Y); isC && k == 0 {
				if l := linOf(bo.X, 0); len(l.coef) == 1 {
					for key := range l.coef {
						if key == "len("+data.Name()+")" {
							return si == 1
						}
					}
				}
			}
		}
		return true
	}
	rr := reachFrom(fn, rd, func(in ssa.Instruction) bool { return in == ssa.Instruction(en) }, ef)
	bad := ""
	for in := range rr.visited {
		if in == ssa.Instruction(rd) {
			bad = "a chunk that was read successfully can be dropped: the loop reaches the next transport read without enqueuing it"
		}
		if isReturn(in) {
			bad = "the read loop can exit with a chunk read but not enqueued"
		}
	}
	r2 := reachFrom(fn, en, func(in ssa.Instruction) bool { return in == ssa.Instruction(rd) }, nil)
	if r2.visited[en] {
		bad = "a chunk can be enqueued twice"
	}
	r.Check(bad == "", rule, "one Enqueue per successful read", c.Pos(en.Pos()), "every successful non-empty read is enqueued exactly once before the next read", bad)
}

func checkReadUntilLoops(c *Ctx, r *Report) {
	rule := "C01/enqueue-once"
	chRead := c.LookupFunc("channel", "Channel", "Read")
	for _, name := range []string{"ReadUntilFuzzy", "ReadUntilExplicit", "ReadUntilPrompt", "ReadUntilAnyPrompt"} {
		fn := c.LookupFunc("channel", "Channel", name)
		if fn == nil || chRead == nil {
			r.Anchor(rule, "(*channel.Channel)."+name+" / Read")
			continue
		}
		reads := chunkReads(fn, chRead)
		outer := fn
		if len(reads) == 0 {
			// the loop shared between the read-until variants: a helper that is handed the match predicate
			if d := readUntilDelegate(fn, chRead); d != nil {
				if why := d.soundDelegation(); why != "" {
					r.Bad(rule, shortFn(outer)+" accumulates", c.Pos(fn.Pos()), shortFn(outer)+": "+why)
					continue
				}
				fn = d.Loop
				reads = chunkReads(fn, chRead)
			}
		}
		if len(reads) != 1 {
			r.Bad(rule, shortFn(outer)+" accumulates", c.Pos(outer.Pos()), "the loop does not contain exactly one Channel.Read")
			continue
		}
		nb := resultOf(reads[0], 0)
		// rb phi at the loop header: [nil, rb (unchanged), append(rb, nb...)]
		var acc *ssa.Call
		var phi *ssa.Phi
		allInstrs(fn, func(in ssa.Instruction) {
			call, ok := in.(*ssa.Call)
			if !ok {
				return
			}
			if b, ok := call.Call.Value.(*ssa.Builtin); ok && b.Name() == "append" && len(call.Call.Args) == 2 && call.Call.Args[1] == nb {
				if p, ok := call.Call.Args[0].(*ssa.Phi); ok {
					acc, phi = call, p
				}
			}
		})
		ok := acc != nil
		msg := "the chunk returned by Channel.Read is not appended to the accumulated buffer"
		if ok {
			for i, e := range phi.Edges {
				backEdge := phi.Block().Dominates(phi.Block().Preds[i])
				if e == ssa.Value(phi) || e == ssa.Value(acc) || (!backEdge && isNilConst(e)) {
					continue
				}
				ok = false
				msg = "the accumulated buffer is reset or replaced inside the loop: bytes already consumed are lost"
			}
		}
		// success returns return the accumulation
		if ok {
			allInstrs(fn, func(in ssa.Instruction) {
				ret, isRet := in.(*ssa.Return)
				if !isRet || len(ret.Results) != 2 || !isNilConst(ret.Results[1]) {
					return
				}
				if isNilConst(ret.Results[0]) {
					return // ReadUntilFuzzy's empty-input early return
				}
				if ret.Results[0] != ssa.Value(acc) {
					ok = false
					msg = "on a match the loop does not return everything it consumed"
				}
			})
		}
		r.Check(ok, rule, shortFn(outer)+" accumulates", c.Pos(outer.Pos()), "rb = append(rb, chunk...); returns rb on match", shortFn(outer)+": "+msg)
	}
}

// chunkReads: the calls in fn that yield the next chunk of output: Channel.Read itself, or a helper of the same package
// that calls Channel.Read once and returns that read's bytes (or nil) unchanged.
func chunkReads(fn, chRead *ssa.Function) []*ssa.Call {
	var out []*ssa.Call
	for _, ci := range callInstrs(fn) {
		call, ok := ci.(*ssa.Call)
		if !ok {
			continue
		}
		h := call.Call.StaticCallee()
		if h == nil {
			continue
		}
		if h == chRead || (h.Pkg == fn.Pkg && h != fn && passesChunkThrough(h, chRead)) {
			out = append(out, call)
		}
	}
	return out
}

func passesChunkThrough(h, chRead *ssa.Function) bool {
	if len(h.Blocks) == 0 || h.Signature.Results().Len() != 2 {
		return false
	}
	reads := staticCallsTo(h, chRead)
	if len(reads) != 1 {
		return false
	}
	rc, ok := reads[0].(*ssa.Call)
	if !ok {
		return false
	}
	nb := resultOf(rc, 0)
	okAll := true
	allInstrs(h, func(in ssa.Instruction) {
		ret, isRet := in.(*ssa.Return)
		if !isRet {
			return
		}
		if len(ret.Results) != 2 || !(isNilConst(ret.Results[0]) || (nb != nil && ret.Results[0] == nb)) {
			okAll = false
		}
	})
	return okAll
}

func checkProcessOut(c *Ctx, r *Report) {
	rule := "C01/post-process"
	fn := c.LookupFunc("channel", "Channel", "processOut")
	if fn == nil || len(fn.Params) != 3 {
		r.Anchor(rule, "(*channel.Channel).processOut(b, strip)")
		return
	}
	var trimRight, trimNL, trimRet, repl *ssa.Call
	for _, ci := range callInstrs(fn) {
		call, ok := ci.(*ssa.Call)
		if !ok {
			continue
		}
		o := CalleeObj(call)
		if o == nil {
			continue
		}
		switch {
		case o.Pkg() != nil && o.Pkg().Path() == "bytes" && o.Name() == "TrimRight":
			trimRight = call
		case o.Pkg() != nil && o.Pkg().Path() == "bytes" && o.Name() == "Trim":
			if s, isS := constString(call.Call.Args[1]); isS && s == "\n" {
				trimNL = call
			} else {
				trimRet = call
			}
		case o.Name() == "ReplaceAll" && o.Pkg() != nil && o.Pkg().Path() == "regexp":
			repl = call
		}
	}
	okTR := false
	if trimRight != nil {
		s, isS := constString(trimRight.Call.Args[1])
		okTR = isS && s == " "
	}
	r.Check(okTR, rule, "per-line right trim of spaces", c.Pos(fn.Pos()), "bytes.TrimRight(line, \" \")", "processOut does not right-trim exactly spaces from each line")
	okRepl := false
	if repl != nil {
		okRepl = isFieldLoadNamed(repl.Call.Args[0], "PromptPattern") && isNilConst(repl.Call.Args[2])
		var conds []string
		strip := false
		for _, ec := range edgeConds(repl.Block()) {
			if bo, isBo := ec.Cond.(*ssa.BinOp); isBo && bo.Op == token.LSS && (rangeHeader(bo.X) != nil || isCountingPhi(bo.X)) {
				continue // exit condition of the per-line range / counted loop
			}
			conds = append(conds, ec.Cond.String())
			if ec.Cond == ssa.Value(fn.Params[2]) && ec.Truth {
				strip = true
			}
		}
		okRepl = okRepl && strip && len(conds) == 1
	}
	r.Check(okRepl, rule, "prompt removed exactly when asked", c.Pos(fn.Pos()), "PromptPattern.ReplaceAll(b, nil) on the strip edge only", "processOut does not remove the prompt exactly when (and only when) stripping is requested")
	okTrim := trimNL != nil && trimRet != nil && dominatesInstr(trimRet, trimNL)
	if okTrim {
		okTrim = isFieldLoadNamed(trimRet.Call.Args[1], "ReturnChar")
		// final result is the newline trim
		allInstrs(fn, func(in ssa.Instruction) {
			if ret, ok := in.(*ssa.Return); ok && ret.Results[0] != ssa.Value(trimNL) {
				okTrim = false
			}
		})
	}
	r.Check(okTrim, rule, "surrounding return chars and newlines trimmed", c.Pos(fn.Pos()), "Trim(ReturnChar) then Trim(\"\\n\")", "processOut does not trim the return character and then surrounding newlines as its last step")
}

func checkSearchDepth(c *Ctx, r *Report) {
	rule := "C01/search-depth"
	prb := c.LookupFunc("channel", "", "processReadBuf")
	gsd := c.LookupFunc("channel", "", "getProcessReadBufSearchDepth")
	depthF := c.LookupField("channel", "Channel", "PromptSearchDepth")
	if prb == nil || gsd == nil || depthF == nil {
		r.Anchor(rule, "channel.processReadBuf / getProcessReadBufSearchDepth / PromptSearchDepth")
		return
	}
	for _, sp := range []struct {
		name string
		echo bool
	}{{"ReadUntilFuzzy", true}, {"ReadUntilExplicit", true}, {"ReadUntilPrompt", false}, {"ReadUntilAnyPrompt", false}} {
		fn := c.LookupFunc("channel", "Channel", sp.name)
		if fn == nil {
			r.Anchor(rule, "(*channel.Channel)."+sp.name)
			continue
		}
		calls := staticCallsTo(fn, prb)
		var predAcc ssa.Value
		if len(calls) == 0 {
			if chRead := c.LookupFunc("channel", "Channel", "Read"); chRead != nil {
				if d := readUntilDelegate(fn, chRead); d != nil && d.soundDelegation() == "" {
					// the matcher lives in the predicate closure; the accumulation is its parameter
					calls = staticCallsTo(d.Pred, prb)
					predAcc = d.Pred.Params[0]
				}
			}
		}
		ok := len(calls) == 1
		msg := "the matcher does not search processReadBuf(accumulated buffer, depth)"
		if ok {
			call := calls[0].(*ssa.Call)
			buf, depth := call.Call.Args[0], call.Call.Args[1]
			// buf is the accumulation (append(rb, nb...))
			if predAcc != nil {
				ok = buf == predAcc
			} else if ac, isCall := buf.(*ssa.Call); isCall {
				if b, isB := ac.Call.Value.(*ssa.Builtin); !isB || b.Name() != "append" {
					ok = false
				}
			} else {
				ok = false
			}
			if sp.echo {
				dc, isCall := depth.(*ssa.Call)
				if !isCall || dc.Call.StaticCallee() != gsd || !isFieldLoadOf(dc.Call.Args[0], depthF) {
					ok = false
					msg = "the echo matcher's window is not max(PromptSearchDepth, 2*len(input)): long inputs are not found in the window"
				} else {
					l := linOf(dc.Call.Args[1], 0)
					inputName := fn.Params[2].Name()
					if predAcc != nil {
						// inside the closure the input is a captured variable
						if cl, isCall := dc.Call.Args[1].(*ssa.Call); isCall && len(cl.Call.Args) == 1 {
							if capturedParam(cl.Call.Args[0], fn.Params[2]) {
								inputName = cl.Call.Args[0].Name()
							}
						}
					}
					if _, isLen := l.coef["len("+inputName+")"]; !isLen || len(l.coef) != 1 {
						ok = false
						msg = "the echo matcher's depth is not computed from the length of the input being matched"
					}
				}
			} else if !isFieldLoadOf(depth, depthF) {
				ok = false
				msg = "the prompt matcher's window is not the configured PromptSearchDepth"
			}
		}
		r.Check(ok, rule, shortFn(fn)+" window", c.Pos(fn.Pos()), "", shortFn(fn)+": "+msg)
	}
	// getProcessReadBufSearchDepth = max(depth, 2*len)
	gp := EnumeratePaths(c, gsd, &dtConfig{})
	okMax := len(gp) == 2
	d, l := "param:"+gsd.Params[0].Name(), "param:"+gsd.Params[1].Name()
	for _, p := range gp {
		k := "((2*" + l + ")>" + d + ")"
		switch p.Lit(k) {
		case "true":
			okMax = okMax && len(p.Returns) == 1 && p.Returns[0] == "(2*"+l+")"
		case "false":
			okMax = okMax && len(p.Returns) == 1 && p.Returns[0] == d
		default:
			okMax = false
		}
	}
	r.Check(okMax, rule, "echo depth is max(PromptSearchDepth, 2*len(input))", c.Pos(gsd.Pos()), "", "getProcessReadBufSearchDepth is not max(promptSearchDepth, 2*inputLen)")
	// processReadBuf returns a suffix of rb on every path, the whole buffer when it is short
	pp := EnumeratePaths(c, prb, &dtConfig{IsAtomCall: atomsExcept()})
	okSuffix := len(pp) > 0
	okWhole := false
	okSnap, snapMsg := true, ""
	rb, sd := "param:"+prb.Params[0].Name(), "param:"+prb.Params[1].Name()
	msg := ""
	for _, p := range pp {
		if p.Undecided != "" || len(p.Returns) != 1 {
			okSuffix = false
			msg = p.Undecided
			continue
		}
		ret := p.Returns[0]
		if ret == rb {
			if p.Lit("(len("+rb+")<="+sd+")") == "true" {
				okWhole = true
			}
			continue
		}
		// rb[X:]...[Y:] with no upper bounds
		rest := strings.TrimPrefix(ret, rb)
		if !strings.HasPrefix(ret, rb) {
			okSuffix = false
			msg = "returns " + ret
			continue
		}
		cur := rb
		for rest != "" {
			if !strings.HasPrefix(rest, "[") {
				okSuffix = false
				break
			}
			depth := 0
			end := -1
			for i, ch := range rest {
				if ch == '[' || ch == '(' {
					depth++
				}
				if ch == ']' || ch == ')' {
					depth--
					if depth == 0 {
						end = i
						break
					}
				}
			}
			if end < 0 {
				okSuffix = false
				break
			}
			inner := rest[1:end]
			if !strings.HasSuffix(inner, ":") {
				okSuffix = false
				msg = "the search window has an upper bound (" + ret + "): the tail of the buffer, where the prompt is, is cut off"
				break
			}
			// a cut at an index found by searching must be a cut of the very slice that was searched
			low := strings.TrimSuffix(inner, ":")
			for _, f := range []string{"bytes.Index(", "bytes.IndexByte(", "bytes.IndexAny(", "bytes.LastIndex(", "bytes.LastIndexByte("} {
				if i := strings.Index(low, f); i >= 0 && !strings.HasPrefix(low[i+len(f):], cur+",") {
					okSnap = false
					snapMsg = "the window " + cur + " is cut at an index that was searched for in a different slice (" + low + "): the cut no longer falls on a line boundary of the window, so the tail of an output line can look like a prompt at the start of the window"
				}
			}
			cur += rest[:end+1]
			rest = rest[end+1:]
		}
	}
	// ... and the snap exists: some long-buffer path cuts the window at a newline found in it
	hasSnap := false
	for _, p := range pp {
		if p.Undecided == "" && len(p.Returns) == 1 && strings.HasPrefix(p.Returns[0], rb+"[") {
			ret := p.Returns[0]
			for _, f := range []string{"bytes.Index(", "bytes.IndexByte("} {
				if i := strings.LastIndex(ret, "]["+f); i >= 0 {
					window := ret[:i+1]
					if strings.HasPrefix(ret[i+2+len(f):], window+",") {
						hasSnap = true
					}
				}
			}
		}
	}
	if okSnap && !hasSnap {
		okSnap = false
		snapMsg = "the search window is never moved forward to the first line boundary inside it: it can start in the middle of a line, where `(?m)^` matches, so the tail of an ordinary output line that ends like a prompt (or like an awaited response such as 'password:') is taken for one -- the operation returns early with truncated output, or types the next input (a secret) although the device never asked"
	}
	r.Check(okSnap, rule, "window snapped to a line boundary of itself", c.Pos(prb.Pos()), "the newline index is searched in the slice it cuts", "processReadBuf: "+snapMsg)
	r.Check(okSuffix && okWhole, rule, "window is a suffix of the buffer", c.Pos(prb.Pos()), "whole buffer when short, else a tail slice", "processReadBuf: the search window is not always a suffix of the accumulated buffer: "+msg)
}

func checkCommandOrder(c *Ctx, r *Report) {
	rule := "C01/one-response-per-command"
	fn := c.LookupFunc("driver/generic", "Driver", "SendCommands")
	send := c.LookupFunc("driver/generic", "Driver", "sendCommand")
	if fn == nil || send == nil {
		r.Anchor(rule, "(*generic.Driver).SendCommands / sendCommand")
		return
	}
	cmds := fn.Params[1]
	calls := staticCallsTo(fn, send)
	if len(calls) == 1 {
		// one loop over the whole slice: every element in slice order, hence the last one last
		if u, ok := calls[0].Common().Args[1].(*ssa.UnOp); ok {
			if ia, ok := u.X.(*ssa.IndexAddr); ok && ia.X == ssa.Value(cmds) && rangeHeader(ia.Index) != nil {
				r.OK(rule, "all but the last command in slice order", c.Pos(fn.Pos()), "range over the whole slice")
				r.OK(rule, "last command last", c.Pos(fn.Pos()), "range over the whole slice")
				return
			}
		}
	}
	if len(calls) != 2 {
		r.Unk(rule, "SendCommands shape", c.Pos(fn.Pos()), fmt.Sprintf("%d sendCommand call sites (loop + last expected)", len(calls)))
		return
	}
	okLoop, okLast := false, false
	for _, ci := range calls {
		arg := ci.Common().Args[1]
		u, ok := arg.(*ssa.UnOp)
		if !ok {
			continue
		}
		ia, ok := u.X.(*ssa.IndexAddr)
		if !ok {
			continue
		}
		if sl, isSl := ia.X.(*ssa.Slice); isSl && sl.X == ssa.Value(cmds) && rangeHeader(ia.Index) != nil {
			// commands[:len-1] in range order
			lowOK := sl.Low == nil
			if sl.Low != nil {
				k, isC := constInt(sl.Low)
				lowOK = isC && k == 0
			}
			highOK := false
			if sl.High != nil {
				l := linOf(sl.High, 0)
				highOK = l.c == -1 && len(l.coef) == 1 && l.coef["len("+cmds.Name()+")"] == 1
			}
			okLoop = lowOK && highOK
		}
		if ia.X == ssa.Value(cmds) {
			l := linOf(ia.Index, 0)
			if l.c == -1 && len(l.coef) == 1 && l.coef["len("+cmds.Name()+")"] == 1 {
				// the last element, sent after the loop
				okLast = true
				for _, other := range calls {
					if other != ci && !dominatesInstr(other, ci) {
						// the loop call does not dominate (zero iterations possible): require the loop header to dominate
						if hdr := other.Block(); !loopBlocks(loopHeaderOf(other.Block()))[hdr] {
							okLast = false
						}
					}
				}
			}
		}
	}
	r.Check(okLoop, rule, "all but the last command in slice order", c.Pos(fn.Pos()), "range over commands[:len-1]", "SendCommands does not send commands[0..n-2] by ranging over the caller's slice in order")
	r.Check(okLast, rule, "last command last", c.Pos(fn.Pos()), "commands[len-1] after the loop", "SendCommands does not send the last element of the slice after the loop")
}

// loopHeaderOf returns the header of the innermost natural loop containing b (or b itself).
func loopHeaderOf(b *ssa.BasicBlock) *ssa.BasicBlock {
	fn := b.Parent()
	var best *ssa.BasicBlock
	for _, h := range fn.Blocks {
		isHeader := false
		for _, p := range h.Preds {
			if h.Dominates(p) {
				isHeader = true
			}
		}
		if isHeader && loopBlocks(h)[b] {
			if best == nil || best.Dominates(h) {
				best = h
			}
		}
	}
	if best == nil {
		return b
	}
	return best
}

// enqueueProvenance: v is `data` with every CR removed and, exactly when an ESC is present, the escape sequences stripped.
func enqueueProvenance(v, data ssa.Value, strip *ssa.Function) (bool, string) {
	isCRRemoval := func(x ssa.Value) bool {
		call, ok := x.(*ssa.Call)
		if !ok {
			return false
		}
		o := CalleeObj(call)
		if o == nil || o.Pkg() == nil || o.Pkg().Path() != "bytes" || o.Name() != "ReplaceAll" {
			return false
		}
		if call.Call.Args[0] != data {
			return false
		}
		from, ok1 := constString(stripConv(call.Call.Args[1]))
		to, ok2 := constString(stripConv(call.Call.Args[2]))
		return ok1 && ok2 && from == "\r" && to == ""
	}
	msg := "the value enqueued is not the bytes of the transport read with CR removed (and ANSI stripped when an ESC is present)"
	if phi, ok := v.(*ssa.Phi); ok && len(phi.Edges) == 2 {
		var plain, stripped ssa.Value
		for _, e := range phi.Edges {
			if isCRRemoval(e) {
				plain = e
			} else if call, ok := e.(*ssa.Call); ok && call.Call.StaticCallee() == strip {
				stripped = e
			}
		}
		if plain != nil && stripped != nil && stripped.(*ssa.Call).Call.Args[0] == plain {
			sc := stripped.(*ssa.Call)
			if guardedBy(sc, func(cv ssa.Value, t bool) bool {
				call, ok := cv.(*ssa.Call)
				if !ok || !t {
					return false
				}
				o := CalleeObj(call)
				if o == nil || o.Name() != "Contains" {
					return false
				}
				s, isS := constString(stripConv(call.Call.Args[1]))
				return isS && s == "\x1b" && call.Call.Args[0] == plain
			}) {
				return true, ""
			}
		}
	} else if isCRRemoval(v) {
		msg = "ANSI escape sequences are no longer stripped from chunks that contain an ESC"
	}
	return false, msg
}

// enqueueProvenanceTwoReturns: {return crFree  [guard: !Contains(crFree, ESC)],  return StripANSI(crFree)  [guard: Contains(crFree, ESC)]}
func enqueueProvenanceTwoReturns(rets []*ssa.Return, data ssa.Value, strip *ssa.Function) bool {
	isCRRemoval := func(x ssa.Value) bool {
		call, ok := x.(*ssa.Call)
		if !ok {
			return false
		}
		o := CalleeObj(call)
		if o == nil || o.Pkg() == nil || o.Pkg().Path() != "bytes" || o.Name() != "ReplaceAll" || call.Call.Args[0] != data {
			return false
		}
		from, ok1 := constString(stripConv(call.Call.Args[1]))
		to, ok2 := constString(stripConv(call.Call.Args[2]))
		return ok1 && ok2 && from == "\r" && to == ""
	}
	escGuard := func(in ssa.Instruction, plain ssa.Value, want bool) bool {
		return guardedBy(in, func(cv ssa.Value, t bool) bool {
			call, ok := cv.(*ssa.Call)
			if !ok || t != want {
				return false
			}
			o := CalleeObj(call)
			if o == nil || o.Name() != "Contains" {
				return false
			}
			s, isS := constString(stripConv(call.Call.Args[1]))
			return isS && s == "\x1b" && call.Call.Args[0] == plain
		})
	}
	var plainRet, stripRet *ssa.Return
	for _, ret := range rets {
		v := ret.Results[0]
		if isCRRemoval(v) {
			plainRet = ret
		} else if call, ok := v.(*ssa.Call); ok && call.Call.StaticCallee() == strip {
			stripRet = ret
		}
	}
	if plainRet == nil || stripRet == nil {
		return false
	}
	plain := plainRet.Results[0]
	if stripRet.Results[0].(*ssa.Call).Call.Args[0] != plain {
		return false
	}
	return escGuard(plainRet, plain, false) && escGuard(stripRet.Results[0].(*ssa.Call), plain, true)
}

// isCountingPhi: v is the induction variable of a counted loop (phi of a constant and itself plus one).
func isCountingPhi(v ssa.Value) bool {
	phi, ok := v.(*ssa.Phi)
	if !ok || len(phi.Edges) != 2 {
		return false
	}
	hasConst, hasStep := false, false
	for _, e := range phi.Edges {
		if _, ok := constInt(e); ok {
			hasConst = true
		}
		if bo, ok := e.(*ssa.BinOp); ok && bo.Op == token.ADD && bo.X == ssa.Value(phi) {
			if k, ok := constInt(bo.Y); ok && k == 1 {
				hasStep = true
			}
		}
	}
	return hasConst && hasStep
}

// readUntilDelegation: a read-until variant that hands its match predicate to a shared loop helper.
type readUntilDelegation struct {
	Outer, Loop, Pred *ssa.Function
	Call              *ssa.Call // the call of Loop in Outer
	PredParam         int       // index of the predicate among Loop's parameters
	chRead            *ssa.Function
}

func readUntilDelegate(fn, chRead *ssa.Function) *readUntilDelegation {
	var out *readUntilDelegation
	n := 0
	for _, ci := range callInstrs(fn) {
		call, ok := ci.(*ssa.Call)
		if !ok {
			continue
		}
		h := call.Call.StaticCallee()
		if h == nil || h.Pkg != fn.Pkg || h == fn || len(chunkReads(h, chRead)) != 1 {
			continue
		}
		for i, a := range call.Call.Args {
			mc, ok := a.(*ssa.MakeClosure)
			if !ok {
				continue
			}
			pf, ok := mc.Fn.(*ssa.Function)
			if !ok || len(pf.Params) != 1 || pf.Signature.Results().Len() != 1 {
				continue
			}
			n++
			out = &readUntilDelegation{Outer: fn, Loop: h, Pred: pf, Call: call, PredParam: i, chRead: chRead}
		}
	}
	if n != 1 {
		return nil
	}
	return out
}

// soundDelegation: the helper applies the predicate to its accumulation and to nothing else, returns the
// accumulation exactly where the predicate held, and the variant returns the helper's results unchanged.
func (d *readUntilDelegation) soundDelegation() string {
	if d.PredParam >= len(d.Loop.Params) {
		return "the predicate is not a parameter of the loop helper"
	}
	pp := d.Loop.Params[d.PredParam]
	var predCalls []*ssa.Call
	allInstrs(d.Loop, func(in ssa.Instruction) {
		if call, ok := in.(*ssa.Call); ok && call.Call.Value == ssa.Value(pp) {
			predCalls = append(predCalls, call)
		}
	})
	if len(predCalls) != 1 || len(predCalls[0].Call.Args) != 1 {
		return "the loop helper does not apply the match predicate exactly once per pass"
	}
	pc := predCalls[0]
	acc, ok := pc.Call.Args[0].(*ssa.Call)
	if !ok {
		return "the loop helper does not hand the accumulated buffer to the match predicate"
	}
	if b, isB := acc.Call.Value.(*ssa.Builtin); !isB || b.Name() != "append" {
		return "the loop helper does not hand the accumulated buffer to the match predicate"
	}
	// returns of (x, nil): x is the accumulation and the return is on the predicate's true edge
	bad := ""
	allInstrs(d.Loop, func(in ssa.Instruction) {
		ret, isRet := in.(*ssa.Return)
		if !isRet || len(ret.Results) != 2 || !isNilConst(ret.Results[1]) {
			return
		}
		if ret.Results[0] != ssa.Value(acc) {
			bad = "on a match the loop helper does not return everything it consumed"
			return
		}
		if !guardedBy(ret, func(cv ssa.Value, t bool) bool { return cv == ssa.Value(pc) && t }) {
			bad = "the loop helper returns success without the match predicate having held"
		}
	})
	if bad != "" {
		return bad
	}
	// the variant returns the helper's results as they are
	okRet := false
	allInstrs(d.Outer, func(in ssa.Instruction) {
		ret, isRet := in.(*ssa.Return)
		if !isRet || len(ret.Results) != 2 {
			return
		}
		if ret.Results[0] == resultOf(d.Call, 0) && ret.Results[1] == resultOf(d.Call, 1) {
			okRet = true
		}
	})
	if !okRet {
		return "the variant does not return what the loop helper returned"
	}
	return ""
}

// capturedParam: inside a closure, v is the enclosing function's parameter p (captured by value, or by reference
// through the cell go/ssa spills a captured parameter to).
func capturedParam(v ssa.Value, p *ssa.Parameter) bool {
	if fv, ok := v.(*ssa.FreeVar); ok {
		return freeVarBinding(fv) == ssa.Value(p)
	}
	u, ok := v.(*ssa.UnOp)
	if !ok || u.Op != token.MUL {
		return false
	}
	fv, ok := u.X.(*ssa.FreeVar)
	if !ok {
		return false
	}
	a, ok := freeVarBinding(fv).(*ssa.Alloc)
	if !ok {
		return false
	}
	n, okStore := 0, false
	for _, ref := range *a.Referrers() {
		if st, ok := ref.(*ssa.Store); ok && st.Addr == a {
			n++
			if st.Val == ssa.Value(p) {
				okStore = true
			}
		}
	}
	return n == 1 && okStore
}
