package main

import (
	"flag"
	"fmt"
	"golang.org/x/tools/go/ssa"
	"os"
	"runtime/debug"
	"sort"
	"strconv"
	"strings"
	"time"
)

// Property is the registry entry of one property.
type Property struct {
	ID          string
	Run         func(c *Ctx, r *Report)
	Explanation string
	Assumptions []string
	Mutants     []Mutant
	// Fixtures run engine-level positive/negative examples (must fire / stay silent).
	Fixtures func(verifDir string) (map[string]interface{}, []string)
}

var registry = map[string]*Property{}

func register(p *Property) { registry[p.ID] = p }

func main() {
	prop := flag.String("prop", "", "property id (C01..C20)")
	tier := flag.String("tier", "quick", "quick|thorough")
	repo := flag.String("repo", "/repo", "repository root")
	verif := flag.String("verif", "/verif", "verif dir (known_findings.txt, evidence/)")
	nomut := flag.Bool("nomutants", false, "skip seeded mutants in thorough tier")
	list := flag.Bool("list", false, "list properties")
	dump := flag.Bool("dump", false, "print every obligation")
	pathsOf := flag.String("paths", "", "debug: enumerate decision-table paths of pkg:recv:func")
	matrix := flag.Bool("matrix", false, "self-validation: evaluate all properties in one process, print what each would report, write nothing")
	flag.Parse()
	debug.SetGCPercent(400)
	if *list {
		var ids []string
		for id := range registry {
			ids = append(ids, id)
		}
		sort.Strings(ids)
		fmt.Println(strings.Join(ids, " "))
		return
	}
	if *pathsOf != "" {
		debugPaths(*repo, *pathsOf)
		return
	}
	if *matrix {
		runMatrix(*repo, *verif)
		return
	}
	p := registry[*prop]
	if p == nil {
		fmt.Fprintf(os.Stderr, "unknown property %q\n", *prop)
		os.Exit(2)
	}
	seed := 0
	if s := os.Getenv("VERIF_SEED"); s != "" {
		seed, _ = strconv.Atoi(s)
	}
	info := &runInfo{Tier: *tier, Seed: seed, Start: time.Now(), VerifDir: *verif}
	code := runProperty(p, info, *repo, *tier == "thorough", *nomut, *dump)
	os.Exit(code)
}

func runProperty(p *Property, info *runInfo, repo string, thorough, nomut, dump bool) (code int) {
	r := NewReport(p.ID)
	defer func() {
		if e := recover(); e != nil {
			// a checker panic is a failed check, never a silent pass
			r.Unk(p.ID+"/checker", "panic", "-", fmt.Sprintf("checker panicked: %v\n%s", e, debug.Stack()))
			code = r.Finish(info, p.Explanation, p.Assumptions)
		}
	}()
	c, err := Load(repo)
	if err != nil {
		r.Unk(p.ID+"/load", "load", "-", "cannot load/type-check the tree: "+err.Error())
		return r.Finish(info, p.Explanation, p.Assumptions)
	}
	info.Packages = len(c.Pkgs)
	info.Functions = c.NumFns
	info.LibFns = len(c.LibFns)
	info.Configs = []string{"default(" + os.Getenv("GOOS") + "/" + os.Getenv("GOARCH") + " host)"}
	p.Run(c, r)
	if p.Fixtures != nil {
		fx, fails := p.Fixtures(info.VerifDir)
		info.Fixtures = fx
		for _, f := range fails {
			r.Infra = append(r.Infra, "fixture: "+f)
		}
	}
	if thorough {
		for _, cfg := range [][]string{{"GOARCH=386"}, {"GOOS=darwin", "CGO_ENABLED=0"}} {
			name := strings.Join(cfg, ",")
			c2, err := Load(repo, cfg...)
			if err != nil {
				r.Unk(p.ID+"/load", "load "+name, "-", "cannot load the tree under "+name+": "+err.Error())
				continue
			}
			r2 := NewReport(p.ID)
			p.Run(c2, r2)
			base := map[string]Status{}
			for _, o := range r.Obs {
				base[o.Key] = o.Status
			}
			diff := 0
			for _, o := range r2.Obs {
				if st, ok := base[o.Key]; ok && st == o.Status {
					continue
				}
				if o.Status == Discharged {
					continue
				}
				diff++
				r.add(o.Rule, strings.TrimPrefix(o.Key, o.Rule+" @ ")+" ["+name+"]", o.Status, o.Pos, o.Msg, o.Path)
			}
			info.Configs = append(info.Configs, fmt.Sprintf("%s (%d obligations, %d differing from default)", name, len(r2.Obs), diff))
		}
		if !nomut && len(p.Mutants) > 0 {
			res, fails := runMutants(p, repo, info.VerifDir)
			info.Mutants = res
			for _, f := range fails {
				r.Infra = append(r.Infra, "seeded mutant not detected: "+f)
			}
		}
	}
	if dump {
		for _, o := range r.Obs {
			fmt.Printf("  [%s] %s  %s  %s\n", o.Status, o.Key, o.Pos, o.Msg)
		}
	}
	return r.Finish(info, p.Explanation, p.Assumptions)
}

var debugHooks []func(c *Ctx)

func debugPaths(repo, spec string) {
	c, err := Load(repo)
	if err != nil {
		fmt.Println(err)
		return
	}
	if spec == "hooks" {
		for _, h := range debugHooks {
			h(c)
		}
		return
	}
	parts := strings.Split(spec, ":")
	fn := c.LookupFunc(parts[0], parts[1], parts[2])
	if fn == nil {
		fmt.Println("not found")
		return
	}
	if len(parts) > 3 {
		for _, a := range AnonFuncsDeep(fn) {
			if a.Name() == parts[3] {
				fn = a
			}
		}
	}
	paths := EnumeratePaths(c, fn, &dtConfig{IsAtomCall: func(call *ssa.Call) bool {
		if o := CalleeObj(call); o != nil && o.Pkg() != nil && (o.Pkg().Path() == "fmt" || o.Pkg().Path() == "bytes" || o.Pkg().Path() == "strings") {
			return true
		}
		return false
	}})
	for i, p := range paths {
		fmt.Printf("--- path %d undecided=%q\n  assume: %v\n", i, p.Undecided, p.Assume)
		for _, e := range p.Effects {
			fmt.Printf("  %s\n", e.String())
		}
		fmt.Printf("  locals: %v\n", p.Locals)
		fmt.Printf("  returns: %v\n", p.Returns)
	}
}

func init() {
	debugHooks = append(debugHooks, func(c *Ctx) {
		for k, v := range settingWriters(c) {
			fmt.Println("SETTING-WRITER", k, v)
		}
	})
}
