package main

// C10/scan-accumulated — the login loops recognise prompts and ssh client messages in everything read since the
// last answer, not only in the bytes of the latest read (a message cut by a read boundary must still be seen).

import (
	"fmt"
	"go/types"

	"golang.org/x/tools/go/ssa"
)

func checkAuthScanAccumulated(c *Ctx, r *Report) {
	rule := "C10/scan-accumulated"
	chRead := c.LookupFunc("channel", "Channel", "Read")
	rua := c.LookupFunc("channel", "Channel", "ReadUntilAnyPrompt")
	handler := c.LookupFunc("channel", "Channel", "sshMessageHandler")
	if chRead == nil || rua == nil || handler == nil {
		r.Anchor(rule, "(*channel.Channel).Read / ReadUntilAnyPrompt / sshMessageHandler")
		return
	}
	for _, name := range []string{"authenticateSSH", "authenticateTelnet"} {
		fn := c.LookupFunc("channel", "Channel", name)
		if fn == nil {
			r.Anchor(rule, "(*channel.Channel)."+name)
			continue
		}
		fresh := map[ssa.Value]bool{}
		for _, ci := range append(staticCallsTo(fn, chRead), staticCallsTo(fn, rua)...) {
			if call, ok := ci.(*ssa.Call); ok {
				if v := resultOf(call, 0); v != nil {
					fresh[v] = true
				}
			}
		}
		acc := map[ssa.Value]bool{}
		allInstrs(fn, func(in ssa.Instruction) {
			call, ok := in.(*ssa.Call)
			if !ok {
				return
			}
			if b, ok := call.Call.Value.(*ssa.Builtin); ok && b.Name() == "append" && len(call.Call.Args) == 2 && fresh[call.Call.Args[1]] {
				acc[call] = true
			}
		})
		if len(fresh) == 0 || len(acc) == 0 {
			r.Unk(rule, shortFn(fn), c.Pos(fn.Pos()), "the loop does not accumulate its reads with append(buffer, read...): the accumulation idiom is not one the rule knows")
			continue
		}
		n := 0
		allInstrs(fn, func(in ssa.Instruction) {
			call, ok := in.(*ssa.Call)
			if !ok {
				return
			}
			what := ""
			if call.Call.StaticCallee() == handler {
				what = "ssh client message scan"
			} else if o := CalleeObj(call); o != nil && o.Pkg() != nil && o.Pkg().Path() == "regexp" && (o.Name() == "Match" || o.Name() == "Find" || o.Name() == "FindSubmatch" || o.Name() == "FindIndex") {
				what = "pattern " + patternName(call)
			}
			if what == "" {
				return
			}
			var arg ssa.Value
			for _, a := range call.Call.Args {
				if s, ok := a.Type().Underlying().(*types.Slice); ok {
					if b, ok := s.Elem().Underlying().(*types.Basic); ok && b.Kind() == types.Byte {
						arg = a
					}
				}
			}
			if arg == nil {
				return
			}
			n++
			construct := fmt.Sprintf("%s: %s", shortFn(fn), what)
			base := arg
			for {
				if s, ok := base.(*ssa.Slice); ok {
					base = s.X
					continue
				}
				break
			}
			switch {
			case acc[base]:
				r.OK(rule, construct, c.Pos(call.Pos()), "applied to the accumulated buffer")
			case fresh[base]:
				r.Bad(rule, construct, c.Pos(call.Pos()), "applied only to the bytes of the latest read: a prompt or ssh client message that a read boundary cuts in two is never recognised (the login then runs into its timeout instead of answering / reporting the connection error)")
			default:
				r.Unk(rule, construct, c.Pos(call.Pos()), "applied to a value that is neither the accumulated buffer nor the latest read")
			}
		})
		if n == 0 {
			r.Unk(rule, shortFn(fn), c.Pos(fn.Pos()), "no recognition call found in the login loop")
		}
	}
}

// patternName: the field the regexp receiver was loaded from, or "?".
func patternName(call *ssa.Call) string {
	if len(call.Call.Args) > 0 {
		if f, _, ok := fieldLoad(call.Call.Args[0]); ok {
			return f.Name()
		}
	}
	return "?"
}
