package main

// C17/acquire-default — an on-open/on-close acquire-priv step without a target escalates to the driver's
// default desired level as it is when the step runs (so a user option layered over the definition is honoured).

import (
	"golang.org/x/tools/go/ssa"
)

func checkOnXAcquireDefault(c *Ctx, r *Report) {
	rule := "C17/acquire-default"
	outer := c.LookupFunc("platform", "onXDefinitions", "asNetworkOnX")
	acq := c.LookupFunc("driver/network", "Driver", "AcquirePriv")
	ddp := c.LookupField("driver/network", "Driver", "DefaultDesiredPriv")
	if outer == nil || acq == nil || ddp == nil {
		r.Anchor(rule, "(*platform.onXDefinitions).asNetworkOnX / (*network.Driver).AcquirePriv / network.Driver.DefaultDesiredPriv")
		return
	}
	n := 0
	for _, fn := range append([]*ssa.Function{outer}, AnonFuncsDeep(outer)...) {
		for _, ci := range staticCallsTo(fn, acq) {
			call, ok := ci.(*ssa.Call)
			if !ok || len(call.Call.Args) != 2 {
				continue
			}
			n++
			construct := "acquire-priv step target in " + shortFn(fn)
			var leaves []ssa.Value
			seen := map[ssa.Value]bool{}
			var flat func(v ssa.Value)
			flat = func(v ssa.Value) {
				if seen[v] {
					return
				}
				seen[v] = true
				if phi, ok := v.(*ssa.Phi); ok {
					for _, e := range phi.Edges {
						flat(e)
					}
					return
				}
				leaves = append(leaves, v)
			}
			flat(call.Call.Args[1])
			hasDefault, hasStep := false, false
			bad := ""
			for _, l := range leaves {
				if f, base, ok := fieldLoad(l); ok && f == ddp {
					// the driver the step runs on: receiver of this very AcquirePriv call
					if stripConv(base) == stripConv(call.Call.Args[0]) {
						hasDefault = true
						continue
					}
					bad = "the default level is read from a different driver value than the one the step runs on"
					continue
				}
				if ex, ok := l.(*ssa.Extract); ok {
					if ta, ok := ex.Tuple.(*ssa.TypeAssert); ok && ta.CommaOk {
						hasStep = true
						continue
					}
				}
				if ta, ok := l.(*ssa.TypeAssert); ok && !ta.CommaOk {
					hasStep = true
					continue
				}
				bad = "the fallback target of a step without `target` is " + describeValue(l) + ", not the driver's DefaultDesiredPriv at the time the step runs: a WithDefaultDesiredPriv given by the user after the definition's options is ignored by on-open/on-close"
			}
			switch {
			case bad != "":
				r.Bad(rule, construct, c.Pos(call.Pos()), bad)
			case !hasDefault || !hasStep:
				r.Bad(rule, construct, c.Pos(call.Pos()), "the target is not chosen between the step's own `target` and the driver's DefaultDesiredPriv")
			default:
				r.OK(rule, construct, c.Pos(call.Pos()), "step target, else d.DefaultDesiredPriv loaded when the step runs")
			}
		}
	}
	if n == 0 {
		r.Unk(rule, "acquire-priv step", c.Pos(outer.Pos()), "no AcquirePriv call found in the network on-open/on-close runner")
	}
}

func describeValue(v ssa.Value) string {
	switch x := v.(type) {
	case *ssa.FreeVar:
		return "the captured variable " + x.Name() + " (fixed when the options were built)"
	case *ssa.Const:
		return "the constant " + x.String()
	case *ssa.Parameter:
		return "the parameter " + x.Name()
	case *ssa.UnOp:
		if fv, ok := x.X.(*ssa.FreeVar); ok {
			return "the captured variable " + fv.Name() + " (fixed when the options were built)"
		}
	}
	return v.String()
}
