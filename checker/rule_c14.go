package main

// C14 — SSH connections honour strict host-key checking and the configured identity.

import (
	"fmt"
	"strings"

	"golang.org/x/tools/go/ssa"
)

func init() {
	register(&Property{
		ID:  "C14",
		Run: runC14,
		Explanation: "Decision-table extraction over the loop-free SSA of the two SSH transports' set-up code, for every configuration at once. " +
			"default-on: the only writers of SSHArgs.StrictKey are the constructor (true) and the explicit opt-out option (false). " +
			"standard: every path of openBase that reaches the dial installs as HostKeyCallback the result of knownhosts.New(configured file) when strict checking is on and InsecureIgnoreHostKey only when it is off; strict without a known-hosts file and a known-hosts load error both return before the dial is reachable; user, timeout, key (ReadFile -> ParsePrivateKey -> PublicKeys of the configured path) and password (ssh.Password / keyboard-interactive only) carry the provenance of their settings; the dial address is Sprintf(\"%s:%d\", host, port). " +
			"system: for all 128 combinations of the settings buildOpenArgs branches on, the argument list starts with the host, carries -p port, -l user iff set, StrictHostKeyChecking=yes (+ UserKnownHostsFile=<configured> iff set) on the strict edge and =no + /dev/null only on the other, -F config-or-/dev/null, -i key iff set, and the extra arguments last; open runs exec.Command(OpenBin, OpenArgs...). " +
			"no-password-on-argv: taint analysis shows no credential reaches an exec.Command argument. NOT decided: that crypto/ssh and the ssh binary honour these settings (trusted), behaviour against a live server.",
		Assumptions: []string{"crypto/ssh verifies the host key through HostKeyCallback; the OpenSSH client honours its options", "knownhosts.New builds a callback that accepts only keys present in the given file"},
		Mutants: []Mutant{
			{ID: "C14-unreadable-key-only-logged", Desc: "the system transport only logs a private key it cannot read", Rule: "C14/key-errors-surface",
				Edits: []Edit{{File: "transport/system.go", Old: "\t\t\ta.l.Criticalf(\"error reading ssh key: %s\", err)\n\n\t\t\treturn err\n\t\t}\n\n\t\t_, err = ssh.ParsePrivateKey(k)\n\t\tif err != nil {", New: "\t\t\ta.l.Infof(\"ssh key not readable locally: %s\", err)\n\t\t} else if _, err = ssh.ParsePrivateKey(k); err != nil {"}}},
			{ID: "C14-system-file-first", Desc: "the system-wide ssh config is tried before the user's", Rule: "C14/system-files-first-wins",
				Edits: []Edit{{File: "driver/options/transportssh.go", Old: "\t\tsshF, err = util.ResolveFilePath(\"~/.ssh/config\")", New: "\t\tsshF, err = util.ResolveFilePath(\"/etc/ssh/ssh_config\")"},
					{File: "driver/options/transportssh.go", Old: "\t\tsshF, err = util.ResolveFilePath(\"/etc/ssh/ssh_config\")\n\t\tif err == nil {\n\t\t\ta.ConfigFile = sshF\n\n\t\t\treturn nil\n\t\t}\n\n\t\treturn fmt.Errorf(", New: "\t\tsshF, err = util.ResolveFilePath(\"~/.ssh/config\")\n\t\tif err == nil {\n\t\t\ta.ConfigFile = sshF\n\n\t\t\treturn nil\n\t\t}\n\n\t\treturn fmt.Errorf("}}},
			{ID: "C14-shared-ssh-args", Desc: "NewSSHArgs hands out one package-level SSHArgs", Rule: "C14/fresh-args",
				Edits: []Edit{{File: "transport/transport.go", Old: "\ta := &SSHArgs{\n\t\tStrictKey: defaultSSHStrictKey,\n\t}\n", New: "\ta := &sharedSSHArgs\n"}, {File: "transport/transport.go", Old: "// NewSSHArgs returns an instance of SSH arguments", New: "var sharedSSHArgs = SSHArgs{StrictKey: defaultSSHStrictKey} //nolint:gochecknoglobals\n\n// NewSSHArgs returns an instance of SSH arguments"}}},
			{ID: "C14-standard-in-channel-auth", Desc: "the crypto/ssh transport announces in-channel authentication", Rule: "C14/in-channel-auth-set",
				Edits: []Edit{{File: "transport/standard.go", Old: "func (t *Standard) Write(b []byte) error {", New: "func (t *Standard) GetInChannelAuthType() InChannelAuthType {\n\treturn InChannelAuthSSH\n}\n\nfunc (t *Standard) GetSSHArgs() *SSHArgs {\n\treturn t.SSHArgs\n}\n\nfunc (t *Standard) Write(b []byte) error {"}}},
			{ID: "C14-platform-options-last", Desc: "platform options applied after the user's (a definition's port beats WithPort)", Rule: "C14/found-driver-options",
				Edits: []Edit{{File: "platform/definition.go", Old: "\tfinalOpts := p.AsOptions()\n\tfinalOpts = append(finalOpts, opts...)", New: "\tfinalOpts := append([]util.Option{}, opts...)\n\tfinalOpts = append(finalOpts, p.AsOptions()...)"}}},
			{ID: "C14-home-first", Desc: "ResolveFilePath prefers a file of the same name under the home directory", Rule: "C14/resolve-order",
				Edits: []Edit{{File: "util/file.go", Old: "\t_, err := os.Stat(f)\n\tif err == nil {\n\t\treturn f, nil\n\t}\n", New: "\tif hd, herr := os.UserHomeDir(); herr == nil {\n\t\thf := fmt.Sprintf(\"%s/%s\", hd, strings.TrimPrefix(f, \"~/\"))\n\t\tif _, herr = os.Stat(hf); herr == nil {\n\t\t\treturn hf, nil\n\t\t}\n\t}\n\n\t_, err := os.Stat(f)\n\tif err == nil {\n\t\treturn f, nil\n\t}\n"}}},
			{ID: "C14-asset-disables-strict-key", Desc: "an embedded definition gains an auth-strict-key option", Rule: "C14/embedded-defaults",
				Edits: []Edit{{File: "assets/platforms/nokia_srl.yaml", Old: "platform-type: 'nokia_srl'\ndefault:\n", New: "platform-type: 'nokia_srl'\ndefault:\n  options:\n    - option: auth-strict-key\n      value: true\n"}}},
			{ID: "C14-strict-says-no", Desc: "strict branch passes StrictHostKeyChecking=no", Rule: "C14/system",
				Edits: []Edit{{File: "transport/system.go", Old: "\t\t\t\"StrictHostKeyChecking=yes\",", New: "\t\t\t\"StrictHostKeyChecking=no\","}}},
			{ID: "C14-callback-not-installed", Desc: "known-hosts callback built but not installed", Rule: "C14/standard",
				Edits: []Edit{{File: "transport/standard.go", Old: "\t\tkeyCallback = knownHosts\n", New: "\t\t_ = knownHosts\n"}}},
			{ID: "C14-strict-no-file-proceeds", Desc: "strict without known-hosts file falls back to no checking", Rule: "C14/standard",
				Edits: []Edit{{File: "transport/standard.go", Old: "\tif t.SSHArgs.StrictKey {\n\t\tif t.SSHArgs.KnownHostsFile == \"\" {", New: "\tif t.SSHArgs.StrictKey && t.SSHArgs.KnownHostsFile != \"\" {\n\t\tif t.SSHArgs.KnownHostsFile == \"\" {"}}},
			{ID: "C14-default-off", Desc: "strict checking defaults to off", Rule: "C14/default-on",
				Edits: []Edit{{File: "transport/transport.go", Old: "defaultSSHStrictKey         = true", New: "defaultSSHStrictKey         = false"}}},
			{ID: "C14-known-hosts-devnull", Desc: "configured known-hosts file ignored by the system transport", Rule: "C14/system",
				Edits: []Edit{{File: "transport/system.go", Old: "fmt.Sprintf(\"UserKnownHostsFile=%s\", t.SSHArgs.KnownHostsFile),", New: "fmt.Sprintf(\"UserKnownHostsFile=%s\", \"/dev/null\"),"}}},
			{ID: "C14-password-on-argv", Desc: "password passed on the ssh command line", Rule: "C14/no-password-on-argv",
				Edits: []Edit{{File: "transport/system.go", Old: "\tif len(t.ExtraArgs) > 0 {", New: "\tif a.Password != \"\" {\n\t\tt.OpenArgs = append(t.OpenArgs, \"-o\", \"SetEnv=SSHPASS=\"+a.Password)\n\t}\n\n\tif len(t.ExtraArgs) > 0 {"}}},
			{ID: "C14-config-always-devnull", Desc: "configured ssh config file ignored", Rule: "C14/system",
				Edits: []Edit{{File: "transport/system.go", Old: "\t\t\t\"-F\",\n\t\t\tt.SSHArgs.ConfigFile,", New: "\t\t\t\"-F\",\n\t\t\t\"/dev/null\","}}},
			{ID: "C14-dial-default-port", Desc: "standard transport always dials port 22", Rule: "C14/standard",
				Edits: []Edit{{File: "transport/standard.go", Old: "fmt.Sprintf(\"%s:%d\", a.Host, a.Port),", New: "fmt.Sprintf(\"%s:%d\", a.Host, defaultPort),"}}},
			{ID: "C14-user-dropped", Desc: "system transport omits the configured user when a key is given", Rule: "C14/system",
				Edits: []Edit{{File: "transport/system.go", Old: "\tif a.User != \"\" {", New: "\tif a.User != \"\" && t.SSHArgs.PrivateKeyPath == \"\" {"}}},
			{ID: "C14-khload-error-ignored", Desc: "known-hosts load error falls back to no checking", Rule: "C14/standard",
				Edits: []Edit{{File: "transport/standard.go", Old: "\t\tknownHosts, err := knownhosts.New(t.SSHArgs.KnownHostsFile)\n\t\tif err != nil {\n\t\t\treturn err\n\t\t}\n\n\t\tkeyCallback = knownHosts", New: "\t\tknownHosts, err := knownhosts.New(t.SSHArgs.KnownHostsFile)\n\t\tif err == nil {\n\t\t\tkeyCallback = knownHosts\n\t\t}"}}},
			{ID: "C14-extra-first", Desc: "extra arguments placed before the host", Rule: "C14/system",
				Edits: []Edit{{File: "transport/system.go", Old: "\t\tt.OpenArgs = append(\n\t\t\tt.OpenArgs,\n\t\t\tt.ExtraArgs...,\n\t\t)", New: "\t\tt.OpenArgs = append(\n\t\t\tt.ExtraArgs,\n\t\t\tt.OpenArgs...,\n\t\t)"}}},
		},
	})
}

func runC14(c *Ctx, r *Report) {
	importFoundation(c, r, "C14", "escalation-secret")
	importFoundation(c, r, "C14", "driver-options")
	importFoundation(c, r, "C14", "platform-fresh")
	r.Rule("C14/key-errors-surface", "the error of reading or parsing the configured private key fails the open in both ssh transports (the connection is never made without the configured key)", 2)
	checkKeyErrorsSurface(c, r, "C14/key-errors-surface")
	r.Rule("C14/error-before-use", "in the constructors no product of a call is used before the error that came with it has been tested: ssh arguments that were rejected (an unusable key, known-hosts or config file option) are not used to open a connection", 1)
	checkValueBeforeErrorCheck(c, r, "C14/error-before-use", constructorScope(c), "constructors")
	r.Rule("C14/password-prompt-anchored", "the built-in pattern that decides when the login password is typed matches only where the prompt ends a line (the password goes to the authentication exchange only)", 1)
	checkPasswordPromptAnchored(c, r, "C14/password-prompt-anchored")
	r.Rule("C14/no-auth-steering", "the ssh argument list adds no option that steers authentication or host identity beyond the configured key / known-hosts / config file", 1)
	checkNoAuthSteeringArgs(c, r, "C14/no-auth-steering")
	r.Rule("C14/fresh-args", "every transport / ssh argument constructor hands out an object of its own: one connection's host-key opt-out cannot persist into the next connection's arguments", 3)
	checkFreshConstructors(c, r, "C14/fresh-args", func(p string) bool { return strings.HasSuffix(p, "/transport") }, "the arguments are shared between connections, so an option applied for one connection (e.g. disabling strict host-key checking) stays in force for every later one")
	r.Rule("C14/in-channel-auth-set", "exactly the system (ssh subprocess) and telnet transports ask for in-channel authentication; the crypto/ssh transport, which authenticates inside the protocol, never hands its password to the channel", 3)
	checkInChannelAuthSet(c, r, "C14/in-channel-auth-set")
	r.Rule("C14/system-files-first-wins", "the options that pick the ssh config / known-hosts file from the default locations take the first candidate that resolves, the user-level path first", 2)
	checkSystemFilesFirstWins(c, r, "C14/system-files-first-wins")
	r.Rule("C14/resolve-order", "ResolveFilePath uses a configured path that exists as given; the home directory is only a fallback", 1)
	r.Rule("C14/embedded-defaults", "no embedded platform definition disables host-key checking or authentication", 15)
	checkResolveFilePathOrder(c, r, "C14/resolve-order")
	checkEmbeddedSecurityDefaults(c, r, "C14/embedded-defaults")
	r.Rule("C14/default-on", "SSHArgs.StrictKey is written only by the constructor (true) and the explicit opt-out option (false)", 2)
	r.Rule("C14/standard", "standard transport: host-key callback, early returns, identity provenance on every path to the dial", 8)
	r.Rule("C14/system", "system transport: the ssh argument list for every combination of settings", 16)
	r.Rule("C14/no-password-on-argv", "no credential reaches an exec.Command argument", 1)

	checkStrictDefault(c, r)
	checkStandardOpenBase(c, r)
	checkSystemArgs(c, r)
	checkNoPasswordOnArgv(c, r)
}

func checkStrictDefault(c *Ctx, r *Report) {
	rule := "C14/default-on"
	f := c.LookupField("transport", "SSHArgs", "StrictKey")
	if f == nil {
		r.Anchor(rule, "transport.SSHArgs.StrictKey")
		return
	}
	n := 0
	for _, fn := range c.LibFns {
		allInstrs(fn, func(in ssa.Instruction) {
			ff, _, v, ok := fieldStore(in)
			if !ok || ff != f {
				return
			}
			n++
			construct := shortFn(fn) + " writes StrictKey"
			b, isC := constBool(v)
			switch {
			case fn.Name() == "NewSSHArgs":
				r.Check(isC && b, rule, construct, c.Pos(in.Pos()), "default true", "strict host-key checking does not default to on")
			case isC && !b && fn.Parent() != nil && fn.Parent().Name() == "WithAuthNoStrictKey":
				r.OK(rule, construct, c.Pos(in.Pos()), "explicit opt-out")
			default:
				r.Bad(rule, construct, c.Pos(in.Pos()), "strict host-key checking is switched by something other than the constructor default and the explicit WithAuthNoStrictKey option")
			}
		})
	}
	if n == 0 {
		r.Bad(rule, "StrictKey writers", "-", "nothing initialises SSHArgs.StrictKey: checking is off by default")
	}
}

func checkStandardOpenBase(c *Ctx, r *Report) {
	rule := "C14/standard"
	fn := c.LookupFunc("transport", "Standard", "openBase")
	os := c.LookupFunc("transport", "Standard", "openSession")
	if fn == nil || os == nil {
		r.Anchor(rule, "(*transport.Standard).openBase / openSession")
		return
	}
	pure := func(call *ssa.Call) bool {
		if o := CalleeObj(call); o != nil && o.Pkg() != nil && o.Pkg().Path() == "fmt" {
			return true
		}
		return false
	}
	paths := EnumeratePaths(c, fn, &dtConfig{IsAtomCall: pure, Keep: func(f *ssa.Function) bool { return f == os }})
	t := "param:" + fn.Params[0].Name()
	a := "param:" + fn.Params[1].Name()
	n := 0
	for _, p := range paths {
		if p.Undecided != "" {
			r.Unk(rule, "openBase paths", c.Pos(fn.Pos()), "path enumeration left the vocabulary: "+p.Undecided)
			return
		}
		n++
		strict := p.Assume[t+".SSHArgs.StrictKey"]
		kh := p.Assume[t+".SSHArgs.KnownHostsFile"]
		pw := p.Assume[a+".Password"]
		key := p.Assume[t+".SSHArgs.PrivateKeyPath"]
		dials := false
		var khErr string
		for k, v := range p.Assume {
			if strings.HasPrefix(k, "knownhosts.New(") && strings.HasSuffix(k, "#1") {
				khErr = v
			}
		}
		for _, e := range p.Effects {
			if e.Kind == "call" && strings.HasSuffix(e.What, "Standard.openSession") {
				dials = true
			}
		}
		construct := fmt.Sprintf("openBase path strict=%s knownhosts%s khload%s password%s key%s #%d", strict, kh, khErr, pw, key, n)
		var probs []string
		cb := p.Locals["local:complit.HostKeyCallback"]
		switch {
		case strict == "true" && kh == `=""`:
			if dials {
				probs = append(probs, "strict checking with no known-hosts file still reaches the dial")
			}
			if len(p.Returns) != 1 || p.Returns[0] == "nil" {
				probs = append(probs, "strict checking with no known-hosts file does not return an error")
			}
		case strict == "true" && khErr == "!=nil":
			if dials {
				probs = append(probs, "a known-hosts file that cannot be loaded still reaches the dial")
			}
			if len(p.Returns) != 1 || p.Returns[0] == "nil" {
				probs = append(probs, "a known-hosts load error is not returned")
			}
		case dials && strict == "true":
			if !(strings.HasPrefix(cb, "knownhosts.New(") && strings.Contains(cb, t+".SSHArgs.KnownHostsFile") && strings.HasSuffix(cb, "#0")) {
				probs = append(probs, "with strict checking on the host-key callback installed is "+cb+", not knownhosts.New(configured file)")
			}
		case dials && strict == "false":
			if cb != "ssh.InsecureIgnoreHostKey()" {
				probs = append(probs, "with strict checking off the callback is "+cb)
			}
		case dials:
			probs = append(probs, "the dial is reached on a path that never consulted StrictKey")
		}
		if dials {
			if u := p.Locals["local:complit.User"]; u != a+".User" {
				probs = append(probs, "ClientConfig.User is "+u+", not the configured user")
			}
			if to := p.Locals["local:complit.Timeout"]; to != a+".TimeoutSocket" {
				probs = append(probs, "ClientConfig.Timeout is "+to+", not the configured socket timeout")
			}
			auth := p.Locals["local:complit.Auth"]
			hasPw := strings.Contains(auth, "ssh.Password("+a+".Password)")
			if strings.HasPrefix(pw, "!=") != hasPw {
				probs = append(probs, fmt.Sprintf("password configured %s but ssh.Password offered: %v", pw, hasPw))
			}
			if strings.Contains(auth, a+".Password") && !hasPw {
				probs = append(probs, "the password reaches the auth methods other than through ssh.Password")
			}
			hasKey := strings.Contains(auth, "ssh.PublicKeys(") && strings.Contains(auth, "ssh.ParsePrivateKey(os.ReadFile("+t+".SSHArgs.PrivateKeyPath)#0)#0")
			if strings.HasPrefix(key, "!=") != hasKey {
				probs = append(probs, fmt.Sprintf("key path configured %s but public-key auth from that file offered: %v (auth: %s)", key, hasKey, auth))
			}
		}
		if len(probs) == 0 {
			r.OK(rule, construct, c.Pos(fn.Pos()), "")
		} else {
			r.Bad(rule, construct, c.Pos(fn.Pos()), strings.Join(probs, "; "))
		}
	}
	// dial address
	sp := EnumeratePaths(c, os, &dtConfig{IsAtomCall: pure})
	okDial := false
	sa := "param:" + os.Params[1].Name()
	cfgp := "param:" + os.Params[2].Name()
	addrKey := `fmt.Sprintf("%s:%d",{` + sa + `.Host,` + sa + `.Port})`
	for _, p := range sp {
		tcpDialled, handshake := "", false
		for _, e := range p.Effects {
			if e.Kind != "call" {
				continue
			}
			switch {
			case e.What == "ssh.Dial" && len(e.Args) == 3:
				okDial = e.Args[0] == `"tcp"` && e.Args[1] == addrKey && e.Args[2] == cfgp
			case (e.What == "net.Dial" || e.What == "net.DialTimeout") && len(e.Args) >= 2 && e.Args[0] == `"tcp"` && e.Args[1] == addrKey:
				// the two-step spelling: connect, then run the ssh handshake on that connection
				tcpDialled = e.What + "(" + strings.Join(e.Args, ",") + ")#0"
			case e.What == "ssh.NewClientConn" && len(e.Args) == 3:
				handshake = tcpDialled != "" && e.Args[0] == tcpDialled && e.Args[1] == addrKey && e.Args[2] == cfgp
			}
		}
		if handshake {
			okDial = true
		}
	}
	r.Check(okDial, rule, "openSession dial", c.Pos(os.Pos()), "ssh.Dial(tcp, host:port, cfg)", "the standard transport does not dial the configured host and port with the prepared client configuration")
}

func indexOf(list []string, s string) int {
	for i, x := range list {
		if x == s {
			return i
		}
	}
	return -1
}

func checkSystemArgs(c *Ctx, r *Report) {
	rule := "C14/system"
	fn := c.LookupFunc("transport", "System", "buildOpenArgs")
	open := c.LookupFunc("transport", "System", "open")
	if fn == nil || open == nil {
		r.Anchor(rule, "(*transport.System).buildOpenArgs / open")
		return
	}
	pure := atomsExcept()
	paths := EnumeratePaths(c, fn, &dtConfig{IsAtomCall: pure})
	t := "param:" + fn.Params[0].Name()
	a := "param:" + fn.Params[1].Name()
	n := 0
	for _, p := range paths {
		if p.Undecided != "" {
			r.Unk(rule, "buildOpenArgs paths", c.Pos(fn.Pos()), "path enumeration left the vocabulary: "+p.Undecided)
			return
		}
		n++
		final, ok := lastStore(p, ".OpenArgs")
		if !ok {
			r.Bad(rule, fmt.Sprintf("buildOpenArgs path#%d", n), c.Pos(fn.Pos()), "the argument list is never stored")
			continue
		}
		args := flattenAppend(final)
		for i := range args {
			args[i] = normFmtKey(args[i])
		}
		strict := p.Assume[t+".SSHArgs.StrictKey"]
		user := p.Assume[a+".User"]
		kh := p.Assume[t+".SSHArgs.KnownHostsFile"]
		cf := p.Assume[t+".SSHArgs.ConfigFile"]
		key := p.Assume[t+".SSHArgs.PrivateKeyPath"]
		extra := p.Lit("(len(" + t + ".ExtraArgs)>0)")
		construct := fmt.Sprintf("buildOpenArgs strict=%s user%s knownhosts%s config%s key%s extra=%s #%d", strict, user, kh, cf, key, extra, n)
		var probs []string
		follows := func(flag, val string) bool {
			val = normFmtKey(val)
			for i := 0; i+1 < len(args); i++ {
				if args[i] == flag && args[i+1] == val {
					return true
				}
			}
			return false
		}
		if len(args) == 0 || args[0] != a+".Host" {
			probs = append(probs, "the argument list does not start with the configured host")
		}
		if !follows(`"-p"`, `fmt.Sprintf("%d",{`+a+`.Port})`) {
			probs = append(probs, "no '-p <configured port>'")
		}
		if strings.HasPrefix(user, "!=") != follows(`"-l"`, a+".User") {
			probs = append(probs, "'-l <user>' present iff a user is configured is violated")
		}
		yes, no := follows(`"-o"`, `"StrictHostKeyChecking=yes"`), follows(`"-o"`, `"StrictHostKeyChecking=no"`)
		khArg := `fmt.Sprintf("UserKnownHostsFile=%s",{` + t + `.SSHArgs.KnownHostsFile})`
		switch strict {
		case "true":
			if !yes || no {
				probs = append(probs, "strict checking on but the list does not say StrictHostKeyChecking=yes (or also says =no)")
			}
			if indexOf(args, `"UserKnownHostsFile=/dev/null"`) >= 0 {
				probs = append(probs, "strict checking on but the known-hosts file is /dev/null")
			}
			if strings.HasPrefix(kh, "!=") != follows(`"-o"`, khArg) {
				probs = append(probs, "the configured known-hosts file is not passed (exactly when configured)")
			}
		case "false":
			if yes || !no || !follows(`"-o"`, `"UserKnownHostsFile=/dev/null"`) {
				probs = append(probs, "strict checking off but the list is not StrictHostKeyChecking=no with /dev/null known-hosts")
			}
		default:
			probs = append(probs, "the list does not depend on StrictKey")
		}
		if strings.HasPrefix(cf, "!=") {
			if !follows(`"-F"`, t+".SSHArgs.ConfigFile") {
				probs = append(probs, "the configured ssh config file is not passed with -F")
			}
		} else if !follows(`"-F"`, `"/dev/null"`) {
			probs = append(probs, "no ssh config file configured but -F /dev/null is not passed")
		}
		if strings.HasPrefix(key, "!=") != follows(`"-i"`, t+".SSHArgs.PrivateKeyPath") {
			probs = append(probs, "'-i <key>' present iff a key is configured is violated")
		}
		if extra == "true" {
			if len(args) == 0 || args[len(args)-1] != t+".ExtraArgs" {
				probs = append(probs, "the extra arguments are not appended last")
			}
		} else if indexOf(args, t+".ExtraArgs") >= 0 {
			probs = append(probs, "extra arguments appear although none are configured")
		}
		for _, x := range args {
			if strings.Contains(x, "Password") || strings.Contains(x, "PassPhrase") {
				probs = append(probs, "a credential appears in the argument list: "+x)
			}
			// OpenSSH options with which a session is carried by another connection or checked against something other
			// than the configured known-hosts file: no key exchange, host-key check or authentication of its own
			for _, opt := range []string{"ControlMaster", "ControlPath", "ControlPersist", "ProxyCommand", "ProxyJump", "GlobalKnownHostsFile", "KnownHostsCommand", "VerifyHostKeyDNS", "HostKeyAlias", "UpdateHostKeys", "CheckHostIP", "NoHostAuthenticationForLocalhost"} {
				if strings.Contains(x, opt) {
					probs = append(probs, "the default argument list carries the ssh option "+opt+": sessions can then ride on another connection or be verified against something other than the configured known-hosts file, bypassing the strict host-key check and the configured identity")
				}
			}
		}
		if len(probs) == 0 {
			r.OK(rule, construct, c.Pos(fn.Pos()), fmt.Sprintf("%d arguments", len(args)))
		} else {
			r.Bad(rule, construct, c.Pos(fn.Pos()), strings.Join(probs, "; ")+fmt.Sprintf(" (list: %v)", args))
		}
	}
	// open: exec.Command(OpenBin, OpenArgs...), args built iff empty
	okExec := false
	for _, o := range []*ssa.Function{open, c.LookupFunc("transport", "System", "openNetconf")} {
		if o == nil {
			continue
		}
		for _, ci := range callInstrsDeep(o, 2) {
			if ob := CalleeObj(ci); ob != nil && ob.Pkg() != nil && ob.Pkg().Path() == "os/exec" && ob.Name() == "Command" {
				args := ci.Common().Args
				okExec = len(args) == 2 && isFieldLoadNamed(args[0], "OpenBin") && isFieldLoadNamed(args[1], "OpenArgs")
				if !okExec {
					r.Bad(rule, shortFn(o)+" exec.Command", c.Pos(ci.Pos()), "the ssh process is not started as exec.Command(OpenBin, OpenArgs...)")
				} else {
					r.OK(rule, shortFn(o)+" exec.Command", c.Pos(ci.Pos()), "OpenBin, OpenArgs...")
				}
			}
		}
	}
	if !okExec {
		r.Unk(rule, "System.open exec.Command", c.Pos(open.Pos()), "no exec.Command(OpenBin, OpenArgs...) found")
	}
}

func checkNoPasswordOnArgv(c *Ctx, r *Report) {
	rule := "C14/no-password-on-argv"
	src := secretSources(c, r, rule)
	gates := writeGates(c, r, rule)
	if len(src) == 0 {
		return
	}
	t := NewTaint(c, src, gates)
	t.Run()
	hits, sites := t.FindSinkHits(func(ci ssa.CallInstruction) (string, []int) {
		if o := CalleeObj(ci); o != nil && o.Pkg() != nil && o.Pkg().Path() == "os/exec" && (o.Name() == "Command" || o.Name() == "CommandContext") {
			var idx []int
			for i := range ci.Common().Args {
				idx = append(idx, i)
			}
			return "exec." + o.Name(), idx
		}
		return "", nil
	})
	if sites == 0 {
		r.OK(rule, "exec.Command sites", "-", "the library starts no process")
		return
	}
	hit := map[ssa.CallInstruction]sinkHit{}
	for _, h := range hits {
		hit[h.Instr] = h
	}
	for _, fn := range c.LibFns {
		n := 0
		for _, ci := range callInstrs(fn) {
			if o := CalleeObj(ci); o != nil && o.Pkg() != nil && o.Pkg().Path() == "os/exec" && strings.HasPrefix(o.Name(), "Command") {
				n++
				construct := fmt.Sprintf("%s exec.Command#%d", shortFn(fn), n)
				if h, ok := hit[ci]; ok {
					r.Bad(rule, construct, c.Pos(ci.Pos()), "a credential reaches the command line of a child process (visible in the process table): "+h.Why)
				} else {
					r.OK(rule, construct, c.Pos(ci.Pos()), "no credential-derived argument")
				}
			}
		}
	}
}
