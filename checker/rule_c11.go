package main

// C11 — credentials never reach the logs.

import (
	"fmt"
	"go/types"
	"strings"

	"golang.org/x/tools/go/ssa"
)

func init() {
	register(&Property{
		ID:  "C11",
		Run: runC11,
		Explanation: "Interprocedural, field-based taint analysis over the SSA of every library function (context-insensitive, calls resolved statically or through the VTA call graph, bound-method wrappers canonicalised). " +
			"Sources: loads of transport.Args.Password, SSHArgs.PrivateKeyPassPhrase, InChannelAuthData.{Password,PrivateKeyPassPhrase}, network.Driver.AuthSecondary. " +
			"Sinks: every argument of every logging.Instance method, the channel-log writer, package log and fmt.Print*. " +
			"T1: inside the write gate (Channel.Write) the logged value depends on the data only through the phi edge taken when the redaction flag is false. " +
			"T2: every call of a write gate whose data is tainted passes constant true, the enclosing gate's own flag, or the HideInput of the same event whose ChannelInput it writes. " +
			"T3: every interactive event built with tainted input has HideInput constant true. T4: no tainted value (or value whose static type prints a tainted field) reaches a sink. " +
			"T5: the channel log receives only the bytes that were enqueued from the transport read. T6: platform channel.write steps pass the definition's redacted flag. " +
			"Holds for all secrets, dialogues, retries and failures at once because no path or value is enumerated.",
		Assumptions: []string{
			"A1: error results of functions outside the module (other than fmt/errors) do not embed their arguments",
			"the device does not echo secrets (stated in the property); user-supplied loggers, callbacks and transports are outside the library",
			"external methods do not stash tainted arguments in their receiver for later retrieval",
		},
		Mutants: []Mutant{
			{ID: "C11-password-prompt-unanchored", Desc: "the built-in password prompt pattern no longer has to end the line", Rule: "C11/password-prompt-anchored",
				Edits: []Edit{{File: "channel/auth.go", Old: "(?im)(.*@.*)?password:\\s?$", New: "(?im)(.*@.*)?password:\\s*"}}},
			{ID: "C11-passphrase-buffer-kept", Desc: "the ssh login loop keeps its buffer after typing the passphrase (typed again into an echoing session)", Rule: "C11/auth-reset",
				Edits: []Edit{{File: "channel/auth.go", Old: "\t\t\tb = []byte{}\n\t\t}\n\t}\n}\n\n// AuthenticateSSH", New: "\t\t\tnb = []byte{}\n\t\t}\n\t}\n}\n\n// AuthenticateSSH"}}},
			{ID: "C11-telnet-unredacted", Desc: "telnet password written without the redaction flag", Rule: "C11/T2",
				Edits: []Edit{{File: "channel/auth.go", Old: "err = c.WriteAndReturn(p, true)\n\t\t\tif err != nil {\n\t\t\t\treturn &result{nil, err}\n\t\t\t}\n\t\t}\n\t}\n}\n\n// AuthenticateTelnet", New: "err = c.WriteAndReturn(p, false)\n\t\t\tif err != nil {\n\t\t\t\treturn &result{nil, err}\n\t\t\t}\n\t\t}\n\t}\n}\n\n// AuthenticateTelnet"}}},
			{ID: "C11-secondary-visible", Desc: "secondary secret event not hidden", Rule: "C11/T3",
				Edits: []Edit{{File: "driver/network/acquirepriv.go", Old: "ChannelResponse: p.Pattern,\n\t\t\t\tHideInput:       true,", New: "ChannelResponse: p.Pattern,\n\t\t\t\tHideInput:       false,"}}},
			{ID: "C11-interactive-never-redacted", Desc: "interactive writes never redacted", Rule: "C11/T2",
				Edits: []Edit{{File: "channel/sendinteractive.go", Old: "c.Write([]byte(e.ChannelInput), e.HideInput)", New: "c.Write([]byte(e.ChannelInput), false)"}}},
			{ID: "C11-gate-logs-first", Desc: "write gate logs the data before redacting", Rule: "C11/T",
				Edits: []Edit{{File: "channel/write.go", Old: "\tlm := string(b)\n\tif r {", New: "\tlm := string(b)\n\tc.l.Debugf(\"channel write raw %d\", len(lm), lm)\n\tif r {"}}},
			{ID: "C11-log-events-deref", Desc: "interactive events logged by content", Rule: "C11/T4",
				Edits: []Edit{{File: "channel/sendinteractive.go", Old: "processing events '%v'\", events)", New: "processing events '%v'\", *events[0])"}}},
			{ID: "C11-auth-failure-logs-secret", Desc: "failed ssh auth logs the password tried", Rule: "C11/T4",
				Edits: []Edit{{File: "channel/auth.go", Old: "c.l.Critical(\"password prompt seen multiple times, assuming authentication failed\")\n\n\t\t\t\treturn &result{\n\t\t\t\t\tnil,\n\t\t\t\t\tfmt.Errorf(\n\t\t\t\t\t\t\"%w: password prompt seen multiple times, assuming authentication failed\",\n\t\t\t\t\t\tutil.ErrAuthError,\n\t\t\t\t\t),\n\t\t\t\t}\n\t\t\t}\n\n\t\t\terr = c.WriteAndReturn(p, true)\n\t\t\tif err != nil {\n\t\t\t\treturn &result{nil, err}\n\t\t\t}\n\n\t\t\t// reset", New: "c.l.Criticalf(\"password prompt seen multiple times, assuming authentication failed (%d bytes: %s)\", len(p), p)\n\n\t\t\t\treturn &result{\n\t\t\t\t\tnil,\n\t\t\t\t\tfmt.Errorf(\n\t\t\t\t\t\t\"%w: password prompt seen multiple times, assuming authentication failed\",\n\t\t\t\t\t\tutil.ErrAuthError,\n\t\t\t\t\t),\n\t\t\t\t}\n\t\t\t}\n\n\t\t\terr = c.WriteAndReturn(p, true)\n\t\t\tif err != nil {\n\t\t\t\treturn &result{nil, err}\n\t\t\t}\n\n\t\t\t// reset"}}},
			{ID: "C11-escalate-plain-send", Desc: "escalation sends the secret as a plain command (logged by SendInput)", Rule: "C11/T",
				Edits: []Edit{{File: "driver/network/acquirepriv.go", Old: "_, err = d.Driver.Channel.SendInput(p.Escalate)\n\t} else {", New: "_, err = d.Driver.Channel.SendInput(p.Escalate)\n\t\tif err == nil && p.EscalateAuth {\n\t\t\t_, err = d.Driver.Channel.SendInput(d.AuthSecondary)\n\t\t}\n\t} else {"}}},
			{ID: "C11-platform-bad-value-echoed", Desc: "a refused platform channel.write step is quoted in the error (which Open logs)", Rule: "C11/T7",
				Edits: []Edit{{File: "platform/onx.go", Old: "\ti, ok := op[\"input\"].(string)\n\tif !ok {\n\t\treturn fmt.Errorf(\"%w: bad value\", util.ErrBadOption)", New: "\ti, ok := op[\"input\"].(string)\n\tif !ok {\n\t\treturn fmt.Errorf(\"%w: bad value %v\", util.ErrBadOption, op[\"input\"])"}}},
			{ID: "C11-platform-redacted-ignored", Desc: "platform channel.write ignores the redacted flag", Rule: "C11/T6",
				Edits: []Edit{{File: "platform/onx.go", Old: "return c.Write([]byte(i), r)", New: "_ = r\n\n\treturn c.Write([]byte(i), false)"}}},
			{ID: "C11-system-args-password", Desc: "system transport logs an sshpass-style argument list", Rule: "C11/T4",
				Edits: []Edit{{File: "transport/system.go", Old: "\tif len(t.ExtraArgs) > 0 {", New: "\tif a.Password != \"\" {\n\t\tt.OpenArgs = append(t.OpenArgs, \"-o\", \"PasswordHint=\"+a.Password)\n\t}\n\n\tif len(t.ExtraArgs) > 0 {"}}},
		},
	})
}

func secretSources(c *Ctx, r *Report, rule string) map[*types.Var]string {
	src := map[*types.Var]string{}
	add := func(pkg, typ, field, label string) {
		f := c.LookupField(pkg, typ, field)
		if f == nil {
			r.Anchor(rule, pkg+"."+typ+"."+field)
			return
		}
		src[f] = label
	}
	add("transport", "Args", "Password", "login password")
	add("transport", "SSHArgs", "PrivateKeyPassPhrase", "key passphrase")
	add("transport", "InChannelAuthData", "Password", "login password")
	add("transport", "InChannelAuthData", "PrivateKeyPassPhrase", "key passphrase")
	add("driver/network", "Driver", "AuthSecondary", "secondary secret")
	return src
}

func writeGates(c *Ctx, r *Report, rule string) []gateSpec {
	var gates []gateSpec
	for _, n := range []string{"Write", "WriteAndReturn"} {
		fn := c.LookupFunc("channel", "Channel", n)
		if fn == nil || len(fn.Params) != 3 {
			r.Anchor(rule, "(*channel.Channel)."+n+"(b []byte, r bool)")
			continue
		}
		gates = append(gates, gateSpec{Fn: fn, DataParam: 1, FlagParam: 2})
	}
	return gates
}

func loggingSink(c *Ctx) func(ci ssa.CallInstruction) (string, []int) {
	inst := c.LookupType("logging", "Instance")
	chLog := c.LookupField("channel", "Channel", "ChannelLog")
	return func(ci ssa.CallInstruction) (string, []int) {
		cc := ci.Common()
		o := CalleeObj(ci)
		if o != nil {
			sig := o.Type().(*types.Signature)
			if sig.Recv() != nil && inst != nil {
				rt := sig.Recv().Type()
				if p, ok := rt.(*types.Pointer); ok {
					rt = p.Elem()
				}
				if types.Identical(rt, inst) {
					switch o.Name() {
					case "Debug", "Debugf", "Info", "Infof", "Critical", "Criticalf", "Emit":
						var idx []int
						start := 0
						if !cc.IsInvoke() {
							start = 1 // receiver
						}
						for i := start; i < len(cc.Args); i++ {
							idx = append(idx, i)
						}
						return "logging.Instance." + o.Name(), idx
					}
				}
			}
			if o.Pkg() != nil && sig.Recv() == nil {
				switch o.Pkg().Path() {
				case "log":
					var idx []int
					for i := range cc.Args {
						idx = append(idx, i)
					}
					return "log." + o.Name(), idx
				case "fmt":
					if strings.HasPrefix(o.Name(), "Print") || strings.HasPrefix(o.Name(), "Fprint") {
						var idx []int
						for i := range cc.Args {
							idx = append(idx, i)
						}
						return "fmt." + o.Name(), idx
					}
				}
			}
		}
		// channel log: invoke Write on a value loaded from Channel.ChannelLog
		if cc.IsInvoke() && cc.Method.Name() == "Write" && chLog != nil {
			if f, _, ok := fieldLoad(cc.Value); ok && f == chLog {
				return "channel log Write", []int{0}
			}
		}
		// user loggers invoked by Emit: func(...interface{}) values from Instance.Loggers
		return "", nil
	}
}

func runC11(c *Ctx, r *Report) {
	importFoundation(c, r, "C11", "platform-options")
	r.Rule("C11/log-args-untransformed", "the logging methods hand their arguments to fmt as they are (no reflection, no dereferencing)", 3)
	checkLogArgsUntransformed(c, r, "C11/log-args-untransformed")
	r.Rule("C11/password-prompt-anchored", "the built-in pattern that decides when the login password is typed matches only where the prompt ends a line", 1)
	checkPasswordPromptAnchored(c, r, "C11/password-prompt-anchored")
	importFoundation(c, r, "C11", "interactive")
	importFoundation(c, r, "C11", "transport-pipe")
	r.Rule("C11/auth-reset", "after each credential the login loop starts from an empty buffer: a credential is typed once per prompt shown, never again into a session that echoes", 4)
	checkAuthBufferReset(c, r, "C11/auth-reset")
	r.Rule("C11/one-answer-per-pass", "on the true edge of a credential prompt's match the login loop types nothing but that prompt's own credential: a secret is never typed at a prompt that echoes", 4)
	checkOneAnswerPerPass(c, r, "C11/one-answer-per-pass")
	r.Rule("C11/T1", "inside a write gate the logged value depends on the data only when the redaction flag is false", 1)
	r.Rule("C11/T2", "every gate call with tainted data passes constant true, the enclosing gate's own flag, or the HideInput of the same event", 5)
	r.Rule("C11/T3", "every interactive event literal with tainted ChannelInput has HideInput: true", 1)
	r.Rule("C11/T4", "no tainted value reaches a logging sink (one obligation per sink call site)", 15)
	r.Rule("C11/T5", "the channel log receives exactly the value enqueued from the transport read", 1)
	r.Rule("C11/T6", "platform channel.write steps pass the definition's redacted flag to the gate", 1)

	src := secretSources(c, r, "C11/T4")
	gates := writeGates(c, r, "C11/T1")
	if len(src) == 0 || len(gates) == 0 {
		return
	}
	t := NewTaint(c, src, gates)
	t.Run()
	r.Extra["taint_iterations"] = t.iter
	r.Extra["tainted_values"] = len(t.vals)
	r.Extra["tainted_fields"] = t.TaintedFieldNames()

	isSink := loggingSink(c)

	// T1: gate-local: taint only the data parameter, inside the gate function
	for _, g := range gates {
		if g.Fn.Name() != "Write" {
			continue
		}
		lt := NewTaint(c, map[*types.Var]string{}, gates)
		lt.fns = []*ssa.Function{g.Fn}
		lt.markVal(g.Fn.Params[g.DataParam], "gate data parameter")
		lt.Run()
		hits, sites := lt.FindSinkHits(isSink)
		construct := shortFn(g.Fn)
		if sites == 0 {
			r.OK("C11/T1", construct, c.Pos(g.Fn.Pos()), "gate contains no log site")
		}
		if len(hits) == 0 && sites > 0 {
			r.OK("C11/T1", construct, c.Pos(g.Fn.Pos()), fmt.Sprintf("%d log site(s) in the gate; data reaches them only on the flag==false edge", sites))
		}
		for _, h := range hits {
			r.Bad("C11/T1", construct+" -> "+h.Sink, c.Pos(h.Instr.Pos()), "inside the write gate the data reaches the log even when the redaction flag is true: "+h.Why)
		}
	}

	// T2: gate call sites
	hideInput := c.LookupField("channel", "SendInteractiveEvent", "HideInput")
	chanInput := c.LookupField("channel", "SendInteractiveEvent", "ChannelInput")
	for _, fn := range c.LibFns {
		for _, ci := range callInstrs(fn) {
			for _, callee := range c.Callees(ci) {
				g, ok := t.gates[callee]
				if !ok {
					continue
				}
				args := ci.Common().Args
				off := 0
				if len(args) == len(callee.Params)-1 {
					off = 1
				}
				di, fi := g.DataParam-off, g.FlagParam-off
				if di < 0 || fi >= len(args) {
					continue
				}
				data, flag := args[di], args[fi]
				if !t.is(data) {
					continue
				}
				construct := shortFn(fn) + " call " + callee.Name()
				pos := c.Pos(ci.Pos())
				switch {
				case isConstTrue(flag):
					r.OK("C11/T2", construct, pos, "tainted data, flag constant true")
				case isOwnGateFlag(t, fn, flag):
					r.OK("C11/T2", construct, pos, "gate delegates its own flag")
				case pairedHide(data, flag, chanInput, hideInput):
					r.OK("C11/T2", construct, pos, "flag is the HideInput of the event whose ChannelInput is written")
				default:
					r.Bad("C11/T2", construct, pos, fmt.Sprintf("credential-derived data is written with a redaction flag that is not provably true (%s): the secret is logged by the channel write; data: %s", flag.String(), t.whyVal[data]))
				}
			}
		}
	}

	// T3: event literals
	if hideInput == nil || chanInput == nil {
		r.Anchor("C11/T3", "channel.SendInteractiveEvent.{ChannelInput,HideInput}")
	} else {
		for _, fn := range c.LibFns {
			allInstrs(fn, func(in ssa.Instruction) {
				f, base, val, ok := fieldStore(in)
				if !ok || f != chanInput || !t.is(val) {
					return
				}
				construct := shortFn(fn) + " event literal"
				hidden := false
				other := false
				for _, ref := range *base.Referrers() {
					if fa, ok := ref.(*ssa.FieldAddr); ok && fieldOfAddr(fa) == hideInput {
						for _, r2 := range *fa.Referrers() {
							if st, ok := r2.(*ssa.Store); ok {
								if isConstTrue(st.Val) {
									hidden = true
								} else {
									other = true
								}
							}
						}
					}
				}
				if hidden && !other {
					r.OK("C11/T3", construct, c.Pos(in.Pos()), "tainted input, HideInput: true")
				} else {
					r.Bad("C11/T3", construct, c.Pos(in.Pos()), "an interactive event carrying a credential is not marked hidden (HideInput is not constant true): its input is logged and waited for as echo; input: "+t.whyVal[val])
				}
			})
		}
	}

	// T4: sinks
	hits, _ := t.FindSinkHits(isSink)
	hitAt := map[ssa.CallInstruction]sinkHit{}
	for _, h := range hits {
		hitAt[h.Instr] = h
	}
	for _, fn := range c.LibFns {
		n := map[string]int{}
		for _, ci := range callInstrs(fn) {
			name, _ := isSink(ci)
			if name == "" {
				continue
			}
			n[name]++
			construct := fmt.Sprintf("%s -> %s#%d", shortFn(fn), name, n[name])
			if h, ok := hitAt[ci]; ok {
				r.Bad("C11/T4", construct, c.Pos(ci.Pos()), "a credential-derived value reaches a log sink: "+h.Why)
			} else {
				r.OK("C11/T4", construct, c.Pos(ci.Pos()), "")
			}
		}
	}

	// T5: channel log gets the enqueued value
	readFn := c.LookupFunc("channel", "Channel", "read")
	enq := c.LookupFunc("util", "Queue", "Enqueue")
	if readFn == nil || enq == nil {
		r.Anchor("C11/T5", "(*channel.Channel).read / (*util.Queue).Enqueue")
	} else {
		var enqArg ssa.Value
		for _, ci := range callInstrs(readFn) {
			if sc := ci.Common().StaticCallee(); sc == enq {
				enqArg = ci.Common().Args[1]
			}
		}
		found := false
		for _, ci := range callInstrs(readFn) {
			if name, _ := isSink(ci); name == "channel log Write" {
				found = true
				arg := ci.Common().Args[0]
				r.Check(enqArg != nil && arg == enqArg, "C11/T5", "read loop channel log write", c.Pos(ci.Pos()),
					"the channel log is given the same value that is enqueued", "the channel log is given a value other than the bytes enqueued from the transport read")
			}
		}
		if !found {
			r.OK("C11/T5", "read loop channel log write", c.Pos(readFn.Pos()), "the read loop does not write a channel log")
		}
	}

	r.Rule("C11/as-options-wiring", "each on-x list of a platform definition reaches exactly the hook of its name: a list that types a redacted secret blind is never replayed at a prompt that echoes", 7)
	checkAsOptionsWiring(c, r, "C11/as-options-wiring")
	r.Rule("C11/T7", "the input of a platform step that may be written redacted, and the step's definition map, never reach a logging sink (directly or inside an error that is logged)", 1)
	checkPlatformStepNotLogged(c, r, "C11/T7", gates, isSink)

	// T6: platform channel.write passes the 'redacted' flag
	cw := c.LookupFunc("platform", "", "channelWrite")
	if cw == nil {
		r.Anchor("C11/T6", "platform.channelWrite")
	} else {
		n := 0
		for _, ci := range callInstrs(cw) {
			for _, callee := range c.Callees(ci) {
				if g, ok := t.gates[callee]; ok {
					n++
					flag := ci.Common().Args[g.FlagParam]
					ok := derivesFromLookup(flag, cw.Params[0], "redacted", 0)
					r.Check(ok, "C11/T6", "platform.channelWrite call "+callee.Name(), c.Pos(ci.Pos()),
						"flag derives from op[\"redacted\"]", "the redaction flag given to the channel write does not come from the step's 'redacted' key: redacted platform inputs are logged")
				}
			}
		}
		if n == 0 {
			r.Unk("C11/T6", "platform.channelWrite", c.Pos(cw.Pos()), "channelWrite no longer calls a write gate")
		}
	}
}

func isConstTrue(v ssa.Value) bool {
	b, ok := constBool(v)
	return ok && b
}

func isOwnGateFlag(t *Taint, fn *ssa.Function, flag ssa.Value) bool {
	g, ok := t.gates[fn]
	return ok && flag == ssa.Value(fn.Params[g.FlagParam])
}

// pairedHide: data derives (through conversions) from X.ChannelInput and flag is X.HideInput for the same X.
func pairedHide(data, flag ssa.Value, chanInput, hideInput *types.Var) bool {
	if chanInput == nil || hideInput == nil {
		return false
	}
	for {
		if cv, ok := data.(*ssa.Convert); ok {
			data = cv.X
			continue
		}
		break
	}
	df, dbase, ok := fieldLoad(data)
	if !ok || df != chanInput {
		return false
	}
	ff, fbase, ok := fieldLoad(flag)
	if !ok || ff != hideInput {
		return false
	}
	return dbase == fbase
}

// derivesFromLookup: v is (a phi of constants false and) the value of m[key] type-asserted.
func derivesFromLookup(v ssa.Value, m ssa.Value, key string, depth int) bool {
	if depth > 5 {
		return false
	}
	switch x := v.(type) {
	case *ssa.Phi:
		hit := false
		for _, e := range x.Edges {
			if b, ok := constBool(e); ok && !b {
				continue
			}
			if !derivesFromLookup(e, m, key, depth+1) {
				return false
			}
			hit = true
		}
		return hit
	case *ssa.Extract:
		return derivesFromLookup(x.Tuple, m, key, depth+1)
	case *ssa.TypeAssert:
		return derivesFromLookup(x.X, m, key, depth+1)
	case *ssa.Lookup:
		k, ok := constString(x.Index)
		return ok && k == key && x.X == m
	case *ssa.UnOp:
		// local variable
		if a, ok := x.X.(*ssa.Alloc); ok {
			hit := false
			for _, ref := range *a.Referrers() {
				if st, ok := ref.(*ssa.Store); ok && st.Addr == a {
					if b, ok := constBool(st.Val); ok && !b {
						continue
					}
					if !derivesFromLookup(st.Val, m, key, depth+1) {
						return false
					}
					hit = true
				}
			}
			return hit
		}
	}
	return false
}
