package main

// E5: concurrency engine — must-held locksets (intra + interprocedural),
// field access inventory, thread-class reachability, channel-operation inventory.

import (
	"fmt"
	"go/token"
	"go/types"
	"sort"
	"strings"

	"golang.org/x/tools/go/ssa"
)

// ---- locks ---------------------------------------------------------------------

type lockSet map[string]bool // "pkg.Type.field/W" or "/R"

func (a lockSet) clone() lockSet {
	b := lockSet{}
	for k := range a {
		b[k] = true
	}
	return b
}

func intersect(a, b lockSet) lockSet {
	out := lockSet{}
	for k := range a {
		if b[k] {
			out[k] = true
		}
	}
	return out
}

func (a lockSet) equal(b lockSet) bool {
	if len(a) != len(b) {
		return false
	}
	for k := range a {
		if !b[k] {
			return false
		}
	}
	return true
}

func (a lockSet) names() []string {
	var s []string
	for k := range a {
		s = append(s, k)
	}
	sort.Strings(s)
	return s
}

func fieldKey(f *types.Var, owner types.Type) string {
	return typeShort(owner) + "." + f.Name()
}

// lockOp decodes x.<field>.Lock()/Unlock()/RLock()/RUnlock() on a sync mutex held in a struct field.
func lockOp(ci ssa.CallInstruction) (key string, op string, ok bool) {
	cc := ci.Common()
	sc := cc.StaticCallee()
	if sc == nil || sc.Pkg == nil || sc.Pkg.Pkg.Path() != "sync" || len(cc.Args) == 0 {
		return "", "", false
	}
	switch sc.Name() {
	case "Lock", "Unlock", "RLock", "RUnlock":
	default:
		return "", "", false
	}
	rn := recvName(sc)
	if rn != "Mutex" && rn != "RWMutex" {
		return "", "", false
	}
	recv := cc.Args[0]
	// *sync.Mutex loaded from a field, or address of a sync.Mutex field
	if f, base, ok2 := fieldLoad(recv); ok2 {
		return fieldKey(f, base.Type()), sc.Name(), true
	}
	if fa, ok2 := recv.(*ssa.FieldAddr); ok2 {
		return fieldKey(fieldOfAddr(fa), fa.X.Type()), sc.Name(), true
	}
	return "?", sc.Name(), true
}

// MustLocks computes the locks that are certainly held at each instruction.
type MustLocks struct {
	c      *Ctx
	entry  map[*ssa.Function]lockSet // nil = top (unknown / not yet constrained)
	inB    map[*ssa.BasicBlock]lockSet
	roots  map[*ssa.Function]bool
	edgeOK func(site ssa.CallInstruction, callee *ssa.Function) bool
}

func NewMustLocks(c *Ctx, roots map[*ssa.Function]bool, edgeOK func(ssa.CallInstruction, *ssa.Function) bool) *MustLocks {
	m := &MustLocks{c: c, entry: map[*ssa.Function]lockSet{}, inB: map[*ssa.BasicBlock]lockSet{}, roots: roots, edgeOK: edgeOK}
	for r := range roots {
		m.entry[r] = lockSet{}
	}
	m.run()
	return m
}

func transfer(in lockSet, instr ssa.Instruction) lockSet {
	ci, ok := instr.(*ssa.Call)
	if !ok {
		return in
	}
	key, op, ok := lockOp(ci)
	if !ok {
		return in
	}
	out := in.clone()
	switch op {
	case "Lock":
		out[key+"/W"] = true
	case "RLock":
		out[key+"/R"] = true
	case "Unlock":
		delete(out, key+"/W")
	case "RUnlock":
		delete(out, key+"/R")
	}
	return out
}

func (m *MustLocks) analyseFn(fn *ssa.Function) {
	ent := m.entry[fn]
	if ent == nil || len(fn.Blocks) == 0 {
		return
	}
	// iterative forward must-analysis
	out := map[*ssa.BasicBlock]lockSet{}
	m.inB[fn.Blocks[0]] = ent.clone()
	changed := true
	for changed {
		changed = false
		for _, b := range fn.Blocks {
			var in lockSet
			if b == fn.Blocks[0] {
				in = ent.clone()
			} else {
				first := true
				for _, p := range b.Preds {
					po, ok := out[p]
					if !ok {
						continue // unvisited = top
					}
					if first {
						in = po.clone()
						first = false
					} else {
						in = intersect(in, po)
					}
				}
				if first {
					continue
				}
			}
			cur := in
			for _, instr := range b.Instrs {
				cur = transfer(cur, instr)
			}
			if old, ok := out[b]; !ok || !old.equal(cur) {
				out[b] = cur
				changed = true
			}
			m.inB[b] = in
		}
	}
}

// HeldAt returns the must-held locks just before instr (nil if unreachable/top).
func (m *MustLocks) HeldAt(instr ssa.Instruction) lockSet {
	b := instr.Block()
	in, ok := m.inB[b]
	if !ok {
		return nil
	}
	cur := in
	for _, x := range b.Instrs {
		if x == instr {
			return cur
		}
		cur = transfer(cur, x)
	}
	return cur
}

func (m *MustLocks) run() {
	fns := m.c.LibFns
	for iter := 0; iter < 40; iter++ {
		for _, fn := range fns {
			m.analyseFn(fn)
		}
		changed := false
		// propagate call-site locksets to callee entries (intersection)
		next := map[*ssa.Function]lockSet{}
		for _, fn := range fns {
			if m.entry[fn] == nil {
				continue
			}
			for _, ci := range callInstrs(fn) {
				held := m.HeldAt(ci)
				if held == nil {
					continue
				}
				if _, isGo := ci.(*ssa.Go); isGo {
					held = lockSet{} // a new goroutine holds nothing
				}
				if _, isDefer := ci.(*ssa.Defer); isDefer {
					// deferred calls run at exit: conservatively nothing held... except deferred-unlock idiom keeps locks; use empty
					held = lockSet{}
				}
				for _, callee := range m.c.Callees(ci) {
					if callee.Blocks == nil || callee.Pkg == nil || !isLibPkgPath(callee.Pkg.Pkg.Path()) {
						continue
					}
					if m.edgeOK != nil && !m.edgeOK(ci, callee) {
						continue
					}
					if cur, ok := next[callee]; ok {
						next[callee] = intersect(cur, held)
					} else {
						next[callee] = held.clone()
					}
				}
			}
			// closures created here and not called directly (callbacks stored): handled when called
		}
		for fn, ls := range next {
			if m.roots[fn] {
				ls = lockSet{}
			}
			if old := m.entry[fn]; old == nil || !old.equal(ls) {
				m.entry[fn] = ls
				changed = true
			}
		}
		if !changed {
			break
		}
	}
}

// ---- field access inventory -------------------------------------------------------

type fieldAccess struct {
	Field *types.Var
	Owner string // owner type short name
	Write bool
	Instr ssa.Instruction
	Fn    *ssa.Function
	Kind  string // load, store, map-update, map-lookup, elem-store, append...
}

// fieldAccesses lists struct-field accesses of fn (library struct types only).
func fieldAccesses(fn *ssa.Function) []fieldAccess {
	var out []fieldAccess
	add := func(f *types.Var, owner types.Type, w bool, in ssa.Instruction, kind string) {
		out = append(out, fieldAccess{Field: f, Owner: typeShort(owner), Write: w, Instr: in, Fn: fn, Kind: kind})
	}
	allInstrs(fn, func(in ssa.Instruction) {
		switch x := in.(type) {
		case *ssa.Store:
			if fa, ok := x.Addr.(*ssa.FieldAddr); ok {
				add(fieldOfAddr(fa), fa.X.Type(), true, in, "store")
			}
			// element store through a container loaded from a field
			if ia, ok := x.Addr.(*ssa.IndexAddr); ok {
				if f, base, ok := fieldLoad(ia.X); ok {
					add(f, base.Type(), true, in, "elem-store")
				}
			}
		case *ssa.UnOp:
			if x.Op == token.MUL {
				if fa, ok := x.X.(*ssa.FieldAddr); ok {
					add(fieldOfAddr(fa), fa.X.Type(), false, in, "load")
				}
			}
		case *ssa.Field:
			st := x.X.Type().Underlying().(*types.Struct)
			add(st.Field(x.Field), x.X.Type(), false, in, "load")
		case *ssa.MapUpdate:
			if f, base, ok := fieldLoad(x.Map); ok {
				add(f, base.Type(), true, in, "map-update")
			}
		case *ssa.Lookup:
			if f, base, ok := fieldLoad(x.X); ok {
				if _, isMap := x.X.Type().Underlying().(*types.Map); isMap {
					add(f, base.Type(), false, in, "map-lookup")
				}
			}
		case *ssa.Call:
			if b, ok := x.Call.Value.(*ssa.Builtin); ok && b.Name() == "delete" && len(x.Call.Args) > 0 {
				if f, base, ok := fieldLoad(x.Call.Args[0]); ok {
					add(f, base.Type(), true, in, "map-delete")
				}
			}
		}
	})
	return out
}

// ---- reachability with filtered edges -------------------------------------------

// optionEdgeFeasible: a call `f(MakeInterface(T))` to an option-shaped closure
// (single interface parameter, all effects behind type assertions on it) is a
// no-op unless the closure asserts T.
func (c *Ctx) optionEdgeFeasible(ci ssa.CallInstruction, callee *ssa.Function) bool {
	args := ci.Common().Args
	if len(args) != 1 || len(callee.Params) != 1 {
		return true
	}
	if _, ok := callee.Params[0].Type().Underlying().(*types.Interface); !ok {
		return true
	}
	mi, ok := args[0].(*ssa.MakeInterface)
	if !ok {
		return true
	}
	boxed := mi.X.Type()
	asserted := 0
	match := false
	otherUse := false
	for _, ref := range *callee.Params[0].Referrers() {
		switch x := ref.(type) {
		case *ssa.TypeAssert:
			asserted++
			if types.Identical(x.AssertedType, boxed) {
				match = true
			}
		case *ssa.DebugRef:
		default:
			otherUse = true
		}
	}
	if asserted == 0 || otherUse {
		return true
	}
	return match
}

// reachFns computes functions reachable from roots following call edges accepted by ok.
func (c *Ctx) reachFns(roots []*ssa.Function, ok func(site ssa.CallInstruction, callee *ssa.Function) bool, skipGo bool) map[*ssa.Function]bool {
	seen := map[*ssa.Function]bool{}
	var work []*ssa.Function
	for _, r := range roots {
		if r != nil && !seen[r] {
			seen[r] = true
			work = append(work, r)
		}
	}
	for len(work) > 0 {
		fn := work[len(work)-1]
		work = work[:len(work)-1]
		if fn.Blocks == nil {
			continue
		}
		for _, ci := range callInstrs(fn) {
			if _, isGo := ci.(*ssa.Go); isGo && skipGo {
				continue
			}
			for _, callee := range c.Callees(ci) {
				if callee.Pkg == nil || !isLibPkgPath(callee.Pkg.Pkg.Path()) {
					continue
				}
				if ok != nil && !ok(ci, callee) {
					continue
				}
				if !seen[callee] {
					seen[callee] = true
					work = append(work, callee)
				}
			}
		}
	}
	return seen
}

// ---- channel operations -----------------------------------------------------------

type chanOp struct {
	Kind           string     // send, recv, close, select-send, select-recv, make
	Field          *types.Var // struct field holding the channel (nil for locals)
	Owner          string
	Local          ssa.Value // for local channels: the MakeChan value (or param / free var)
	Instr          ssa.Instruction
	Fn             *ssa.Function
	InSelect       bool
	SelectHasOther bool  // select has another case or default
	BufSize        int64 // for make
}

// chanOrigin resolves a channel value to a struct field or a local origin.
func chanOrigin(v ssa.Value) (*types.Var, string, ssa.Value) {
	for i := 0; i < 6; i++ {
		if f, base, ok := fieldLoad(v); ok {
			return f, typeShort(base.Type()), nil
		}
		switch x := v.(type) {
		case *ssa.ChangeType:
			v = x.X
			continue
		case *ssa.UnOp:
			if x.Op == token.MUL {
				// captured local: *freevar or *alloc
				if fv, ok := x.X.(*ssa.FreeVar); ok {
					if b := freeVarBinding(fv); b != nil {
						if a, ok := b.(*ssa.Alloc); ok {
							for _, ref := range *a.Referrers() {
								if st, ok := ref.(*ssa.Store); ok && st.Addr == a {
									return chanOrigin(st.Val)
								}
							}
						}
						return nil, "", b
					}
				}
				if a, ok := x.X.(*ssa.Alloc); ok {
					for _, ref := range *a.Referrers() {
						if st, ok := ref.(*ssa.Store); ok && st.Addr == a {
							return chanOrigin(st.Val)
						}
					}
				}
			}
		case *ssa.FreeVar:
			if b := freeVarBinding(x); b != nil {
				v = b
				continue
			}
		}
		break
	}
	return nil, "", v
}

func chanOpsOf(fn *ssa.Function) []chanOp {
	var out []chanOp
	mk := func(kind string, ch ssa.Value, in ssa.Instruction) chanOp {
		f, owner, loc := chanOrigin(ch)
		return chanOp{Kind: kind, Field: f, Owner: owner, Local: loc, Instr: in, Fn: fn}
	}
	allInstrs(fn, func(in ssa.Instruction) {
		switch x := in.(type) {
		case *ssa.Send:
			out = append(out, mk("send", x.Chan, in))
		case *ssa.UnOp:
			if x.Op == token.ARROW {
				out = append(out, mk("recv", x.X, in))
			}
		case *ssa.Select:
			other := !x.Blocking || len(x.States) > 1
			for _, st := range x.States {
				k := "select-recv"
				if st.Dir == types.SendOnly {
					k = "select-send"
				}
				op := mk(k, st.Chan, in)
				op.InSelect = true
				op.SelectHasOther = other
				out = append(out, op)
			}
		case *ssa.Call:
			if b, ok := x.Call.Value.(*ssa.Builtin); ok && b.Name() == "close" && len(x.Call.Args) == 1 {
				out = append(out, mk("close", x.Call.Args[0], in))
			}
		case *ssa.Defer:
			if b, ok := x.Call.Value.(*ssa.Builtin); ok && b.Name() == "close" && len(x.Call.Args) == 1 {
				op := mk("close", x.Call.Args[0], in)
				op.Kind = "defer-close"
				out = append(out, op)
			}
		}
	})
	return out
}

// chanFieldBuffer finds the buffer sizes with which a channel field is made (stores of MakeChan into the field).
func (c *Ctx) chanFieldBuffer(f *types.Var) (sizes []int64, known bool) {
	known = true
	found := false
	for _, fn := range c.LibFns {
		allInstrs(fn, func(in ssa.Instruction) {
			ff, _, val, ok := fieldStore(in)
			if !ok || ff != f {
				return
			}
			found = true
			v := val
			if ct, ok := v.(*ssa.ChangeType); ok {
				v = ct.X
			}
			if mc, ok := v.(*ssa.MakeChan); ok {
				if n, ok := constInt(mc.Size); ok {
					sizes = append(sizes, n)
					return
				}
			}
			// stored from a local that holds a MakeChan
			if _, _, loc := chanOrigin(v); loc != nil {
				if mc, ok := loc.(*ssa.MakeChan); ok {
					if n, ok := constInt(mc.Size); ok {
						sizes = append(sizes, n)
						return
					}
				}
			}
			known = false
		})
	}
	return sizes, known && found
}

func describeOp(c *Ctx, op chanOp) string {
	name := "local"
	if op.Field != nil {
		name = op.Owner + "." + op.Field.Name()
	}
	return fmt.Sprintf("%s %s in %s (%s)", op.Kind, name, shortFn(op.Fn), c.Pos(op.Instr.Pos()))
}

func isSyncOrChanType(t types.Type) bool {
	switch u := t.Underlying().(type) {
	case *types.Chan:
		return true
	case *types.Pointer:
		return isSyncOrChanType(u.Elem())
	}
	s := t.String()
	return strings.HasPrefix(s, "sync.") || strings.HasPrefix(s, "sync/atomic.") || strings.HasPrefix(s, "*sync.")
}
