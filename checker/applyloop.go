package main

// Operation-option constructors apply the whole option list: a range loop over the list in order, left only on a
// non-ignored error. (The driver constructors are covered by C19/O4; the per-operation ones carry the settings
// several other properties rely on: privilege level, stop-on-failed / failure strings, per-operation timeout,
// NETCONF filter / defaults.)

import (
	"strings"

	"golang.org/x/tools/go/ssa"
)

func checkOperationApplyLoop(c *Ctx, r *Report, rule, pkgRel string) {
	fn := c.LookupFunc(pkgRel, "", "NewOperation")
	if fn == nil {
		r.Anchor(rule, pkgRel+".NewOperation")
		return
	}
	n := len(fn.Params)
	if n == 0 || !fn.Signature.Variadic() {
		r.Unk(rule, shortFn(fn)+" apply-loop", c.Pos(fn.Pos()), "NewOperation has no variadic option list")
		return
	}
	sub := NewReport("x")
	got := map[string]bool{}
	c.applyTargets(fn, fn.Params[n-1], sub, map[*ssa.Function]bool{}, got)
	cnt := 0
	for _, o := range sub.Obs {
		construct := strings.TrimPrefix(o.Key, o.Rule+" @ ")
		msg := o.Msg
		if o.Status != "discharged" {
			msg += " -- every per-operation option listed after the point where the loop is left is silently dropped (e.g. the privilege level / stop-on-failed / timeout given after another option)"
		}
		r.add(rule, construct, o.Status, o.Pos, msg, nil)
		cnt++
	}
	if cnt == 0 {
		r.Bad(rule, shortFn(fn)+" apply-loop", c.Pos(fn.Pos()), "NewOperation never applies its option list to the operation object")
	}
}
