package main

// Rules added after the eighth round of independently seeded changes.

import (
	"fmt"
	"go/token"
	"go/types"
	"sort"
	"strings"

	"golang.org/x/tools/go/ssa"
)

// optionSettableFields: the struct fields some driver / operation option stores into.
func optionSettableFields(c *Ctx) map[*types.Var]string {
	out := map[*types.Var]string{}
	for _, fn := range c.LibFns {
		if fn.Parent() == nil || fn.Pkg == nil {
			continue
		}
		p := fn.Pkg.Pkg.Path()
		if !strings.HasSuffix(p, "/driver/options") && !strings.HasSuffix(p, "/driver/opoptions") {
			continue
		}
		if len(fn.Params) != 1 {
			continue
		}
		if _, isIface := fn.Params[0].Type().Underlying().(*types.Interface); !isIface {
			continue
		}
		allInstrs(fn, func(in ssa.Instruction) {
			if f, _, _, ok := fieldStore(in); ok {
				out[f] = shortFn(fn.Parent())
			}
		})
	}
	return out
}

// dumpSettingWriters lists every store to an option-settable field outside option closures (debug aid, -dump).
func settingWriters(c *Ctx) map[string][]string {
	set := optionSettableFields(c)
	out := map[string][]string{}
	for _, fn := range c.LibFns {
		if fn.Pkg == nil {
			continue
		}
		p := fn.Pkg.Pkg.Path()
		if strings.HasSuffix(p, "/driver/options") || strings.HasSuffix(p, "/driver/opoptions") {
			continue
		}
		allInstrs(fn, func(in ssa.Instruction) {
			if f, _, _, ok := fieldStore(in); ok {
				if _, isSetting := set[f]; isSetting {
					k := shortFn(fn)
					out[k] = append(out[k], f.Name())
				}
			}
		})
	}
	for k := range out {
		sort.Strings(out[k])
	}
	return out
}

var _ = fmt.Sprint
var _ = token.ADD

// ---- who may write a setting ---------------------------------------------------------------------------------

// settingsOwnedAtRunTime: the option-settable fields that library code other than options and constructors may also
// write, and the package that owns them (confirmed by reading; one line of reason each).
var settingsOwnedAtRunTime = map[string][]string{
	"PromptPattern":      {"driver/netconf", "driver/network"}, // the NETCONF driver installs the delimiter of the negotiated version, the network driver the joined pattern of its levels
	"FailedWhenContains": {"driver/generic"},                   // an operation without its own failure strings inherits the driver's
	"CompletePatterns":   {"driver/network"},                   // the escalation dialogue's completion patterns (an option closure built in escalate)
	"OpenArgs":           {"transport"},                        // the system transport builds its argument list when none was given
}

// checkSettingsWriters: a setting that an option can store is otherwise written only by constructors (defaults) and by
// the owners listed above: nothing overrides what the user configured behind their back.
func checkSettingsWriters(c *Ctx, r *Report, rule string, onlyPkgs []string) {
	set := optionSettableFields(c)
	if len(set) < 30 {
		r.Unk(rule, "option-settable fields", "-", fmt.Sprintf("only %d fields are stored by options (>= 30 confirmed by reading)", len(set)))
		return
	}
	n := 0
	for _, fn := range c.LibFns {
		if fn.Pkg == nil {
			continue
		}
		p := fn.Pkg.Pkg.Path()
		if strings.HasSuffix(p, "/driver/options") || strings.HasSuffix(p, "/driver/opoptions") {
			continue
		}
		root := fn
		for root.Parent() != nil {
			root = root.Parent()
		}
		if isConstructorCode(c, root) {
			continue // constructors (and helpers only they call) set defaults; C19/O8 decides what they may do behind the option loop
		}
		if len(onlyPkgs) > 0 {
			in := false
			for _, q := range onlyPkgs {
				if strings.HasSuffix(p, "/"+q) {
					in = true
				}
			}
			if !in {
				continue
			}
		}
		k := 0
		allInstrs(fn, func(in ssa.Instruction) {
			f, base, _, ok := fieldStore(in)
			if !ok {
				return
			}
			opt, isSetting := set[f]
			if !isSetting {
				return
			}
			n++
			k++
			construct := fmt.Sprintf("%s writes %s#%d", shortFn(fn), f.Name(), k)
			if _, fresh := base.(*ssa.Alloc); fresh {
				r.OK(rule, construct, c.Pos(in.Pos()), "initialises an object allocated in this very function")
				return
			}
			if call, isCall := base.(*ssa.Extract); isCall {
				base = call.Tuple
			}
			if call, isCall := base.(*ssa.Call); isCall {
				if h := call.Call.StaticCallee(); h != nil && strings.HasPrefix(h.Name(), "New") && guardedBy(in, func(cv ssa.Value, truth bool) bool {
					cmp, isCmp := cv.(*ssa.BinOp)
					if !isCmp || cmp.Op != token.EQL || !truth {
						return false
					}
					for _, side := range [][2]ssa.Value{{cmp.X, cmp.Y}, {cmp.Y, cmp.X}} {
						ff, _, isLoad := fieldLoad(side[0])
						if _, isConst := side[1].(*ssa.Const); isLoad && ff == f && isConst {
							return true
						}
					}
					return false
				}) {
					r.OK(rule, construct, c.Pos(in.Pos()), "fills a default into this call's own options object where the caller left the setting at its zero value")
					return
				}
			}
			allowed := false
			for _, q := range settingsOwnedAtRunTime[f.Name()] {
				if strings.HasSuffix(p, "/"+q) {
					allowed = true
				}
			}
			if allowed && root.Name() == "Close" {
				r.Bad(rule, construct, c.Pos(in.Pos()), fmt.Sprintf("the setting %s (stored by option %s) is cleared or rewritten while the object is being closed: the owner of this setting derives it once from what the caller configured, and closing is not configuring -- a caller that closes and opens the same object again gets a session built from something other than its options", f.Name(), opt))
			} else if allowed {
				r.OK(rule, construct, c.Pos(in.Pos()), "run-time owner of this setting")
			} else {
				r.Bad(rule, construct, c.Pos(in.Pos()), fmt.Sprintf("the setting %s (stored by option %s) is overwritten at run time by code that is neither an option nor a constructor: what the caller configured -- or deliberately left off -- is changed behind their back, for every later operation of the object", f.Name(), opt))
			}
		})
	}
	if n == 0 {
		r.OK(rule, "run-time writers of settings", "-", "none in scope")
	}
}

// ---- appending to a re-slice of memory the function does not own ---------------------------------------------

// ownedByCaller: v is (a two-index re-slice of) a slice that came in through a parameter, a captured variable or a
// field load -- memory whose spare capacity still belongs to somebody else.
func ownedByCaller(v ssa.Value, depth int) (ssa.Value, bool) {
	if depth > 6 {
		return nil, false
	}
	switch x := v.(type) {
	case *ssa.Parameter:
		return x, true
	case *ssa.FreeVar:
		return x, true
	case *ssa.Slice:
		if x.Max != nil {
			return nil, false // a three-index slice caps the capacity: appends reallocate
		}
		return ownedByCaller(x.X, depth+1)
	case *ssa.UnOp:
		if x.Op == token.MUL {
			if _, isFA := x.X.(*ssa.FieldAddr); isFA {
				return x, true
			}
			if a, isAlloc := x.X.(*ssa.Alloc); isAlloc {
				// a parameter spilled to a cell
				for _, ref := range *a.Referrers() {
					if st, ok := ref.(*ssa.Store); ok && st.Addr == a {
						if p, ok := st.Val.(*ssa.Parameter); ok {
							return p, true
						}
					}
				}
			}
		}
	case *ssa.Phi:
		for _, e := range x.Edges {
			if o, ok := ownedByCaller(e, depth+1); ok {
				return o, true
			}
		}
	}
	return nil, false
}

// checkNoAppendIntoForeignSlice: append(x[:n], ...) where x is not the function's own fresh slice writes into the spare
// capacity of the caller's (or the object's) buffer: bytes the owner still uses are overwritten.
func checkNoAppendIntoForeignSlice(c *Ctx, r *Report, rule string, pkgs []string) {
	n := 0
	for _, fn := range c.LibFns {
		if fn.Pkg == nil {
			continue
		}
		if len(pkgs) > 0 {
			in := false
			for _, q := range pkgs {
				if strings.HasSuffix(fn.Pkg.Pkg.Path(), "/"+q) {
					in = true
				}
			}
			if !in {
				continue
			}
		}
		k := 0
		for _, ci := range callInstrs(fn) {
			call, ok := ci.(*ssa.Call)
			if !ok {
				continue
			}
			b, ok := call.Call.Value.(*ssa.Builtin)
			if !ok || b.Name() != "append" || len(call.Call.Args) < 1 {
				continue
			}
			sl, ok := call.Call.Args[0].(*ssa.Slice)
			if !ok {
				// the accumulator of a loop that starts from such a view: rest := opts[:0]; rest = append(rest, o)
				if phi, isPhi := call.Call.Args[0].(*ssa.Phi); isPhi {
					for _, e := range phi.Edges {
						if s2, isSl := e.(*ssa.Slice); isSl {
							sl, ok = s2, true
						}
					}
				}
			}
			if !ok || sl.Max != nil || sl.High == nil {
				continue // only a shortened view (x[:n], x[a:b]) leaves foreign bytes behind its end
			}
			owner, foreign := ownedByCaller(sl.X, 0)
			if !foreign {
				continue
			}
			// x = append(x[:n], ...) assigned back to the very variable / field it was cut from is the owner's own edit
			if selfAssign(call, sl.X) {
				continue
			}
			n++
			k++
			r.Bad(rule, fmt.Sprintf("%s append into a foreign buffer#%d", shortFn(fn), k), c.Pos(call.Pos()), fmt.Sprintf("append to a shortened view of %s, memory this function was only handed: the appended bytes overwrite what lies behind the view in the owner's buffer (the request about to be written, the caller's option list, queued output)", owner.Name()))
		}
	}
	if n == 0 {
		r.OK(rule, "appends to re-sliced foreign memory", "-", "none")
	}
}

// selfAssign: the result of the append is stored back into the location the sliced value was loaded from.
func selfAssign(call *ssa.Call, src ssa.Value) bool {
	u, ok := src.(*ssa.UnOp)
	if !ok || u.Op != token.MUL {
		return false
	}
	for _, ref := range *call.Referrers() {
		if st, ok := ref.(*ssa.Store); ok && st.Val == ssa.Value(call) {
			if st.Addr == u.X {
				return true
			}
			fa1, ok1 := st.Addr.(*ssa.FieldAddr)
			fa2, ok2 := u.X.(*ssa.FieldAddr)
			if ok1 && ok2 && fa1.Field == fa2.Field && fa1.X == fa2.X {
				return true
			}
		}
	}
	return false
}

// ---- C04: GetPrompt of the generic driver hands on what the channel matched -------------------------------------

func checkGenericGetPromptPassthrough(c *Ctx, r *Report, rule string) {
	fn := c.LookupFunc("driver/generic", "Driver", "GetPrompt")
	chGet := c.LookupFunc("channel", "Channel", "GetPrompt")
	if fn == nil || chGet == nil {
		r.Anchor(rule, "(*generic.Driver).GetPrompt / (*channel.Channel).GetPrompt")
		return
	}
	calls := staticCallsTo(fn, chGet)
	construct := "generic.Driver.GetPrompt returns the channel's match unchanged"
	if len(calls) != 1 {
		r.Bad(rule, construct, c.Pos(fn.Pos()), "the driver's GetPrompt does not ask the channel for the prompt exactly once")
		return
	}
	b := resultOf(calls[0].(*ssa.Call), 0)
	ok := true
	n := 0
	allInstrs(fn, func(in ssa.Instruction) {
		ret, isRet := in.(*ssa.Return)
		if !isRet || len(ret.Results) != 2 || !isNilConst(ret.Results[1]) {
			return
		}
		n++
		v := ret.Results[0]
		if cv, isConv := v.(*ssa.Convert); isConv {
			v = cv.X
		}
		if v != b {
			ok = false
		}
	})
	r.Check(ok && n > 0, rule, construct, c.Pos(fn.Pos()), "string(bytes matched by the channel's prompt pattern)",
		"the prompt handed to callers is not the channel's match as it is (trimmed, cut to a line, ...): the network driver matches each level's own -- possibly multi-line -- pattern against this string, so levels whose prompts span lines can no longer be told apart or recognised at all")
}

// ---- C04: the cached privilege level only ever comes from a prompt ---------------------------------------------

func checkLevelCacheWriters(c *Ctx, r *Report, rule string) {
	f := c.LookupField("driver/network", "Driver", "CurrentPriv")
	det := c.LookupFunc("driver/network", "Driver", "determineCurrentPriv")
	if f == nil || det == nil {
		r.Anchor(rule, "network.Driver.CurrentPriv / determineCurrentPriv")
		return
	}
	n := 0
	for _, fn := range c.LibFns {
		k := 0
		allInstrs(fn, func(in ssa.Instruction) {
			ff, _, val, ok := fieldStore(in)
			if !ok || ff != f {
				return
			}
			n++
			k++
			construct := fmt.Sprintf("%s writes CurrentPriv#%d", shortFn(fn), k)
			root := fn
			for root.Parent() != nil {
				root = root.Parent()
			}
			if isConstructorCode(c, root) {
				r.OK(rule, construct, c.Pos(in.Pos()), "constructor default")
				return
			}
			detected := false
			for _, ci := range callInstrsDeep(root, 1) {
				if ci.Common().StaticCallee() == det {
					detected = true
				}
			}
			_ = val
			if detected {
				r.OK(rule, construct, c.Pos(in.Pos()), "in the function that determines the level from the device's prompt")
			} else {
				r.Bad(rule, construct, c.Pos(in.Pos()), "the cached privilege level is written (set or forgotten) outside the function that determines it from the device's prompt: send-command trusts this cache and skips the acquire when it equals the default desired level, and the acquire uses it as the first tie-breaker between levels whose prompts look alike (the junos configuration modes) -- so commands run at whatever level the device is really in")
			}
		})
	}
	if n == 0 {
		r.Unk(rule, "writers of CurrentPriv", "-", "nothing writes the cached privilege level")
	}
}

// ---- C07: package-level state is not written at run time --------------------------------------------------------

// checkGlobalsNotWrittenAtRunTime: package-level maps / slices / variables of the library are written only by init
// functions and inside sync.Once.Do closures; a lazily filled package-level cache is shared by every connection of
// the process and by their reader goroutines.
func checkGlobalsNotWrittenAtRunTime(c *Ctx, r *Report, rule string) {
	onceClosures := map[*ssa.Function]bool{}
	for _, fn := range c.LibFns {
		for _, ci := range callInstrs(fn) {
			o := CalleeObj(ci)
			if o == nil || o.Pkg() == nil || o.Pkg().Path() != "sync" || o.Name() != "Do" || recvTypeName(o) != "Once" || len(ci.Common().Args) != 2 {
				continue
			}
			switch a := ci.Common().Args[1].(type) {
			case *ssa.MakeClosure:
				if f, ok := a.Fn.(*ssa.Function); ok {
					onceClosures[f] = true
				}
			case *ssa.Function:
				onceClosures[a] = true
			}
		}
	}
	n := 0
	bad := 0
	for _, fn := range c.LibFns {
		if fn.Pkg == nil || fn.Name() == "init" || strings.HasPrefix(fn.Name(), "init#") || onceClosures[fn] {
			continue
		}
		if strings.HasPrefix(c.Pos(fn.Pos()), "util/testclean.go") {
			continue // fixture normalisation used by the test suites only
		}
		k := 0
		allInstrs(fn, func(in ssa.Instruction) {
			var g *ssa.Global
			switch x := in.(type) {
			case *ssa.Store:
				g, _ = x.Addr.(*ssa.Global)
			case *ssa.MapUpdate:
				if u, ok := x.Map.(*ssa.UnOp); ok {
					g, _ = u.X.(*ssa.Global)
				}
			}
			if g == nil || g.Pkg == nil || !isLibPkgPath(g.Pkg.Pkg.Path()) {
				return
			}
			n++
			k++
			bad++
			r.Bad(rule, fmt.Sprintf("%s writes package variable %s#%d", shortFn(fn), g.Name(), k), c.Pos(in.Pos()), "a package-level variable is written at run time, outside init and outside a sync.Once: it is shared by every connection of the process and by their reader goroutines, so the write races with their reads (concurrent map read and map write aborts the process)")
		})
	}
	if bad == 0 {
		r.OK(rule, "package-level state", "-", fmt.Sprintf("written only by init functions and %d sync.Once closures", len(onceClosures)))
	}
}

// ---- C01: StripANSI applies the pattern to its whole argument ---------------------------------------------------

func checkStripWhole(c *Ctx, r *Report, rule string) {
	fn := c.LookupFunc("util", "", "StripANSI")
	if fn == nil || len(fn.Params) != 1 {
		r.Anchor(rule, "util.StripANSI")
		return
	}
	b := fn.Params[0]
	construct := "StripANSI strips its whole argument"
	bad := ""
	pos := fn.Pos()
	n := 0
	allInstrs(fn, func(in ssa.Instruction) {
		ret, ok := in.(*ssa.Return)
		if !ok || len(ret.Results) != 1 {
			return
		}
		n++
		v := ret.Results[0]
		if call, isCall := v.(*ssa.Call); isCall {
			if o := CalleeObj(call); o != nil && o.Pkg() != nil && o.Pkg().Path() == "regexp" && o.Name() == "ReplaceAll" && len(call.Call.Args) == 3 && call.Call.Args[1] == ssa.Value(b) {
				return
			}
		}
		if v == ssa.Value(b) {
			// handing the bytes back untouched is right only where they are known to hold no ESC at all
			if guardedBy(ret, func(cv ssa.Value, t bool) bool {
				switch x := cv.(type) {
				case *ssa.Call:
					if o := CalleeObj(x); o != nil && o.Name() == "Contains" && !t && len(x.Call.Args) == 2 && x.Call.Args[0] == ssa.Value(b) {
						return true
					}
				case *ssa.BinOp:
					call, isCall := x.X.(*ssa.Call)
					if !isCall {
						return false
					}
					o := CalleeObj(call)
					if o == nil || o.Name() != "IndexByte" || call.Call.Args[0] != ssa.Value(b) {
						return false
					}
					k, isK := constInt(x.Y)
					if !isK {
						return false
					}
					// idx < 0 | idx == -1 | !(idx >= 0) | !(idx > -1) | !(idx != -1)
					return (x.Op == token.LSS && k == 0 && t) || (x.Op == token.EQL && k == -1 && t) || (x.Op == token.GEQ && k == 0 && !t) || (x.Op == token.GTR && k == -1 && !t) || (x.Op == token.NEQ && k == -1 && !t)
				}
				return false
			}) {
				return
			}
		}
		bad = "a return of StripANSI is not the escape-sequence pattern's ReplaceAll over the whole argument (nor the argument itself where it provably holds no ESC): a chunk that starts with, or is cut in front of, an escape sequence keeps its raw ESC bytes -- in the output, or in front of the prompt, which then never matches"
		pos = ret.Pos()
	})
	if bad == "" && n > 0 {
		r.OK(rule, construct, c.Pos(fn.Pos()), "ReplaceAll(pattern, b, empty) on every path")
	} else {
		r.Bad(rule, construct, c.Pos(pos), bad)
	}
}

// ---- C02: failed only on a marker ----------------------------------------------------------------------------------

func checkMarkOnlyOnMarker(c *Ctx, r *Report, rule string) {
	fn := c.LookupFunc("response", "NetconfResponse", "recordFailed")
	any := c.LookupFunc("util", "", "ByteContainsAny")
	failedF := c.LookupField("response", "NetconfResponse", "Failed")
	fwc := c.LookupField("response", "NetconfResponse", "FailedWhenContains")
	if fn == nil || any == nil || failedF == nil || fwc == nil {
		r.Anchor(rule, "(*response.NetconfResponse).recordFailed / util.ByteContainsAny / Failed / FailedWhenContains")
		return
	}
	n := 0
	allInstrs(fn, func(in ssa.Instruction) {
		f, _, val, ok := fieldStore(in)
		if !ok || f != failedF || isNilConst(val) {
			return
		}
		n++
		construct := fmt.Sprintf("recordFailed marks failed only on a marker#%d", n)
		okGuard := guardedBy(in, func(cv ssa.Value, t bool) bool {
			call, isCall := cv.(*ssa.Call)
			if !isCall || !t {
				return false
			}
			if call.Call.StaticCallee() == any && len(call.Call.Args) == 2 && sameParam(call.Call.Args[0], fn.Params[1]) {
				if lf, _, isLoad := fieldLoad(call.Call.Args[1]); isLoad && lf == fwc {
					return true
				}
			}
			if o := CalleeObj(call); o != nil && o.Pkg() != nil && o.Pkg().Path() == "bytes" && o.Name() == "Contains" {
				return true // the marker scan written out with bytes.Contains on named constants
			}
			return false
		})
		if okGuard {
			r.OK(rule, construct, c.Pos(in.Pos()), "dominated by the marker scan's true edge")
		} else {
			r.Bad(rule, construct, c.Pos(in.Pos()), "the response can be marked failed on a path on which the failure-marker scan did not hit (an additional, looser test was or-ed in): a successful reply whose payload merely resembles the marker is reported as failed")
		}
	})
	if n == 0 {
		r.Unk(rule, "recordFailed", c.Pos(fn.Pos()), "recordFailed never stores a failure")
	}
}

// ---- C11: the logging package formats what it is given, nothing else ----------------------------------------------

// checkLogArgsUntransformed: every formatting method of logging.Instance hands its variadic arguments to fmt as they
// are. The library logs objects that reference secrets behind pointers (interactive events); fmt prints nested
// pointers as addresses, anything that walks the arguments (reflection, custom dumping) prints what they point at.
func checkLogArgsUntransformed(c *Ctx, r *Report, rule string) {
	n := 0
	for _, m := range exportedMethodsOf(c, "logging", "Instance") {
		sig := m.Signature
		if !sig.Variadic() || len(m.Params) == 0 {
			continue
		}
		va := m.Params[len(m.Params)-1]
		n++
		construct := "logging.Instance." + m.Name() + " formats its arguments as given"
		bad := argsGoToFmtOnly(c, va, 0)
		if bad == "" {
			r.OK(rule, construct, c.Pos(m.Pos()), "a ...interface{} goes to fmt.Sprint* unchanged")
		} else {
			r.Bad(rule, construct, c.Pos(m.Pos()), bad+": the library logs event lists and option objects that reference secrets behind pointers; printed by fmt they show as addresses, walked by anything else their contents reach the log")
		}
	}
	pk := c.PkgBy[modPath+"/logging"]
	if pk != nil && pk.Types != nil {
		for _, imp := range pk.Types.Imports() {
			if imp.Path() == "reflect" || imp.Path() == "encoding/json" {
				r.Bad(rule, "logging imports "+imp.Path(), "-", "the logging package walks values by reflection: objects that reference secrets behind pointers are printed by content")
			}
		}
	}
	if n == 0 {
		r.Unk(rule, "logging.Instance", "-", "no variadic formatting method found")
	}
}

// ---- C12 (and others): compiled patterns are never overwritten in place --------------------------------------------

func checkNoRegexpOverwrite(c *Ctx, r *Report, rule string) {
	bad := 0
	for _, fn := range c.LibFns {
		allInstrs(fn, func(in ssa.Instruction) {
			st, ok := in.(*ssa.Store)
			if !ok {
				return
			}
			if n, isNamed := st.Val.Type().(*types.Named); isNamed && n.Obj().Pkg() != nil && n.Obj().Pkg().Path() == "regexp" && n.Obj().Name() == "Regexp" {
				bad++
				r.Bad(rule, fmt.Sprintf("%s overwrites a compiled pattern in place#%d", shortFn(fn), bad), c.Pos(in.Pos()), "a regexp.Regexp value is copied over another one through its pointer: every holder of that pointer -- the default prompt pattern is one process-wide object shared by all channels -- now matches the new expression, so another driver's operations are paced by this driver's prompts")
			}
		})
	}
	if bad == 0 {
		r.OK(rule, "compiled patterns", "-", "patterns are replaced by assigning a new pointer, never overwritten in place")
	}
}

// ---- C16: a transport's Close is an orderly close -----------------------------------------------------------------

func checkNoAbortiveClose(c *Ctx, r *Report, rule string) {
	bad := 0
	for _, fn := range c.LibFns {
		if fn.Pkg == nil || fn.Pkg.Pkg.Path() != modPath+"/transport" {
			continue
		}
		for _, ci := range callInstrs(fn) {
			o := CalleeObj(ci)
			if o == nil || o.Pkg() == nil || o.Pkg().Path() != "net" || o.Name() != "SetLinger" {
				continue
			}
			bad++
			r.Bad(rule, fmt.Sprintf("%s sets SO_LINGER#%d", shortFn(fn), bad), c.Pos(ci.Pos()), "the transport changes the linger behaviour of its connection: with a zero linger Close is an abortive close -- bytes Write accepted but the kernel has not sent yet are discarded and the peer sees a reset instead of the end of the stream")
		}
	}
	if bad == 0 {
		r.OK(rule, "orderly close", "-", "no transport touches SO_LINGER")
	}
}

// ---- C19: platform definitions are decoded by the YAML decoder only ------------------------------------------------

func checkDefinitionDecoder(c *Ctx, r *Report, rule string) {
	n, bad := 0, 0
	for _, fn := range c.LibFns {
		if fn.Pkg == nil || fn.Pkg.Pkg.Path() != modPath+"/platform" {
			continue
		}
		for _, ci := range callInstrs(fn) {
			o := CalleeObj(ci)
			if o == nil || o.Pkg() == nil || (o.Name() != "Unmarshal" && o.Name() != "Decode" && o.Name() != "UnmarshalStrict") {
				continue
			}
			n++
			construct := fmt.Sprintf("%s decodes with %s.%s", shortFn(fn), o.Pkg().Name(), o.Name())
			if strings.HasPrefix(o.Pkg().Path(), "gopkg.in/yaml.v3") {
				r.OK(rule, construct, c.Pos(ci.Pos()), "yaml.v3: scalars arrive as int / float64 / string / bool, sequences as []interface{}")
			} else {
				bad++
				r.Bad(rule, construct, c.Pos(ci.Pos()), "a platform definition is decoded by something other than yaml.v3: the option table asserts the Go types yaml.v3 produces (int for whole numbers); another decoder delivers other types (encoding/json: float64), so a definition with a documented value makes the constructor panic")
			}
		}
	}
	if n == 0 {
		r.Unk(rule, "definition decoder", "-", "the platform package never decodes a definition")
	}
}

// ---- C08: only the NETCONF reader consumes the channel's queue ------------------------------------------------------

func checkRPCDoesNotConsume(c *Ctx, r *Report, rule string) {
	sendRPC := c.LookupFunc("driver/netconf", "Driver", "sendRPC")
	if sendRPC == nil {
		r.Anchor(rule, "(*netconf.Driver).sendRPC")
		return
	}
	scope := c.reachFns([]*ssa.Function{sendRPC}, func(_ ssa.CallInstruction, callee *ssa.Function) bool {
		return callee.Pkg == sendRPC.Pkg
	}, false)
	construct := "sendRPC leaves the queue to the reader"
	for fn := range scope {
		for _, g := range append([]*ssa.Function{fn}, AnonFuncsDeep(fn)...) {
			for _, ci := range callInstrs(g) {
				o := CalleeObj(ci)
				if o == nil || o.Pkg() == nil || o.Pkg().Path() != modPath+"/channel" || recvTypeName(o) != "Channel" {
					continue
				}
				if strings.HasPrefix(o.Name(), "Read") || o.Name() == "GetPrompt" || strings.HasPrefix(o.Name(), "Send") {
					r.Bad(rule, construct, c.Pos(ci.Pos()), fmt.Sprintf("%s calls Channel.%s: an rpc takes output out of the channel's queue behind the back of the NETCONF reader -- the tail of a reply whose head the reader already holds is dropped, and the next reply is appended to the fragment and filed under the wrong message-id", shortFn(g), o.Name()))
					return
				}
			}
		}
	}
	r.OK(rule, construct, c.Pos(sendRPC.Pos()), fmt.Sprintf("%d function(s) below sendRPC: none reads from the channel", len(scope)))
}

// argsGoToFmtOnly: every use of the variadic argument slice is as the argument list of fmt.Sprint*, directly or through
// a helper of the logging package that does the same with its own variadic parameter. "" when so.
func argsGoToFmtOnly(c *Ctx, va ssa.Value, depth int) string {
	for _, ref := range *va.Referrers() {
		ci, ok := ref.(ssa.CallInstruction)
		if !ok {
			if _, isDbg := ref.(*ssa.DebugRef); isDbg {
				continue
			}
			return "the argument list is taken apart before formatting"
		}
		o := CalleeObj(ci)
		if o != nil && o.Pkg() != nil && o.Pkg().Path() == "fmt" && strings.HasPrefix(o.Name(), "Sprint") {
			continue
		}
		if h := ci.Common().StaticCallee(); h != nil && depth < 2 && h.Pkg != nil && h.Pkg.Pkg.Path() == modPath+"/logging" && h.Signature.Variadic() && len(h.Params) > 0 {
			args := ci.Common().Args
			if len(args) == len(h.Params) && args[len(args)-1] == va {
				if sub := argsGoToFmtOnly(c, h.Params[len(h.Params)-1], depth+1); sub == "" {
					continue
				}
			}
		}
		return "the argument list is handed to " + describeCall(c, ci) + " instead of fmt.Sprint*"
	}
	return ""
}

// ---- a range variable whose address outlives its iteration (module language version < 1.22) ---------------------

// checkLoopVarEscapes: with the per-loop variable semantics of the module's Go version, the address of a range
// variable that escapes the iteration (captured by a closure that is kept, taken as a pointer receiver) is shared by
// all iterations: every holder ends up looking at the LAST element.
func checkLoopVarEscapes(c *Ctx, r *Report, rule string, pkgs []string) {
	bad := 0
	for _, fn := range c.LibFns {
		if fn.Pkg == nil {
			continue
		}
		if len(pkgs) > 0 {
			in := false
			for _, q := range pkgs {
				if strings.HasSuffix(fn.Pkg.Pkg.Path(), "/"+q) {
					in = true
				}
			}
			if !in {
				continue
			}
		}
		allInstrs(fn, func(in ssa.Instruction) {
			st, ok := in.(*ssa.Store)
			if !ok {
				return
			}
			a, ok := st.Addr.(*ssa.Alloc)
			if !ok || !a.Heap || !inLoop(st.Block()) || inLoop(a.Block()) {
				return
			}
			// the stored value is the element the range statement hands out
			isElem := false
			switch v := st.Val.(type) {
			case *ssa.Extract:
				_, isElem = v.Tuple.(*ssa.Next)
			case *ssa.UnOp:
				if ia, ok := v.X.(*ssa.IndexAddr); ok && v.Op == token.MUL && rangeHeader(ia.Index) != nil {
					isElem = true
				}
			}
			if !isElem {
				return
			}
			// escaping uses inside the loop: captured by a closure, or its address (or a field's address) handed on
			esc := ""
			for _, ref := range *a.Referrers() {
				ri, ok := ref.(ssa.Instruction)
				if !ok || !inLoop(ri.Block()) {
					continue
				}
				switch x := ref.(type) {
				case *ssa.MakeClosure:
					esc = "captured by a function literal"
				case *ssa.FieldAddr:
					for _, r2 := range *x.Referrers() {
						if ci, ok := r2.(ssa.CallInstruction); ok && resultMayRetain(ci) {
							for _, arg := range ci.Common().Args {
								if arg == ssa.Value(x) {
									esc = "the address of its field is the receiver / argument of " + describeCall(c, ci)
								}
							}
						}
					}
				case ssa.CallInstruction:
					if !resultMayRetain(x) {
						continue
					}
					for _, arg := range x.Common().Args {
						if arg == ssa.Value(a) {
							esc = "its address is handed to " + describeCall(c, x)
						}
					}
				}
			}
			if esc == "" {
				return
			}
			bad++
			r.Bad(rule, fmt.Sprintf("%s range variable %s#%d", shortFn(fn), a.Comment, bad), c.Pos(st.Pos()), fmt.Sprintf("the range variable %s is one variable for the whole loop (language version of the module < 1.22) and its address outlives the iteration (%s): everything built from it in earlier iterations ends up referring to the last element", a.Comment, esc))
		})
	}
	if bad == 0 {
		r.OK(rule, "range variables", "-", "no range variable's address outlives its iteration")
	}
}

// resultMayRetain: the call hands back something that can keep a reference to what it was given (a function value,
// a pointer, an interface, a slice or a map), or is a go / defer statement.
func resultMayRetain(ci ssa.CallInstruction) bool {
	if _, isCall := ci.(*ssa.Call); !isCall {
		return true
	}
	res := ci.Common().Signature().Results()
	for i := 0; i < res.Len(); i++ {
		switch res.At(i).Type().Underlying().(type) {
		case *types.Signature, *types.Pointer, *types.Interface, *types.Slice, *types.Map:
			if !isErrorType(res.At(i).Type()) {
				return true
			}
		}
	}
	return false
}

// ---- C16/C07: the child process a transport starts is the one its Close kills -------------------------------------

// checkChildStored: every exec.Command the transport package creates is stored into a field of the transport object:
// Close signals the process it finds there, and a command held only in a local is never signalled -- a read blocked on
// its pty stays blocked after Close.
func checkChildStored(c *Ctx, r *Report, rule string) {
	n := 0
	for _, fn := range c.LibFns {
		if fn.Pkg == nil || fn.Pkg.Pkg.Path() != modPath+"/transport" {
			continue
		}
		k := 0
		for _, ci := range callInstrs(fn) {
			call, ok := ci.(*ssa.Call)
			if !ok {
				continue
			}
			o := CalleeObj(call)
			if o == nil || o.Pkg() == nil || o.Pkg().Path() != "os/exec" || !strings.HasPrefix(o.Name(), "Command") {
				continue
			}
			n++
			k++
			construct := fmt.Sprintf("%s child command#%d is kept in the transport", shortFn(fn), k)
			stored := false
			var visit func(v ssa.Value, depth int)
			visit = func(v ssa.Value, depth int) {
				if depth > 3 {
					return
				}
				for _, ref := range *v.Referrers() {
					switch x := ref.(type) {
					case *ssa.Store:
						if x.Val == v {
							if _, isField := x.Addr.(*ssa.FieldAddr); isField {
								stored = true
							}
							if a, isAlloc := x.Addr.(*ssa.Alloc); isAlloc {
								// a local that is later copied into the field
								for _, r2 := range *a.Referrers() {
									if u, ok := r2.(*ssa.UnOp); ok {
										visit(u, depth+1)
									}
								}
							}
						}
					case *ssa.Phi:
						visit(x, depth+1)
					case *ssa.Return:
						stored = true // handed to the caller, which is checked in its turn
					}
				}
			}
			visit(call, 0)
			if stored {
				r.OK(rule, construct, c.Pos(call.Pos()), "stored in a field of the transport (or returned to the function that does)")
			} else {
				r.Bad(rule, construct, c.Pos(call.Pos()), "the command is started but never stored in the transport: Close has no process to signal, so the ssh child survives the close and a read that was blocked on its pty stays blocked")
			}
		}
	}
	if n == 0 {
		r.Unk(rule, "child commands", "-", "the transport package starts no command")
	}
}
