package main

// C12 — interactive dialogues are paced by the device; secrets go only to their prompt.

import (
	"fmt"
	"go/token"
	"strings"

	"golang.org/x/tools/go/ssa"
)

var specChannelOpOptions = map[string][]string{
	"WithCompletePatterns":     {"channel.OperationOptions.CompletePatterns<-param0"},
	"WithInterimPromptPattern": {"channel.OperationOptions.InterimPromptPatterns<-param0"},
	"WithEager":                {"channel.OperationOptions.Eager<-const:true"},
	"WithExactMatchInput":      {"channel.OperationOptions.ExactMatchInput<-const:true"},
	"WithNoStripPrompt":        {"channel.OperationOptions.StripPrompt<-const:false"},
}

func init() {
	register(&Property{
		ID:  "C12",
		Run: runC12,
		Explanation: "Ordering rules over the event loop of the interactive send, valid for every event list and device pacing because they constrain every path: pace — from the write of an event's input no path reaches the next write (or the final hand-off) without passing the read-until-prompt of that event; the return is written after the input (and after the echo read when there is one); the echo read happens exactly on the edge 'expected response given and input not hidden' and waits for the same input that was written; the input/flag written are the ChannelInput/HideInput of the same event; the prompts waited for are the completion patterns plus the event's expected response (or the channel prompt when none is given). " +
			"accumulate — the returned dialogue is built from every echo read and every prompt read. completion-gate — after each prompt read the completion patterns are matched against exactly that read's bytes (guarded only by 'not the last event' and 'list not empty'), and a match leaves the loop without another write. " +
			"plain-send — a plain command's return is written only after the echo read of that command. escalation-shape — escalate builds [command -> escalation prompt, secret(hidden) -> target pattern] with completion patterns = previous and target level patterns, so a device that grants or refuses the level without asking ends the dialogue before the secret is typed. " +
			"NOT decided: device-chosen delays and segmentations, and that the expected-response regular expressions match what the device prints.",
		Assumptions: []string{"regexp matching is opaque", "ReadUntilAnyPrompt returns only after one of the given patterns matched (C01/C05 cover its loop)"},
		Mutants: []Mutant{
			{ID: "C12-events-filled-in-place", Desc: "the generic driver fills a default expected response into the caller's events", Rule: "C12/events-not-mutated",
				Edits: []Edit{{File: "driver/generic/sendinteractive.go", Old: "\tfor i, event := range events {", New: "\tfor _, ev := range events {\n\t\tif ev.ChannelResponse == \"\" {\n\t\t\tev.ChannelResponse = \"#\"\n\t\t}\n\t}\n\n\tfor i, event := range events {"}}},
			{ID: "C12-escalate-prompt-loosened", Desc: "ruijie escalation prompt matches any mention of a password", Rule: "C12/escalate-prompt-anchored",
				Edits: []Edit{{File: "assets/platforms/ruijie_rgos.yaml", Old: "escalate-prompt: '(?im)^(?:enable\\s){0,1}password:\\s?$'", New: "escalate-prompt: '(?im)password:?'"}}},
			{ID: "C12-channel-options-break", Desc: "channel.NewOperation stops at the first option that is not its own", Rule: "C12/op-options-applied",
				Edits: []Edit{{File: "channel/operation.go", Old: "\t\t\tif !errors.Is(err, util.ErrIgnoredOption) {\n\t\t\t\treturn nil, err\n\t\t\t}\n\t\t}\n\t}\n\n\treturn o, nil", New: "\t\t\tif !errors.Is(err, util.ErrIgnoredOption) {\n\t\t\t\treturn nil, err\n\t\t\t}\n\n\t\t\tbreak\n\t\t}\n\t}\n\n\treturn o, nil"}}},
			{ID: "C12-deescalate-eager", Desc: "deescalate sends its command eagerly", Rule: "C12/priv-steps-plain",
				Edits: []Edit{{File: "driver/network/acquirepriv.go", Old: "\t_, err := d.Driver.Channel.SendInput(p.Deescalate)", New: "\t_, err := d.Driver.Channel.SendInput(p.Deescalate, func(o interface{}) error {\n\t\tif a, ok := o.(*channel.OperationOptions); ok {\n\t\t\ta.Eager = true\n\n\t\t\treturn nil\n\t\t}\n\n\t\treturn util.ErrIgnoredOption\n\t})"}}},
			{ID: "C12-scan-disabled", Desc: "completion-pattern scan disabled", Rule: "C12/completion-gate",
				Edits: []Edit{{File: "channel/sendinteractive.go", Old: "\t\t\t\tif p.Match(pb) {\n\t\t\t\t\tdone = true\n\n\t\t\t\t\tbreak\n\t\t\t\t}", New: "\t\t\t\tif p.Match(pb) {\n\t\t\t\t\tbreak\n\t\t\t\t}"}}},
			{ID: "C12-type-ahead", Desc: "all inputs written before any response is awaited", Rule: "C12/pace",
				Edits: []Edit{{File: "channel/sendinteractive.go", Old: "\t\tvar pb []byte\n\n\t\tpb, err = c.ReadUntilAnyPrompt(ctx, prompts)\n\t\tif err != nil {\n\t\t\tcr <- &result{b: nil, err: err}\n\n\t\t\treturn\n\t\t}", New: "\t\tvar pb []byte\n\n\t\tif i < len(events)-1 && e.HideInput {\n\t\t\tcontinue\n\t\t}\n\n\t\tpb, err = c.ReadUntilAnyPrompt(ctx, prompts)\n\t\tif err != nil {\n\t\t\tcr <- &result{b: nil, err: err}\n\n\t\t\treturn\n\t\t}"}}},
			{ID: "C12-hidden-echo-waited", Desc: "hidden inputs are waited for as echo", Rule: "C12/pace",
				Edits: []Edit{{File: "channel/sendinteractive.go", Old: "\t\tif e.ChannelResponse != \"\" && !e.HideInput {", New: "\t\tif e.ChannelResponse != \"\" {"}}},
			{ID: "C12-return-before-echo", Desc: "return written before the echo read", Rule: "C12/pace",
				Edits: []Edit{{File: "channel/sendinteractive.go", Old: "\t\terr := c.Write([]byte(e.ChannelInput), e.HideInput)\n\t\tif err != nil {\n\t\t\tcr <- &result{b: nil, err: err}\n\n\t\t\treturn\n\t\t}\n", New: "\t\terr := c.WriteAndReturn([]byte(e.ChannelInput), e.HideInput)\n\t\tif err != nil {\n\t\t\tcr <- &result{b: nil, err: err}\n\n\t\t\treturn\n\t\t}\n"}}},
			{ID: "C12-scan-previous-read", Desc: "completion patterns matched against the whole dialogue so far", Rule: "C12/completion-gate",
				Edits: []Edit{{File: "channel/sendinteractive.go", Old: "\t\t\t\tif p.Match(pb) {", New: "\t\t\t\tif p.Match(b) {"}}},
			{ID: "C12-prompt-ignored", Desc: "expected response ignored: always waits for the channel prompt", Rule: "C12/pace",
				Edits: []Edit{{File: "channel/sendinteractive.go", Old: "\t\tif e.ChannelResponse != \"\" {\n\t\t\tprompts = append(prompts, regexp.MustCompile(e.ChannelResponse))\n\t\t} else {", New: "\t\tif e.ChannelResponse != \"\" && i == 0 {\n\t\t\tprompts = append(prompts, regexp.MustCompile(e.ChannelResponse))\n\t\t} else {"}}},
			{ID: "C12-echo-dropped-from-result", Desc: "echo read not included in the returned dialogue", Rule: "C12/accumulate",
				Edits: []Edit{{File: "channel/sendinteractive.go", Old: "\t\t\tb = append(b, nb...)\n\t\t}\n\n\t\terr = c.WriteReturn()", New: "\t\t\t_ = nb\n\t\t}\n\n\t\terr = c.WriteReturn()"}}},
			{ID: "C12-plain-eager-echo", Desc: "plain send writes the return without waiting for the echo", Rule: "C12/plain-send",
				Edits: []Edit{{File: "channel/sendinput.go", Old: "\t\t_, err = readUntilF(ctx, input)\n\t\tif err != nil {\n\t\t\tcr <- &result{b: b, err: err}\n\n\t\t\treturn\n\t\t}\n\n\t\terr = c.WriteReturn()", New: "\t\tif len(input) < 64 {\n\t\t\t_, err = readUntilF(ctx, input)\n\t\t\tif err != nil {\n\t\t\t\tcr <- &result{b: b, err: err}\n\n\t\t\t\treturn\n\t\t\t}\n\t\t}\n\n\t\terr = c.WriteReturn()"}}},
			{ID: "C12-escalate-no-complete-patterns", Desc: "escalation dialogue has no completion patterns", Rule: "C12/escalation-shape",
				Edits: []Edit{{File: "driver/network/acquirepriv.go", Old: "\t\t\t\t\ta.CompletePatterns = []*regexp.Regexp{\n\t\t\t\t\t\td.PrivilegeLevels[p.PreviousPriv].patternRe,\n\t\t\t\t\t\tp.patternRe,\n\t\t\t\t\t}", New: "\t\t\t\t\ta.CompletePatterns = []*regexp.Regexp{}"},
					{File: "driver/network/acquirepriv.go", Old: "import (\n\t\"fmt\"\n\t\"regexp\"\n", New: "import (\n\t\"fmt\"\n\t\"regexp\"\n"}}},
			{ID: "C12-gate-only-hidden", Desc: "completion gate skipped when the next event is visible", Rule: "C12/completion-gate",
				Edits: []Edit{{File: "channel/sendinteractive.go", Old: "\t\tif i < len(events)-1 && len(op.CompletePatterns) > 0 {", New: "\t\tif i < len(events)-1 && len(op.CompletePatterns) > 0 && events[i+1].HideInput {"}}},
		},
	})
}

func runC12(c *Ctx, r *Report) {
	r.Rule("C12/pattern-not-overwritten", "no compiled pattern is overwritten in place (the default prompt pattern is shared by every channel of the process)", 1)
	checkNoRegexpOverwrite(c, r, "C12/pattern-not-overwritten")
	importFoundation(c, r, "C12", "ansi")
	importFoundation(c, r, "C12", "send-input")
	importFoundation(c, r, "C12", "read-loop")
	importFoundation(c, r, "C12", "read-until")
	importFoundation(c, r, "C12", "transport-pipe")
	importFoundation(c, r, "C12", "get-prompt")
	r.Rule("C12/events-not-mutated", "no library function stores into a SendInteractiveEvent it did not build: the caller's dialogue description is only read", 1)
	checkEventsNotMutated(c, r, "C12/events-not-mutated")
	r.Rule("C12/onx-send-command", "a platform hook's send-command step is a plain (non-eager) send: it leaves no unread prompt behind that would pace the next dialogue", 2)
	checkOnXSendCommand(c, r, "C12/onx-send-command")
	r.Rule("C12/echo-error-surfaces", "in the send-input and interactive workers a failed write or echo read ends the exchange (the return / next input is not sent after it)", 6)
	importObligationsIf(r, func(sub *Report) { runC06(c, sub) }, "C06/propagate", "C12/echo-error-surfaces", func(k string) bool {
		return strings.Contains(k, "SendInput") || strings.Contains(k, "SendInteractive") || strings.Contains(k, "sendInteractive")
	})
	r.Rule("C12/explicit-matcher", "the exact echo matcher tests that the search window contains the input", 1)
	checkExplicitMatcherArgs(c, r, "C12/explicit-matcher")
	r.Rule("C12/op-options-applied", "channel.NewOperation applies the full per-operation option list (completion patterns, interim prompts, eager) in order, leaving the loop only on a non-ignored error", 1)
	checkOperationApplyLoop(c, r, "C12/op-options-applied", "channel")
	r.Rule("C12/escalate-prompt-anchored", "every escalation password prompt shipped in the embedded definitions is a whole-line pattern (named exceptions listed): text that merely mentions a password is not taken for the prompt", 5)
	checkEscalatePromptAnchored(c, r, "C12/escalate-prompt-anchored")
	r.Rule("C12/search-window", "expected-response and prompt searches look at a suffix of the buffer that starts on a line boundary (else a line tail ending in 'password:' makes the secret be typed unasked)", 4)
	importObligations(r, func(sub *Report) { checkSearchDepth(c, sub) }, "C01/search-depth", "C12/search-window")
	r.Rule("C12/priv-steps-plain", "escalate / deescalate send their command with no per-operation options (the send waits for the following prompt)", 2)
	checkPrivStepsPlain(c, r, "C12/priv-steps-plain")
	r.Rule("C12/pace", "per event: write input, echo read iff expected-response given and input visible, write return, read until the event's prompt; no next write before that read", 5)
	r.Rule("C12/accumulate", "the returned dialogue is built from every echo read and every prompt read", 1)
	r.Rule("C12/completion-gate", "completion patterns are matched against exactly the bytes of each prompt read (guarded only by not-last-event and list-not-empty) and a match leaves the loop without another write", 3)
	r.Rule("C12/plain-send", "a plain command's return is written only after the echo read of that command", 1)
	r.Rule("C12/escalation-shape", "escalate builds [command -> escalation prompt, secret(hidden) -> target pattern] with the previous and target level patterns as completion patterns", 2)
	r.Rule("C12/options", "the channel operation options store the setting they name", 10)

	fn := c.LookupFunc("channel", "Channel", "sendInteractive")
	write := c.LookupFunc("channel", "Channel", "Write")
	wret := c.LookupFunc("channel", "Channel", "WriteReturn")
	rany := c.LookupFunc("channel", "Channel", "ReadUntilAnyPrompt")
	processOut := c.LookupFunc("channel", "Channel", "processOut")
	if fn == nil || write == nil || wret == nil || rany == nil || processOut == nil || len(fn.Params) != 6 {
		r.Anchor("C12/pace", "(*channel.Channel).sendInteractive / Write / WriteReturn / ReadUntilAnyPrompt / processOut")
		return
	}
	io := c.ioCapable()
	// the calls
	var W, WR, RA, E *ssa.Call
	nW, nWR, nRA, nE := 0, 0, 0, 0
	var otherWrites []string
	for _, ci := range callInstrs(fn) {
		call, ok := ci.(*ssa.Call)
		if !ok {
			continue
		}
		switch sc := call.Call.StaticCallee(); {
		case sc == write:
			W = call
			nW++
		case sc == wret:
			WR = call
			nWR++
		case sc == rany:
			RA = call
			nRA++
		case sc == nil && call.Call.Value == ssa.Value(fn.Params[5]):
			E = call
			nE++
		default:
			for _, callee := range c.Callees(call) {
				if io[callee] && callee != processOut {
					otherWrites = append(otherWrites, describeCall(c, call)+" at "+c.Pos(call.Pos()))
				}
			}
		}
	}
	if nW != 1 || nWR != 1 || nRA != 1 || nE != 1 || len(otherWrites) > 0 {
		r.Bad("C12/pace", "event loop shape", c.Pos(fn.Pos()), fmt.Sprintf("the event loop must contain exactly one input write, one echo read, one return write and one prompt read (found %d/%d/%d/%d; other I/O: %v)", nW, nE, nWR, nRA, otherWrites))
		return
	}
	isSuccessSend := func(in ssa.Instruction) bool {
		snd, ok := in.(*ssa.Send)
		if !ok {
			return false
		}
		a, ok := snd.X.(*ssa.Alloc)
		if !ok {
			return false
		}
		for _, ref := range *a.Referrers() {
			if fa, ok := ref.(*ssa.FieldAddr); ok && isErrorType(fieldOfAddr(fa).Type()) {
				for _, r2 := range *fa.Referrers() {
					if st, ok := r2.(*ssa.Store); ok && isNilConst(st.Val) {
						return true
					}
				}
			}
		}
		return false
	}
	// (1) no next write / success before the prompt read
	{
		rr := reachFrom(fn, W, func(in ssa.Instruction) bool { return in == ssa.Instruction(RA) }, nil)
		bad := ""
		for in := range rr.visited {
			if in == ssa.Instruction(W) {
				bad = "the next event's input can be written before the previous event's response was awaited"
			}
			if isSuccessSend(in) {
				bad = "the dialogue can be reported complete without waiting for the response to the last input written"
			}
		}
		r.Check(bad == "", "C12/pace", "no write before the previous response", c.Pos(W.Pos()), "every path from an input write to the next passes the prompt read", bad)
	}
	// (2) echo read guards
	{
		var conds []string
		respOK := guardedBy(E, func(v ssa.Value, t bool) bool {
			bo, ok := v.(*ssa.BinOp)
			if !ok || bo.Op != token.NEQ || !t {
				return false
			}
			s, isS := constString(bo.Y)
			return isS && s == "" && isFieldLoadNamed(bo.X, "ChannelResponse")
		})
		hideOK := guardedBy(E, func(v ssa.Value, t bool) bool { return isFieldLoadNamed(v, "HideInput") && !t })
		for _, ec := range edgeConds(E.Block()) {
			conds = append(conds, fmt.Sprintf("%s=%v", ec.Cond.String(), ec.Truth))
		}
		extra := len(edgeConds(E.Block())) - 4 // range cond, write err nil, resp, hide
		r.Check(respOK && hideOK && extra <= 0, "C12/pace", "echo read exactly when response given and input visible", c.Pos(E.Pos()), "guarded by ChannelResponse != \"\" && !HideInput",
			fmt.Sprintf("the echo read is not performed exactly on the edge 'expected response given and input not hidden' (response guard %v, hidden guard %v; guards: %v): a hidden input is waited for as echo, or a visible one is not", respOK, hideOK, conds))
	}
	// (3) order: W -> [E] -> WR -> RA
	{
		bad := ""
		if !dominatesInstr(W, WR) || !dominatesInstr(WR, RA) {
			bad = "the return is not written between the input write and the prompt read on every path"
		}
		rr := reachFrom(fn, E, func(in ssa.Instruction) bool { return in == ssa.Instruction(WR) }, nil)
		if rr.visited[RA] || rr.visited[W] {
			bad = "after the echo read the return is not written before waiting for the prompt"
		}
		if !dominatesInstr(W, E) {
			bad = "the echo is read before the input was written"
		}
		// WR must not precede E
		r2 := reachFrom(fn, WR, func(in ssa.Instruction) bool { return in == ssa.Instruction(RA) }, nil)
		if r2.visited[E] {
			bad = "the return is written before the echo of the input was read"
		}
		r.Check(bad == "", "C12/pace", "input, echo, return, prompt order", c.Pos(WR.Pos()), "write -> [echo] -> return -> read-until-prompt", bad)
	}
	// (4) same event
	{
		wData, wFlag := stripConv(W.Call.Args[1]), W.Call.Args[2]
		eData := stripConv(E.Call.Args[1])
		df, dbase, ok1 := fieldLoad(wData)
		ff, fbase, ok2 := fieldLoad(wFlag)
		ef, ebase, ok3 := fieldLoad(eData)
		ok := ok1 && ok2 && ok3 && df.Name() == "ChannelInput" && ff.Name() == "HideInput" && ef.Name() == "ChannelInput" && dbase == fbase && dbase == ebase
		// the event is events[rangeindex]
		if ok {
			ok = false
			if u, isU := dbase.(*ssa.UnOp); isU {
				if ia, isIA := u.X.(*ssa.IndexAddr); isIA && ia.X == ssa.Value(fn.Params[3]) && rangeHeader(ia.Index) != nil {
					ok = true
				}
			}
		}
		r.Check(ok, "C12/pace", "input, flag and echo belong to the same event, in list order", c.Pos(W.Pos()), "events[i].ChannelInput / HideInput, range order",
			"the input written, its redaction/hidden flag and the echo waited for are not the fields of one and the same event taken in list order")
	}
	// (5) prompts
	{
		ok := false
		msg := "the patterns waited for are not the completion patterns plus the event's expected response (or the channel prompt when none is given)"
		// the two alternatives: edges of a phi in the worker, or the returns of a helper that builds the list
		type alt struct {
			v    ssa.Value
			from *ssa.BasicBlock
		}
		var alts []alt
		if phi, isPhi := RA.Call.Args[2].(*ssa.Phi); isPhi && len(phi.Edges) == 2 {
			for i, e := range phi.Edges {
				alts = append(alts, alt{e, phi.Block().Preds[i]})
			}
		} else if hc, isCall := RA.Call.Args[2].(*ssa.Call); isCall {
			if h := hc.Call.StaticCallee(); h != nil && h.Pkg == fn.Pkg && h.Object() != nil && !h.Object().Exported() {
				allInstrs(h, func(in ssa.Instruction) {
					if ret, isRet := in.(*ssa.Return); isRet && len(ret.Results) == 1 {
						alts = append(alts, alt{ret.Results[0], ret.Block()})
					}
				})
			}
		}
		if len(alts) == 2 {
			nResp, nPrompt := 0, 0
			for _, al := range alts {
				e := al.v
				call, isCall := e.(*ssa.Call)
				if !isCall {
					continue
				}
				b, isB := call.Call.Value.(*ssa.Builtin)
				if !isB || b.Name() != "append" || !isFieldLoadNamed(call.Call.Args[0], "CompletePatterns") {
					continue
				}
				els := variadicElems(call.Call.Args[1])
				pred := al.from
				respEdge, noRespEdge := false, false
				conds := edgeConds(pred)
				// a return block is itself the guarded block; a phi predecessor may end in the deciding branch
				for _, ec := range append(conds, edgeCond{}) {
					if ec.Cond == nil {
						continue
					}
					if bo, isBo := ec.Cond.(*ssa.BinOp); isBo && (bo.Op == token.NEQ || bo.Op == token.EQL) && isFieldLoadNamed(bo.X, "ChannelResponse") {
						if s, isS := constString(bo.Y); !isS || s != "" {
							continue
						}
						if ec.Truth == (bo.Op == token.NEQ) {
							respEdge = true
						} else {
							noRespEdge = true
						}
					}
				}
				for _, el := range els {
					if mc, isMC := el.(*ssa.Call); isMC {
						if o := CalleeObj(mc); o != nil && o.Name() == "MustCompile" && isFieldLoadNamed(mc.Call.Args[0], "ChannelResponse") && respEdge {
							nResp++
						}
					}
					if isFieldLoadNamed(el, "PromptPattern") && noRespEdge {
						nPrompt++
					}
				}
			}
			ok = nResp == 1 && nPrompt == 1
		}
		r.Check(ok, "C12/pace", "prompt read waits for the event's expected response", c.Pos(RA.Pos()), "CompletePatterns + (MustCompile(ChannelResponse) | PromptPattern)", msg)
	}
	// (6) accumulate
	{
		raRes, eRes := resultOf(RA, 0), resultOf(E, 0)
		var final ssa.Value
		for _, ci := range staticCallsTo(fn, processOut) {
			final = ci.Common().Args[1]
		}
		sources := map[ssa.Value]bool{}
		seen := map[ssa.Value]bool{}
		var walk func(v ssa.Value)
		walk = func(v ssa.Value) {
			if v == nil || seen[v] {
				return
			}
			seen[v] = true
			switch x := v.(type) {
			case *ssa.Phi:
				for _, e := range x.Edges {
					walk(e)
				}
			case *ssa.Call:
				if b, ok := x.Call.Value.(*ssa.Builtin); ok && b.Name() == "append" {
					walk(x.Call.Args[0])
					sources[x.Call.Args[1]] = true
				}
			}
		}
		walk(final)
		ok := final != nil && sources[raRes] && sources[eRes]
		// and the success send carries processOut's result
		r.Check(ok, "C12/accumulate", "dialogue accumulates echo and prompt reads", c.Pos(fn.Pos()), "b = append(b, echo...), append(b, prompt read...) -> processOut(b)",
			"the returned dialogue does not contain every echo read and every prompt read (the result is not the whole dialogue)")
	}
	// (7) completion gate
	{
		raRes := resultOf(RA, 0)
		var M *ssa.Call
		for _, ci := range callInstrs(fn) {
			call, ok := ci.(*ssa.Call)
			if !ok {
				continue
			}
			if o := CalleeObj(call); o != nil && o.Name() == "Match" && o.Pkg() != nil && o.Pkg().Path() == "regexp" {
				if u, isU := call.Call.Args[0].(*ssa.UnOp); isU {
					if ia, isIA := u.X.(*ssa.IndexAddr); isIA && isFieldLoadNamed(ia.X, "CompletePatterns") {
						M = call
					}
				}
			}
		}
		scanArg := ssa.Value(nil)
		if M != nil {
			scanArg = M.Call.Args[1]
		} else {
			// the scan may live in a helper: any-of(patterns, bytes) written as an exists-loop over the patterns
			for _, ci := range callInstrs(fn) {
				call, ok := ci.(*ssa.Call)
				if !ok {
					continue
				}
				sc := call.Call.StaticCallee()
				if sc == nil || sc.Pkg == nil || !isLibPkgPath(sc.Pkg.Pkg.Path()) || sc.Blocks == nil || len(call.Call.Args) != 2 {
					continue
				}
				if !isFieldLoadNamed(call.Call.Args[0], "CompletePatterns") {
					continue
				}
				sh := analyseExistsLoop(c, sc)
				if sh.Kind == "other: regexp.Match(elem,param)" && len(sh.Problems) == 0 {
					M = call
					scanArg = call.Call.Args[1]
				}
			}
		}
		if M == nil {
			r.Bad("C12/completion-gate", "scan exists", c.Pos(fn.Pos()), "the completion patterns are never matched against the device's response: a dialogue that finishes early (level granted/refused without asking) still gets the next input typed")
		} else {
			r.Check(scanArg == raRes, "C12/completion-gate", "scan uses the bytes of the read just completed", c.Pos(M.Pos()), "p.Match(pb)",
				"the completion patterns are matched against something other than the bytes of the prompt read that just completed")
			// guards
			var extra []string
			for _, ec := range edgeConds(M.Block()) {
				v, _ := unwrapNot(ec.Cond)
				okc := false
				if x, _, isNil := nilCheck(v); isNil && isErrorType(x.Type()) {
					okc = true
				}
				if bo, isBo := v.(*ssa.BinOp); isBo {
					l := linOf(bo.X, 0).addScaled(linOf(bo.Y, 0), -1)
					for k := range l.coef {
						if strings.HasPrefix(k, "len(") {
							okc = true // range bounds, i < len(events)-1, len(CompletePatterns) > 0
						}
					}
					if s, isS := constString(bo.Y); isS && s == "" && isFieldLoadNamed(bo.X, "ChannelResponse") {
						okc = true
					}
				}
				if isFieldLoadNamed(v, "HideInput") && dominatesInstr(ec.Cond.(ssa.Instruction), W) {
					okc = true
				}
				if !okc {
					extra = append(extra, ec.Cond.String())
				}
			}
			// dominating conditions from before the write (event kind) are harmless; conditions after RA must be only the two
			var post []string
			for _, ec := range edgeConds(M.Block()) {
				ci, isInstr := ec.Cond.(ssa.Instruction)
				if !isInstr || !dominatesInstr(RA, ci) {
					continue
				}
				v, _ := unwrapNot(ec.Cond)
				if x, _, isNil := nilCheck(v); isNil && isErrorType(x.Type()) {
					continue
				}
				bo, isBo := v.(*ssa.BinOp)
				okc := false
				if isBo {
					l := linOf(bo.X, 0).addScaled(linOf(bo.Y, 0), -1)
					for k := range l.coef {
						if k == "len("+fn.Params[3].Name()+")" {
							okc = true
						}
						if strings.HasPrefix(k, "len(") {
							okc = true
						}
					}
				}
				if !okc {
					post = append(post, ec.Cond.String())
				}
			}
			r.Check(len(extra) == 0 && len(post) == 0, "C12/completion-gate", "scan guarded only by not-last-event and list-not-empty", c.Pos(M.Pos()), "",
				fmt.Sprintf("the completion scan is skipped under additional conditions (%v %v): some early-finished dialogues still get the next input typed", extra, post))
			// a match leaves the loop without another write
			var trueSucc, from *ssa.BasicBlock
			for _, ref := range *M.Referrers() {
				if ifi, ok := ref.(*ssa.If); ok {
					from = ifi.Block()
					trueSucc = from.Succs[0]
				}
			}
			bad := "the result of the completion match is not branched on"
			if trueSucc != nil {
				bad = ""
				reached := reachPhiSensitiveFrom(fn, trueSucc, from, nil)
				if reached[W.Block()] {
					bad = "after a completion pattern matched the loop can still write the next input: the secret / next answer is typed at a prompt that did not ask for it"
				}
				// and it must reach the success hand-off
				okDone := false
				for b := range reached {
					for _, in := range b.Instrs {
						if isSuccessSend(in) {
							okDone = true
						}
					}
				}
				if bad == "" && !okDone {
					bad = "after a completion pattern matched the dialogue is not handed back as complete"
				}
			}
			r.Check(bad == "", "C12/completion-gate", "match ends the dialogue", c.Pos(M.Pos()), "match -> leave the loop -> hand off", bad)
		}
	}
	// (8) plain send
	checkPlainSendEcho(c, r)
	// (9) escalation shape (shared with C04)
	sub := NewReport("C12")
	runC04(c, sub)
	for _, o := range sub.Obs {
		construct := strings.TrimPrefix(o.Key, o.Rule+" @ ")
		if construct == "escalate with authentication" || construct == "escalation completion patterns" {
			r.add("C12/escalation-shape", construct, o.Status, o.Pos, o.Msg, nil)
		}
	}
	only := map[string]bool{}
	for k := range specChannelOpOptions {
		only[k] = true
	}
	sub2 := NewReport("C12")
	checkOptionTable(c, sub2, "C12x", "driver/opoptions", specChannelOpOptions, only)
	for _, o := range sub2.Obs {
		construct := strings.TrimPrefix(o.Key, o.Rule+" @ ")
		r.add("C12/options", construct+" ("+strings.TrimPrefix(o.Rule, "C12x/")+")", o.Status, o.Pos, o.Msg, nil)
	}
}

// reachPhiSensitiveFrom: like reachPhiSensitive but starting at (start, pred).
func reachPhiSensitiveFrom(fn *ssa.Function, start, pred *ssa.BasicBlock, avoidEdge func(from, to *ssa.BasicBlock) bool) map[*ssa.BasicBlock]bool {
	type state struct{ b, pred *ssa.BasicBlock }
	seen := map[state]bool{}
	reached := map[*ssa.BasicBlock]bool{}
	work := []state{{start, pred}}
	for len(work) > 0 {
		s := work[len(work)-1]
		work = work[:len(work)-1]
		if seen[s] {
			continue
		}
		seen[s] = true
		reached[s.b] = true
		succs := s.b.Succs
		if cond := ifCond(s.b); cond != nil && s.pred != nil {
			v, neg := unwrapNot(cond)
			if phi, ok := v.(*ssa.Phi); ok && phi.Block() == s.b {
				for i, p := range s.b.Preds {
					if p == s.pred {
						if bv, isC := constBool(phi.Edges[i]); isC {
							if neg {
								bv = !bv
							}
							if bv {
								succs = []*ssa.BasicBlock{s.b.Succs[0]}
							} else {
								succs = []*ssa.BasicBlock{s.b.Succs[1]}
							}
						}
					}
				}
			}
		}
		for _, n := range succs {
			if avoidEdge != nil && avoidEdge(s.b, n) {
				continue
			}
			work = append(work, state{n, s.b})
		}
	}
	return reached
}

func checkPlainSendEcho(c *Ctx, r *Report) {
	rule := "C12/plain-send"
	fn := c.LookupFunc("channel", "Channel", "SendInputB")
	write := c.LookupFunc("channel", "Channel", "Write")
	wret := c.LookupFunc("channel", "Channel", "WriteReturn")
	if fn == nil || write == nil || wret == nil {
		r.Anchor(rule, "(*channel.Channel).SendInputB / Write / WriteReturn")
		return
	}
	worker, _, why := sendInputWorker(c, fn, wret)
	if worker == nil {
		r.Unk(rule, "SendInputB worker", c.Pos(fn.Pos()), "no worker closure writing the return found"+why)
		return
	}
	var W, WR ssa.Instruction
	for _, ci := range staticCallsTo(worker, write) {
		W = ci
	}
	for _, ci := range staticCallsTo(worker, wret) {
		WR = ci
	}
	// the echo read: the dynamic call of the captured read-until function with the input
	isEcho := func(in ssa.Instruction) bool {
		call, ok := in.(*ssa.Call)
		if !ok || call.Call.StaticCallee() != nil || call.Call.IsInvoke() {
			return false
		}
		for _, callee := range c.Callees(call) {
			if strings.HasPrefix(callee.Name(), "ReadUntil") {
				return true
			}
		}
		return false
	}
	if W == nil || WR == nil {
		r.Bad(rule, "SendInputB worker", c.Pos(worker.Pos()), "the worker does not write the input and then the return")
		return
	}
	rr := reachFrom(worker, W, isEcho, func(b *ssa.BasicBlock, si int) bool {
		// edges taken only in eager mode may skip the echo
		cond := ifCond(b)
		if cond == nil {
			return true
		}
		v, neg := unwrapNot(cond)
		if isFieldLoadNamed(v, "Eager") {
			eagerEdge := 0
			if neg {
				eagerEdge = 1
			}
			return si != eagerEdge
		}
		return true
	})
	r.Check(!rr.visited[WR], rule, "return only after the echo", c.Pos(WR.Pos()), "write input -> read echo -> write return",
		"the return can be written before the device has echoed the command (outside eager mode): output of the previous exchange can be attributed to this command")
}
