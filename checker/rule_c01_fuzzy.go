package main

// C01/fuzzy-consume — the fuzzy (subsequence) echo matcher consumes the output byte it matched.

import (
	"go/token"
	"go/types"

	"golang.org/x/tools/go/ssa"
)

// checkFuzzyConsume: in the step function of BytesRoughlyContains, whenever an input byte was matched at output
// position I the remaining output handed back is output[I+1:]. Handing back output[I:] lets one echoed byte stand
// for a run of identical input bytes, so the echo of "show vlan 100" is declared complete one byte early and that
// byte becomes the first byte of the command's output.
func checkFuzzyConsume(c *Ctx, r *Report) {
	rule := "C01/fuzzy-consume"
	fn := c.LookupFunc("util", "", "bytesRoughlyContainsIterOutputForInputChar")
	if fn == nil {
		fn = c.LookupFunc("util", "", "BytesRoughlyContains")
	}
	if fn == nil {
		r.Anchor(rule, "util.BytesRoughlyContains")
		return
	}
	n := 0
	allInstrs(fn, func(in ssa.Instruction) {
		sl, ok := in.(*ssa.Slice)
		if !ok || sl.High != nil || sl.Low == nil {
			return
		}
		if bt := elemBasicKind(sl.X.Type()); bt != "byte" && bt != "uint8" {
			return
		}
		// matched position: (a) a dominating true branch on `x == sl.X[I]`, (b) I = bytes.IndexByte(sl.X, x)
		var matched []ssa.Value
		for _, ec := range edgeConds(sl.Block()) {
			bo, ok := ec.Cond.(*ssa.BinOp)
			if !ok || !((bo.Op == token.EQL && ec.Truth) || (bo.Op == token.NEQ && !ec.Truth)) {
				continue
			}
			for _, side := range []ssa.Value{bo.X, bo.Y} {
				if u, ok := side.(*ssa.UnOp); ok {
					if ia, ok := u.X.(*ssa.IndexAddr); ok && ia.X == sl.X {
						matched = append(matched, ia.Index)
					}
				}
			}
		}
		allInstrs(fn, func(in2 ssa.Instruction) {
			if call, ok := in2.(*ssa.Call); ok {
				if o := CalleeObj(call); o != nil && o.Pkg() != nil && o.Pkg().Path() == "bytes" && (o.Name() == "IndexByte" || o.Name() == "Index" || o.Name() == "IndexRune") && len(call.Call.Args) == 2 && call.Call.Args[0] == sl.X && dominatesInstr(call, sl) {
					matched = append(matched, call)
				}
			}
		})
		if len(matched) == 0 {
			return // not a slice taken at a matched position
		}
		n++
		construct := "remaining output after a matched byte in " + fn.Name()
		ok = false
		if bo, isBin := sl.Low.(*ssa.BinOp); isBin && bo.Op == token.ADD {
			for _, m := range matched {
				if k, isC := constInt(bo.Y); isC && k == 1 && bo.X == m {
					ok = true
				}
				if k, isC := constInt(bo.X); isC && k == 1 && bo.Y == m {
					ok = true
				}
			}
		}
		if ok {
			r.OK(rule, construct, c.Pos(sl.Pos()), "output[I+1:] with I the matched position")
		} else {
			r.Bad(rule, construct, c.Pos(sl.Pos()), "the output handed on after an input byte matched at position I is not output[I+1:]: the matched byte is not consumed (or more than it is), so one echoed byte can satisfy several identical input bytes and the echo is declared complete before its last byte arrived")
		}
	})
	if n == 0 {
		r.Unk(rule, "fuzzy matcher step", c.Pos(fn.Pos()), "no slice of the output at a matched position found in "+fn.Name()+": the matcher idiom is not one the rule knows")
	}
}

// elemBasicKind: name of the basic element type of a slice/array(-pointer)/string type, or "".
func elemBasicKind(t types.Type) string {
	switch u := t.Underlying().(type) {
	case *types.Slice:
		if b, ok := u.Elem().Underlying().(*types.Basic); ok {
			return b.Name()
		}
	case *types.Pointer:
		if a, ok := u.Elem().Underlying().(*types.Array); ok {
			if b, ok := a.Elem().Underlying().(*types.Basic); ok {
				return b.Name()
			}
		}
	case *types.Basic:
		if u.Info()&types.IsString != 0 {
			return "byte"
		}
	}
	return ""
}

// checkFuzzyThreaded: BytesRoughlyContains is an in-order subsequence test: what is left of the output after one input
// byte was matched is where the search for the next input byte starts. (Searching the whole output for every byte
// would accept the input's bytes in any order, e.g. an old echo still in the buffer.)
func checkFuzzyThreaded(c *Ctx, r *Report) {
	rule := "C01/fuzzy-consume"
	outer := c.LookupFunc("util", "", "BytesRoughlyContains")
	helper := c.LookupFunc("util", "", "bytesRoughlyContainsIterOutputForInputChar")
	if outer == nil {
		r.Anchor(rule, "util.BytesRoughlyContains")
		return
	}
	if helper == nil {
		r.Notes = append(r.Notes, rule+": the per-byte helper was not found (inlined or renamed); threading of the remaining output is not checked")
		return
	}
	construct := "BytesRoughlyContains threads the remaining output through its iterations"
	calls := staticCallsTo(outer, helper)
	if len(calls) != 1 {
		r.Unk(rule, construct, c.Pos(outer.Pos()), "the per-byte helper is not called exactly once")
		return
	}
	call := calls[0].(*ssa.Call)
	var rest ssa.Value
	for _, ref := range *call.Referrers() {
		if ex, ok := ref.(*ssa.Extract); ok && ex.Index == 1 {
			rest = ex
		}
	}
	arg := call.Call.Args[1]
	threaded := false
	if phi, ok := arg.(*ssa.Phi); ok && rest != nil {
		for _, e := range phi.Edges {
			if e == rest {
				threaded = true
			}
		}
	}
	// the input byte comes from the range over the input parameter, in order
	inOrder := false
	if u, ok := call.Call.Args[0].(*ssa.UnOp); ok {
		if ia, ok := u.X.(*ssa.IndexAddr); ok && ia.X == ssa.Value(outer.Params[0]) && rangeHeader(ia.Index) != nil {
			inOrder = true
		}
	}
	switch {
	case !threaded:
		r.Bad(rule, construct, c.Pos(call.Pos()), "each input byte is searched for in an output that is not what the previous iteration left over: the bytes of the input are then accepted in any order / overlapping, so stale bytes in the buffer can satisfy the echo test before the echo has arrived")
	case !inOrder:
		r.Bad(rule, construct, c.Pos(call.Pos()), "the input bytes are not taken in order by a range loop over the input")
	default:
		r.OK(rule, construct, c.Pos(call.Pos()), "range over the input; helper(inputByte, rest) with rest the helper's previous second result")
	}
}

// checkWritePrimitives: the three channel write primitives every exchange is built from. Write hands the caller's
// bytes unchanged to the transport; WriteReturn writes the configured return character(s); WriteAndReturn is Write
// followed -- only when it succeeded -- by exactly one WriteReturn.
func checkWritePrimitives(c *Ctx, r *Report) {
	rule := "C01/write-primitives"
	w := c.LookupFunc("channel", "Channel", "Write")
	wr := c.LookupFunc("channel", "Channel", "WriteReturn")
	war := c.LookupFunc("channel", "Channel", "WriteAndReturn")
	tw := c.LookupFunc("transport", "Transport", "Write")
	if w == nil || wr == nil || war == nil || tw == nil {
		r.Anchor(rule, "(*channel.Channel).Write / WriteReturn / WriteAndReturn / (*transport.Transport).Write")
		return
	}
	// Write
	{
		calls := staticCallsTo(w, tw)
		ok := len(calls) == 1 && sameParam(calls[0].Common().Args[1], w.Params[1])
		r.Check(ok, rule, "Channel.Write forwards its bytes", c.Pos(w.Pos()), "Transport.Write(b) with b the parameter",
			"Channel.Write does not hand exactly the caller's byte slice to Transport.Write once: what the device receives differs from what the operation wrote")
	}
	// WriteReturn
	{
		calls := staticCallsTo(wr, w)
		ok := len(calls) == 1 && isFieldLoadNamed(calls[0].Common().Args[1], "ReturnChar")
		if ok {
			if red, isC := constBool(calls[0].Common().Args[2]); !isC || red {
				ok = false
			}
		}
		r.Check(ok, rule, "WriteReturn writes the return character", c.Pos(wr.Pos()), "Write(c.ReturnChar, false)",
			"WriteReturn does not write exactly the configured return character(s) once")
	}
	// WriteAndReturn
	{
		// a return write is WriteReturn() or its body spelled out: Write(c.ReturnChar, false)
		rs := staticCallsTo(war, wr)
		var ws []ssa.CallInstruction
		for _, ci := range staticCallsTo(war, w) {
			red, isC := constBool(ci.Common().Args[2])
			if isFieldLoadNamed(ci.Common().Args[1], "ReturnChar") && isC && !red {
				rs = append(rs, ci)
			} else {
				ws = append(ws, ci)
			}
		}
		ok := len(ws) == 1 && len(rs) == 1
		msg := "WriteAndReturn is not one Write followed by one WriteReturn"
		if ok {
			if !sameParam(ws[0].Common().Args[1], war.Params[1]) || !sameParam(ws[0].Common().Args[2], war.Params[2]) {
				ok, msg = false, "WriteAndReturn does not pass its bytes and its redaction flag to Write unchanged"
			} else if !dominatesInstr(ws[0], rs[0]) {
				ok, msg = false, "the return is not written after the bytes"
			} else {
				errs := errResultsOf(ws[0].(*ssa.Call))
				guarded := len(errs) == 1 && guardedBy(rs[0], func(v ssa.Value, t bool) bool {
					x, nonNilOnTrue, isNil := nilCheck(v)
					return isNil && x == errs[0] && t != nonNilOnTrue
				})
				if !guarded {
					ok, msg = false, "the return is written although writing the bytes failed (or the write error is not tested)"
				}
				// every way out: after the bytes were written, and -- unless that write failed -- after the return
				allInstrs(war, func(in ssa.Instruction) {
					ret, isRet := in.(*ssa.Return)
					if !isRet || !ok {
						return
					}
					if !dominatesInstr(ws[0], ret) {
						ok, msg = false, "WriteAndReturn can return ("+c.Pos(ret.Pos())+") without having written the caller's bytes: for some input (e.g. an empty one) neither the bytes nor the return reach the device"
						return
					}
					if dominatesInstr(rs[0], ret) {
						return
					}
					failed := len(errs) == 1 && guardedBy(ret, func(v ssa.Value, t bool) bool {
						x, nonNilOnTrue, isNil := nilCheck(v)
						return isNil && x == errs[0] && t == nonNilOnTrue
					})
					if !failed {
						ok, msg = false, "WriteAndReturn can return ("+c.Pos(ret.Pos())+") after a successful write of the bytes without writing the return"
					}
				})
			}
		}
		r.Check(ok, rule, "WriteAndReturn = Write then WriteReturn", c.Pos(war.Pos()), "Write(b, r); on success WriteReturn()", msg)
	}
}
