package main

// Rules added after the sixth round of independently seeded changes.

import (
	"fmt"
	"go/token"
	"go/types"
	"sort"
	"strings"

	"golang.org/x/tools/go/ssa"
)

// ---- operation options are only made by their constructor -----------------------------------------
//
// Every layer has an OperationOptions struct whose zero value is NOT its default: a zero Timeout means "maximum" to
// Channel.GetTimeout (the default is -1, "use the connection-wide timeout"), the default filter type of a NETCONF
// operation is "subtree", and so on. An operation that builds the struct itself instead of calling NewOperation
// therefore runs with the maximum timeout whatever the connection-wide setting is.
func checkOperationConstructed(c *Ctx, r *Report, rule string) {
	for _, pkg := range []string{"channel", "driver/generic", "driver/network", "driver/netconf"} {
		t := c.LookupType(pkg, "OperationOptions")
		ctor := c.LookupFunc(pkg, "", "NewOperation")
		if t == nil || ctor == nil {
			r.Anchor(rule, pkg+".OperationOptions / NewOperation")
			continue
		}
		construct := pkg + ".OperationOptions is only built by NewOperation"
		var bad []string
		n := 0
		for _, fn := range c.LibFns {
			allInstrs(fn, func(in ssa.Instruction) {
				a, ok := in.(*ssa.Alloc)
				if !ok {
					return
				}
				p, ok := a.Type().(*types.Pointer)
				if !ok || !types.Identical(p.Elem(), t) {
					return
				}
				if fn == ctor || onlyCalledBy(c, fn, ctor) {
					n++
					return
				}
				bad = append(bad, c.Pos(a.Pos())+" in "+shortFn(fn))
			})
		}
		switch {
		case len(bad) > 0:
			sort.Strings(bad)
			r.Bad(rule, construct, bad[0], "an operation's options are built outside NewOperation ("+strings.Join(bad, ", ")+"): the zero value is not the default -- Timeout 0 means the maximum (a day), not the connection-wide timeout, so the operation does not return when the device goes silent")
		case n == 0:
			r.Unk(rule, construct, c.Pos(ctor.Pos()), "NewOperation does not allocate the options struct")
		default:
			r.OK(rule, construct, c.Pos(ctor.Pos()), "")
		}
	}
}

// onlyCalledBy: fn is an unexported function (or a closure of one) whose only static callers in the library are `by`.
func onlyCalledBy(c *Ctx, fn, by *ssa.Function) bool {
	for fn.Parent() != nil {
		fn = fn.Parent()
	}
	if fn == by {
		return true
	}
	if fn.Object() == nil || fn.Object().Exported() {
		return false
	}
	n := 0
	for _, g := range c.LibFns {
		for _, ci := range callInstrs(g) {
			if ci.Common().StaticCallee() == fn {
				h := g
				for h.Parent() != nil {
					h = h.Parent()
				}
				if h != by {
					return false
				}
				n++
			}
		}
	}
	return n > 0
}

// ---- a reply carrying an error marker is always marked failed --------------------------------------

func checkNetconfMarkFailed(c *Ctx, r *Report, rule string) {
	fn := c.LookupFunc("response", "NetconfResponse", "recordFailed")
	scan := c.LookupFunc("util", "", "ByteContainsAny")
	failedF := c.LookupField("response", "NetconfResponse", "Failed")
	listF := c.LookupField("response", "NetconfResponse", "FailedWhenContains")
	if fn == nil || scan == nil || failedF == nil || listF == nil {
		r.Anchor(rule, "(*response.NetconfResponse).recordFailed / util.ByteContainsAny / Failed / FailedWhenContains")
		return
	}
	construct := "recordFailed: marker found -> Failed set"
	calls := staticCallsTo(fn, scan)
	if len(calls) != 1 {
		r.Bad(rule, construct, c.Pos(fn.Pos()), fmt.Sprintf("%d scans of the failure markers (one expected)", len(calls)))
		return
	}
	call := calls[0].(*ssa.Call)
	if !sameParam(call.Call.Args[0], fn.Params[1]) || !isFieldLoadOf(call.Call.Args[1], listF) {
		r.Bad(rule, construct, c.Pos(call.Pos()), "the failure markers are not searched in the bytes handed to recordFailed, or not the response's own marker list is used")
		return
	}
	// the branch on the scan
	var found *ssa.BasicBlock
	for _, ref := range *call.Referrers() {
		var ifi *ssa.If
		neg := false
		switch x := ref.(type) {
		case *ssa.If:
			ifi = x
		case *ssa.UnOp:
			if x.Op == token.NOT {
				for _, r2 := range *x.Referrers() {
					if i2, ok := r2.(*ssa.If); ok {
						ifi, neg = i2, true
					}
				}
			}
		}
		if ifi == nil {
			continue
		}
		found = ifi.Block().Succs[0]
		if neg {
			found = ifi.Block().Succs[1]
		}
	}
	if found == nil {
		r.Bad(rule, construct, c.Pos(call.Pos()), "recordFailed does not branch on the result of the marker scan")
		return
	}
	isMark := func(in ssa.Instruction) bool {
		f, _, v, ok := fieldStore(in)
		return ok && f == failedF && !isNilConst(v)
	}
	if isMark(found.Instrs[0]) {
		r.OK(rule, construct, c.Pos(call.Pos()), "")
		return
	}
	rr := reachFrom(fn, found.Instrs[0], isMark, nil)
	var leak ssa.Instruction
	if isReturn(found.Instrs[0]) {
		leak = found.Instrs[0]
	}
	for in := range rr.visited {
		if isReturn(in) && (leak == nil || in.Pos() < leak.Pos()) {
			leak = in
		}
	}
	if leak != nil {
		r.Bad(rule, construct, c.Pos(leak.Pos()), "recordFailed can return without marking the response failed although one of the failure markers is present in the reply: an rpc-error the marker list knows (attributes on the tag, a namespace prefix) is reported as success", rr.witness(c, leak)...)
	} else {
		r.OK(rule, construct, c.Pos(call.Pos()), "every path from the marker match stores a non-nil Failed")
	}
}

// ---- connection handles that are used without a nil test are never set to nil ---------------------

func checkConnNeverNil(c *Ctx, r *Report, rule string) {
	// fields of interface type of the transport package on which a method is invoked
	type use struct {
		pos  string
		fn   string
		safe bool
	}
	invoked := map[*types.Var][]use{}
	inTransport := func(fn *ssa.Function) bool {
		return fn.Pkg != nil && strings.HasSuffix(fn.Pkg.Pkg.Path(), "/transport")
	}
	for _, fn := range c.LibFns {
		if !inTransport(fn) {
			continue
		}
		for _, ci := range callInstrs(fn) {
			if !ci.Common().IsInvoke() {
				continue
			}
			f, _, ok := fieldLoad(ci.Common().Value)
			if !ok {
				continue
			}
			if _, isI := f.Type().Underlying().(*types.Interface); !isI {
				continue
			}
			guarded := guardedBy(ci, func(cond ssa.Value, truth bool) bool {
				x, nonNil, ok := nilCheck(cond)
				if !ok || nonNil != truth {
					return false
				}
				ff, _, ok := fieldLoad(x)
				return ok && ff == f
			})
			invoked[f] = append(invoked[f], use{c.Pos(ci.Pos()), shortFn(fn), guarded})
		}
	}
	var fields []*types.Var
	for f := range invoked {
		fields = append(fields, f)
	}
	sort.Slice(fields, func(i, j int) bool {
		return fields[i].Name() < fields[j].Name() || (fields[i].Name() == fields[j].Name() && fields[i].Pos() < fields[j].Pos())
	})
	for _, f := range fields {
		unguarded := ""
		for _, u := range invoked[f] {
			if !u.safe {
				unguarded = u.fn + " (" + u.pos + ")"
				break
			}
		}
		if unguarded == "" {
			continue
		}
		construct := "handle " + f.Name() + " (" + c.Pos(f.Pos()) + ") is never reset to nil"
		var nils []string
		for _, fn := range c.LibFns {
			if !inTransport(fn) {
				continue
			}
			allInstrs(fn, func(in ssa.Instruction) {
				ff, base, v, ok := fieldStore(in)
				if _, fresh := base.(*ssa.Alloc); fresh {
					return // a constructor filling in the object it has just allocated
				}
				if ok && ff == f && isNilConst(v) {
					nils = append(nils, c.Pos(in.Pos())+" in "+shortFn(fn))
				}
			})
		}
		if len(nils) > 0 {
			sort.Strings(nils)
			r.Bad(rule, construct, nils[0], "the transport sets its connection handle "+f.Name()+" to nil ("+strings.Join(nils, ", ")+") while "+unguarded+" invokes a method on it without a nil test: after that point Close / Write / Read panic with a nil dereference instead of returning an error")
		} else {
			r.OK(rule, construct, c.Pos(f.Pos()), "invoked without nil test in "+unguarded+"; no nil store")
		}
	}
}

// ---- the error of a connection operation repeated in a loop is examined before the next attempt -----

func checkLoopErrorExamined(c *Ctx, r *Report, rule string) {
	io := c.ioCapable()
	for _, fn := range c.LibFns {
		if len(fn.Blocks) == 0 {
			continue
		}
		for _, ci := range callInstrs(fn) {
			call, ok := ci.(*ssa.Call)
			if !ok {
				continue
			}
			sc := call.Call.StaticCallee()
			isIO := sc != nil && io[sc]
			if call.Call.IsInvoke() && (call.Call.Method.Name() == "Read" || call.Call.Method.Name() == "Write") {
				isIO = true
			}
			if !isIO {
				continue
			}
			errs := errResultsOf(call)
			if len(errs) != 1 {
				continue
			}
			e := errs[0]
			// in a loop at all?
			first := reachFrom(fn, call, nil, nil)
			if !first.visited[call] {
				continue
			}
			al := aliasesOfErr(fn, e)
			for changed := true; changed; {
				changed = false
				allInstrs(fn, func(in ssa.Instruction) {
					phi, ok := in.(*ssa.Phi)
					if !ok {
						return
					}
					for _, a := range al {
						if a == ssa.Value(phi) {
							return
						}
					}
					for _, ed := range phi.Edges {
						for _, a := range al {
							if ed == a {
								al = append(al, phi)
								changed = true
								return
							}
						}
					}
				})
			}
			isAlias := func(v ssa.Value) bool {
				for _, a := range al {
					if a == v {
						return true
					}
				}
				return false
			}
			examines := func(in ssa.Instruction) bool {
				switch x := in.(type) {
				case *ssa.BinOp:
					v, _, ok := nilCheck(x)
					return ok && isAlias(v)
				case *ssa.Call:
					if x == call {
						return false
					}
					for _, a := range x.Call.Args {
						if isAlias(a) {
							return true
						}
					}
				case *ssa.Return:
					return true
				}
				return false
			}
			rr := reachFrom(fn, call, examines, nil)
			construct := shortFn(fn) + ": error of " + describeCall(c, call) + " examined before the next attempt"
			if rr.visited[call] {
				r.Bad(rule, construct, c.Pos(call.Pos()), "the loop can call "+describeCall(c, call)+" again without having looked at the error of the previous call: once the connection is lost the loop spins on the error until its deadline instead of reporting it at once", rr.witness(c, call)...)
			} else {
				r.OK(rule, construct, c.Pos(call.Pos()), "")
			}
		}
	}
}

// ---- methods of lock-carrying structs have pointer receivers ---------------------------------------

func checkPointerReceivers(c *Ctx, r *Report, rule string, only func(*types.Named) bool) {
	carriesLock := func(st *types.Struct) bool {
		for i := 0; i < st.NumFields(); i++ {
			t := st.Field(i).Type()
			if p, ok := t.(*types.Pointer); ok {
				t = p.Elem()
			}
			if n, ok := t.(*types.Named); ok && n.Obj().Pkg() != nil && n.Obj().Pkg().Path() == "sync" {
				return true
			}
		}
		return false
	}
	var pkgs []string
	for p := range c.PkgBy {
		if isLibPkgPath(p) {
			pkgs = append(pkgs, p)
		}
	}
	sort.Strings(pkgs)
	for _, pp := range pkgs {
		p := c.PkgBy[pp]
		if p.Types == nil {
			continue
		}
		for _, name := range p.Types.Scope().Names() {
			tn, ok := p.Types.Scope().Lookup(name).(*types.TypeName)
			if !ok {
				continue
			}
			named, ok := tn.Type().(*types.Named)
			if !ok {
				continue
			}
			st, ok := named.Underlying().(*types.Struct)
			if !ok || !carriesLock(st) || (only != nil && !only(named)) {
				continue
			}
			construct := "methods of " + strings.TrimPrefix(pp, modPath+"/") + "." + name + " use pointer receivers"
			var bad []string
			mutable := mutableFields(c, named)
			for i := 0; i < named.NumMethods(); i++ {
				m := named.Method(i)
				sig := m.Type().(*types.Signature)
				if _, isPtr := sig.Recv().Type().(*types.Pointer); isPtr {
					continue
				}
				// a value receiver is harmless only if the method touches nothing that changes after construction
				fn := c.Prog.FuncValue(m)
				touches := fn == nil
				if fn != nil && len(fn.Params) > 0 {
					allInstrs(fn, func(in ssa.Instruction) {
						switch x := in.(type) {
						case *ssa.Field:
							if st, ok := x.X.Type().Underlying().(*types.Struct); ok && mutable[st.Field(x.Field)] {
								touches = true
							}
						case *ssa.FieldAddr:
							if f := fieldOfAddr(x); f != nil && mutable[f] {
								touches = true
							}
						case *ssa.Call:
							if sc := x.Call.StaticCallee(); sc != nil && sc.Pkg != nil && sc.Pkg.Pkg.Path() == "sync" {
								touches = true
							}
						}
					})
				}
				if touches {
					bad = append(bad, m.Name()+" ("+c.Pos(m.Pos())+")")
				}
			}
			if len(bad) > 0 {
				r.Bad(rule, construct, c.Pos(tn.Pos()), "method(s) "+strings.Join(bad, ", ")+" take the struct by value: every call copies all fields -- including those its lock protects -- before the method can take the lock, so the guarded state is read outside the lock (a data race with the writers) and the method works on a stale copy")
			} else {
				r.OK(rule, construct, c.Pos(tn.Pos()), fmt.Sprintf("%d methods", named.NumMethods()))
			}
		}
	}
}

// mutableFields: fields of the struct that some library function stores to outside the construction of a fresh object.
func mutableFields(c *Ctx, named *types.Named) map[*types.Var]bool {
	out := map[*types.Var]bool{}
	st, ok := named.Underlying().(*types.Struct)
	if !ok {
		return out
	}
	own := map[*types.Var]bool{}
	for i := 0; i < st.NumFields(); i++ {
		own[st.Field(i)] = true
	}
	for _, fn := range c.LibFns {
		allInstrs(fn, func(in ssa.Instruction) {
			f, base, _, ok := fieldStore(in)
			if !ok || !own[f] {
				return
			}
			if _, fresh := base.(*ssa.Alloc); fresh {
				return
			}
			out[f] = true
		})
	}
	return out
}

// ---- after answering a login prompt the login loop forgets what it has read -------------------------

func checkAuthBufferReset(c *Ctx, r *Report, rule string) {
	war := c.LookupFunc("channel", "Channel", "WriteAndReturn")
	if war == nil {
		r.Anchor(rule, "(*channel.Channel).WriteAndReturn")
		return
	}
	for _, name := range []string{"authenticateSSH", "authenticateTelnet"} {
		fn := c.LookupFunc("channel", "Channel", name)
		if fn == nil {
			r.Anchor(rule, "(*channel.Channel)."+name)
			continue
		}
		// the accumulation: phi with an edge append(phi, chunk...)
		var acc *ssa.Phi
		allInstrs(fn, func(in ssa.Instruction) {
			call, ok := in.(*ssa.Call)
			if !ok {
				return
			}
			if b, ok := call.Call.Value.(*ssa.Builtin); ok && b.Name() == "append" && len(call.Call.Args) == 2 {
				if p, ok := call.Call.Args[0].(*ssa.Phi); ok {
					for _, e := range p.Edges {
						if e == ssa.Value(call) {
							acc = p
						}
					}
				}
			}
		})
		if acc == nil {
			r.Unk(rule, shortFn(fn)+" accumulation", c.Pos(fn.Pos()), "the login loop's accumulated buffer was not recognised (a loop-carried slice extended by append)")
			continue
		}
		hdr := acc.Block()
		writes := staticCallsTo(fn, war)
		for i, p := range hdr.Preds {
			if !hdr.Dominates(p) {
				continue // loop entry
			}
			var answered ssa.CallInstruction
			for _, w := range writes {
				if w.Block().Dominates(p) && hdr.Dominates(w.Block()) {
					answered = w
				}
			}
			if answered == nil {
				continue
			}
			construct := fmt.Sprintf("%s: buffer reset after the answer at %s", shortFn(fn), c.Pos(answered.Pos()))
			if isEmptySliceValue(acc.Edges[i]) {
				r.OK(rule, construct, c.Pos(answered.Pos()), "")
			} else {
				r.Bad(rule, construct, c.Pos(answered.Pos()), "after a credential was typed the loop goes on with the old buffer: the prompt that was just answered is still in it, so the next chunk of output (which need not contain any prompt) makes the same pattern match again and the credential is typed a second time -- by then the device echoes, so the secret appears in clear in the channel log and the debug log")
			}
		}
	}
}

func isEmptySliceValue(v ssa.Value) bool {
	if isNilConst(v) {
		return true
	}
	switch x := v.(type) {
	case *ssa.MakeSlice:
		n, ok := constInt(x.Len)
		return ok && n == 0
	case *ssa.Slice:
		if x.High != nil {
			if n, ok := constInt(x.High); ok && n == 0 {
				return true // b[:0]
			}
		}
		if a, ok := x.X.(*ssa.Alloc); ok {
			if p, ok := a.Type().Underlying().(*types.Pointer); ok {
				if arr, ok := p.Elem().Underlying().(*types.Array); ok && arr.Len() == 0 {
					return true
				}
			}
		}
	}
	return false
}

// ---- which built-in transports ask for in-channel authentication -----------------------------------
//
// Implementing transport.InChannelAuthImplementation is what makes Transport.InChannelAuthData hand user, password and
// passphrase to the channel, which then types them whenever output looks like a login prompt. The ssh subprocess
// (system) and telnet need that; the crypto/ssh transport authenticates inside the protocol, so if it satisfied the
// interface the password would additionally be typed into the already authenticated session.
func checkInChannelAuthSet(c *Ctx, r *Report, rule string) {
	ifaceT := c.LookupType("transport", "InChannelAuthImplementation")
	implT := c.LookupType("transport", "Implementation")
	if ifaceT == nil || implT == nil {
		r.Anchor(rule, "transport.InChannelAuthImplementation / transport.Implementation")
		return
	}
	iface, _ := ifaceT.Underlying().(*types.Interface)
	impl, _ := implT.Underlying().(*types.Interface)
	p := c.pkgRel("transport")
	if iface == nil || impl == nil || p == nil || p.Types == nil {
		r.Anchor(rule, "transport interfaces")
		return
	}
	want := map[string]string{"System": "ssh", "Telnet": "telnet"}
	for _, name := range p.Types.Scope().Names() {
		tn, ok := p.Types.Scope().Lookup(name).(*types.TypeName)
		if !ok {
			continue
		}
		named, ok := tn.Type().(*types.Named)
		if !ok {
			continue
		}
		if _, isStruct := named.Underlying().(*types.Struct); !isStruct {
			continue
		}
		ptr := types.NewPointer(named)
		if !types.Implements(ptr, impl) {
			continue
		}
		construct := "transport." + name + " in-channel authentication"
		does := types.Implements(ptr, iface)
		flavour, expected := want[name]
		inProtocol := authenticatesInProtocol(c, named)
		switch {
		case does && !expected && !inProtocol:
			r.OK(rule, construct, c.Pos(tn.Pos()), "a transport outside the table that asks for in-channel authentication and does not authenticate in the ssh protocol itself")
		case does && !expected:
			r.Bad(rule, construct, c.Pos(tn.Pos()), "the "+name+" transport satisfies InChannelAuthImplementation although it authenticates outside the channel: the configured password (and key passphrase) are handed to the channel and typed into the session whenever device output looks like a password prompt")
		case !does && expected:
			r.Bad(rule, construct, c.Pos(tn.Pos()), "the "+name+" transport no longer satisfies InChannelAuthImplementation: its login prompts are never answered")
		case does:
			fn := c.LookupFunc("transport", name, "GetInChannelAuthType")
			got := ""
			if fn != nil {
				allInstrs(fn, func(in ssa.Instruction) {
					if ret, ok := in.(*ssa.Return); ok && len(ret.Results) == 1 {
						if s, ok := constString(ret.Results[0]); ok {
							got = s
						}
					}
				})
			}
			r.Check(got == flavour, rule, construct, c.Pos(tn.Pos()), "in-channel, flavour "+flavour, fmt.Sprintf("the %s transport announces the in-channel authentication flavour %q, expected %q: the wrong login dialogue is run", name, got, flavour))
		default:
			r.OK(rule, construct, c.Pos(tn.Pos()), "authenticates outside the channel; does not implement the interface")
		}
	}
}

// authenticatesInProtocol: some method of the transport type builds crypto/ssh authentication methods.
func authenticatesInProtocol(c *Ctx, named *types.Named) bool {
	found := false
	for i := 0; i < named.NumMethods(); i++ {
		fn := c.Prog.FuncValue(named.Method(i))
		if fn == nil {
			continue
		}
		for _, f := range append([]*ssa.Function{fn}, AnonFuncsDeep(fn)...) {
			for _, ci := range callInstrs(f) {
				if o := CalleeObj(ci); o != nil && o.Pkg() != nil && strings.HasSuffix(o.Pkg().Path(), "crypto/ssh") {
					switch o.Name() {
					case "Password", "PasswordCallback", "PublicKeys", "PublicKeysCallback", "KeyboardInteractive":
						found = true
					}
				}
			}
		}
	}
	return found
}

// ---- the telnet negotiation loop goes on after every byte it handled -------------------------------

func checkTelnetLoopContinues(c *Ctx, r *Report, rule string) {
	fn := c.LookupFunc("transport", "Telnet", "handleControlChars")
	handler := c.LookupFunc("transport", "Telnet", "handleControlCharResponse")
	if fn == nil || handler == nil {
		r.Anchor(rule, "(*transport.Telnet).handleControlChars / handleControlCharResponse")
		return
	}
	calls := staticCallsTo(fn, handler)
	var readCall *ssa.Call
	for _, ci := range callInstrs(fn) {
		if call, ok := ci.(*ssa.Call); ok && call.Call.IsInvoke() && call.Call.Method.Name() == "Read" {
			readCall = call
		}
	}
	construct := "negotiation goes on after each handled byte"
	if len(calls) != 1 || readCall == nil {
		r.Unk(rule, construct, c.Pos(fn.Pos()), "negotiation loop not recognised (one handler call and one connection read expected)")
		return
	}
	hcall := calls[0].(*ssa.Call)
	errv := errResultsOf(hcall)
	ef := func(b *ssa.BasicBlock, i int) bool {
		cond := ifCond(b)
		if cond == nil || len(errv) != 1 {
			return true
		}
		x, nonNilOnTrue, ok := nilCheck(cond)
		if !ok || x != errv[0] {
			return true
		}
		if nonNilOnTrue {
			return i == 1
		}
		return i == 0
	}
	rr := reachFrom(fn, hcall, func(in ssa.Instruction) bool { return in == ssa.Instruction(readCall) }, ef)
	var leak ssa.Instruction
	for in := range rr.visited {
		ret, ok := in.(*ssa.Return)
		if !ok {
			continue
		}
		// returning an error that is known to be non-nil (setting the deadline failed) is a specified way out
		if len(ret.Results) == 1 {
			e := ret.Results[0]
			if guardedBy(ret, func(cond ssa.Value, truth bool) bool {
				v, nonNil, ok := nilCheck(cond)
				return ok && v == e && nonNil == truth
			}) {
				continue
			}
		}
		if leak == nil || in.Pos() < leak.Pos() {
			leak = in
		}
	}
	if leak != nil {
		r.Bad(rule, construct, c.Pos(leak.Pos()), "after a byte was handled without error the negotiation loop can return instead of reading the next byte: the only specified ways out are the read timeout and an error, so option requests that follow (e.g. after a banner) are never answered and reach the first read as data", rr.witness(c, leak)...)
	} else {
		r.OK(rule, construct, c.Pos(hcall.Pos()), "every path from a successfully handled byte leads to the next read")
	}
}

// ---- empty steps of the embedded definitions can be sent --------------------------------------------

func checkEmptyStepSendable(c *Ctx, r *Report, rule string) {
	var empties []string
	for _, l := range platformLevels(c) {
		if l.Previous == "" {
			continue
		}
		if l.Deescalate == "" {
			empties = append(empties, l.Platform+" "+l.Section+" level "+l.Level+" (deescalate)")
		}
	}
	sort.Strings(empties)
	construct := "an empty step is sent without waiting for an echo"
	fn := c.LookupFunc("channel", "Channel", "ReadUntilFuzzy")
	chRead := c.LookupFunc("channel", "Channel", "Read")
	if fn == nil || chRead == nil || len(fn.Params) < 3 {
		r.Anchor(rule, "(*channel.Channel).ReadUntilFuzzy / Read")
		return
	}
	if len(empties) == 0 {
		r.OK(rule, construct, c.Pos(fn.Pos()), "no embedded definition has a non-root level with an empty deescalate step")
		return
	}
	// a return of (nil, nil) guarded by len(input) == 0 only, that no chunk read precedes
	ok := false
	reads := chunkReads(fn, chRead)
	allInstrs(fn, func(in ssa.Instruction) {
		ret, isRet := in.(*ssa.Return)
		if !isRet || len(ret.Results) != 2 || !isNilConst(ret.Results[0]) || !isNilConst(ret.Results[1]) {
			return
		}
		for _, rd := range reads {
			if dominatesInstr(rd, ret) {
				return
			}
		}
		conds := edgeConds(ret.Block())
		if len(conds) != 1 {
			return
		}
		bo, isBo := conds[0].Cond.(*ssa.BinOp)
		if !isBo {
			return
		}
		l := linOf(bo.X, 0).addScaled(linOf(bo.Y, 0), -1)
		inputKey := "len(" + fn.Params[2].Name() + ")"
		for _, side := range []ssa.Value{bo.X, bo.Y} {
			// the input parameter may have been spilled to a cell because a closure captures it
			if cl, isCall := side.(*ssa.Call); isCall && len(cl.Call.Args) == 1 {
				if b, isB := cl.Call.Value.(*ssa.Builtin); isB && b.Name() == "len" && isParamValue(cl.Call.Args[0], fn.Params[2]) {
					inputKey = "len(" + cl.Call.Args[0].Name() + ")"
				}
			}
		}
		if len(l.coef) != 1 || l.coef[inputKey] != 1 {
			return
		}
		t := conds[0].Truth
		switch {
		case bo.Op == token.EQL && t && l.c == 0, bo.Op == token.NEQ && !t && l.c == 0, bo.Op == token.LEQ && t && l.c == 0, bo.Op == token.GTR && !t && l.c == 0, bo.Op == token.LSS && t && l.c == -1:
			ok = true
		}
	})
	if ok {
		r.OK(rule, construct, c.Pos(fn.Pos()), fmt.Sprintf("ReadUntilFuzzy returns at once for an empty input; needed by %d level(s), e.g. %s", len(empties), empties[0]))
	} else {
		r.Bad(rule, construct, c.Pos(fn.Pos()), "ReadUntilFuzzy does not return at once for an empty input, but embedded definitions step between levels with an empty command ("+strings.Join(empties, "; ")+"): nothing is echoed for an empty input, so the send waits for output that never comes and the level change times out")
	}
}

// ---- escalation password prompts of the embedded definitions are whole-line patterns -----------------

func checkEscalatePromptAnchored(c *Ctx, r *Report, rule string) {
	// named exceptions, one reason each
	exceptions := map[string]string{
		"cumulus_linux|: ": "sudo's prompt ends in '<user>: ' and the definition matches just that suffix (as shipped upstream)",
	}
	seen := map[string]bool{}
	n := 0
	for _, l := range platformLevels(c) {
		if l.EscalatePrompt == "" {
			continue
		}
		key := l.Platform + "|" + l.Section + "|" + l.Level
		if seen[key] {
			continue
		}
		seen[key] = true
		n++
		construct := "escalate-prompt of " + l.Platform + " " + l.Section + " level " + l.Level
		if why, ok := exceptions[l.Platform+"|"+l.EscalatePrompt]; ok {
			r.OK(rule, construct, l.Pos, "named exception: "+why)
			continue
		}
		pat := l.EscalatePrompt
		body := pat
		flags := ""
		if strings.HasPrefix(body, "(?") {
			if i := strings.Index(body, ")"); i > 0 {
				flags, body = body[2:i], body[i+1:]
			}
		}
		anchored := strings.HasPrefix(body, "^") && strings.HasSuffix(body, "$") && !strings.HasSuffix(body, `\$`) && strings.Contains(flags, "m")
		if anchored {
			r.OK(rule, construct, l.Pos, pat)
		} else {
			r.Bad(rule, construct, l.Pos, fmt.Sprintf("the escalation password prompt %q is not a whole-line pattern ((?m)^...$) like those of the other definitions: any device text that merely contains it ends the escalate event as if the password had been asked for, and the secondary secret is typed at whatever prompt follows", pat))
		}
	}
	if n == 0 {
		r.Unk(rule, "escalate prompts", "-", "no embedded definition declares an escalation password prompt")
	}
}

// ---- an option that validates its argument stores the value it validated ----------------------------

func checkValidatedIsStored(c *Ctx, r *Report, rule string) {
	for _, fn := range c.LibFns {
		if fn.Parent() == nil || fn.Pkg == nil || !strings.HasSuffix(fn.Pkg.Pkg.Path(), "/driver/options") {
			continue
		}
		// captured string arguments of the option constructor
		form := func(v ssa.Value) (string, *ssa.FreeVar) {
			v = stripConv(v)
			switch x := v.(type) {
			case *ssa.FreeVar:
				return "the argument itself", x
			case *ssa.UnOp:
				if fv, ok := x.X.(*ssa.FreeVar); ok && x.Op == token.MUL {
					return "the argument itself", fv
				}
			case *ssa.Call:
				for _, a := range x.Call.Args {
					a = stripConv(a)
					if u, ok := a.(*ssa.UnOp); ok && u.Op == token.MUL {
						a = u.X
					}
					if fv, ok := a.(*ssa.FreeVar); ok {
						name := "a function"
						if o := CalleeObj(x); o != nil && o.Pkg() != nil {
							name = o.Pkg().Name() + "." + o.Name()
						}
						return name + " of the argument", fv
					}
				}
			}
			return "", nil
		}
		validated := map[*ssa.FreeVar]map[string]bool{}
		stored := map[*ssa.FreeVar]map[string]bool{}
		allInstrs(fn, func(in ssa.Instruction) {
			switch x := in.(type) {
			case *ssa.BinOp:
				if x.Op != token.EQL && x.Op != token.NEQ {
					return
				}
				var other ssa.Value
				if _, ok := constString(x.Y); ok {
					other = x.X
				} else if _, ok := constString(x.X); ok {
					other = x.Y
				}
				if other == nil {
					return
				}
				if f, fv := form(other); fv != nil {
					if validated[fv] == nil {
						validated[fv] = map[string]bool{}
					}
					validated[fv][f] = true
				}
			case *ssa.Store:
				if _, _, v, ok := fieldStore(in); ok {
					if f, fv := form(v); fv != nil {
						if stored[fv] == nil {
							stored[fv] = map[string]bool{}
						}
						stored[fv][f] = true
					}
				}
			}
		})
		for fv, vf := range validated {
			sf := stored[fv]
			if len(sf) == 0 {
				continue
			}
			construct := shortFn(fn.Parent()) + ": the value checked is the value stored"
			same := len(vf) == len(sf)
			for k := range vf {
				if !sf[k] {
					same = false
				}
			}
			if same {
				r.OK(rule, construct, c.Pos(fn.Pos()), strings.Join(keysOf(vf), ", "))
			} else {
				r.Bad(rule, construct, c.Pos(fn.Pos()), fmt.Sprintf("the option checks %s against its list of valid values but stores %s: a value that passes the check only in its transformed spelling is accepted and then matches nothing downstream (no transport / version is selected), instead of being rejected with a bad-option error", strings.Join(keysOf(vf), " / "), strings.Join(keysOf(sf), " / ")))
			}
		}
	}
}

// ---- what the channel takes out of the queue it hands to its caller ----------------------------------

func checkDequeuedReturned(c *Ctx, r *Report, rule string) {
	for _, sp := range [][2]string{{"Read", "Dequeue"}, {"ReadAll", "DequeueAll"}} {
		fn := c.LookupFunc("channel", "Channel", sp[0])
		deq := c.LookupFunc("util", "Queue", sp[1])
		if fn == nil || deq == nil {
			r.Anchor(rule, "(*channel.Channel)."+sp[0]+" / (*util.Queue)."+sp[1])
			continue
		}
		construct := "Channel." + sp[0] + " returns what it dequeued"
		calls := staticCallsTo(fn, deq)
		if len(calls) != 1 {
			r.Unk(rule, construct, c.Pos(fn.Pos()), fmt.Sprintf("%d dequeue calls (one expected)", len(calls)))
			continue
		}
		d := calls[0].(*ssa.Call)
		rr := reachFrom(fn, d, nil, nil)
		var bad ssa.Instruction
		for in := range rr.visited {
			ret, ok := in.(*ssa.Return)
			if !ok || len(ret.Results) == 0 {
				continue
			}
			if ret.Results[0] == ssa.Value(d) {
				continue
			}
			// returning nothing is fine exactly when nothing was dequeued
			if guardedBy(ret, func(cond ssa.Value, truth bool) bool {
				if v, nonNil, ok := nilCheck(cond); ok && v == ssa.Value(d) && nonNil != truth {
					return true
				}
				// len(chunk) == 0 / len(chunk) < 1 / !(len(chunk) > 0)
				bo, ok := cond.(*ssa.BinOp)
				if !ok {
					return false
				}
				l := linOf(bo.X, 0).addScaled(linOf(bo.Y, 0), -1)
				if len(l.coef) != 1 || l.coef["len("+d.Name()+")"] != 1 {
					return false
				}
				switch {
				case bo.Op == token.EQL && truth && l.c == 0, bo.Op == token.NEQ && !truth && l.c == 0, bo.Op == token.LEQ && truth && l.c == 0, bo.Op == token.GTR && !truth && l.c == 0, bo.Op == token.LSS && truth && l.c == -1:
					return true
				}
				return false
			}) {
				continue
			}
			if bad == nil || in.Pos() < bad.Pos() {
				bad = in
			}
		}
		if bad != nil {
			r.Bad(rule, construct, c.Pos(bad.Pos()), "Channel."+sp[0]+" can take a chunk out of the queue and return without handing it to its caller (e.g. when an error is pending): those bytes are lost to every later read", rr.witness(c, bad)...)
		} else {
			r.OK(rule, construct, c.Pos(d.Pos()), "every return after the dequeue returns the dequeued bytes (or nothing when nothing was queued)")
		}
	}
}

// ---- a cancel function is released when its creator returns -------------------------------------------

func checkCancelDeferred(c *Ctx, r *Report, rule string) {
	for _, fn := range c.LibFns {
		for _, ci := range callInstrs(fn) {
			call, ok := ci.(*ssa.Call)
			if !ok {
				continue
			}
			o := CalleeObj(call)
			if o == nil || o.Pkg() == nil || o.Pkg().Path() != "context" {
				continue
			}
			switch o.Name() {
			case "WithCancel", "WithTimeout", "WithDeadline":
			default:
				continue
			}
			cancel := resultOf(call, 1)
			construct := shortFn(fn) + ": cancel of " + o.Name() + " at " + c.Pos(call.Pos())
			construct = shortFn(fn) + ": the cancel function of its context." + o.Name() + " runs on every return"
			if cancel == nil {
				r.Bad(rule, construct, c.Pos(call.Pos()), "the cancel function is discarded: whatever watches the context is never told to stop")
				continue
			}
			deferred := false
			// the cancel value may be spilled to a cell when closures capture it
			vals := []ssa.Value{cancel}
			for _, ref := range *cancel.Referrers() {
				if st, ok := ref.(*ssa.Store); ok && st.Val == cancel {
					allInstrs(fn, func(in ssa.Instruction) {
						if u, ok := in.(*ssa.UnOp); ok && u.Op == token.MUL && u.X == st.Addr {
							vals = append(vals, u)
						}
					})
				}
			}
			for _, d := range callInstrs(fn) {
				df, ok := d.(*ssa.Defer)
				if !ok || !dominatesInstr(call, df) {
					continue
				}
				for _, v := range vals {
					if df.Call.Value == v {
						deferred = true
					}
				}
				// defer func() { ...; cancel() }(): the deferred closure calls it on each of its paths
				if mc, ok := df.Call.Value.(*ssa.MakeClosure); ok {
					clos := mc.Fn.(*ssa.Function)
					isCall := func(in ssa.Instruction) bool {
						cc, ok := in.(*ssa.Call)
						if !ok {
							return false
						}
						callee := cc.Call.Value
						if u, ok := callee.(*ssa.UnOp); ok && u.Op == token.MUL {
							callee = u.X
						}
						fv, ok := callee.(*ssa.FreeVar)
						if !ok {
							return false
						}
						b := freeVarBinding(fv)
						if b == cancel {
							return true
						}
						for _, ref := range *cancel.Referrers() {
							if st, ok := ref.(*ssa.Store); ok && st.Val == cancel && st.Addr == b {
								return true
							}
						}
						return false
					}
					rr := reachFrom(clos, nil, isCall, nil)
					all := true
					for in := range rr.visited {
						if isReturn(in) {
							all = false
						}
					}
					if all && len(clos.Blocks) > 0 {
						deferred = true
					}
				}
			}
			if deferred {
				r.OK(rule, construct, c.Pos(call.Pos()), "deferred")
				continue
			}
			// kept in the object for a later Close / Stop: released by its owner, not by this function
			kept := false
			for _, v := range vals {
				if v.Referrers() == nil {
					continue
				}
				for _, ref := range *v.Referrers() {
					if _, _, val, ok := fieldStore(ref); ok && val == v {
						kept = true
					}
				}
			}
			if kept {
				r.OK(rule, construct, c.Pos(call.Pos()), "stored in a struct field: released by the object's owner")
				continue
			}
			// otherwise: called on every path to a return
			isCancelCall := func(in ssa.Instruction) bool {
				cc, ok := in.(*ssa.Call)
				if !ok {
					return false
				}
				for _, v := range vals {
					if cc.Call.Value == v {
						return true
					}
				}
				return false
			}
			rr := reachFrom(fn, call, isCancelCall, nil)
			var leak ssa.Instruction
			for in := range rr.visited {
				if isReturn(in) && (leak == nil || in.Pos() < leak.Pos()) {
					leak = in
				}
			}
			if leak != nil {
				r.Bad(rule, construct, c.Pos(leak.Pos()), "the function can return without the context's cancel function having run (it is neither deferred nor called on this path): a goroutine that polls this context for its stop signal keeps running after the operation -- and after Close -- has returned", rr.witness(c, leak)...)
			} else {
				r.OK(rule, construct, c.Pos(call.Pos()), "called on every path")
			}
		}
	}
}

// ---- a login worker that may answer nil is only told to stop once nobody listens ---------------------

func checkWorkerNilResult(c *Ctx, r *Report, rule string) {
	for _, sp := range [][2]string{{"AuthenticateSSH", "authenticateSSH"}, {"AuthenticateTelnet", "authenticateTelnet"}} {
		outer := c.LookupFunc("channel", "Channel", sp[0])
		worker := c.LookupFunc("channel", "Channel", sp[1])
		if outer == nil || worker == nil {
			r.Anchor(rule, "(*channel.Channel)."+sp[0]+" / "+sp[1])
			continue
		}
		construct := sp[0] + ": the result it dereferences is never nil"
		returnsNil := false
		allInstrs(worker, func(in ssa.Instruction) {
			if ret, ok := in.(*ssa.Return); ok && len(ret.Results) == 1 && isNilConst(ret.Results[0]) {
				returnsNil = true
			}
		})
		if !returnsNil {
			r.OK(rule, construct, c.Pos(worker.Pos()), "the worker has no nil return")
			continue
		}
		// the worker answers nil when its context is done: that context must only be ended by the caller's deferred cancel
		okCtx := false
		why := "the worker is not started with a context created here"
		for _, f := range append([]*ssa.Function{outer}, AnonFuncsDeep(outer)...) {
			for _, ci := range staticCallsTo(f, worker) {
				for _, a := range ci.Common().Args {
					if !isContextType(a.Type()) {
						continue
					}
					kind, src := ctxOrigin(a, 0)
					call, _ := src.(*ssa.Call)
					if kind != "with-timeout" || call == nil {
						continue
					}
					o := CalleeObj(call)
					if o == nil || o.Name() != "WithCancel" {
						why = "the worker's context carries a deadline of its own (context." + o.Name() + "): when it expires the worker answers nil while " + sp[0] + " may still pick that answer up and dereference it -- Open panics instead of returning a timeout error, and its deferred clean-up (which runs on errors only) leaves the transport open"
						continue
					}
					okCtx = true
				}
			}
		}
		if okCtx {
			r.OK(rule, construct, c.Pos(outer.Pos()), "the worker returns nil only once its cancel-only context is cancelled, which happens when "+sp[0]+" returns")
		} else {
			r.Bad(rule, construct, c.Pos(outer.Pos()), why)
		}
	}
}

// ---- a file is split into lines, whatever their length ------------------------------------------------

func checkFileLines(c *Ctx, r *Report, rule string) {
	fn := c.LookupFunc("util", "", "LoadFileLines")
	if fn == nil {
		r.Anchor(rule, "util.LoadFileLines")
		return
	}
	construct := "LoadFileLines yields one element per line"
	var probs []string
	n := 0
	for _, ci := range callInstrs(fn) {
		call, ok := ci.(*ssa.Call)
		if !ok {
			continue
		}
		o := CalleeObj(call)
		if o == nil || o.Pkg() == nil || o.Pkg().Path() != "bufio" {
			continue
		}
		switch o.Name() {
		case "ReadLine":
			n++
			if p := resultOf(call, 1); p == nil || p.Referrers() == nil || len(*p.Referrers()) == 0 {
				probs = append(probs, "bufio.Reader.ReadLine's isPrefix result is ignored at "+c.Pos(call.Pos())+": a line longer than the reader's buffer is returned in pieces, each sent to the device as a command of its own")
			}
		case "Scan", "ReadString", "ReadBytes", "Text":
			n++
		}
	}
	if n == 0 {
		r.Unk(rule, construct, c.Pos(fn.Pos()), "no bufio line reader found in LoadFileLines")
		return
	}
	if len(probs) > 0 {
		r.Bad(rule, construct, c.Pos(fn.Pos()), strings.Join(probs, "; "))
	} else {
		r.OK(rule, construct, c.Pos(fn.Pos()), "")
	}
}

// ---- a deadline armed on a connection is disarmed by the same kind of call ----------------------------
//
// net.Conn has three deadline setters: SetDeadline arms reads AND writes, SetReadDeadline / SetWriteDeadline one side.
// A function of a transport that arms a deadline for a bounded phase (negotiation, handshake) and then returns
// success must have disarmed every side it armed; clearing only the read side after SetDeadline leaves a write
// deadline behind that fails every write once it has passed.
func checkDeadlineCleared(c *Ctx, r *Report, rule string) {
	isZeroTime := func(v ssa.Value) bool {
		// time.Time{}: a zero-initialised local struct loaded, or a constant zero struct
		switch x := v.(type) {
		case *ssa.UnOp:
			if a, ok := x.X.(*ssa.Alloc); ok && x.Op == token.MUL {
				for _, ref := range *a.Referrers() {
					if _, isStore := ref.(*ssa.Store); isStore {
						return false
					}
				}
				return true
			}
		case *ssa.Const:
			return true
		}
		return false
	}
	covers := map[string][]string{"SetDeadline": {"SetDeadline"}, "SetReadDeadline": {"SetReadDeadline", "SetDeadline"}, "SetWriteDeadline": {"SetWriteDeadline", "SetDeadline"}}
	n := 0
	for _, fn := range c.LibFns {
		if fn.Pkg == nil || !strings.HasSuffix(fn.Pkg.Pkg.Path(), "/transport") {
			continue
		}
		for _, ci := range callInstrs(fn) {
			call, ok := ci.(*ssa.Call)
			if !ok || !call.Call.IsInvoke() || len(call.Call.Args) != 1 {
				continue
			}
			name := call.Call.Method.Name()
			if _, isSetter := covers[name]; !isSetter || isZeroTime(call.Call.Args[0]) {
				continue
			}
			n++
			construct := shortFn(fn) + ": " + name + " armed at " + c.Pos(call.Pos()) + " is disarmed before success"
			construct = shortFn(fn) + ": the " + name + " it arms is disarmed before it reports success"
			disarms := func(in ssa.Instruction) bool {
				cc, ok := in.(*ssa.Call)
				if !ok || !cc.Call.IsInvoke() || len(cc.Call.Args) != 1 || !isZeroTime(cc.Call.Args[0]) {
					return false
				}
				for _, k := range covers[name] {
					if cc.Call.Method.Name() == k {
						return true
					}
				}
				return false
			}
			rr := reachFrom(fn, call, disarms, nil)
			var leak ssa.Instruction
			for in := range rr.visited {
				ret, ok := in.(*ssa.Return)
				if !ok || len(ret.Results) == 0 {
					continue
				}
				e := ret.Results[len(ret.Results)-1]
				if !isErrorType(e.Type()) {
					continue
				}
				if !isNilConst(e) {
					// an error is being returned (the connection is given up), or the disarming call's own result
					continue
				}
				if leak == nil || in.Pos() < leak.Pos() {
					leak = in
				}
			}
			if leak != nil {
				r.Bad(rule, construct, c.Pos(leak.Pos()), "the function can report success while a deadline armed with "+name+" is still in force (no "+strings.Join(covers[name], " / ")+"(time.Time{}) on this path): once it has passed, every later read or write on the connection fails with a timeout", rr.witness(c, leak)...)
			} else {
				r.OK(rule, construct, c.Pos(call.Pos()), "")
			}
		}
	}
	if n == 0 {
		r.Unk(rule, "deadline setters", "-", "no deadline is armed anywhere in the transport package")
	}
}
