package main

import (
	"go/token"
	"go/types"
	"regexp"
	"strings"

	"golang.org/x/tools/go/ssa"
)

// guardedBy: some condition known on entry to the block of `in` satisfies pred.
func guardedBy(in ssa.Instruction, pred func(cond ssa.Value, truth bool) bool) bool {
	for _, ec := range edgeConds(in.Block()) {
		v, neg := unwrapNot(ec.Cond)
		truth := ec.Truth
		if neg {
			truth = !truth
		}
		if pred(v, truth) {
			return true
		}
	}
	return false
}

// isFieldLoadNamed: v is a load of a field with the given name (through conversions).
func isFieldLoadNamed(v ssa.Value, name string) bool {
	for {
		switch x := v.(type) {
		case *ssa.Convert:
			v = x.X
			continue
		case *ssa.ChangeType:
			v = x.X
			continue
		}
		break
	}
	f, _, ok := fieldLoad(v)
	return ok && f.Name() == name
}

func isFieldLoadOf(v ssa.Value, f *types.Var) bool {
	for {
		switch x := v.(type) {
		case *ssa.Convert:
			v = x.X
			continue
		case *ssa.ChangeType:
			v = x.X
			continue
		}
		break
	}
	ff, _, ok := fieldLoad(v)
	return ok && ff == f
}

// stripConv removes conversions.
func stripConv(v ssa.Value) ssa.Value {
	for {
		switch x := v.(type) {
		case *ssa.Convert:
			v = x.X
			continue
		case *ssa.ChangeType:
			v = x.X
			continue
		case *ssa.MakeInterface:
			v = x.X
			continue
		}
		return v
	}
}

// paramOrCaptured: v is parameter p of fn, the spilled cell of it, or (inside a closure of fn) the captured p.
func sameParam(v ssa.Value, p *ssa.Parameter) bool {
	v = stripConv(v)
	if isParamValue(v, p) {
		return true
	}
	// captured by reference: *freevar bound to the cell p was spilled to
	if u, ok := v.(*ssa.UnOp); ok && u.Op == token.MUL {
		if fv, ok := u.X.(*ssa.FreeVar); ok {
			if b := freeVarBinding(fv); b != nil {
				if a, ok := b.(*ssa.Alloc); ok {
					for _, ref := range *a.Referrers() {
						if st, ok := ref.(*ssa.Store); ok && st.Addr == ssa.Value(a) && st.Val == ssa.Value(p) {
							return true
						}
					}
				}
			}
		}
	}
	if fv, ok := v.(*ssa.FreeVar); ok {
		if b := freeVarBinding(fv); b == ssa.Value(p) {
			return true
		}
	}
	return false
}

// flattenAppend parses a dtable key made of nested append(base,{a,b,...}) into its element list.
// Unknown bases are returned as a single "<base>" element.
func flattenAppend(key string) []string {
	key = strings.TrimSpace(key)
	if strings.HasPrefix(key, "append(") && strings.HasSuffix(key, ")") {
		inner := key[len("append(") : len(key)-1]
		parts := splitTopLevel(inner)
		var out []string
		for i, p := range parts {
			if i == 0 {
				out = append(out, flattenAppend(p)...)
				continue
			}
			out = append(out, flattenAppend(p)...)
		}
		return out
	}
	if strings.HasPrefix(key, "{") && strings.HasSuffix(key, "}") {
		var out []string
		for _, p := range splitTopLevel(key[1 : len(key)-1]) {
			out = append(out, strings.TrimSpace(p))
		}
		return out
	}
	if key == "" {
		return nil
	}
	return []string{key}
}

// splitTopLevel splits on commas not nested in (), {}, [] or string literals.
func splitTopLevel(s string) []string {
	var out []string
	depth := 0
	inq := false
	cur := strings.Builder{}
	for i := 0; i < len(s); i++ {
		ch := s[i]
		if inq {
			cur.WriteByte(ch)
			if ch == '\\' && i+1 < len(s) {
				i++
				cur.WriteByte(s[i])
				continue
			}
			if ch == '"' {
				inq = false
			}
			continue
		}
		switch ch {
		case '"':
			inq = true
		case '(', '{', '[':
			depth++
		case ')', '}', ']':
			depth--
		case ',':
			if depth == 0 {
				out = append(out, cur.String())
				cur.Reset()
				continue
			}
		}
		cur.WriteByte(ch)
	}
	if cur.Len() > 0 {
		out = append(out, cur.String())
	}
	return out
}

// heldLock: convenience — must-held locks at an instruction for a single function analysed as a root.
func locksHeldIn(c *Ctx, fn *ssa.Function, in ssa.Instruction) lockSet {
	ml := NewMustLocks(c, map[*ssa.Function]bool{fn: true}, nil)
	return ml.HeldAt(in)
}

var fmtKeyRe = regexp.MustCompile(`^fmt\.Sprintf\("([^"%]*)%([dsv])",\{(.*)\}\)$`)

// normFmtKey canonicalises the key of a formatted string with one trailing verb, so that fmt.Sprintf("p=%d", x),
// "p=" + strconv.Itoa(x) and (for %s) "p=" + x read the same.
func normFmtKey(k string) string {
	m := fmtKeyRe.FindStringSubmatch(k)
	if m == nil {
		return k
	}
	arg := m[3]
	if m[2] == "d" {
		arg = "strconv.Itoa(" + arg + ")"
	}
	if m[1] == "" {
		return arg
	}
	return `("` + m[1] + `"+` + arg + `)`
}

// canonCallKey rewrites the list-valued arguments of a call key ("f(a,append({x},y))") into a canonical element list,
// so that a slice assembled by one append, by several, from a literal or from a pre-sized empty slice reads the same.
func canonCallKey(s string) string {
	i := strings.Index(s, "(")
	if i < 0 || !strings.HasSuffix(s, ")") {
		return s
	}
	args := splitTopLevel(s[i+1 : len(s)-1])
	for k, a := range args {
		a = strings.TrimSpace(a)
		if strings.HasPrefix(a, "append(") || strings.HasPrefix(a, "{") {
			var els []string
			for _, e := range flattenAppend(a) {
				e = strings.TrimSpace(e)
				if e == "nil" || e == "make[0]" || e == "" {
					continue // an empty base contributes no element
				}
				els = append(els, e)
			}
			a = "list[" + strings.Join(els, " ") + "]"
		}
		args[k] = a
	}
	return s[:i+1] + strings.Join(args, ",") + ")"
}
