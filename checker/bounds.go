package main

// E6: guarded-index analysis. For every index / slice operation in scope it
// generates the obligations 0 <= i < len(s) (index) or 0 <= lo <= hi <= len(s)
// (slice; note len, not cap) and tries to discharge each as a linear
// inequality L <= 0 over SSA leaves, from
//   * facts given by dominating branch edges (integer comparisons),
//   * non-negativity of len()/cap(), and inductively of loop phis,
//   * case split over phi operands (proved at the end of each predecessor).
// Linear forms are only canonicalised (+, -, * const); the entailment test is
// "goal = sum of at most three facts + non-positive constant". No solver.
// Assumption: no integer overflow in the index arithmetic.

import (
	"fmt"
	"go/token"
	"go/types"
	"sort"
	"strings"

	"golang.org/x/tools/go/ssa"
)

type lin struct {
	coef map[string]int64
	leaf map[string]ssa.Value
	c    int64
}

func newLin() *lin { return &lin{coef: map[string]int64{}, leaf: map[string]ssa.Value{}} }

func (a *lin) clone() *lin {
	b := newLin()
	for k, v := range a.coef {
		b.coef[k] = v
		b.leaf[k] = a.leaf[k]
	}
	b.c = a.c
	return b
}

func (a *lin) addScaled(b *lin, s int64) *lin {
	out := a.clone()
	for k, v := range b.coef {
		out.coef[k] += s * v
		out.leaf[k] = b.leaf[k]
		if out.coef[k] == 0 {
			delete(out.coef, k)
			delete(out.leaf, k)
		}
	}
	out.c += s * b.c
	return out
}

func (a *lin) isConst() bool { return len(a.coef) == 0 }

func (a *lin) String() string {
	var ks []string
	for k := range a.coef {
		ks = append(ks, k)
	}
	sort.Strings(ks)
	var parts []string
	for _, k := range ks {
		parts = append(parts, fmt.Sprintf("%+d*%s", a.coef[k], k))
	}
	parts = append(parts, fmt.Sprintf("%+d", a.c))
	return strings.Join(parts, " ")
}

func isIntType(t types.Type) bool {
	b, ok := t.Underlying().(*types.Basic)
	return ok && b.Info()&types.IsInteger != 0
}

func leafKey(v ssa.Value) string {
	if call, ok := v.(*ssa.Call); ok {
		if b, ok := call.Call.Value.(*ssa.Builtin); ok && (b.Name() == "len" || b.Name() == "cap") && len(call.Call.Args) == 1 {
			x := call.Call.Args[0]
			for {
				if ct, ok := x.(*ssa.ChangeType); ok {
					x = ct.X
					continue
				}
				break
			}
			return b.Name() + "(" + x.Name() + ")"
		}
	}
	return v.Name()
}

func lenLeaf(s ssa.Value) *lin {
	x := s
	for {
		if ct, ok := x.(*ssa.ChangeType); ok {
			x = ct.X
			continue
		}
		break
	}
	l := newLin()
	k := "len(" + x.Name() + ")"
	l.coef[k] = 1
	l.leaf[k] = nil // synthetic: defined where x is defined
	return l
}

// lenLin: the length of a slice / string value as a linear form; a re-slice s[lo:hi] of a slice or string reads hi - lo
// (hi defaulting to len(s), lo to 0), anything else is the leaf len(v).
func lenLin(v ssa.Value, depth int) *lin {
	if sl, ok := v.(*ssa.Slice); ok && depth < 4 && sl.Max == nil {
		switch sl.X.Type().Underlying().(type) {
		case *types.Slice, *types.Basic:
			hi := lenLin(sl.X, depth+1)
			if sl.High != nil {
				hi = linOf(sl.High, 0)
			}
			if sl.Low != nil {
				return hi.addScaled(linOf(sl.Low, 0), -1)
			}
			return hi
		}
	}
	return lenLeaf(v)
}

// indexByteFacts: r = bytes.IndexByte(s, c) / strings.IndexByte(s, c) satisfies -1 <= r < len(s) (documented result:
// the index of the first instance of c in s, or -1).
func indexByteFacts(v ssa.Value) []*lin {
	call, ok := v.(*ssa.Call)
	if !ok || len(call.Call.Args) != 2 {
		return nil
	}
	o := CalleeObj(call)
	if o == nil || o.Pkg() == nil || o.Name() != "IndexByte" || (o.Pkg().Path() != "bytes" && o.Pkg().Path() != "strings") {
		return nil
	}
	k := leafKey(v)
	up := newLin() // r + 1 - len(s) <= 0
	up.coef[k] = 1
	up.leaf[k] = v
	up.c = 1
	up = up.addScaled(lenLin(call.Call.Args[0], 0), -1)
	lo := newLin() // -r - 1 <= 0
	lo.coef[k] = -1
	lo.leaf[k] = v
	lo.c = -1
	return []*lin{up, lo}
}

// linOf linearises an integer SSA value.
func linOf(v ssa.Value, depth int) *lin {
	out := newLin()
	if depth > 12 {
		out.coef[leafKey(v)] = 1
		out.leaf[leafKey(v)] = v
		return out
	}
	switch x := v.(type) {
	case *ssa.Const:
		if i, ok := constInt(x); ok {
			out.c = i
			return out
		}
	case *ssa.BinOp:
		switch x.Op {
		case token.ADD:
			return linOf(x.X, depth+1).addScaled(linOf(x.Y, depth+1), 1)
		case token.SUB:
			return linOf(x.X, depth+1).addScaled(linOf(x.Y, depth+1), -1)
		case token.MUL:
			if k, ok := constInt(x.Y); ok {
				return newLin().addScaled(linOf(x.X, depth+1), k)
			}
			if k, ok := constInt(x.X); ok {
				return newLin().addScaled(linOf(x.Y, depth+1), k)
			}
		}
	case *ssa.Convert:
		// int <-> int of the same kind only
		if isIntType(x.X.Type()) && isIntType(x.Type()) {
			fb, _ := x.X.Type().Underlying().(*types.Basic)
			tb, _ := x.Type().Underlying().(*types.Basic)
			if fb != nil && tb != nil && fb.Kind() == tb.Kind() {
				return linOf(x.X, depth+1)
			}
		}
	}
	k := leafKey(v)
	out.coef[k] = 1
	out.leaf[k] = v
	return out
}

type boundsProver struct {
	c       *Ctx
	fn      *ssa.Function
	assumed map[*ssa.Phi]bool
	hyps    []*lin // inductive hypotheses (goal over a loop phi, assumed while proving its incoming edges)
	budget  int
}

// factsAt: linear facts F <= 0 known on entry to blk from dominating branch edges.
func (p *boundsProver) factsAt(blk *ssa.BasicBlock, toSucc *ssa.BasicBlock) []*lin {
	var out []*lin
	conds := edgeConds(blk)
	if toSucc != nil {
		if cond := ifCond(blk); cond != nil && len(blk.Succs) == 2 && blk.Succs[0] != blk.Succs[1] {
			if blk.Succs[0] == toSucc {
				conds = append(conds, edgeCond{cond, true})
			} else if blk.Succs[1] == toSucc {
				conds = append(conds, edgeCond{cond, false})
			}
		}
	}
	for _, ec := range conds {
		v, neg := unwrapNot(ec.Cond)
		truth := ec.Truth
		if neg {
			truth = !truth
		}
		bo, ok := v.(*ssa.BinOp)
		if !ok || !isIntType(bo.X.Type()) {
			continue
		}
		l, r := linOf(bo.X, 0), linOf(bo.Y, 0)
		lt := func(a, b *lin) *lin { // a < b  ->  a - b + 1 <= 0
			f := a.addScaled(b, -1)
			f.c++
			return f
		}
		le := func(a, b *lin) *lin { return a.addScaled(b, -1) }
		op := bo.Op
		if !truth {
			switch op {
			case token.LSS:
				op = token.GEQ
			case token.LEQ:
				op = token.GTR
			case token.GTR:
				op = token.LEQ
			case token.GEQ:
				op = token.LSS
			case token.EQL:
				op = token.NEQ
			case token.NEQ:
				op = token.EQL
			}
		}
		switch op {
		case token.LSS:
			out = append(out, lt(l, r))
		case token.LEQ:
			out = append(out, le(l, r))
		case token.GTR:
			out = append(out, lt(r, l))
		case token.GEQ:
			out = append(out, le(r, l))
		case token.EQL:
			out = append(out, le(l, r), le(r, l))
		case token.NEQ:
			// x != 0 with x = len(..)/cap(..): x >= 1
			d := l.addScaled(r, -1)
			if d.c == 0 && len(d.coef) == 1 {
				for k, a := range d.coef {
					if (strings.HasPrefix(k, "len(") || strings.HasPrefix(k, "cap(")) && (a == 1 || a == -1) {
						f := newLin()
						f.coef[k] = -1
						f.leaf[k] = d.leaf[k]
						f.c = 1
						out = append(out, f)
					}
				}
			}
		}
	}
	return out
}

// nonnegLeaf: is leaf k (value v) known >= 0 at blk?
func (p *boundsProver) nonnegLeaf(k string, v ssa.Value, blk *ssa.BasicBlock, depth int) bool {
	if strings.HasPrefix(k, "len(") || strings.HasPrefix(k, "cap(") {
		return true
	}
	if v == nil {
		return false
	}
	if b, ok := v.Type().Underlying().(*types.Basic); ok && b.Info()&types.IsUnsigned != 0 {
		return true
	}
	if phi, ok := v.(*ssa.Phi); ok {
		if p.assumed[phi] {
			return true
		}
		if depth > 6 {
			return false
		}
		p.assumed[phi] = true
		ok := true
		for i, e := range phi.Edges {
			g := newLin().addScaled(linOf(e, 0), -1) // -e <= 0
			if !p.prove(g, phi.Block().Preds[i], depth+1, phi.Block()) {
				ok = false
				break
			}
		}
		if !ok {
			delete(p.assumed, phi)
		}
		return ok
	}
	return false
}

// prove: goal <= 0 at the END of block blk (facts on entry to blk plus nothing else; callers pass
// the block containing the operation, conditions inside the same block do not exist in SSA).
func (p *boundsProver) prove(goal *lin, blk *ssa.BasicBlock, depth int, toSucc *ssa.BasicBlock) bool {
	p.budget--
	if p.budget < 0 || depth > 10 {
		return false
	}
	if goal.isConst() {
		return goal.c <= 0
	}
	cand := p.factsAt(blk, toSucc)
	cand = append(cand, p.hyps...)
	for _, v := range goal.leaf {
		if v != nil {
			cand = append(cand, indexByteFacts(v)...)
		}
	}
	// non-negativity facts for leaves with negative coefficient in the goal
	var ks []string
	for k := range goal.coef {
		ks = append(ks, k)
	}
	sort.Strings(ks)
	for _, k := range ks {
		if goal.coef[k] < 0 && p.nonnegLeaf(k, goal.leaf[k], blk, depth) {
			f := newLin()
			f.coef[k] = -1
			f.leaf[k] = goal.leaf[k]
			// may be needed several times (coefficient)
			for i := int64(0); i < -goal.coef[k] && i < 3; i++ {
				cand = append(cand, f)
			}
		}
	}
	// also non-negativity of leaves occurring in facts (to cancel positive remainders)
	n := len(cand)
	try := func(sel []int) bool {
		r := goal.clone()
		for _, i := range sel {
			r = r.addScaled(cand[i], -1)
		}
		return r.isConst() && r.c <= 0
	}
	for i := 0; i < n; i++ {
		if try([]int{i}) {
			return true
		}
	}
	for i := 0; i < n; i++ {
		for j := i + 1; j < n; j++ {
			if try([]int{i, j}) {
				return true
			}
		}
	}
	if n <= 14 {
		for i := 0; i < n; i++ {
			for j := i + 1; j < n; j++ {
				for k := j + 1; k < n; k++ {
					if try([]int{i, j, k}) {
						return true
					}
				}
			}
		}
	}
	// phi case split
	for _, k := range ks {
		phi, ok := goal.leaf[k].(*ssa.Phi)
		if !ok {
			continue
		}
		// other leaves must be loop-invariant with respect to phi's block
		okInv := true
		for k2, v2 := range goal.leaf {
			if k2 == k {
				continue
			}
			if !definedStrictlyBefore(v2, k2, phi.Block(), p.fn) {
				okInv = false
			}
		}
		if !okInv {
			continue
		}
		all := true
		p.hyps = append(p.hyps, goal)
		for i, e := range phi.Edges {
			g := goal.clone()
			a := g.coef[k]
			delete(g.coef, k)
			delete(g.leaf, k)
			g = g.addScaled(linOf(e, 0), a)
			if !p.prove(g, phi.Block().Preds[i], depth+1, phi.Block()) {
				all = false
				break
			}
		}
		p.hyps = p.hyps[:len(p.hyps)-1]
		if all {
			return true
		}
	}
	return false
}

// definedStrictlyBefore: the leaf is defined in a block that strictly dominates b (so it is invariant in any loop headed by b).
func definedStrictlyBefore(v ssa.Value, key string, b *ssa.BasicBlock, fn *ssa.Function) bool {
	if v == nil {
		// synthetic len(x): find x by name
		name := strings.TrimSuffix(strings.TrimPrefix(strings.TrimPrefix(key, "len("), "cap("), ")")
		var def ssa.Value
		for _, p := range fn.Params {
			if p.Name() == name {
				return true
			}
		}
		allInstrs(fn, func(in ssa.Instruction) {
			if val, ok := in.(ssa.Value); ok && val.Name() == name {
				def = val
			}
		})
		if def == nil {
			return false
		}
		v = def
	}
	switch x := v.(type) {
	case *ssa.Parameter, *ssa.Const, *ssa.FreeVar, *ssa.Global:
		return true
	case ssa.Instruction:
		db := x.Block()
		return db != b && db.Dominates(b)
	}
	return false
}

type boundsOblig struct {
	Instr ssa.Instruction
	What  string
	Goal  *lin
	OK    bool
}

// boundsObligations generates and tries to discharge the obligations of fn.
func boundsObligations(c *Ctx, fn *ssa.Function) []boundsOblig {
	var out []boundsOblig
	add := func(in ssa.Instruction, what string, goal *lin) {
		p := &boundsProver{c: c, fn: fn, assumed: map[*ssa.Phi]bool{}, budget: 20000}
		ok := p.prove(goal, in.Block(), 0, nil)
		out = append(out, boundsOblig{Instr: in, What: what, Goal: goal, OK: ok})
	}
	zero := newLin()
	lowerOK := func(in ssa.Instruction, what string, idx ssa.Value) {
		add(in, what+": index >= 0", zero.addScaled(linOf(idx, 0), -1))
	}
	allInstrs(fn, func(in ssa.Instruction) {
		switch x := in.(type) {
		case *ssa.IndexAddr:
			var length *lin
			switch t := x.X.Type().Underlying().(type) {
			case *types.Pointer:
				if arr, ok := t.Elem().Underlying().(*types.Array); ok {
					length = newLin()
					length.c = arr.Len()
				}
			case *types.Slice:
				length = lenLeaf(x.X)
			}
			if length == nil {
				return
			}
			if length.isConst() {
				if i, ok := constInt(x.Index); ok && i >= 0 && i < length.c {
					return // constant index into a fixed-size array
				}
			}
			lowerOK(in, "index", x.Index)
			g := linOf(x.Index, 0).addScaled(length, -1)
			g.c++
			add(in, "index: index < len", g)
		case *ssa.Lookup:
			if b, ok := x.X.Type().Underlying().(*types.Basic); !ok || b.Info()&types.IsString == 0 {
				return
			}
			lowerOK(in, "string index", x.Index)
			g := linOf(x.Index, 0).addScaled(lenLeaf(x.X), -1)
			g.c++
			add(in, "string index: index < len", g)
		case *ssa.Index:
			arr, ok := x.X.Type().Underlying().(*types.Array)
			if !ok {
				return
			}
			if i, ok := constInt(x.Index); ok && i >= 0 && i < arr.Len() {
				return
			}
			lowerOK(in, "array index", x.Index)
			g := linOf(x.Index, 0)
			g.c += 1 - arr.Len()
			add(in, "array index: index < len", g)
		case *ssa.Slice:
			var length *lin
			switch t := x.X.Type().Underlying().(type) {
			case *types.Slice:
				length = lenLeaf(x.X)
			case *types.Basic:
				length = lenLeaf(x.X)
			case *types.Pointer:
				if arr, ok := t.Elem().Underlying().(*types.Array); ok {
					length = newLin()
					length.c = arr.Len()
				}
			}
			if length == nil {
				return
			}
			lo, hi := newLin(), length
			if x.Low != nil {
				lo = linOf(x.Low, 0)
				add(in, "slice: low >= 0", zero.addScaled(lo, -1))
			}
			if x.High != nil {
				hi = linOf(x.High, 0)
				add(in, "slice: high <= len (not cap)", hi.addScaled(length, -1))
			}
			if x.Low != nil {
				add(in, "slice: low <= high", lo.addScaled(hi, -1))
			}
		}
	})
	return out
}
