package main

// opts-forwarded — a public operation that accepts per-operation options hands the FULL list on to every library
// callee that accepts options (the next driver layer, the channel, NewOperation). A wrapper that drops the list
// (or passes only part of it) silently ignores the caller's timeout / strip-prompt / stop-on-failed / privilege
// level for that operation.

import (
	"fmt"
	"go/types"

	"golang.org/x/tools/go/ssa"
)

func isOptionSlice(c *Ctx, t types.Type) bool {
	sl, ok := t.Underlying().(*types.Slice)
	if !ok {
		return false
	}
	n, ok := sl.Elem().(*types.Named)
	return ok && n.Obj().Name() == "Option" && n.Obj().Pkg() != nil && n.Obj().Pkg().Path() == modPath+"/util"
}

func checkOptsForwarded(c *Ctx, r *Report, rule string, types_ [][2]string) {
	n := 0
	for _, tp := range types_ {
		for _, fn := range exportedMethodsOf(c, tp[0], tp[1]) {
			if fn.Blocks == nil || !fn.Signature.Variadic() {
				continue
			}
			np := len(fn.Params)
			list := fn.Params[np-1]
			if !isOptionSlice(c, list.Type()) {
				continue
			}
			n++
			construct := shortFn(fn) + " forwards its options"
			var bad []string
			pos := c.Pos(fn.Pos())
			forwards := 0
			for _, f := range append([]*ssa.Function{fn}, AnonFuncsDeep(fn)...) {
				for _, ci := range callInstrs(f) {
					cc := ci.Common()
					sc := cc.StaticCallee()
					if sc == nil || sc.Pkg == nil || !isLibPkgPath(sc.Pkg.Pkg.Path()) || !sc.Signature.Variadic() {
						continue
					}
					last := sc.Signature.Params().At(sc.Signature.Params().Len() - 1)
					if !isOptionSlice(c, last.Type()) {
						continue
					}
					arg := cc.Args[len(cc.Args)-1]
					src := ssa.Value(list)
					if f != fn {
						// inside a closure the list is a captured variable
						src = nil
						for _, fv := range f.FreeVars {
							if b := freeVarBinding(fv); b == ssa.Value(list) {
								src = fv
							} else if a, ok := b.(*ssa.Alloc); ok {
								for _, ref := range *a.Referrers() {
									if st, ok := ref.(*ssa.Store); ok && st.Val == ssa.Value(list) {
										src = nil
										if u, ok := arg.(*ssa.UnOp); ok && u.X == ssa.Value(fv) {
											arg = list
											src = list
										}
									}
								}
							}
						}
						if src == nil {
							continue
						}
					}
					if derivesFull(arg, src, 0) {
						forwards++
						continue
					}
					bad = append(bad, fmt.Sprintf("%s is called at %s with an option list that is not the caller's full list", shortFn(sc), c.Pos(ci.Pos())))
					pos = c.Pos(ci.Pos())
				}
			}
			switch {
			case len(bad) > 0:
				r.Bad(rule, construct, pos, bad[0]+": per-operation options given by the caller (timeout, strip-prompt, stop-on-failed, privilege level, ...) do not reach that layer")
			case forwards == 0:
				r.Bad(rule, construct, pos, "the method accepts per-operation options but hands them to no library callee: they have no effect")
			default:
				r.OK(rule, construct, c.Pos(fn.Pos()), fmt.Sprintf("%d option-taking callee(s) receive the full list", forwards))
			}
		}
	}
	if n == 0 {
		r.Unk(rule, "option-taking methods", "-", "no exported method with a variadic option list found")
	}
}
