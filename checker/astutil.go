package main

import (
	"go/ast"
	"go/constant"
	"go/types"

	"golang.org/x/tools/go/packages"
)

type packagesPackage = packages.Package

func (c *Ctx) pkgRel(rel string) *packages.Package {
	if rel == "" {
		return c.PkgBy[modPath]
	}
	return c.PkgBy[modPath+"/"+rel]
}

// funcDecl finds the declaration of a function/method by type-resolved receiver name.
func (c *Ctx) funcDecl(pkgRel, recv, name string) (*ast.FuncDecl, *packages.Package) {
	p := c.pkgRel(pkgRel)
	if p == nil {
		return nil, nil
	}
	for _, f := range p.Syntax {
		for _, d := range f.Decls {
			fd, ok := d.(*ast.FuncDecl)
			if !ok || fd.Name.Name != name {
				continue
			}
			obj, _ := p.TypesInfo.Defs[fd.Name].(*types.Func)
			if obj == nil {
				continue
			}
			sig := obj.Type().(*types.Signature)
			if recv == "" && sig.Recv() == nil {
				return fd, p
			}
			if recv != "" && sig.Recv() != nil {
				t := sig.Recv().Type()
				if pt, ok := t.(*types.Pointer); ok {
					t = pt.Elem()
				}
				if n, ok := t.(*types.Named); ok && n.Obj().Name() == recv {
					return fd, p
				}
			}
		}
	}
	return nil, nil
}

// constVal returns the constant value of expr (type-checked), or nil.
func constVal(p *packages.Package, e ast.Expr) constant.Value {
	if tv, ok := p.TypesInfo.Types[e]; ok {
		return tv.Value
	}
	return nil
}

// stringSwitchCases collects, for every switch statement with a tag in body,
// the constant string case values; keyed by the tag expression's printed form.
type switchInfo struct {
	Tag   ast.Expr
	Stmt  *ast.SwitchStmt
	Cases []string
	// CaseBodies maps case value -> clause
	Clauses    map[string]*ast.CaseClause
	HasDefault bool
}

func stringSwitches(p *packages.Package, body ast.Node) []*switchInfo {
	var out []*switchInfo
	ast.Inspect(body, func(n ast.Node) bool {
		sw, ok := n.(*ast.SwitchStmt)
		if !ok || sw.Tag == nil {
			return true
		}
		si := &switchInfo{Tag: sw.Tag, Stmt: sw, Clauses: map[string]*ast.CaseClause{}}
		for _, s := range sw.Body.List {
			cc := s.(*ast.CaseClause)
			if cc.List == nil {
				si.HasDefault = true
			}
			for _, e := range cc.List {
				if v := constVal(p, e); v != nil && v.Kind() == constant.String {
					sv := constant.StringVal(v)
					si.Cases = append(si.Cases, sv)
					si.Clauses[sv] = cc
				}
			}
		}
		out = append(out, si)
		return true
	})
	return out
}

// selField: if e is a selector expression resolving to a struct field, return it.
func selField(p *packages.Package, e ast.Expr) *types.Var {
	se, ok := ast.Unparen(e).(*ast.SelectorExpr)
	if !ok {
		return nil
	}
	if sel, ok := p.TypesInfo.Selections[se]; ok && sel.Kind() == types.FieldVal {
		v, _ := sel.Obj().(*types.Var)
		return v
	}
	return nil
}

// identObj resolves an identifier use/def.
func identObj(p *packages.Package, e ast.Expr) types.Object {
	id, ok := ast.Unparen(e).(*ast.Ident)
	if !ok {
		return nil
	}
	if o := p.TypesInfo.Uses[id]; o != nil {
		return o
	}
	return p.TypesInfo.Defs[id]
}

// funcDeclOf finds the declaration of a function object of package p.
func funcDeclOf(p *packages.Package, fn *types.Func) *ast.FuncDecl {
	for _, f := range p.Syntax {
		for _, d := range f.Decls {
			if fd, ok := d.(*ast.FuncDecl); ok && p.TypesInfo.Defs[fd.Name] == types.Object(fn) {
				return fd
			}
		}
	}
	return nil
}

// stringSwitchesDeep: the string switches of fd and of the functions of the same package it calls (to the given depth):
// a dispatch that was moved into a helper is still found.
func stringSwitchesDeep(p *packages.Package, fd *ast.FuncDecl, depth int) []*switchInfo {
	seen := map[*ast.FuncDecl]bool{}
	var out []*switchInfo
	var visit func(fd *ast.FuncDecl, d int)
	visit = func(fd *ast.FuncDecl, d int) {
		if fd == nil || fd.Body == nil || seen[fd] {
			return
		}
		seen[fd] = true
		out = append(out, stringSwitches(p, fd.Body)...)
		if d <= 0 {
			return
		}
		ast.Inspect(fd.Body, func(n ast.Node) bool {
			var id *ast.Ident
			switch x := n.(type) {
			case *ast.CallExpr:
				switch f := ast.Unparen(x.Fun).(type) {
				case *ast.Ident:
					id = f
				case *ast.SelectorExpr:
					id = f.Sel
				}
			case *ast.SelectorExpr: // method value
				id = x.Sel
			case *ast.Ident: // function value
				id = x
			}
			if id == nil {
				return true
			}
			if fn, ok := p.TypesInfo.Uses[id].(*types.Func); ok && fn.Pkg() == p.Types {
				visit(funcDeclOf(p, fn), d-1)
			}
			return true
		})
	}
	visit(fd, depth)
	return out
}
