package main

// C08/echo-keeps-rest — when the reader recognises its own echoed request it drops only the bytes up to the
// first delimiter; everything the server sent after it (possibly a complete reply in the same read) is kept.

import (
	"fmt"

	"golang.org/x/tools/go/ssa"
)

func checkEchoKeepsRest(c *Ctx, r *Report, read *ssa.Function) {
	rule := "C08/echo-keeps-rest"
	n := 0
	var splits []*ssa.Call
	allInstrs(read, func(in ssa.Instruction) {
		call, ok := in.(*ssa.Call)
		if !ok {
			return
		}
		o := CalleeObj(call)
		if o == nil || o.Pkg() == nil || o.Name() != "Split" && o.Name() != "SplitN" && o.Name() != "SplitAfterN" {
			return
		}
		switch o.Pkg().Path() {
		case "regexp", "bytes", "strings":
			splits = append(splits, call)
		}
	})
	if len(splits) == 0 {
		r.Unk(rule, "echo branch of the NETCONF reader", c.Pos(read.Pos()), "no split on the delimiter found: the idiom by which the reader drops its echoed request is not one the rule knows")
		return
	}
	for _, sp := range splits {
		n++
		construct := fmt.Sprintf("echo split #%d in %s", n, shortFn(read))
		o := CalleeObj(sp)
		args := sp.Call.Args
		limit := args[len(args)-1]
		if o.Name() == "Split" && o.Pkg().Path() != "regexp" {
			r.Bad(rule, construct, c.Pos(sp.Pos()), "the buffer is split at every delimiter: what follows a second delimiter (a reply that arrived in the same read) cannot be kept as one piece")
			continue
		}
		if k, ok := constInt(limit); !ok || k != 2 {
			r.Bad(rule, construct, c.Pos(sp.Pos()), "the buffer is not split into exactly [echo, rest] (limit 2): with more pieces, replies that follow the echo in the same read are cut apart and dropped")
			continue
		}
		// every element taken from the split (through the phi that joins the version cases) is element 1
		bad := ""
		seen := map[ssa.Value]bool{}
		var uses func(v ssa.Value)
		uses = func(v ssa.Value) {
			if seen[v] {
				return
			}
			seen[v] = true
			for _, ref := range *v.Referrers() {
				switch x := ref.(type) {
				case *ssa.Phi:
					uses(x)
				case *ssa.IndexAddr:
					if k, ok := constInt(x.Index); !ok || k != 1 {
						bad = "the piece kept after the split is not element 1 (everything after the first delimiter)"
					}
				case *ssa.Index:
					if k, ok := constInt(x.Index); !ok || k != 1 {
						bad = "the piece kept after the split is not element 1 (everything after the first delimiter)"
					}
				}
			}
		}
		uses(sp)
		if bad != "" {
			r.Bad(rule, construct, c.Pos(sp.Pos()), bad+": a reply the server sent in full right behind the echo is lost")
		} else {
			r.OK(rule, construct, c.Pos(sp.Pos()), "split(…, 2)[1]: only the bytes up to the first delimiter are dropped")
		}
	}
}
