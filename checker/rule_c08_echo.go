package main

// C08/echo-keeps-rest — when the reader recognises its own echoed request it drops only the bytes up to the
// first delimiter; everything the server sent after it (possibly a complete reply in the same read) is kept.

import (
	"fmt"
	"go/types"

	"golang.org/x/tools/go/ssa"
)

// remainderExamined: from the instruction that trims the echo off the buffer, every path to the next channel read
// passes a test of the delimiter pattern -- what followed the echo may already be a complete (late) reply and must be
// filed before further bytes are appended to it.
func remainderExamined(c *Ctx, r *Report, read *ssa.Function, at ssa.Instruction, construct string) {
	rule := "C08/echo-remainder-examined"
	chRead := c.LookupFunc("channel", "Channel", "Read")
	pp := c.LookupField("channel", "Channel", "PromptPattern")
	if chRead == nil || pp == nil {
		r.Anchor(rule, "(*channel.Channel).Read / channel.Channel.PromptPattern")
		return
	}
	isMatch := func(in ssa.Instruction) bool { return isDelimiterTest(in, pp, 0) }
	rr := reachFrom(read, at, isMatch, nil)
	var hit ssa.Instruction
	for in := range rr.visited {
		if ci, ok := in.(*ssa.Call); ok && ci.Call.StaticCallee() == chRead {
			hit = in
		}
	}
	// ... and what is left is classified afresh (it may be another echo): no path from the trim to the filing of a
	// reply avoids the "is this our own request" test
	storeMsg := c.LookupFunc("driver/netconf", "Driver", "storeMessage")
	isEchoTest := func(in ssa.Instruction) bool {
		call, ok := in.(*ssa.Call)
		if !ok {
			return false
		}
		o := CalleeObj(call)
		if o == nil || o.Pkg() == nil || o.Pkg().Path() != "bytes" || o.Name() != "Contains" || len(call.Call.Args) != 2 {
			return false
		}
		needle := stripConv(call.Call.Args[1])
		if sl, ok := needle.(*ssa.Slice); ok {
			needle = sl.X
		}
		s, isC := constString(needle)
		if !isC {
			// []byte("</rpc>") is a conversion of a constant
			if cv, ok := stripConv(call.Call.Args[1]).(*ssa.Convert); ok {
				s, isC = constString(cv.X)
			}
		}
		return isC && s == "</rpc>"
	}
	if storeMsg != nil {
		rr2 := reachFrom(read, at, isEchoTest, nil)
		var filed ssa.Instruction
		for in := range rr2.visited {
			if ci, ok := in.(*ssa.Call); ok {
				if sc := ci.Call.StaticCallee(); sc == storeMsg || (sc != nil && sc.Pkg == read.Pkg && sc != read && len(staticCallsTo(sc, storeMsg)) > 0) {
					filed = in
				}
			}
		}
		if filed != nil {
			r.Bad(rule, construct+" (reclassified)", c.Pos(at.Pos()), "what is left after the echo was trimmed off can be filed as a reply without being tested for being an echo itself: when a late reply precedes the echo in the same read, the echo is what is left, and it is stored under the current request's id -- the call returns its own request as its reply", rr2.witness(c, filed)...)
		} else {
			r.OK(rule, construct+" (reclassified)", c.Pos(at.Pos()), "the remainder goes through the echo test again before anything is filed")
		}
	}
	if hit != nil {
		r.Bad(rule, construct, c.Pos(at.Pos()), "after the echo is trimmed off, the reader goes back to reading without looking at what is left: a complete late reply that arrived behind the echo stays in the buffer, the next read (the reply to the current request) is appended to it, and both are filed under the first one's message-id -- the current call never gets its reply", rr.witness(c, hit)...)
	} else {
		r.OK(rule, construct, c.Pos(at.Pos()), "the remainder is tested against the delimiter before the next read")
	}
}

func checkEchoKeepsRest(c *Ctx, r *Report, read *ssa.Function) {
	rule := "C08/echo-keeps-rest"
	n := 0
	var splits []*ssa.Call
	at := map[*ssa.Call]ssa.Instruction{} // where, in the reader itself, the trimming happens
	collect := func(fn *ssa.Function, site ssa.Instruction) {
		allInstrs(fn, func(in ssa.Instruction) {
			call, ok := in.(*ssa.Call)
			if !ok {
				return
			}
			o := CalleeObj(call)
			if o == nil || o.Pkg() == nil || o.Name() != "Split" && o.Name() != "SplitN" && o.Name() != "SplitAfterN" {
				return
			}
			switch o.Pkg().Path() {
			case "regexp", "bytes", "strings":
				splits = append(splits, call)
				// a helper that holds the whole "while a delimiter is in the buffer" loop is analysed in itself; one
				// that only cuts the echo off is analysed at its call site
				ownLoop := false
				if pp := c.LookupField("channel", "Channel", "PromptPattern"); pp != nil && site != nil {
					allInstrs(fn, func(x ssa.Instruction) {
						if isDelimiterTest(x, pp, 0) {
							ownLoop = true
						}
					})
				}
				if site == nil || ownLoop {
					at[call] = call
				} else {
					at[call] = site
				}
			}
		})
	}
	collect(read, nil)
	if len(splits) == 0 {
		// the trimming moved into an unexported helper of the package (one level, or two through a loop helper)
		var visit func(fn *ssa.Function, site ssa.Instruction, d int)
		visit = func(fn *ssa.Function, site ssa.Instruction, d int) {
			for _, ci := range callInstrs(fn) {
				h := ci.Common().StaticCallee()
				if h == nil || h.Pkg != read.Pkg || h == read || h.Object() == nil || h.Object().Exported() || len(h.Blocks) == 0 {
					continue
				}
				s := site
				if s == nil {
					s = ci
				}
				before := len(splits)
				collect(h, s)
				if len(splits) == before && d > 0 {
					visit(h, s, d-1)
				}
			}
		}
		visit(read, nil, 1)
	}
	if len(splits) == 0 {
		// second idiom: loc := delim.FindIndex(b); b = b[loc[1]:]  (first match; keep everything behind it)
		var cuts []*ssa.Slice
		allInstrs(read, func(in ssa.Instruction) {
			sl, ok := in.(*ssa.Slice)
			if !ok || sl.High != nil || sl.Low == nil {
				return
			}
			u, ok := sl.Low.(*ssa.UnOp)
			if !ok {
				return
			}
			ia, ok := u.X.(*ssa.IndexAddr)
			if !ok {
				return
			}
			call, ok := ia.X.(*ssa.Call)
			if !ok {
				return
			}
			if o := CalleeObj(call); o == nil || o.Pkg() == nil || o.Pkg().Path() != "regexp" || (o.Name() != "FindIndex" && o.Name() != "FindStringIndex") {
				return
			}
			cuts = append(cuts, sl)
		})
		for i, sl := range cuts {
			construct := fmt.Sprintf("echo cut #%d in %s", i+1, shortFn(read))
			ia := sl.Low.(*ssa.UnOp).X.(*ssa.IndexAddr)
			if k, ok := constInt(ia.Index); ok && k == 1 {
				r.OK(rule, construct, c.Pos(sl.Pos()), "b[loc[1]:] with loc the first delimiter match: only the bytes up to the first delimiter are dropped")
				remainderExamined(c, r, read, sl, construct)
			} else {
				r.Bad(rule, construct, c.Pos(sl.Pos()), "the buffer is not cut at the END of the first delimiter match (loc[1]): the delimiter itself stays in front of what follows, or more than the echo is dropped")
			}
		}
		if len(cuts) > 0 {
			return
		}
		r.Unk(rule, "echo branch of the NETCONF reader", c.Pos(read.Pos()), "no split on the delimiter found: the idiom by which the reader drops its echoed request is not one the rule knows")
		return
	}
	for _, sp := range splits {
		n++
		construct := fmt.Sprintf("echo split #%d in %s", n, shortFn(read))
		o := CalleeObj(sp)
		args := sp.Call.Args
		limit := args[len(args)-1]
		if o.Name() == "Split" && o.Pkg().Path() != "regexp" {
			r.Bad(rule, construct, c.Pos(sp.Pos()), "the buffer is split at every delimiter: what follows a second delimiter (a reply that arrived in the same read) cannot be kept as one piece")
			continue
		}
		if k, ok := constInt(limit); !ok || k != 2 {
			r.Bad(rule, construct, c.Pos(sp.Pos()), "the buffer is not split into exactly [echo, rest] (limit 2): with more pieces, replies that follow the echo in the same read are cut apart and dropped")
			continue
		}
		// every element taken from the split (through the phi that joins the version cases) is element 1
		bad := ""
		seen := map[ssa.Value]bool{}
		var uses func(v ssa.Value)
		uses = func(v ssa.Value) {
			if seen[v] {
				return
			}
			seen[v] = true
			for _, ref := range *v.Referrers() {
				switch x := ref.(type) {
				case *ssa.Phi:
					uses(x)
				case *ssa.IndexAddr:
					if k, ok := constInt(x.Index); !ok || k != 1 {
						bad = "the piece kept after the split is not element 1 (everything after the first delimiter)"
					}
				case *ssa.Index:
					if k, ok := constInt(x.Index); !ok || k != 1 {
						bad = "the piece kept after the split is not element 1 (everything after the first delimiter)"
					}
				}
			}
		}
		uses(sp)
		if bad != "" {
			r.Bad(rule, construct, c.Pos(sp.Pos()), bad+": a reply the server sent in full right behind the echo is lost")
		} else {
			r.OK(rule, construct, c.Pos(sp.Pos()), "split(…, 2)[1]: only the bytes up to the first delimiter are dropped")
			scope := read
			if site := at[sp]; site != nil && site.Parent() != read {
				scope = site.Parent()
			}
			remainderExamined(c, r, scope, at[sp], construct)
		}
	}
}

// isDelimiterTest: a regexp call on the channel's prompt (= delimiter) pattern, or a call of a library function that
// performs one (the test may live in a helper of the reader).
func isDelimiterTest(in ssa.Instruction, pp *types.Var, depth int) bool {
	call, ok := in.(*ssa.Call)
	if !ok {
		return false
	}
	if o := CalleeObj(call); o != nil && o.Pkg() != nil && o.Pkg().Path() == "regexp" && len(call.Call.Args) >= 2 {
		f, _, ok := fieldLoad(call.Call.Args[0])
		return ok && f == pp
	}
	if depth > 1 {
		return false
	}
	sc := call.Call.StaticCallee()
	if sc == nil || sc.Pkg == nil || !isLibPkgPath(sc.Pkg.Pkg.Path()) || sc.Blocks == nil {
		return false
	}
	// the helper tests the pattern on every path from its entry
	ret, _ := mustCallBeforeReturnFn(sc, func(i2 ssa.Instruction) bool { return isDelimiterTest(i2, pp, depth+1) })
	return ret == nil
}

func mustCallBeforeReturnFn(fn *ssa.Function, isTarget func(ssa.Instruction) bool) (ssa.Instruction, *reachResult) {
	rr := reachFrom(fn, nil, isTarget, nil)
	for _, b := range fn.Blocks {
		for _, in := range b.Instrs {
			if isReturn(in) && rr.visited[in] && len(b.Preds)+b.Index > 0 {
				return in, rr
			}
		}
	}
	// single-block function: entry block has no preds
	if len(fn.Blocks) == 1 {
		for _, in := range fn.Blocks[0].Instrs {
			if isReturn(in) && rr.visited[in] {
				return in, rr
			}
		}
	}
	return nil, rr
}
