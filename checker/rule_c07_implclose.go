package main

// C07/impl-close-all — Close of every built-in transport implementation releases each closable resource it holds
// on every path: an error from closing one resource must not make it return before the others are closed.

import (
	"fmt"
	"go/types"

	"golang.org/x/tools/go/ssa"
)

// closeMethodOf: does type t (or *t) have a method Close() error / Close()?
func hasCloseMethod(t types.Type) bool {
	ms := types.NewMethodSet(t)
	for i := 0; i < ms.Len(); i++ {
		if ms.At(i).Obj().Name() == "Close" {
			if sig, ok := ms.At(i).Type().(*types.Signature); ok && sig.Params().Len() == 0 {
				return true
			}
		}
	}
	return false
}

func checkImplCloseAll(c *Ctx, r *Report) {
	rule := "C07/impl-close-all"
	for _, impl := range []string{"System", "Standard", "Telnet"} {
		fn := c.LookupFunc("transport", impl, "Close")
		nt := c.LookupType("transport", impl)
		if fn == nil || nt == nil {
			r.Anchor(rule, "(*transport."+impl+").Close")
			continue
		}
		st, ok := nt.Underlying().(*types.Struct)
		if !ok {
			r.Anchor(rule, "transport."+impl+" struct")
			continue
		}
		n := 0
		for i := 0; i < st.NumFields(); i++ {
			f := st.Field(i)
			if !hasCloseMethod(f.Type()) {
				continue
			}
			if _, isIface := f.Type().Underlying().(*types.Interface); !isIface {
				if _, isPtr := f.Type().(*types.Pointer); !isPtr {
					continue
				}
			}
			if owner := derivedFrom(c, st, f); owner != "" {
				r.Notes = append(r.Notes, fmt.Sprintf("C07/impl-close-all: transport.%s.%s is a handle obtained from %s and released with it", impl, f.Name(), owner))
				continue
			}
			n++
			construct := fmt.Sprintf("transport.%s.Close releases %s", impl, f.Name())
			isCloseOfF := func(in ssa.Instruction) bool {
				ci, ok := in.(ssa.CallInstruction)
				if !ok {
					return false
				}
				com := ci.Common()
				var recv ssa.Value
				name := ""
				if com.IsInvoke() {
					recv, name = com.Value, com.Method.Name()
				} else if sc := com.StaticCallee(); sc != nil && len(com.Args) > 0 && sc.Signature.Recv() != nil {
					recv, name = com.Args[0], sc.Name()
				}
				if name != "Close" || recv == nil {
					return false
				}
				if isFieldLoadOf(recv, f) {
					return true
				}
				// promoted through an embedded field of the resource: t.client.Conn.Close()
				chain, _ := fieldPathLoad(stripConv(recv))
				for _, g := range chain {
					if g == f {
						return true
					}
				}
				return false
			}
			// paths on which the field is known nil have nothing to release
			ef := func(b *ssa.BasicBlock, si int) bool {
				cond := ifCond(b)
				if cond == nil {
					return true
				}
				x, nonNilOnTrue, isNil := nilCheck(cond)
				if !isNil || !isFieldLoadOf(x, f) {
					return true
				}
				nilEdge := 0
				if nonNilOnTrue {
					nilEdge = 1
				}
				return si != nilEdge
			}
			rr := reachFrom(fn, nil, isCloseOfF, ef)
			var leak ssa.Instruction
			for _, b := range fn.Blocks {
				for _, in := range b.Instrs {
					if isReturn(in) && rr.visited[in] && leak == nil {
						leak = in
					}
				}
			}
			if leak != nil {
				r.Bad(rule, construct, c.Pos(leak.Pos()), fmt.Sprintf("Close can return with %s still open (not nil and never closed on this path): an error from closing another resource -- e.g. io.EOF from a session the device already logged out of -- leaves the connection and its goroutines behind, and a blocked read is never released", f.Name()), rr.witness(c, leak)...)
			} else {
				r.OK(rule, construct, c.Pos(fn.Pos()), "every return follows "+f.Name()+".Close() or the test that it is nil")
			}
		}
		if n == 0 {
			r.Unk(rule, "transport."+impl+".Close", c.Pos(fn.Pos()), "the implementation holds no field with a Close method: the resources it owns are not identifiable")
		}
	}
}

// derivedFrom: field f is only ever assigned the result of a method call on another field of the same struct
// (session.StdinPipe()): it is not a resource of its own. Returns that field's name.
func derivedFrom(c *Ctx, st *types.Struct, f *types.Var) string {
	owner := ""
	other := false
	for _, fn := range c.LibFns {
		allInstrs(fn, func(in ssa.Instruction) {
			ff, _, v, ok := fieldStore(in)
			if !ok || ff != f || isNilConst(v) {
				return
			}
			v = stripConv(v)
			if ex, ok := v.(*ssa.Extract); ok {
				v = ex.Tuple
			}
			call, ok := v.(*ssa.Call)
			if !ok {
				other = true
				return
			}
			var recv ssa.Value
			if call.Call.IsInvoke() {
				recv = call.Call.Value
			} else if sc := call.Call.StaticCallee(); sc != nil && sc.Signature.Recv() != nil && len(call.Call.Args) > 0 {
				recv = call.Call.Args[0]
			}
			found := false
			if recv != nil {
				if g, _, isLoad := fieldLoad(recv); isLoad {
					for i := 0; i < st.NumFields(); i++ {
						if st.Field(i) == g && g != f {
							owner, found = g.Name(), true
						}
					}
				}
			}
			if !found {
				other = true
			}
		})
	}
	if other {
		return ""
	}
	return owner
}
