package main

// C08 — each NETCONF call gets the reply to its own request.

import (
	"fmt"
	"go/token"
	"go/types"
	"strings"

	"golang.org/x/tools/go/ssa"
)

func init() {
	register(&Property{
		ID:  "C08",
		Run: runC08,
		Explanation: "Provenance and discipline rules over the NETCONF driver, valid for every history because they constrain every path: id-allocation — the only writers of the message-id counter are the constructor (constant 101) and buildPayload, which copies the counter into the message and then increments it by exactly one; every RPC entry point reaches sendRPC with a message built by exactly one buildPayload call on each path (so ids are unique and strictly increasing from 101). " +
			"own-id — sendRPC serialises, writes and polls the store for the id of the same message value; getMessage looks up and deletes exactly the key it was asked for; the reader files a reply under the id extracted from that very buffer and clears the buffer only after filing it. store-locked — every access to the message store and the subscription store holds its mutex. " +
			"NOT decided: late replies after a timeout, echo interleaving beyond the keep-the-rest rule, loss under arbitrary read segmentation (histories over run-time data and regular expressions).",
		Assumptions: []string{"RPC methods of one driver are not called concurrently (the property does not quantify over concurrent callers)", "the message-id regular expression extracts the id of the message it is applied to"},
		Mutants: []Mutant{
			{ID: "C08-subscription-arm-wins", Desc: "a message with a subscription id is filed as a notification only", Rule: "C08/own-id",
				Edits: []Edit{{File: "driver/netconf/read.go", Old: "\t\t\tif messageID != 0 {\n", New: "\t\t\tif messageID != 0 && subID == 0 {\n"}}},
			{ID: "C08-late-replies-dropped", Desc: "storeMessage drops a reply whose id is not above a high-water mark", Rule: "C08/store-unconditional",
				Edits: []Edit{{File: "driver/netconf/driver.go", Old: "\td.messages[i] = b\n", New: "\tif i <= len(d.messages) {\n\t\treturn\n\t}\n\n\td.messages[i] = b\n"}}},
			{ID: "C08-subscription-result-unguarded", Desc: "reverse of the fix: the subscription result's sub-match is indexed without a test", Rule: "C08/submatch-guarded",
				Edits: []Edit{{File: "driver/netconf/subscription.go", Old: "\tif len(subscriptionResult) != idOrSubMatchLen {\n\t\treturn nil, fmt.Errorf(\n\t\t\t\"%w: subscription failed: no subscription result in reply\",\n\t\t\tutil.ErrNetconfError,\n\t\t)\n\t}\n", New: ""}}},
			{ID: "C08-poll-previous-id", Desc: "sendRPC polls for the previous message id", Rule: "C08/own-id",
				Edits: []Edit{{File: "driver/netconf/rpc.go", Old: "data = d.getMessage(m.MessageID)", New: "data = d.getMessage(d.messageID - 1)"}}},
			{ID: "C08-id-reused", Desc: "buildPayload no longer increments the counter for filters", Rule: "C08/id-allocation",
				Edits: []Edit{{File: "driver/netconf/driver.go", Old: "\td.messageID++\n\n\treturn baseElem", New: "\tif _, ok := payload.(string); !ok {\n\t\td.messageID++\n\t}\n\n\treturn baseElem"}}},
			{ID: "C08-id-after-increment", Desc: "message carries the incremented id", Rule: "C08/id-allocation",
				Edits: []Edit{{File: "driver/netconf/driver.go", Old: "\tbaseElem := &message{\n\t\tXMLName:   xml.Name{},\n\t\tNamespace: \"urn:ietf:params:xml:ns:netconf:base:1.0\",\n\t\tMessageID: d.messageID,\n\t\tPayload:   payload,\n\t}\n\n\td.messageID++\n", New: "\td.messageID++\n\n\tbaseElem := &message{\n\t\tXMLName:   xml.Name{},\n\t\tNamespace: \"urn:ietf:params:xml:ns:netconf:base:1.0\",\n\t\tMessageID: d.messageID,\n\t\tPayload:   payload,\n\t}\n\n\td.messageID++\n"}}},
			{ID: "C08-delete-all", Desc: "getMessage clears the whole store", Rule: "C08/own-id",
				Edits: []Edit{{File: "driver/netconf/driver.go", Old: "\tdelete(d.messages, i)\n", New: "\tfor k := range d.messages {\n\t\tdelete(d.messages, k)\n\t}\n"}}},
			{ID: "C08-store-wrong-key", Desc: "reader files replies under the subscription id", Rule: "C08/own-id",
				Edits: []Edit{{File: "driver/netconf/read.go", Old: "d.storeMessage(messageID, b)", New: "d.storeMessage(messageID+subID, b)"}}},
			{ID: "C08-echo-keeps-last-piece", Desc: "reader keeps only what follows the last delimiter after an echo", Rule: "C08/echo-keeps-rest",
				Edits: []Edit{{File: "driver/netconf/read.go", Old: "ss = patterns.v1Dot1Delim.Split(string(b), endRPCSplitLen)\n\t\t\t\t}\n\n\t\t\t\tb = []byte(ss[1])", New: "ss = patterns.v1Dot1Delim.Split(string(b), -1)\n\t\t\t\t}\n\n\t\t\t\tb = []byte(ss[len(ss)-1])"}}},
			{ID: "C08-id-pattern-greedy", Desc: "message-id taken after a greedy wildcard", Rule: "C08/id-pattern",
				Edits: []Edit{{File: "driver/netconf/driver.go", Old: "messageIDPattern      = `(?i)(?:message-id=\"(\\d+)\")`", New: "messageIDPattern      = `(?i)<(?:\\w+:)?rpc-reply.*message-id=\"(\\d+)\"`"}}},
			{ID: "C08-remainder-not-examined", Desc: "reader looks at what follows its echo only on a later pass (defect repaired by db4b67c)", Rule: "C08/echo-remainder-examined",
				Edits: []Edit{{File: "driver/netconf/read.go", Old: "\t\tfor d.Channel.PromptPattern.Match(b) { //nolint: nestif", New: "\tscan:\n\t\tfor d.Channel.PromptPattern.Match(b) { //nolint: nestif"},
					{File: "driver/netconf/read.go", Old: "\t\t\t\tb = []byte(ss[1])\n\n\t\t\t\tcontinue\n", New: "\t\t\t\tb = []byte(ss[1])\n\n\t\t\t\tbreak scan\n"}}},
			{ID: "C08-remainder-filed-unclassified", Desc: "what follows the echo is filed without being tested for being an echo (regression of the first repair)", Rule: "C08/echo-remainder-examined",
				Edits: []Edit{{File: "driver/netconf/read.go", Old: "\t\t\t\tb = []byte(ss[1])\n\n\t\t\t\tcontinue\n\t\t\t}\n", New: "\t\t\t\tb = []byte(ss[1])\n\n\t\t\t\tif !d.Channel.PromptPattern.Match(b) {\n\t\t\t\t\tbreak\n\t\t\t\t}\n\t\t\t}\n"}}},
			{ID: "C08-get-unlocked", Desc: "getMessage without the mutex", Rule: "C08/store-locked",
				Edits: []Edit{{File: "driver/netconf/driver.go", Old: "func (d *Driver) getMessage(i int) []byte {\n\td.messagesLock.Lock()\n\tdefer d.messagesLock.Unlock()\n", New: "func (d *Driver) getMessage(i int) []byte {\n"}}},
			{ID: "C08-double-build", Desc: "Lock builds its message twice (id skipped, first id never answered)", Rule: "C08/id-allocation",
				Edits: []Edit{{File: "driver/netconf/lock.go", Old: "\treturn d.sendRPC(d.buildLockElem(target), op)", New: "\t_ = d.buildLockElem(target)\n\n\treturn d.sendRPC(d.buildLockElem(target), op)"}}},
			{ID: "C08-reset-before-store", Desc: "reader clears its buffer before filing the reply", Rule: "C08/own-id",
				Edits: []Edit{{File: "driver/netconf/read.go", Old: "\t\t\tmessageID = getID(patterns.messageID.FindSubmatch(b))\n", New: "\t\t\tmessageID = getID(patterns.messageID.FindSubmatch(b))\n\t\t\tb = nil\n"}}},
		},
	})
}

func runC08(c *Ctx, r *Report) {
	r.Rule("C08/rpc-no-consume", "sendRPC and what it calls never take output out of the channel's queue: the NETCONF reader is the only consumer", 1)
	checkRPCDoesNotConsume(c, r, "C08/rpc-no-consume")
	r.Rule("C08/no-shared-defaults", "no constructor copies maps or lock pointers out of a package-level value (each driver has its own reply store)", 1)
	checkNoSharedDefaults(c, r, "C08/no-shared-defaults")
	importFoundation(c, r, "C08", "netconf-reader-lifecycle")
	r.Rule("C08/operation-constructed", "every rpc is sent with operation options built by NewOperation (a zero-value struct has Timeout 0 = maximum: a call whose reply never comes would not return)", 4)
	checkOperationConstructed(c, r, "C08/operation-constructed")
	importFoundation(c, r, "C08", "read-loop")
	importFoundation(c, r, "C08", "read-returns-dequeued")
	r.Rule("C08/closed-result-zero", "the reply poller closes its result channel without an answer only once sendRPC's own cancel-only context is over (a call returns its reply or an error, never an empty success)", 1)
	checkClosedResultZero(c, r, "C08/closed-result-zero")
	r.Rule("C08/store-unconditional", "storeMessage and storeSubscriptionMessage file what they are handed on every path (no reply that was recognised is dropped)", 2)
	checkStoreUnconditional(c, r, "C08/store-unconditional")
	r.Rule("C08/submatch-guarded", "in the NETCONF driver every index into a FindSubmatch result is dominated by a test that the pattern matched (a reply without the expected element yields an error, never a panic)", 2)
	checkSubmatchGuarded(c, r, "C08/submatch-guarded", []string{"driver/netconf"})
	importFoundation(c, r, "C08", "netconf-framing")
	importFoundation(c, r, "C08", "netconf-version")
	r.Rule("C08/id-allocation", "the message-id counter is written only by the constructor (101) and by buildPayload (copy, then +1); every RPC entry point builds exactly one message per call", 8)
	r.Rule("C08/own-id", "sendRPC polls for the id of the message it serialised; getMessage looks up and deletes exactly its key; the reader files a reply under the id extracted from that buffer before clearing it", 4)
	r.Rule("C08/echo-keeps-rest", "on recognising its echoed request the reader keeps everything after the first delimiter (split limit 2, element 1)", 1)
	r.Rule("C08/echo-remainder-examined", "what remains in the buffer after the echo was trimmed off is tested for a complete message -- and for being an echo itself -- before the next read is appended", 2)
	r.Rule("C08/id-pattern", "the message-id pattern binds its capture to the first message-id attribute of the buffer (no greedy wildcard before the capture)", 1)
	r.Rule("C08/store-locked", "every access to the message and subscription stores holds its mutex", 6)

	idF := c.LookupField("driver/netconf", "Driver", "messageID")
	msgIDF := c.LookupField("driver/netconf", "message", "MessageID")
	msgsF := c.LookupField("driver/netconf", "Driver", "messages")
	subsF := c.LookupField("driver/netconf", "Driver", "subscriptions")
	build := c.LookupFunc("driver/netconf", "Driver", "buildPayload")
	sendRPC := c.LookupFunc("driver/netconf", "Driver", "sendRPC")
	newDriver := c.LookupFunc("driver/netconf", "", "NewDriver")
	getMsg := c.LookupFunc("driver/netconf", "Driver", "getMessage")
	storeMsg := c.LookupFunc("driver/netconf", "Driver", "storeMessage")
	read := c.LookupFunc("driver/netconf", "Driver", "read")
	if idF == nil || msgIDF == nil || msgsF == nil || subsF == nil || build == nil || sendRPC == nil || newDriver == nil || getMsg == nil || storeMsg == nil || read == nil {
		r.Anchor("C08/id-allocation", "netconf.Driver.{messageID,messages,subscriptions} / message.MessageID / buildPayload / sendRPC / NewDriver / getMessage / storeMessage / read")
		return
	}
	checkEchoKeepsRest(c, r, read)
	checkIDPattern(c, r)
	initID := c.LookupConst("driver/netconf", "initialMessageID")

	// ---- writers of the counter
	for _, fn := range c.LibFns {
		n := 0
		allInstrs(fn, func(in ssa.Instruction) {
			f, _, v, ok := fieldStore(in)
			if !ok || f != idF {
				return
			}
			n++
			construct := fmt.Sprintf("%s writes messageID#%d", shortFn(fn), n)
			switch fn {
			case newDriver:
				k, isC := constInt(v)
				r.Check(isC && k == 101, "C08/id-allocation", construct, c.Pos(in.Pos()), "initialised to 101", "the message-id counter is not initialised to 101")
			case build:
				// value must be load(messageID)+1 and the message's id must be stored from a load that precedes this store
				bo, isBo := v.(*ssa.BinOp)
				okInc := isBo && bo.Op == token.ADD && isFieldLoadOf(bo.X, idF)
				if okInc {
					k, isC := constInt(bo.Y)
					okInc = isC && k == 1
				}
				r.Check(okInc, "C08/id-allocation", construct, c.Pos(in.Pos()), "counter + 1", "buildPayload does not advance the counter by exactly one")
			default:
				r.Bad("C08/id-allocation", construct, c.Pos(in.Pos()), "the message-id counter is written outside the constructor and buildPayload: ids may repeat or go backwards")
			}
		})
	}
	_ = initID
	// buildPayload: message id = counter value loaded BEFORE the increment, increment on every path
	var incStore, idStore ssa.Instruction
	var idVal ssa.Value
	allInstrs(build, func(in ssa.Instruction) {
		if f, _, _, ok := fieldStore(in); ok && f == idF {
			incStore = in
		}
		if f, _, v, ok := fieldStore(in); ok && f == msgIDF {
			idStore = in
			idVal = v
		}
	})
	switch {
	case incStore == nil:
		r.Bad("C08/id-allocation", "buildPayload increments", c.Pos(build.Pos()), "buildPayload never advances the message-id counter: every request carries the same id")
	case idStore == nil || !isFieldLoadOf(idVal, idF):
		r.Bad("C08/id-allocation", "buildPayload copies the counter", c.Pos(build.Pos()), "the message's id is not the driver's counter value")
	default:
		ld := idVal.(ssa.Instruction)
		// no counter store may precede the load; the increment must be on every path to return
		early := false
		allInstrs(build, func(in ssa.Instruction) {
			if f, _, _, ok := fieldStore(in); ok && f == idF && dominatesInstr(in, ld) {
				early = true
			}
		})
		ret, _ := mustCallBeforeReturn(c, build, func(in ssa.Instruction) bool { return in == incStore })
		nInc := 0
		allInstrs(build, func(in ssa.Instruction) {
			if f, _, _, ok := fieldStore(in); ok && f == idF {
				nInc++
			}
		})
		r.Check(!early && ret == nil && nInc == 1, "C08/id-allocation", "buildPayload copy-then-increment", c.Pos(build.Pos()), "id copied before the single unconditional increment",
			fmt.Sprintf("buildPayload must copy the counter into the message and then increment it exactly once on every path (counter written before the copy: %v, path without increment: %v, increments: %d): ids skip, repeat or disagree with the stored replies", early, ret != nil, nInc))
	}
	// every caller of sendRPC passes a message built by exactly one buildPayload on every path
	buildsOnce := map[*ssa.Function]bool{}
	var countBuilds func(fn *ssa.Function, depth int) (int, bool)
	countBuilds = func(fn *ssa.Function, depth int) (int, bool) {
		// number of buildPayload calls executed on a path through fn (must be path-independent); ok=false if in a loop/branch-dependent
		n := 0
		okAll := true
		for _, ci := range callInstrs(fn) {
			sc := ci.Common().StaticCallee()
			if sc == nil {
				continue
			}
			k := 0
			if sc == build {
				k = 1
			} else if sc.Pkg == fn.Pkg && depth < 3 && strings.HasPrefix(sc.Name(), "build") {
				var sub bool
				k, sub = countBuilds(sc, depth+1)
				if !sub {
					okAll = false
				}
			}
			if k == 0 {
				continue
			}
			n += k
			// the call lies on every path that hands out a message: a builder that returns a message it did not just
			// build (a cached one) re-uses that message's id
			allInstrs(fn, func(in ssa.Instruction) {
				ret, isRet := in.(*ssa.Return)
				if !isRet || len(ret.Results) == 0 || isNilConst(ret.Results[0]) {
					return
				}
				if pt, isPtr := ret.Results[0].Type().(*types.Pointer); !isPtr || typeShort(pt.Elem()) != "netconf.message" {
					return
				}
				if !ci.Block().Dominates(ret.Block()) {
					okAll = false
				}
			})
			// the call must not be in a loop, and must lie on every non-error path: require it to dominate a return that yields a message
			for _, b := range fn.Blocks {
				for _, p := range b.Preds {
					if b.Dominates(p) && loopBlocks(b)[ci.Block()] {
						okAll = false
					}
				}
			}
		}
		return n, okAll
	}
	for _, fn := range c.LibFns {
		calls := staticCallsTo(fn, sendRPC)
		for i, ci := range calls {
			construct := fmt.Sprintf("%s -> sendRPC#%d", shortFn(fn), i+1)
			n, okShape := countBuilds(fn, 0)
			// the message argument must come from one of those build calls
			arg := ci.Common().Args[1]
			fromBuild := false
			if call, ok := stripConv(arg).(*ssa.Call); ok {
				if sc := call.Call.StaticCallee(); sc != nil && (sc == build || strings.HasPrefix(sc.Name(), "build")) {
					fromBuild = true
				}
			}
			if ex, ok := arg.(*ssa.Extract); ok {
				if call, ok := ex.Tuple.(*ssa.Call); ok {
					if sc := call.Call.StaticCallee(); sc != nil && strings.HasPrefix(sc.Name(), "build") {
						fromBuild = true
					}
				}
			}
			buildsOnce[fn] = n == 1 && okShape && fromBuild
			if n == 1 && okShape && fromBuild {
				r.OK("C08/id-allocation", construct, c.Pos(ci.Pos()), "one message built per call")
			} else {
				r.Bad("C08/id-allocation", construct, c.Pos(ci.Pos()), fmt.Sprintf("the RPC entry point builds %d messages per call (exactly one required; message argument from a builder: %v): an id is consumed without a request, so the sequence seen by the server has gaps and a stored reply is never fetched", n, fromBuild))
			}
		}
	}

	// ---- own-id
	// (a) sendRPC: serialize receiver, getMessage key
	var mParam *ssa.Parameter
	if len(sendRPC.Params) >= 2 {
		mParam = sendRPC.Params[1]
	}
	ser := c.LookupFunc("driver/netconf", "message", "serialize")
	if mParam == nil || ser == nil {
		r.Anchor("C08/own-id", "sendRPC(m, op) / (*message).serialize")
	} else {
		okSer := false
		for _, ci := range staticCallsTo(sendRPC, ser) {
			if sameParam(ci.Common().Args[0], mParam) {
				okSer = true
			}
		}
		okPoll := false
		found := false
		isOwnID := func(key ssa.Value) bool {
			fl, base, ok := fieldLoad(key)
			return ok && fl == msgIDF && sameParam(base, mParam)
		}
		// the poll may sit in sendRPC, in its goroutine closure, or in helpers of the package that it calls or starts:
		// the key is followed back through parameters and captured variables to what it is bound to in sendRPC
		for _, bc := range callsThroughHelpers(sendRPC, getMsg, 3) {
			found = true
			key := bc.Resolve(bc.Call.Common().Args[1])
			okPoll = isOwnID(key)
			if fl, base, ok := fieldLoad(key); ok && fl == msgIDF && !okPoll {
				// the helper was handed the message itself: m.MessageID of the helper's parameter
				okPoll = sameParam(bc.Resolve(base), mParam)
			}
		}
		r.Check(okSer && found && okPoll, "C08/own-id", "sendRPC polls its own id", c.Pos(sendRPC.Pos()), "serialises m and polls getMessage(m.MessageID)",
			"sendRPC does not poll the store for the id of the message it serialised and wrote: a call can return the reply to another request")
	}
	// (b) getMessage: lookup key and delete key are the parameter; nothing else deleted
	{
		okLookup, okDelete := false, true
		nDel := 0
		allInstrs(getMsg, func(in ssa.Instruction) {
			switch x := in.(type) {
			case *ssa.Lookup:
				if f, _, ok := fieldLoad(x.X); ok && f == msgsF {
					okLookup = x.Index == ssa.Value(getMsg.Params[1])
				}
			case *ssa.Call:
				if b, ok := x.Call.Value.(*ssa.Builtin); ok && b.Name() == "delete" {
					nDel++
					if x.Call.Args[1] != ssa.Value(getMsg.Params[1]) {
						okDelete = false
					}
					for _, hb := range getMsg.Blocks {
						for _, p := range hb.Preds {
							if hb.Dominates(p) && loopBlocks(hb)[x.Block()] {
								okDelete = false
							}
						}
					}
				}
			case *ssa.MapUpdate:
				okDelete = false
			}
		})
		r.Check(okLookup && okDelete && nDel <= 1, "C08/own-id", "getMessage touches only its key", c.Pos(getMsg.Pos()), "lookup and delete of the requested id only",
			"getMessage reads or deletes entries other than the id it was asked for: a reply that was received in full can be lost")
	}
	// (c) storeMessage: map update key/value are its parameters
	{
		ok := false
		allInstrs(storeMsg, func(in ssa.Instruction) {
			if mu, isMU := in.(*ssa.MapUpdate); isMU {
				if f, _, isLoad := fieldLoad(mu.Map); isLoad && f == msgsF {
					ok = mu.Key == ssa.Value(storeMsg.Params[1]) && mu.Value == ssa.Value(storeMsg.Params[2])
				}
			}
		})
		r.Check(ok, "C08/own-id", "storeMessage files under its key", c.Pos(storeMsg.Pos()), "messages[i] = b", "storeMessage does not file the buffer under the id it was given")
	}
	// (d) reader: storeMessage(getID(FindSubmatch(b)), b) with the same b; buffer reset only after
	{
		getID := c.LookupFunc("driver/netconf", "", "getID")
		okKey, okBuf := false, false
		var storeCall *ssa.Call
		for _, bc := range callsThroughHelpers(read, storeMsg, 2) {
			sc, isCall := bc.Call.(*ssa.Call)
			if !isCall {
				continue
			}
			storeCall = sc
			key, buf := storeCall.Call.Args[1], storeCall.Call.Args[2]
			// key: (phi of) call getID(FindSubmatch(pattern, X)) with X == buf
			var idCall *ssa.Call
			switch k := key.(type) {
			case *ssa.Call:
				idCall = k
			case *ssa.Phi:
				for _, e := range k.Edges {
					if cl, ok := e.(*ssa.Call); ok {
						idCall = cl
					}
				}
			}
			if idCall != nil && getID != nil && idCall.Call.StaticCallee() == getID {
				if fs, ok := idCall.Call.Args[0].(*ssa.Call); ok {
					if o := CalleeObj(fs); o != nil && o.Name() == "FindSubmatch" && len(fs.Call.Args) == 2 {
						okKey = fs.Call.Args[1] == buf
						if f, _, isLoad := fieldLoad(fs.Call.Args[0]); !isLoad || f.Name() != "messageID" {
							okKey = false
						}
						// a constant edge into the key (no id) is chosen by conditions over this match only
						if ok, pos := keyDecidedByOwnMatchOnly(key, func(v ssa.Value) bool {
							cl, isCl := v.(*ssa.Call)
							return isCl && (cl == fs || cl == idCall)
						}); !ok {
							okKey = false
							r.Bad("C08/own-id", "reader's filing key depends on the message-id match only", c.Pos(pos), "whether the buffer is filed under the message-id found in it is also decided by something else in the message (a subscription id, a stored-state lookup): a reply that carries such content is dropped or filed as something else, and the caller of that request waits for ever")
						}
					}
				}
			}
			// the filing itself is not conditional on another id found in the message (a reply whose payload merely contains a
			// <subscription-id> element is still the reply to its request)
			var foreign func(v ssa.Value, d int) bool
			foreign = func(v ssa.Value, d int) bool {
				if d > 6 {
					return false
				}
				switch x := v.(type) {
				case *ssa.BinOp:
					return foreign(x.X, d+1) || foreign(x.Y, d+1)
				case *ssa.UnOp:
					return foreign(x.X, d+1)
				case *ssa.Phi:
					for _, e := range x.Edges {
						if foreign(e, d+1) {
							return true
						}
					}
				case *ssa.Call:
					if getID != nil && x.Call.StaticCallee() == getID && len(x.Call.Args) == 1 {
						if fs, ok := x.Call.Args[0].(*ssa.Call); ok && len(fs.Call.Args) == 2 {
							if f, _, isLoad := fieldLoad(fs.Call.Args[0]); isLoad && f != nil && f.Name() != "messageID" {
								return true
							}
						}
					}
				}
				return false
			}
			for _, ec := range edgeConds(storeCall.Block()) {
				if foreign(ec.Cond, 0) {
					okKey = false
					r.Bad("C08/own-id", "the filing of a reply does not depend on another id in the message", c.Pos(ec.Cond.Pos()), "whether a message that carries a message-id is filed as the reply to that request also depends on a subscription id found in it: a reply whose payload contains a <subscription-id> element (the reply to establish-subscription, a <get> of subscription state) is filed as a notification only, and its caller waits for ever")
				}
			}
			// buf is the accumulated buffer: a value that reaches the loop phi (append(b, rb...)); when the filing was
			// moved into a helper, the helper's parameter is followed back to the reader's own buffer
			buf = bc.Resolve(buf)
			if call, ok := buf.(*ssa.Call); ok {
				if b, ok := call.Call.Value.(*ssa.Builtin); ok && b.Name() == "append" {
					okBuf = true
				}
			}
			if _, ok := buf.(*ssa.Phi); ok {
				okBuf = true
			}
		}
		r.Check(storeCall != nil && okKey && okBuf, "C08/own-id", "reader files the buffer under its own id", c.Pos(read.Pos()), "storeMessage(id extracted from b, b)",
			"the read loop does not file the received buffer under the message-id extracted from that same buffer (or files a different buffer)")
	}

	// ---- store-locked
	lockFor := map[string]string{"messages": "netconf.Driver.messagesLock", "subscriptions": "netconf.Driver.subscriptionsLock"}
	roots := map[*ssa.Function]bool{}
	for _, fn := range c.LibFns {
		if fn.Pkg != nil && fn.Pkg.Pkg.Path() == modPath+"/driver/netconf" {
			roots[fn] = true
		}
	}
	ml := NewMustLocks(c, roots, nil)
	for _, fn := range c.LibFns {
		if fn == newDriver {
			continue
		}
		n := map[string]int{}
		for _, a := range fieldAccesses(fn) {
			if a.Field != msgsF && a.Field != subsF {
				continue
			}
			n[a.Field.Name()]++
			construct := fmt.Sprintf("%s %s %s#%d", shortFn(fn), a.Kind, a.Field.Name(), n[a.Field.Name()])
			held := ml.HeldAt(a.Instr)
			lk := lockFor[a.Field.Name()]
			if held != nil && held[lk+"/W"] {
				r.OK("C08/store-locked", construct, c.Pos(a.Instr.Pos()), "under "+lk)
			} else {
				r.Bad("C08/store-locked", construct, c.Pos(a.Instr.Pos()), fmt.Sprintf("access to the %s store without holding %s (held: %v): the read loop and the caller race on the map (lost or corrupted replies, 'concurrent map writes')", a.Field.Name(), lk, held.names()))
			}
		}
	}
}
