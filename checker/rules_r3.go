package main

// Rules added after the third round of independently seeded changes.

import (
	"fmt"
	"go/token"
	"go/types"
	"os"
	"path/filepath"
	"sort"
	"strings"

	"golang.org/x/tools/go/ssa"
	"gopkg.in/yaml.v3"
)

// ---- fresh-operation ---------------------------------------------------------------------------

// checkFreshOperation: NewOperation hands every caller an object of its own (callers store the failure strings in
// force into it; a shared default object leaks one driver's strings into every later option-less operation).
func checkFreshOperation(c *Ctx, r *Report, rule string, pkgs []string) {
	for _, pk := range pkgs {
		fn := c.LookupFunc(pk, "", "NewOperation")
		if fn == nil {
			r.Anchor(rule, pk+".NewOperation")
			continue
		}
		checkFreshConstructor(c, r, rule, fn, "callers write the failure strings in force into the object they get, so a shared one carries the first driver's strings into every later operation of every driver")
	}
}

// checkFreshConstructor: every non-nil first result of fn is an object allocated by this very call (directly, or by a
// helper of the same package that does so on each of its returns).
func checkFreshConstructor(c *Ctx, r *Report, rule string, fn *ssa.Function, consequence string) {
	pk := ""
	if fn.Pkg != nil {
		pk = strings.TrimPrefix(fn.Pkg.Pkg.Path(), modPath+"/")
	}
	construct := pk + "." + fn.Name() + " returns a fresh object"
	bad := ""
	pos := c.Pos(fn.Pos())
	var check func(v ssa.Value, d int) bool
	check = func(v ssa.Value, d int) bool {
		if d > 4 {
			return false
		}
		switch x := v.(type) {
		case *ssa.Alloc:
			return x.Heap
		case *ssa.Phi:
			for _, e := range x.Edges {
				if !isNilConst(e) && !check(e, d+1) {
					return false
				}
			}
			return true
		case *ssa.Extract:
			if x.Index == 0 {
				if cl, ok := x.Tuple.(*ssa.Call); ok {
					return check(cl, d)
				}
			}
		case *ssa.Call:
			// a helper of the same package that itself hands out a fresh object on every return
			h := x.Call.StaticCallee()
			if h == nil || h.Pkg != fn.Pkg || len(h.Blocks) == 0 || h == fn {
				return false
			}
			fresh := true
			allInstrs(h, func(in ssa.Instruction) {
				if hr, ok := in.(*ssa.Return); ok {
					if len(hr.Results) == 0 || (!isNilConst(hr.Results[0]) && !check(hr.Results[0], d+1)) {
						fresh = false
					}
				}
			})
			return fresh
		}
		return false
	}
	allInstrs(fn, func(in ssa.Instruction) {
		ret, ok := in.(*ssa.Return)
		if !ok || len(ret.Results) == 0 {
			return
		}
		v := ret.Results[0]
		if isNilConst(v) {
			return
		}
		if !check(v, 0) {
			bad = "a path returns an object that was not allocated by this call (" + describeValue(v) + "): " + consequence
			pos = c.Pos(ret.Pos())
		}
	})
	if bad != "" {
		r.Bad(rule, construct, pos, bad)
	} else {
		r.OK(rule, construct, pos, "every return hands out an object allocated by this call")
	}
}

// checkFreshConstructors: no exported New* function of the library that returns a pointer to a struct hands out a
// package-level object (the address of a package variable, or a pointer stored in one), directly or through a helper of
// its package.
func checkFreshConstructors(c *Ctx, r *Report, rule string, pkgFilter func(string) bool, consequence string) {
	var shared func(v ssa.Value, home *ssa.Function, d int) string
	shared = func(v ssa.Value, home *ssa.Function, d int) string {
		if d > 5 {
			return ""
		}
		switch x := v.(type) {
		case *ssa.Global:
			return x.Name()
		case *ssa.UnOp:
			if x.Op == token.MUL {
				if g, ok := x.X.(*ssa.Global); ok {
					return g.Name()
				}
				return shared(x.X, home, d+1)
			}
		case *ssa.FieldAddr:
			return shared(x.X, home, d+1)
		case *ssa.IndexAddr:
			return shared(x.X, home, d+1)
		case *ssa.ChangeType:
			return shared(x.X, home, d+1)
		case *ssa.Phi:
			for _, e := range x.Edges {
				if g := shared(e, home, d+1); g != "" {
					return g
				}
			}
		case *ssa.Extract:
			if x.Index == 0 {
				if cl, ok := x.Tuple.(*ssa.Call); ok {
					return shared(cl, home, d)
				}
			}
		case *ssa.Call:
			h := x.Call.StaticCallee()
			if h == nil || h.Pkg != home.Pkg || len(h.Blocks) == 0 || h == home {
				return ""
			}
			g := ""
			allInstrs(h, func(in ssa.Instruction) {
				if hr, ok := in.(*ssa.Return); ok && len(hr.Results) > 0 && g == "" {
					g = shared(hr.Results[0], h, d+1)
				}
			})
			return g
		}
		return ""
	}
	for _, fn := range c.LibFns {
		if fn.Parent() != nil || fn.Signature.Recv() != nil || fn.Object() == nil || !fn.Object().Exported() || !strings.HasPrefix(fn.Name(), "New") {
			continue
		}
		if fn.Pkg == nil || (pkgFilter != nil && !pkgFilter(fn.Pkg.Pkg.Path())) {
			continue
		}
		res := fn.Signature.Results()
		if res.Len() == 0 {
			continue
		}
		p, ok := res.At(0).Type().(*types.Pointer)
		if !ok {
			continue
		}
		if _, ok := p.Elem().Underlying().(*types.Struct); !ok {
			continue
		}
		pk := strings.TrimPrefix(fn.Pkg.Pkg.Path(), modPath+"/")
		construct := pk + "." + fn.Name() + " hands out no package-level object"
		bad, pos := "", c.Pos(fn.Pos())
		allInstrs(fn, func(in ssa.Instruction) {
			ret, ok := in.(*ssa.Return)
			if !ok || len(ret.Results) == 0 || bad != "" {
				return
			}
			if g := shared(ret.Results[0], fn, 0); g != "" {
				bad = "the constructor returns the package-level object " + g + " instead of an object of its own: " + consequence
				pos = c.Pos(ret.Pos())
			}
		})
		if bad != "" {
			r.Bad(rule, construct, pos, bad)
		} else {
			r.OK(rule, construct, pos, "")
		}
	}
}

// ---- plain privilege steps --------------------------------------------------------------------

// checkPrivStepsPlain: deescalate (and the unauthenticated escalate) send their command with no per-operation options:
// the send waits for the next prompt, so no stale prompt is left in the queue for a later, unrelated wait.
func checkPrivStepsPlain(c *Ctx, r *Report, rule string) {
	si := c.LookupFunc("channel", "Channel", "SendInput")
	if si == nil {
		r.Anchor(rule, "(*channel.Channel).SendInput")
		return
	}
	for _, name := range []string{"escalate", "deescalate"} {
		fn := c.LookupFunc("driver/network", "Driver", name)
		if fn == nil {
			r.Anchor(rule, "(*network.Driver)."+name)
			continue
		}
		for i, ci := range staticCallsTo(fn, si) {
			args := ci.Common().Args
			construct := fmt.Sprintf("%s plain send#%d", shortFn(fn), i+1)
			if isNilConst(args[len(args)-1]) {
				r.OK(rule, construct, c.Pos(ci.Pos()), "SendInput(command) with no options: waits for the prompt that follows")
			} else {
				r.Bad(rule, construct, c.Pos(ci.Pos()), "the privilege step sends its command with per-operation options of its own: with an eager send (or a changed prompt set) the prompt the device prints afterwards stays unread, and the next wait of the session -- an interactive event without expected response, a get-prompt -- is satisfied by that stale prompt before the device has answered")
			}
		}
	}
}

// ---- resolve order ------------------------------------------------------------------------------

// checkResolveFilePathOrder: a configured path that exists as given is used as given; the home directory is only a
// fallback (else a file of the same name under $HOME silently replaces the configured known-hosts / ssh config file).
func checkResolveFilePathOrder(c *Ctx, r *Report, rule string) {
	fn := c.LookupFunc("util", "", "ResolveFilePath")
	if fn == nil {
		r.Anchor(rule, "util.ResolveFilePath")
		return
	}
	var stats []*ssa.Call
	allInstrs(fn, func(in ssa.Instruction) {
		if call, ok := in.(*ssa.Call); ok {
			if o := CalleeObj(call); o != nil && o.Pkg() != nil && o.Pkg().Path() == "os" && (o.Name() == "Stat" || o.Name() == "Lstat") {
				stats = append(stats, call)
			}
		}
	})
	construct := "ResolveFilePath tries the path as given first"
	if len(stats) == 0 {
		r.Unk(rule, construct, c.Pos(fn.Pos()), "no os.Stat call found")
		return
	}
	var first *ssa.Call
	for _, s := range stats {
		dom := true
		for _, o := range stats {
			if o != s && !dominatesInstr(s, o) {
				dom = false
			}
		}
		if dom {
			first = s
		}
	}
	switch {
	case first == nil:
		r.Bad(rule, construct, c.Pos(fn.Pos()), "no existence test comes first on every path")
	case stripConv(first.Call.Args[0]) != ssa.Value(fn.Params[0]):
		r.Bad(rule, construct, c.Pos(first.Pos()), "the first existence test is not of the path as the caller gave it: a file with the same relative name under the home directory is preferred to the configured one (the connection is then verified against a different known-hosts file / run with a different ssh config)")
	default:
		// and its success returns the parameter
		okRet := false
		for _, ec := range []bool{true} {
			_ = ec
		}
		allInstrs(fn, func(in ssa.Instruction) {
			if ret, ok := in.(*ssa.Return); ok && len(ret.Results) == 2 && ret.Results[0] == ssa.Value(fn.Params[0]) && isNilConst(ret.Results[1]) && dominatesInstr(first, ret) {
				okRet = true
			}
		})
		if okRet {
			r.OK(rule, construct, c.Pos(first.Pos()), "os.Stat(f) first; on success f is returned")
		} else {
			r.Bad(rule, construct, c.Pos(first.Pos()), "the path as given is tested first but not returned when it exists")
		}
	}
}

// ---- embedded definitions do not relax security ------------------------------------------------

func checkEmbeddedSecurityDefaults(c *Ctx, r *Report, rule string) {
	names := map[string]bool{}
	// only the host-key switch: C14 is about host-key verification (an auth-bypass entry is a different matter)
	for _, cn := range []string{"authStrictKey"} {
		if co := c.LookupConst("platform", cn); co != nil {
			names[strings.Trim(co.Val().ExactString(), `"`)] = true
		}
	}
	if len(names) != 1 {
		r.Anchor(rule, "platform.authStrictKey")
		return
	}
	files, _ := filepath.Glob(filepath.Join(c.Repo, "assets", "platforms", "*.yaml"))
	sort.Strings(files)
	if len(files) < 10 {
		r.Unk(rule, "embedded platform definitions", "-", fmt.Sprintf("only %d definition files found under assets/platforms", len(files)))
		return
	}
	for _, f := range files {
		rel, _ := filepath.Rel(c.Repo, f)
		b, err := os.ReadFile(f)
		if err != nil {
			r.Unk(rule, rel, rel, err.Error())
			continue
		}
		var doc yaml.Node
		if err := yaml.Unmarshal(b, &doc); err != nil {
			r.Unk(rule, rel, rel, "YAML does not parse: "+err.Error())
			continue
		}
		var hits []string
		var walk func(n *yaml.Node)
		walk = func(n *yaml.Node) {
			if n.Kind == yaml.MappingNode {
				for i := 0; i+1 < len(n.Content); i += 2 {
					if n.Content[i].Value == "option" && names[n.Content[i+1].Value] {
						hits = append(hits, fmt.Sprintf("%s (line %d)", n.Content[i+1].Value, n.Content[i+1].Line))
					}
				}
			}
			for _, ch := range n.Content {
				walk(ch)
			}
		}
		walk(&doc)
		construct := rel + " leaves host-key checking as the user configured it"
		if len(hits) > 0 {
			r.Bad(rule, construct, rel, "the embedded definition carries "+strings.Join(hits, ", ")+": platform/options.go maps the mere presence of that entry (whatever its value) to WithAuthNoStrictKey, so every driver built from this platform skips host-key verification although the user never disabled it")
		} else {
			r.OK(rule, construct, rel, "no auth-strict-key entry")
		}
	}
}

// ---- pipes taken are pipes drained --------------------------------------------------------------

// checkSessionPipesDrained: every crypto/ssh session pipe the standard transport takes is one it reads (or writes).
// Taking StderrPipe stops the session from discarding stderr; stdout and stderr share one flow-control window, so
// undrained stderr eventually stalls stdout for good.
func checkSessionPipesDrained(c *Ctx, r *Report, rule string) {
	pkg := c.SSAPkg[modPath+"/transport"]
	if pkg == nil {
		r.Anchor(rule, "package transport")
		return
	}
	n := 0
	for _, fn := range c.LibFns {
		if fn.Pkg != pkg {
			continue
		}
		allInstrs(fn, func(in ssa.Instruction) {
			call, ok := in.(*ssa.Call)
			if !ok {
				return
			}
			o := CalleeObj(call)
			if o == nil || o.Pkg() == nil || !strings.Contains(o.Pkg().Path(), "crypto/ssh") || !strings.HasSuffix(o.Name(), "Pipe") {
				return
			}
			n++
			construct := fmt.Sprintf("%s taken in %s", o.Name(), shortFn(fn))
			v := resultOf(call, 0)
			var field *ssa.FieldAddr
			if v != nil && v.Referrers() != nil {
				for _, ref := range *v.Referrers() {
					if st, ok := ref.(*ssa.Store); ok {
						if fa, ok := st.Addr.(*ssa.FieldAddr); ok {
							field = fa
						}
					}
				}
			}
			if field == nil {
				r.Bad(rule, construct, c.Pos(call.Pos()), "the pipe is taken but not kept: nothing can ever drain it")
				return
			}
			f := fieldOfAddr(field)
			used := false
			for _, g := range c.LibFns {
				if g.Pkg != pkg {
					continue
				}
				for _, ci := range callInstrs(g) {
					cc := ci.Common()
					if !cc.IsInvoke() {
						continue
					}
					if isFieldLoadOf(cc.Value, f) && (cc.Method.Name() == "Read" || cc.Method.Name() == "Write") {
						used = true
					}
				}
			}
			if used {
				r.OK(rule, construct, c.Pos(call.Pos()), "kept in "+f.Name()+" and read / written by the transport")
			} else {
				r.Bad(rule, construct, c.Pos(call.Pos()), "the pipe is kept in "+f.Name()+" but the transport never reads it: once taken, crypto/ssh no longer discards that stream, and because stdout and stderr share the channel's flow-control window a peer that writes enough to it can send nothing more -- reads of the session block for ever on a live peer")
			}
		})
	}
	if n == 0 {
		r.Unk(rule, "session pipes", "-", "the standard transport takes no session pipe")
	}
}

// ---- variant merged before the driver is built -------------------------------------------------

func checkVariantMergedFirst(c *Ctx, r *Report, rule string) {
	fn := c.LookupFunc("platform", "", "NewPlatformVariant")
	merge := c.LookupFunc("platform", "Platform", "mergeVariant")
	set := c.LookupFunc("platform", "", "setDriver")
	if fn == nil || merge == nil || set == nil {
		r.Anchor(rule, "platform.NewPlatformVariant / (*Platform).mergeVariant / setDriver")
		return
	}
	ms, ss := staticCallsTo(fn, merge), staticCallsTo(fn, set)
	construct := "NewPlatformVariant merges the variant before building the driver"
	if len(ms) != 1 || len(ss) != 1 {
		r.Unk(rule, construct, c.Pos(fn.Pos()), fmt.Sprintf("%d mergeVariant / %d setDriver calls (one each expected)", len(ms), len(ss)))
		return
	}
	if dominatesInstr(ms[0], ss[0]) {
		r.OK(rule, construct, c.Pos(ss[0].Pos()), "mergeVariant dominates setDriver")
	} else {
		r.Bad(rule, construct, c.Pos(ss[0].Pos()), "the driver is built (setDriver) before the variant's sections are merged in: the Platform struct shows the variant, but the driver it hands out has the base privilege levels, default level, failure strings and driver type")
	}
}

// ---- callback list order preserved -------------------------------------------------------------

// checkCallbackListUntouched: the list SendWithCallbacks scans is the caller's list in the caller's order: the parameter
// reaches handleCallbacks unchanged and is handed to nothing that could reorder it.
func checkCallbackListUntouched(c *Ctx, r *Report, rule string) {
	fn := c.LookupFunc("driver/generic", "Driver", "SendWithCallbacks")
	hc := c.LookupFunc("driver/generic", "Driver", "handleCallbacks")
	if fn == nil || hc == nil || len(fn.Params) < 3 {
		r.Anchor(rule, "(*generic.Driver).SendWithCallbacks / handleCallbacks")
		return
	}
	list := fn.Params[2]
	construct := "SendWithCallbacks hands the caller's list on in the caller's order"
	var probs []string
	passed := false
	for _, f := range append([]*ssa.Function{fn}, AnonFuncsDeep(fn)...) {
		for _, ci := range callInstrs(f) {
			cc := ci.Common()
			for i, a := range cc.Args {
				if cc.StaticCallee() == hc && derivesFull(a, list, 0) {
					passed = true
					continue
				}
				if !sameParam(stripValue(stripConv(a)), list) {
					continue
				}
				if b, ok := cc.Value.(*ssa.Builtin); ok && b.Name() == "append" {
					continue // an order-preserving copy
				}
				if b, ok := cc.Value.(*ssa.Builtin); ok && (b.Name() == "len" || b.Name() == "cap") {
					continue
				}
				probs = append(probs, fmt.Sprintf("it is passed (argument %d) to %s at %s", i, describeCall(c, ci), c.Pos(ci.Pos())))
			}
		}
		allInstrs(f, func(in ssa.Instruction) {
			if st, ok := in.(*ssa.Store); ok {
				if ia, ok := st.Addr.(*ssa.IndexAddr); ok && sameParam(ia.X, list) {
					probs = append(probs, "an element of it is assigned at "+c.Pos(in.Pos()))
				}
			}
		})
	}
	switch {
	case len(probs) > 0:
		r.Bad(rule, construct, c.Pos(fn.Pos()), "the caller's callback list can be reordered or rewritten before it is scanned ("+strings.Join(probs, "; ")+"): 'the first callback in list order whose trigger holds' is then decided on a different order than the caller wrote")
	case !passed:
		r.Bad(rule, construct, c.Pos(fn.Pos()), "the list given to handleCallbacks is not the caller's list itself")
	default:
		r.OK(rule, construct, c.Pos(fn.Pos()), "passed to handleCallbacks only")
	}
}

// importObligations runs a rule of another property on a scratch report and files its obligations under toRule:
// several properties rest on the same structural fact (the search window, the lossless queue) and each check states
// it for itself.
func importObligations(r *Report, run func(sub *Report), fromRule, toRule string) {
	importObligationsIf(r, run, fromRule, toRule, nil)
}

// importObligationsIf restates under toRule the obligations of fromRule whose construct satisfies keep.
func importObligationsIf(r *Report, run func(sub *Report), fromRule, toRule string, keep func(construct string) bool) {
	sub := NewReport("x")
	run(sub)
	for _, o := range sub.Obs {
		if o.Rule != fromRule {
			continue
		}
		construct := strings.TrimPrefix(o.Key, o.Rule+" @ ")
		if keep != nil && !keep(construct) {
			continue
		}
		r.add(toRule, construct, o.Status, o.Pos, o.Msg, nil)
	}
}

// checkNoDoubleChannelClose: Channel.Open closes the channel itself whenever it fails after the transport was opened
// (C10/cleanup-requeue), and Channel.Close is not idempotent (known finding C07/K2: a second Close panics with
// "close of closed channel"). A driver Open that closes the channel again on that failing edge turns every failed
// in-channel login -- a stall during authentication, say -- into a panic instead of the timeout / auth error.
func checkNoDoubleChannelClose(c *Ctx, r *Report, rule string) {
	chOpen := c.LookupFunc("channel", "Channel", "Open")
	chClose := c.LookupFunc("channel", "Channel", "Close")
	if chOpen == nil || chClose == nil {
		r.Anchor(rule, "(*channel.Channel).Open / Close")
		return
	}
	n := 0
	for _, pk := range [][2]string{{"driver/generic", "Driver"}, {"driver/network", "Driver"}, {"driver/netconf", "Driver"}} {
		fn := c.LookupFunc(pk[0], pk[1], "Open")
		if fn == nil {
			r.Anchor(rule, "(*"+pk[0]+".Driver).Open")
			continue
		}
		for _, ci := range staticCallsTo(fn, chOpen) {
			call, ok := ci.(*ssa.Call)
			if !ok {
				continue
			}
			errs := errResultsOf(call)
			if len(errs) != 1 {
				continue
			}
			n++
			construct := shortFn(fn) + " after a failed Channel.Open"
			var failing *ssa.BasicBlock
			for _, b := range fn.Blocks {
				cond := ifCond(b)
				if cond == nil {
					continue
				}
				x, nonNilOnTrue, isNil := nilCheck(cond)
				if !isNil || x != errs[0] {
					continue
				}
				failing = b.Succs[1]
				if nonNilOnTrue {
					failing = b.Succs[0]
				}
			}
			if failing == nil {
				r.Unk(rule, construct, c.Pos(call.Pos()), "the error of Channel.Open is not tested")
				continue
			}
			// direct calls on the failing path, and deferred closures registered before the open that close on error
			var again ssa.Instruction
			isClose := func(in ssa.Instruction) bool {
				ci2, ok := in.(ssa.CallInstruction)
				return ok && ci2.Common().StaticCallee() == chClose
			}
			if isClose(failing.Instrs[0]) {
				again = failing.Instrs[0]
			}
			rr := reachFrom(fn, failing.Instrs[0], nil, nil)
			for in := range rr.visited {
				if isClose(in) {
					again = in
				}
			}
			for _, ci2 := range callInstrs(fn) {
				d, ok := ci2.(*ssa.Defer)
				if !ok || !dominatesInstr(d, call) {
					continue
				}
				if mc, ok := d.Call.Value.(*ssa.MakeClosure); ok {
					if len(staticCallsTo(mc.Fn.(*ssa.Function), chClose)) > 0 {
						again = d
					}
				}
				if d.Call.StaticCallee() == chClose {
					again = d
				}
			}
			if again != nil {
				r.Bad(rule, construct, c.Pos(again.Pos()), "the driver closes the channel on the failing edge of Channel.Open, which has already closed it: Channel.Close is not idempotent (close of closed channel), so a stall or refusal during in-channel authentication makes Open panic instead of returning the timeout / authentication error")
			} else {
				r.OK(rule, construct, c.Pos(call.Pos()), "the error is returned; the channel is not closed a second time")
			}
		}
	}
	if n == 0 {
		r.Unk(rule, "driver Open", "-", "no driver Open calls Channel.Open")
	}
}
