package main

// C03/selfclose-guard — the self-closing rewrite touches only elements whose opening and closing tag names agree.

import (
	"fmt"
	"go/constant"
	"regexp"
	"regexp/syntax"
	"strings"

	"golang.org/x/tools/go/ssa"
)

// submatchIndex: v is a load of X[const i]; returns X and i.
func submatchIndex(v ssa.Value) (ssa.Value, int64, bool) {
	v = stripConv(v)
	u, ok := v.(*ssa.UnOp)
	if !ok {
		return nil, 0, false
	}
	ia, ok := u.X.(*ssa.IndexAddr)
	if !ok {
		return nil, 0, false
	}
	i, ok := constInt(ia.Index)
	if !ok {
		return nil, 0, false
	}
	return ia.X, i, true
}

func checkSelfClosingGuard(c *Ctx, r *Report) {
	rule := "C03/selfclose-guard"
	fn := c.LookupFunc("driver/netconf", "", "ForceSelfClosingTags")
	pat := c.LookupConst("driver/netconf", "emptyTagPattern")
	if fn == nil || pat == nil {
		r.Anchor(rule, "netconf.ForceSelfClosingTags / netconf.emptyTagPattern")
		return
	}
	re, err := regexp.Compile(constant.StringVal(pat.Val()))
	if err != nil || re.NumSubexp() != 3 {
		r.Unk(rule, "emptyTagPattern groups", c.Pos(pat.Pos()), "the empty-element pattern no longer has the three groups (opening name, attributes, closing name) the guard is stated over")
		return
	}
	// name equality between sub-match 1 (opening tag name) and 3 (closing tag name) of one match
	// returns (is a comparison of the two names, comparison is an inequality)
	nameCmp := func(cond ssa.Value) (bool, bool) {
		var x, y ssa.Value
		neq := false
		switch v := cond.(type) {
		case *ssa.Call:
			o := CalleeObj(v)
			if o == nil || o.Pkg() == nil || o.Pkg().Path() != "bytes" || o.Name() != "Equal" || len(v.Call.Args) != 2 {
				return false, false
			}
			x, y = v.Call.Args[0], v.Call.Args[1]
		case *ssa.BinOp:
			switch v.Op.String() {
			case "==":
			case "!=":
				neq = true
			default:
				return false, false
			}
			x, y = v.X, v.Y
		default:
			return false, false
		}
		bx, ix, okx := submatchIndex(x)
		by, iy, oky := submatchIndex(y)
		return okx && oky && bx == by && ((ix == 1 && iy == 3) || (ix == 3 && iy == 1)), neq
	}
	n := 0
	allInstrs(fn, func(in ssa.Instruction) {
		call, ok := in.(*ssa.Call)
		if !ok {
			return
		}
		o := CalleeObj(call)
		if o == nil || o.Pkg() == nil || !strings.HasPrefix(o.Name(), "Replace") {
			return
		}
		if p := o.Pkg().Path(); p != "bytes" && p != "regexp" && p != "strings" {
			return
		}
		n++
		construct := fmt.Sprintf("rewrite #%d in ForceSelfClosingTags", n)
		neq := false
		if guardedBy(call, func(cond ssa.Value, truth bool) bool {
			if is, ne := nameCmp(cond); is {
				if truth != ne {
					return true
				}
				neq = true
			}
			return false
		}) {
			r.OK(rule, construct, c.Pos(call.Pos()), "performed only when the opening tag name equals the closing tag name of the match")
		} else if neq {
			r.Bad(rule, construct, c.Pos(call.Pos()), "the rewrite is performed when the opening and closing tag names of the match DIFFER")
		} else {
			r.Bad(rule, construct, c.Pos(call.Pos()), "the rewrite of a pattern match is not conditional on its opening tag name (sub-match 1) being equal to its closing tag name (sub-match 3): the pattern alone also matches `<a/></b>`, a comment, CDATA section or processing instruction followed by a closing tag, so elements that are not empty get their closing tag eaten")
		}
	})
	if n == 0 {
		r.Unk(rule, "rewrite in ForceSelfClosingTags", c.Pos(fn.Pos()), "no Replace call found: the rewrite idiom is not one the rule knows")
	}
}

// checkEmptyTagPatternPrefix: ForceSelfClosingTags re-emits a matched element as "<" + group 1 + group 2 + "/>", so
// group 1 has to start right behind the "<" of the opening tag: anything the pattern lets match between the two (an
// optional namespace prefix, say) is silently dropped from the rewritten element.
func checkEmptyTagPatternPrefix(c *Ctx, r *Report) {
	rule := "C03/selfclose-guard"
	pat := c.LookupConst("driver/netconf", "emptyTagPattern")
	if pat == nil {
		r.Anchor(rule, "netconf.emptyTagPattern")
		return
	}
	re, err := syntax.Parse(constant.StringVal(pat.Val()), syntax.Perl)
	if err != nil {
		r.Bad(rule, "emptyTagPattern", c.Pos(pat.Pos()), "does not compile: "+err.Error())
		return
	}
	construct := "emptyTagPattern: group 1 starts right behind '<'"
	if re.Op != syntax.OpConcat {
		r.Unk(rule, construct, c.Pos(pat.Pos()), "the pattern is not a concatenation")
		return
	}
	idx := -1
	for i, sub := range re.Sub {
		if sub.Op == syntax.OpCapture && sub.Cap == 1 {
			idx = i
		}
	}
	if idx < 0 {
		r.Unk(rule, construct, c.Pos(pat.Pos()), "group 1 is not a top-level element of the pattern")
		return
	}
	ok := idx >= 1
	for _, sub := range re.Sub[:idx] {
		if sub.Op != syntax.OpLiteral {
			ok = false
		}
	}
	if ok {
		last := re.Sub[idx-1]
		ok = len(last.Rune) > 0 && last.Rune[len(last.Rune)-1] == '<'
	}
	if ok {
		r.OK(rule, construct, c.Pos(pat.Pos()), "only the literal '<' precedes group 1")
	} else {
		r.Bad(rule, construct, c.Pos(pat.Pos()), "the pattern can match text between the '<' of the opening tag and group 1 (e.g. an optional namespace prefix): ForceSelfClosingTags rebuilds the element from groups 1 and 2 only, so that text is dropped -- <if:shutdown></if:shutdown> becomes <shutdown/>, an element of a different namespace")
	}
}
