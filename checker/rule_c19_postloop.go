package main

// C19/O8 — after a constructor has applied the option list it does not overwrite what the options set:
// a store to an option-settable field behind the apply loop is allowed only as "fill in a default when the field
// is still nil" (nil cannot be asked for by an option); for settings whose zero value is a legitimate request
// (durations, sizes, flags, strings) any later assignment makes an option -- the last one given -- lose.

import (
	"fmt"
	"go/token"
	"go/types"
	"sort"

	"golang.org/x/tools/go/ssa"
)

func checkNoPostLoopOverride(c *Ctx, r *Report, infos map[string]*optInfo) {
	rule := "C19/O8"
	settable := map[string][]string{} // "channel.Channel.ReadDelay" -> options
	for name, oi := range infos {
		for _, s := range oi.Stores {
			k := s.Target + "." + s.Field
			settable[k] = append(settable[k], name)
		}
	}
	ctors := [][2]string{{"channel", "NewChannel"}, {"driver/generic", "NewDriver"}, {"driver/network", "NewDriver"}, {"driver/netconf", "NewDriver"},
		{"transport", "NewArgs"}, {"transport", "NewSSHArgs"}, {"transport", "NewTelnetArgs"}, {"transport", "NewTransport"}, {"logging", "NewInstance"}}
	for _, ct := range ctors {
		fn := c.LookupFunc(ct[0], "", ct[1])
		if fn == nil {
			r.Anchor(rule, ct[0]+"."+ct[1])
			continue
		}
		construct := ct[0] + "." + ct[1] + " keeps what the options set"
		// apply loops: a call whose callee value is a load of list[idx] in a range loop
		var hdrs []*ssa.BasicBlock
		for _, ci := range callInstrs(fn) {
			cc := ci.Common()
			if u, ok := cc.Value.(*ssa.UnOp); ok && u.Op == token.MUL && len(cc.Args) == 1 {
				if ia, ok := u.X.(*ssa.IndexAddr); ok {
					if h := rangeHeader(ia.Index); h != nil {
						hdrs = append(hdrs, h)
					}
				}
			}
		}
		var probs []string
		pos := c.Pos(fn.Pos())
		// (a) stores into objects that came configured out of another constructor
		allInstrs(fn, func(in ssa.Instruction) {
			f, base, _, ok := fieldStore(in)
			if !ok {
				return
			}
			k := typeShort(base.Type()) + "." + f.Name()
			opts, isSet := settable[k]
			if !isSet {
				return
			}
			if _, fresh := base.(*ssa.Alloc); fresh {
				return // the constructor's own object: covered by (b)
			}
			if ct[0] == "driver/netconf" && k == "channel.Channel.PromptPattern" {
				return // named exception, see below
			}
			guarded := guardedBy(in, func(cond ssa.Value, truth bool) bool {
				x, nonNilOnTrue, isNil := nilCheck(cond)
				return isNil && isFieldLoadOf(x, f) && truth != nonNilOnTrue
			})
			if guarded {
				return
			}
			sort.Strings(opts)
			probs = append(probs, fmt.Sprintf("%s of an object built (and configured by the options) elsewhere is overwritten at %s: whatever %v set -- e.g. an explicit value that happens to equal a default -- is lost for this constructor only", k, c.Pos(in.Pos()), opts))
			pos = c.Pos(in.Pos())
		})
		if len(hdrs) == 0 {
			if len(probs) > 0 {
				r.Bad(rule, construct, pos, probs[0])
			} else {
				r.OK(rule, construct, c.Pos(fn.Pos()), "no apply loop in this constructor (it forwards the list) and no overwrite of configured objects")
			}
			continue
		}
		for _, h := range hdrs {
			loop := loopBlocks(h)
			// instructions reachable after the loop was left through exhaustion
			var exit *ssa.BasicBlock
			for _, s := range h.Succs {
				if !loop[s] {
					exit = s
				}
			}
			if exit == nil || len(exit.Instrs) == 0 {
				continue
			}
			rr := reachFrom(fn, exit.Instrs[0], nil, nil)
			after := []ssa.Instruction{exit.Instrs[0]}
			for in := range rr.visited {
				after = append(after, in)
			}
			sort.Slice(after, func(i, j int) bool { return after[i].Pos() < after[j].Pos() })
			for _, in := range after {
				if loop[in.Block()] {
					continue
				}
				f, base, _, ok := fieldStore(in)
				if !ok {
					continue
				}
				k := typeShort(base.Type()) + "." + f.Name()
				opts, isSet := settable[k]
				if !isSet {
					continue
				}
				// named exception (one symbol): the NETCONF driver owns the channel's prompt pattern -- it is the framing
				// delimiter, installed here and re-installed by determineVersion; a user prompt pattern cannot apply
				if ct[0] == "driver/netconf" && k == "channel.Channel.PromptPattern" {
					r.Notes = append(r.Notes, "C19/O8: exception netconf.NewDriver assigns channel.Channel.PromptPattern (the framing delimiter) after the options")
					continue
				}
				nillable := false
				switch f.Type().Underlying().(type) {
				case *types.Pointer, *types.Interface, *types.Slice, *types.Map, *types.Signature, *types.Chan:
					nillable = true
				}
				guarded := guardedBy(in, func(cond ssa.Value, truth bool) bool {
					x, nonNilOnTrue, isNil := nilCheck(cond)
					return isNil && isFieldLoadOf(x, f) && truth != nonNilOnTrue
				})
				if nillable && guarded {
					continue
				}
				sort.Strings(opts)
				probs = append(probs, fmt.Sprintf("%s is assigned after the option loop (%s)%s: the value given by %v -- in particular a zero value such as WithReadDelay(0) -- does not take effect", k, c.Pos(in.Pos()), map[bool]string{true: " outside an 'is still nil' test", false: ""}[nillable], opts))
				pos = c.Pos(in.Pos())
			}
		}
		if len(probs) > 0 {
			r.Bad(rule, construct, pos, probs[0])
		} else {
			r.OK(rule, construct, c.Pos(fn.Pos()), "behind the apply loop option-settable fields are only defaulted while still nil")
		}
	}
}
