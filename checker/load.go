package main

// E1: loader. Loads /repo's current working tree with go/packages, builds SSA
// and a VTA call graph, and offers anchor resolution through go/types (never by
// text or position).

import (
	"fmt"
	"go/ast"
	"go/token"
	"go/types"
	"os"
	"path/filepath"
	"sort"
	"strings"

	"golang.org/x/tools/go/callgraph"
	"golang.org/x/tools/go/callgraph/cha"
	"golang.org/x/tools/go/callgraph/vta"
	"golang.org/x/tools/go/packages"
	"golang.org/x/tools/go/ssa"
	"golang.org/x/tools/go/ssa/ssautil"
)

const modPath = "github.com/scrapli/scrapligo"

// Ctx is the loaded program.
type Ctx struct {
	Repo    string
	Fset    *token.FileSet
	Pkgs    []*packages.Package
	PkgBy   map[string]*packages.Package
	Prog    *ssa.Program
	SSAPkg  map[string]*ssa.Package
	cg      *callgraph.Graph
	LibFns  []*ssa.Function // all source functions (incl. anonymous) of library packages (module, not examples)
	NumFns  int
	LoadErr []string
	Env     []string
}

func isLibPkgPath(p string) bool {
	if p != modPath && !strings.HasPrefix(p, modPath+"/") {
		return false
	}
	if strings.HasPrefix(p, modPath+"/examples") {
		return false
	}
	return true
}

// Load loads the tree rooted at repo. extraEnv allows GOOS/GOARCH variants.
func Load(repo string, extraEnv ...string) (*Ctx, error) {
	env := append(os.Environ(), "GOFLAGS=-mod=mod", "GOPROXY=off", "GOSUMDB=off", "GOTOOLCHAIN=local", "GOWORK=off")
	env = append(env, extraEnv...)
	fset := token.NewFileSet()
	cfg := &packages.Config{
		Mode:  packages.LoadAllSyntax | packages.NeedEmbedFiles | packages.NeedEmbedPatterns,
		Dir:   repo,
		Fset:  fset,
		Env:   env,
		Tests: false,
	}
	pkgs, err := packages.Load(cfg, "./...")
	if err != nil {
		return nil, fmt.Errorf("packages.Load: %w", err)
	}
	c := &Ctx{Repo: repo, Fset: fset, Pkgs: pkgs, PkgBy: map[string]*packages.Package{}, SSAPkg: map[string]*ssa.Package{}, Env: extraEnv}
	if len(pkgs) == 0 {
		return nil, fmt.Errorf("no packages loaded from %s", repo)
	}
	packages.Visit(pkgs, nil, func(p *packages.Package) {
		if isLibPkgPath(p.PkgPath) || strings.HasPrefix(p.PkgPath, modPath) {
			for _, e := range p.Errors {
				c.LoadErr = append(c.LoadErr, e.Error())
			}
		}
	})
	for _, p := range pkgs {
		c.PkgBy[p.PkgPath] = p
	}
	if len(c.LoadErr) > 0 {
		return c, fmt.Errorf("type/load errors: %s", strings.Join(c.LoadErr, "; "))
	}
	prog, spkgs := ssautil.AllPackages(pkgs, ssa.InstantiateGenerics)
	prog.Build()
	c.Prog = prog
	for i, sp := range spkgs {
		if sp != nil {
			c.SSAPkg[pkgs[i].PkgPath] = sp
		}
	}
	// collect library source functions
	all := ssautil.AllFunctions(prog)
	c.NumFns = len(all)
	for fn := range all {
		if fn.Synthetic != "" {
			continue
		}
		if fn.Pkg == nil || !isLibPkgPath(fn.Pkg.Pkg.Path()) {
			// anonymous functions have Pkg set too
			continue
		}
		if fn.Blocks == nil {
			continue
		}
		c.LibFns = append(c.LibFns, fn)
	}
	sort.Slice(c.LibFns, func(i, j int) bool { return fnName(c.LibFns[i]) < fnName(c.LibFns[j]) })
	return c, nil
}

// CG builds the VTA call graph lazily.
func (c *Ctx) CG() *callgraph.Graph {
	if c.cg == nil {
		all := ssautil.AllFunctions(c.Prog)
		c.cg = vta.CallGraph(all, cha.CallGraph(c.Prog))
	}
	return c.cg
}

// fnName returns a stable, position-free qualified name: pkgpath.(Recv).Name or pkg.Name$1.
func fnName(fn *ssa.Function) string {
	if fn == nil {
		return "<nil>"
	}
	return fn.String()
}

// shortFn is fnName with the module path trimmed.
func shortFn(fn *ssa.Function) string {
	return strings.ReplaceAll(fnName(fn), modPath+"/", "")
}

// Pos renders a position relative to the repo root.
func (c *Ctx) Pos(p token.Pos) string {
	if !p.IsValid() {
		return "-"
	}
	pp := c.Fset.Position(p)
	rel, err := filepath.Rel(c.Repo, pp.Filename)
	if err != nil || strings.HasPrefix(rel, "..") {
		rel = pp.Filename
	}
	return fmt.Sprintf("%s:%d", rel, pp.Line)
}

// ---- anchor resolution -------------------------------------------------

// LookupFunc resolves pkg-level function or method (recv "" for functions; recv
// is the named type, pointer-ness irrelevant).
func (c *Ctx) LookupFunc(pkgRel, recv, name string) *ssa.Function {
	path := modPath
	if pkgRel != "" {
		path = modPath + "/" + pkgRel
	}
	p := c.PkgBy[path]
	if p == nil || p.Types == nil {
		return nil
	}
	if recv == "" {
		obj, _ := p.Types.Scope().Lookup(name).(*types.Func)
		if obj == nil {
			return nil
		}
		return c.Prog.FuncValue(obj)
	}
	tn, _ := p.Types.Scope().Lookup(recv).(*types.TypeName)
	if tn == nil {
		return nil
	}
	named, _ := tn.Type().(*types.Named)
	if named == nil {
		return nil
	}
	for i := 0; i < named.NumMethods(); i++ {
		m := named.Method(i)
		if m.Name() == name {
			return c.Prog.FuncValue(m)
		}
	}
	return nil
}

// LookupType resolves a named type.
func (c *Ctx) LookupType(pkgRel, name string) *types.Named {
	path := modPath
	if pkgRel != "" {
		path = modPath + "/" + pkgRel
	}
	p := c.PkgBy[path]
	if p == nil || p.Types == nil {
		return nil
	}
	tn, _ := p.Types.Scope().Lookup(name).(*types.TypeName)
	if tn == nil {
		return nil
	}
	named, _ := tn.Type().(*types.Named)
	return named
}

// LookupField resolves a struct field object of a named struct type.
func (c *Ctx) LookupField(pkgRel, typ, field string) *types.Var {
	n := c.LookupType(pkgRel, typ)
	if n == nil {
		return nil
	}
	st, _ := n.Underlying().(*types.Struct)
	if st == nil {
		return nil
	}
	for i := 0; i < st.NumFields(); i++ {
		if st.Field(i).Name() == field {
			return st.Field(i)
		}
	}
	// an unexported field may simply have been renamed: fall back to the unique unexported field of the type the
	// anchor is known to have (the role of these fields is determined by their type)
	if hint, ok := fieldTypeHints[pkgRel+"."+typ+"."+field]; ok {
		var found *types.Var
		for i := 0; i < st.NumFields(); i++ {
			f := st.Field(i)
			if f.Exported() {
				continue
			}
			if types.TypeString(f.Type(), func(p *types.Package) string { return p.Name() }) == hint {
				if found != nil {
					return nil // ambiguous
				}
				found = f
			}
		}
		return found
	}
	return nil
}

// fieldTypeHints: type of the unexported fields the rules are anchored in (used only when the name is gone).
var fieldTypeHints = map[string]string{
	"transport.Telnet.initialBuf":              "[]byte",
	"channel.Channel.readLoopExited":           "bool",
	"channel.Channel.done":                     "chan struct{}",
	"util.Queue.queue":                         "[][]byte",
	"util.Queue.depth":                         "int",
	"util.Queue.depthChan":                     "chan int",
	"util.Queue.lock":                          "*sync.RWMutex",
	"driver/network.PrivilegeLevel.patternRe":  "*regexp.Regexp",
	"driver/netconf.Driver.subscriptions":      "map[int][][]byte",
	"driver/netconf.Driver.sessionID":          "uint64",
	"driver/netconf.Driver.serverCapabilities": "[]string",
	"driver/netconf.Driver.messages":           "map[int][]byte",
	"driver/netconf.Driver.messageID":          "int",
	"driver/netconf.Driver.errs":               "chan error",
	"driver/generic.callbackResult.i":          "int",
}

// LookupVar resolves a package-level variable.
func (c *Ctx) LookupVar(pkgRel, name string) *types.Var {
	path := modPath
	if pkgRel != "" {
		path = modPath + "/" + pkgRel
	}
	p := c.PkgBy[path]
	if p == nil || p.Types == nil {
		return nil
	}
	v, _ := p.Types.Scope().Lookup(name).(*types.Var)
	return v
}

// LookupConst resolves a package-level constant.
func (c *Ctx) LookupConst(pkgRel, name string) *types.Const {
	path := modPath
	if pkgRel != "" {
		path = modPath + "/" + pkgRel
	}
	p := c.PkgBy[path]
	if p == nil || p.Types == nil {
		return nil
	}
	v, _ := p.Types.Scope().Lookup(name).(*types.Const)
	return v
}

// ExtFunc resolves a function/method in a non-module package (e.g. "bytes","Contains").
func (c *Ctx) ExtFunc(pkgPath, recv, name string) *types.Func {
	var tp *types.Package
	packages.Visit(c.Pkgs, nil, func(p *packages.Package) {
		if p.PkgPath == pkgPath && p.Types != nil {
			tp = p.Types
		}
	})
	if tp == nil {
		return nil
	}
	if recv == "" {
		f, _ := tp.Scope().Lookup(name).(*types.Func)
		return f
	}
	tn, _ := tp.Scope().Lookup(recv).(*types.TypeName)
	if tn == nil {
		return nil
	}
	ms := types.NewMethodSet(types.NewPointer(tn.Type()))
	for i := 0; i < ms.Len(); i++ {
		if ms.At(i).Obj().Name() == name {
			f, _ := ms.At(i).Obj().(*types.Func)
			return f
		}
	}
	return nil
}

// AnonFuncsDeep lists fn's anonymous functions transitively.
func AnonFuncsDeep(fn *ssa.Function) []*ssa.Function {
	var out []*ssa.Function
	var rec func(f *ssa.Function)
	rec = func(f *ssa.Function) {
		for _, a := range f.AnonFuncs {
			out = append(out, a)
			rec(a)
		}
	}
	rec(fn)
	return out
}

// canonical maps synthetic wrappers (bound-method closures, thunks) to the
// declared function they wrap.
func (c *Ctx) canonical(fn *ssa.Function) *ssa.Function {
	if fn == nil {
		return nil
	}
	if fn.Synthetic != "" {
		if obj, ok := fn.Object().(*types.Func); ok && obj != nil {
			if f := c.Prog.FuncValue(obj); f != nil {
				return f
			}
		}
	}
	return fn
}

// Callees returns the possible callees of a call instruction: the static callee
// if there is one, else the VTA call-graph targets (canonicalised).
func (c *Ctx) Callees(instr ssa.CallInstruction) []*ssa.Function {
	cc := instr.Common()
	if sc := cc.StaticCallee(); sc != nil {
		return []*ssa.Function{c.canonical(sc)}
	}
	if _, ok := cc.Value.(*ssa.Builtin); ok {
		return nil
	}
	fn := instr.Parent()
	node := c.CG().Nodes[fn]
	if node == nil {
		return nil
	}
	seen := map[*ssa.Function]bool{}
	var out []*ssa.Function
	for _, e := range node.Out {
		if e.Site == instr {
			f := c.canonical(e.Callee.Func)
			if !seen[f] {
				seen[f] = true
				out = append(out, f)
			}
		}
	}
	sort.Slice(out, func(i, j int) bool { return fnName(out[i]) < fnName(out[j]) })
	return out
}

// CalleeObj returns the *types.Func the call statically names (method value for
// interface invokes as well), or nil.
func CalleeObj(instr ssa.CallInstruction) *types.Func {
	cc := instr.Common()
	if cc.IsInvoke() {
		return cc.Method
	}
	if sc := cc.StaticCallee(); sc != nil {
		if o, ok := sc.Object().(*types.Func); ok {
			return o
		}
	}
	return nil
}

// FileOf returns the *ast.File containing pos in a library package.
func (c *Ctx) FileOf(pos token.Pos) *ast.File {
	for _, p := range c.Pkgs {
		for _, f := range p.Syntax {
			if f.Pos() <= pos && pos <= f.End() {
				return f
			}
		}
	}
	return nil
}

// LibPackages returns the library packages sorted by path.
func (c *Ctx) LibPackages() []*packages.Package {
	var out []*packages.Package
	for _, p := range c.Pkgs {
		if isLibPkgPath(p.PkgPath) {
			out = append(out, p)
		}
	}
	sort.Slice(out, func(i, j int) bool { return out[i].PkgPath < out[j].PkgPath })
	return out
}
