package main

// C03 — NETCONF requests on the wire are correctly framed and carry the caller's content.

import (
	"fmt"
	"go/token"
	"go/types"
	"reflect"
	"strings"

	"golang.org/x/tools/go/ssa"
)

var specNetconfOpOptions = map[string][]string{
	"WithFilterType":               {"netconf.OperationOptions.FilterType<-param0"},
	"WithDefaultType":              {"netconf.OperationOptions.DefaultType<-param0"},
	"WithFilter":                   {"netconf.OperationOptions.Filter<-param0"},
	"WithCommitConfirmed":          {"netconf.OperationOptions.CommitConfirmed<-const:true"},
	"WithCommitConfirmTimeout":     {"netconf.OperationOptions.CommitConfirmTimeout<-param0"},
	"WithCommitConfirmedPersist":   {"netconf.OperationOptions.CommitConfirmedPersist<-param0"},
	"WithCommitConfirmedPersistID": {"netconf.OperationOptions.CommitConfirmedPersistID<-param0"},
}

func init() {
	register(&Property{
		ID:  "C03",
		Run: runC03,
		Explanation: "Decision tables and provenance rules over request construction, valid for every operation, argument string and option combination: framing — on all 8 paths of serialize ({1.0,1.1} x header on/off x self-closing on/off) the payload is Marshal(message) with the XML declaration prepended exactly when not excluded and the self-closing rewrite applied exactly when forced; the raw copy is a copy of exactly that payload; 1.0 framing is payload + ']]>]]>'; 1.1 framing is '#' + decimal len(payload) + LF + payload + LF '##', where len is the BYTE length of the very value that follows the header. " +
			"write-sequence — sendRPC writes the framed bytes of that serialisation followed by a return, then exactly one further return on the 'version == 1.1' edge, before it starts waiting; the response object reports the raw and framed bytes of the same serialisation. " +
			"element-wiring — every operation struct carries the RFC 6241 element name in its xml tag, rpc has the base namespace and a message-id attribute, and every builder puts each of its parameters into the element the RFC names (source -> <source>, target -> <target>, filter -> filter payload or select attribute by type, defaults mode -> <with-defaults>, configuration -> edit-config inner XML), and every public method hands its arguments to its builder in the right positions; the NETCONF operation options store the setting they name. " +
			"NOT decided: well-formedness of arbitrary caller XML, escaping by encoding/xml, the regular expression of the self-closing rewrite beyond the name-equality guard (selfclose-guard), decoding by an independent RFC 6242 parser.",
		Assumptions: []string{"encoding/xml marshals struct tags as documented", "len() of a byte slice is its byte length (by construction)"},
		Mutants: []Mutant{
			{ID: "C03-write-strips-cr", Desc: "Channel.Write drops a trailing carriage return of what it is given", Rule: "C03/found-write-primitives",
				Edits: []Edit{{File: "channel/write.go", Old: "func (c *Channel) Write(b []byte, r bool) error {\n", New: "func (c *Channel) Write(b []byte, r bool) error {\n\tif len(b) > 1 && b[len(b)-1] == '\\r' {\n\t\tb = b[:len(b)-1]\n\t}\n\n"}}},
			{ID: "C03-rune-count", Desc: "chunk size counts characters, not bytes", Rule: "C03/framing",
				Edits: []Edit{{File: "driver/netconf/message.go", Old: "fmt.Sprintf(\"#%d\\n\", len(msg))", New: "fmt.Sprintf(\"#%d\\n\", bytes.Count(msg, nil)-1)"}}},
			{ID: "C03-close-session-bare-write", Desc: "Close sends a close-session request with a bare Channel.Write", Rule: "C03/framed-only-through-sendrpc",
				Edits: []Edit{{File: "driver/netconf/driver.go", Old: "\td.done <- true\n\n\terr := d.Channel.Close()", New: "\tif serialized, serr := d.buildPayload(&struct {\n\t\tXMLName xml.Name `xml:\"close-session\"`\n\t}{}).serialize(d.SelectedVersion, d.ForceSelfClosingTags, d.ExcludeHeader); serr == nil {\n\t\t_ = d.Channel.Write(serialized.framedXML, false)\n\t}\n\n\td.done <- true\n\n\terr := d.Channel.Close()"}}},
			{ID: "C03-second-return-skipped", Desc: "second return skipped when self-closing tags are forced", Rule: "C03/write-sequence",
				Edits: []Edit{{File: "driver/netconf/rpc.go", Old: "\tif d.SelectedVersion == V1Dot1 {\n\t\terr = d.Channel.WriteReturn()", New: "\tif d.SelectedVersion == V1Dot1 && !d.ForceSelfClosingTags {\n\t\terr = d.Channel.WriteReturn()"}}},
			{ID: "C03-second-return-inverted", Desc: "second return written for 1.0 instead of 1.1", Rule: "C03/write-sequence",
				Edits: []Edit{{File: "driver/netconf/rpc.go", Old: "\tif d.SelectedVersion == V1Dot1 {\n\t\terr = d.Channel.WriteReturn()", New: "\tif d.SelectedVersion != V1Dot1 {\n\t\terr = d.Channel.WriteReturn()"}}},
			{ID: "C03-size-before-rewrite", Desc: "chunk size computed before the self-closing rewrite", Rule: "C03/framing",
				Edits: []Edit{{File: "driver/netconf/message.go", Old: "\tif forceSelfClosingTags {\n\t\tmsg = ForceSelfClosingTags(msg)\n\t}\n", New: "\tsizeOf := msg\n\n\tif forceSelfClosingTags {\n\t\tmsg = ForceSelfClosingTags(msg)\n\t}\n"},
					{File: "driver/netconf/message.go", Old: "len(msg))), msg...)", New: "len(sizeOf))), msg...)"}}},
			{ID: "C03-copy-source-target-swapped", Desc: "copy-config swaps source and target", Rule: "C03/element-wiring",
				Edits: []Edit{{File: "driver/netconf/copyconfig.go", Old: "\t\tTarget:  d.buildTargetElem(target),\n\t\tSource:  d.buildSourceElem(source),", New: "\t\tTarget:  d.buildTargetElem(source),\n\t\tSource:  d.buildSourceElem(target),"}}},
			{ID: "C03-xpath-as-payload", Desc: "xpath filter sent as subtree payload", Rule: "C03/element-wiring",
				Edits: []Edit{{File: "driver/netconf/elements.go", Old: "\t\t\tType:    filterType,\n\t\t\tSelect:  filter,\n\t\t}", New: "\t\t\tType:    filterType,\n\t\t\tPayload: filter,\n\t\t}"}}},
			{ID: "C03-raw-includes-framing", Desc: "reported input includes the framing", Rule: "C03/framing",
				Edits: []Edit{{File: "driver/netconf/message.go", Old: "\tserialized.framedXML = msg\n", New: "\tserialized.framedXML = msg\n\tserialized.rawXML = msg\n"}}},
			{ID: "C03-tag-typo", Desc: "delete-config element misnamed", Rule: "C03/element-wiring",
				Edits: []Edit{{File: "driver/netconf/deleteconfig.go", Old: "`xml:\"delete-config\"`", New: "`xml:\"delete_config\"`"}}},
			{ID: "C03-trailer-missing-lf", Desc: "end-of-chunks marker without its leading LF", Rule: "C03/framing",
				Edits: []Edit{{File: "driver/netconf/message.go", Old: "msg = append(msg, []byte(\"\\n##\")...)", New: "msg = append(msg, []byte(\"##\")...)"}}},
			{ID: "C03-editconfig-args-swapped", Desc: "EditConfig passes config as target", Rule: "C03/element-wiring",
				Edits: []Edit{{File: "driver/netconf/editconfig.go", Old: "\treturn d.sendRPC(d.buildEditConfigElem(target, config), op)", New: "\treturn d.sendRPC(d.buildEditConfigElem(config, target), op)"}}},
			{ID: "C03-response-other-bytes", Desc: "response reports the unframed bytes as framed input", Rule: "C03/write-sequence",
				Edits: []Edit{{File: "driver/netconf/rpc.go", Old: "\t\tserialized.rawXML,\n\t\tserialized.framedXML,\n\t\td.Transport.GetHost(),", New: "\t\tserialized.rawXML,\n\t\tserialized.rawXML,\n\t\td.Transport.GetHost(),"}}},
			{ID: "C03-selfclose-guard-weakened", Desc: "self-closing rewrite skips only matches whose attribute part ends in a slash", Rule: "C03/selfclose-guard",
				Edits: []Edit{{File: "driver/netconf/message.go", Old: "\t\tclosingTag := sm[3]\n\n\t\tif !bytes.Equal(openingTag, closingTag) {", New: "\t\tif bytes.HasSuffix(openingTagContents, []byte(\"/\")) {"}}},
			{ID: "C03-selfclose-drops-prefix", Desc: "empty-element pattern lets a namespace prefix match outside group 1", Rule: "C03/selfclose-guard",
				Edits: []Edit{{File: "driver/netconf/driver.go", Old: "emptyTagPattern = `<([^>/]+?)(\\s+[^>]+?)?>\\s*</([\\w-]+)>`", New: "emptyTagPattern = `<(?:[\\w-]+:)?([^>/]+?)(\\s+[^>]+?)?>\\s*</(?:[\\w-]+:)?([\\w-]+)>`"}}},
			{ID: "C03-header-when-excluded", Desc: "XML declaration always prepended", Rule: "C03/framing",
				Edits: []Edit{{File: "driver/netconf/message.go", Old: "\tif !excludeHeader {\n\t\tmsg = append([]byte(xmlHeader), msg...)\n\t}", New: "\tmsg = append([]byte(xmlHeader), msg...)\n\t_ = excludeHeader"}}},
		},
	})
}

func runC03(c *Ctx, r *Report) {
	r.Rule("C03/no-foreign-append", "no library function appends to a shortened view of a buffer it was only handed (the framed request, once built, is not written into again)", 1)
	checkNoAppendIntoForeignSlice(c, r, "C03/no-foreign-append", nil)
	r.Rule("C03/settings-writers", "the NETCONF driver's settings (self-closing tags, preferred version, ...) are written only by options, constructors and their listed run-time owners", 1)
	checkSettingsWriters(c, r, "C03/settings-writers", []string{"driver/netconf"})
	importFoundation(c, r, "C03", "transport-pipe")
	r.Rule("C03/input-immutable", "a response's record of what was sent is written by its constructor only", 2)
	checkResponseInputImmutable(c, r, "C03/input-immutable")
	r.Rule("C03/fresh-operation", "netconf.NewOperation hands every caller a freshly allocated options object: the filter / defaults mode / commit arguments of one request never show up in a later one", 1)
	checkFreshOperation(c, r, "C03/fresh-operation", []string{"driver/netconf"})
	importFoundation(c, r, "C03", "client-hello")
	importFoundation(c, r, "C03", "netconf-version")
	importFoundation(c, r, "C03", "write-primitives")
	r.Rule("C03/error-classes", "each failure site named by the property wraps the sentinel the property names (timeout / auth / connection / privilege / NETCONF / operation / platform error)", 1)
	checkErrorClasses(c, r, "C03")
	r.Rule("C03/framing", "serialize: payload, raw copy, 1.0 delimiter and 1.1 chunk framing with the byte length of the value that follows, on all 8 paths", 8)
	r.Rule("C03/framed-only-through-sendrpc", "the framed bytes of a serialized request are handed to the channel by sendRPC (or a helper only it calls) and nowhere else", 1)
	checkFramedOnlyThroughSendRPC(c, r, "C03/framed-only-through-sendrpc")
	r.Rule("C03/write-sequence", "sendRPC writes framed bytes + return, one more return exactly under 1.1, then waits; the response reports the same serialisation", 4)
	r.Rule("C03/selfclose-guard", "ForceSelfClosingTags rewrites a pattern match only when its opening tag name equals its closing tag name (the pattern alone has no back-reference); group 1 of the pattern starts right behind the opening '<'", 2)
	r.Rule("C03/op-options-applied", "netconf.NewOperation applies the full per-operation option list (filter, defaults, commit settings) in order", 1)
	r.Rule("C03/element-wiring", "RFC element names in struct tags; builders wire each parameter to its element; public methods pass arguments in position", 20)
	r.Rule("C03/options", "NETCONF operation options store the setting they name", 14)

	checkSerializeFraming(c, r)
	checkSendRPCSequence(c, r)
	checkSelfClosingGuard(c, r)
	checkEmptyTagPatternPrefix(c, r)
	checkOperationApplyLoop(c, r, "C03/op-options-applied", "driver/netconf")
	checkElementTags(c, r)
	checkBuilderWiring(c, r)
	only := map[string]bool{}
	for k := range specNetconfOpOptions {
		only[k] = true
	}
	sub := NewReport("C03")
	checkOptionTable(c, sub, "C03x", "driver/opoptions", specNetconfOpOptions, only)
	for _, o := range sub.Obs {
		construct := strings.TrimPrefix(o.Key, o.Rule+" @ ")
		r.add("C03/options", construct+" ("+strings.TrimPrefix(o.Rule, "C03x/")+")", o.Status, o.Pos, o.Msg, nil)
	}
}

func checkSerializeFraming(c *Ctx, r *Report) {
	rule := "C03/framing"
	fn := c.LookupFunc("driver/netconf", "message", "serialize")
	if fn == nil || len(fn.Params) != 4 {
		r.Anchor(rule, "(*netconf.message).serialize(v, forceSelfClosingTags, excludeHeader)")
		return
	}
	hdrC := c.LookupConst("driver/netconf", "xmlHeader")
	if hdrC == nil {
		r.Anchor(rule, "netconf.xmlHeader")
		return
	}
	hdr := hdrC.Val().ExactString()
	m := "param:" + fn.Params[0].Name()
	v := "param:" + fn.Params[1].Name()
	force := "param:" + fn.Params[2].Name()
	excl := "param:" + fn.Params[3].Name()
	paths := EnumeratePaths(c, fn, &dtConfig{IsAtomCall: func(call *ssa.Call) bool {
		o := CalleeObj(call)
		if o != nil && o.Pkg() != nil && (o.Pkg().Path() == "fmt" || o.Pkg().Path() == "encoding/xml") {
			return true
		}
		if sc := call.Call.StaticCallee(); sc != nil && sc.Name() == "ForceSelfClosingTags" {
			return true
		}
		return false
	}})
	n := 0
	for _, p := range paths {
		if p.Undecided != "" {
			r.Unk(rule, "serialize paths", c.Pos(fn.Pos()), p.Undecided)
			return
		}
		if p.Assume["xml.Marshal("+m+")#1"] != "=nil" {
			continue
		}
		ver := p.Assume[v]
		if ver != `="1.0"` && ver != `="1.1"` {
			continue // no negotiated version: not reachable after a successful open
		}
		n++
		construct := fmt.Sprintf("serialize version%s forceSelfClosing=%s excludeHeader=%s", ver, p.Assume[force], p.Assume[excl])
		payload := "xml.Marshal(" + m + ")#0"
		switch p.Assume[excl] {
		case "false":
			payload = "append(" + hdr + "," + payload + ")"
		case "true":
		default:
			r.Bad(rule, construct, c.Pos(fn.Pos()), "the XML declaration does not depend on the exclude-header setting")
			continue
		}
		switch p.Assume[force] {
		case "true":
			payload = "netconf.ForceSelfClosingTags(" + payload + ")"
		case "false":
		default:
			r.Bad(rule, construct, c.Pos(fn.Pos()), "the self-closing rewrite does not depend on its setting")
			continue
		}
		var probs []string
		framed := p.Locals["local:complit.framedXML"]
		want := ""
		if ver == `="1.0"` {
			want = "append(" + payload + `,"]]>]]>")`
		} else {
			want = `append(append(fmt.Sprintf("#%d\n",{len(` + payload + `)}),` + payload + `),"\n##")`
		}
		if framed != want && normChunkHeader(framed) != want {
			probs = append(probs, fmt.Sprintf("framed bytes are %s, specified %s", framed, want))
		}
		// raw copy
		okCopy := false
		for _, e := range p.Effects {
			if e.Kind == "call" && e.What == "copy" && len(e.Args) == 2 && e.Args[1] == payload {
				okCopy = true
			}
		}
		if !okCopy {
			probs = append(probs, "the reported raw XML is not a copy of exactly the payload that is framed")
		}
		if raw := p.Locals["local:complit.rawXML"]; !strings.HasPrefix(raw, "make[") {
			probs = append(probs, "the raw XML shares storage with (or is) the framed bytes: "+raw)
		}
		if len(probs) == 0 {
			r.OK(rule, construct, c.Pos(fn.Pos()), "payload, copy and framing as specified")
		} else {
			r.Bad(rule, construct, c.Pos(fn.Pos()), strings.Join(probs, "; "))
		}
	}
	if n != 8 {
		r.Unk(rule, "serialize path count", c.Pos(fn.Pos()), fmt.Sprintf("%d framing paths found (8 expected: 2 versions x 2 x 2 options)", n))
	}
	// raw copy length: make([]byte, len(X)) with X the copy source
	okLen := false
	allInstrs(fn, func(in ssa.Instruction) {
		call, ok := in.(*ssa.Call)
		if !ok {
			return
		}
		if b, ok := call.Call.Value.(*ssa.Builtin); ok && b.Name() == "copy" {
			dst := call.Call.Args[0]
			if f, base, isLoad := fieldLoad(dst); isLoad {
				// the destination was stored into a field just before: find that store
				allInstrs(fn, func(in2 ssa.Instruction) {
					if ff, b2, v, isSt := fieldStore(in2); isSt && ff == f && b2 == base {
						dst = v
					}
				})
			}
			if mk, ok := dst.(*ssa.MakeSlice); ok {
				if l, ok := mk.Len.(*ssa.Call); ok {
					if lb, ok := l.Call.Value.(*ssa.Builtin); ok && lb.Name() == "len" && l.Call.Args[0] == call.Call.Args[1] {
						okLen = true
					}
				}
			}
		}
	})
	if !okLen {
		r.Bad(rule, "raw copy length", c.Pos(fn.Pos()), "the raw XML buffer is not allocated with the length of the payload it copies: the reported input is truncated or padded")
	}
}

func checkSendRPCSequence(c *Ctx, r *Report) {
	rule := "C03/write-sequence"
	fn := c.LookupFunc("driver/netconf", "Driver", "sendRPC")
	ser := c.LookupFunc("driver/netconf", "message", "serialize")
	war := c.LookupFunc("channel", "Channel", "WriteAndReturn")
	wret := c.LookupFunc("channel", "Channel", "WriteReturn")
	newResp := c.LookupFunc("response", "", "NewNetconfResponse")
	if fn == nil || ser == nil || war == nil || wret == nil || newResp == nil {
		r.Anchor(rule, "sendRPC / serialize / WriteAndReturn / WriteReturn / NewNetconfResponse")
		return
	}
	sers := staticCallsTo(fn, ser)
	// the two writes happen in sendRPC itself or together in one helper of this package that sendRPC calls once
	holder := fn
	var holderCall *ssa.Call
	wars := staticCallsTo(fn, war)
	wrets := staticCallsTo(fn, wret)
	if len(wars) == 0 && len(wrets) == 0 {
		for _, ci := range callInstrs(fn) {
			h := ci.Common().StaticCallee()
			call, isCall := ci.(*ssa.Call)
			if h == nil || !isCall || h.Pkg != fn.Pkg || len(h.Blocks) == 0 {
				continue
			}
			hw, hr := staticCallsTo(h, war), staticCallsTo(h, wret)
			if len(hw) == 0 && len(hr) == 0 {
				continue
			}
			if holderCall != nil {
				wars, wrets = nil, nil // more than one writing helper: not the shape this rule decides
				break
			}
			holder, holderCall, wars, wrets = h, call, hw, hr
		}
	}
	if len(sers) != 1 || len(wars) != 1 || len(wrets) != 1 {
		r.Bad(rule, "sendRPC shape", c.Pos(fn.Pos()), fmt.Sprintf("sendRPC must serialise once, write framed+return once and have one extra return (found %d/%d/%d)", len(sers), len(wars), len(wrets)))
		return
	}
	serRes := resultOf(sers[0].(*ssa.Call), 0)
	fieldOfSer := func(v ssa.Value, name string) bool {
		f, base, ok := fieldLoad(v)
		return ok && f.Name() == name && base == serRes
	}
	w := wars[0].(*ssa.Call)
	// the instruction of sendRPC at which the request is written
	var wSite ssa.Instruction = w
	framed := fieldOfSer(w.Call.Args[1], "framedXML")
	if holderCall != nil {
		wSite = holderCall
		framed = false
		for pi, p := range holder.Params {
			if sameParam(w.Call.Args[1], p) && pi < len(holderCall.Call.Args) && fieldOfSer(holderCall.Call.Args[pi], "framedXML") {
				framed = true
			}
		}
	}
	r.Check(framed && dominatesInstr(sers[0], wSite), rule, "framed bytes written", c.Pos(w.Pos()), "WriteAndReturn(serialized.framedXML)",
		"what sendRPC writes is not the framed bytes of its own serialisation")
	wr := wrets[0].(*ssa.Call)
	var conds []string
	ver11 := false
	for _, ec := range edgeConds(wr.Block()) {
		if x, _, isNil := nilCheck(ec.Cond); isNil && isErrorType(x.Type()) {
			continue
		}
		conds = append(conds, ec.Cond.String())
		if bo, ok := ec.Cond.(*ssa.BinOp); ok && ((bo.Op == token.EQL && ec.Truth) || (bo.Op == token.NEQ && !ec.Truth)) {
			if s, isS := constString(bo.Y); isS && s == "1.1" && isFieldLoadNamed(bo.X, "SelectedVersion") {
				ver11 = true
			}
		}
	}
	r.Check(ver11 && len(conds) == 1 && dominatesInstr(w, wr), rule, "second return exactly under 1.1", c.Pos(wr.Pos()), "after the framed write, guarded by SelectedVersion == 1.1 only",
		fmt.Sprintf("the extra return that supplies the LF starting the next chunk header is not written exactly when the selected version is 1.1 (guards: %v): consecutive 1.1 messages run together, or 1.0 sessions get a stray line", conds))
	if holderCall != nil {
		// the helper's failure ends the call
		msg := stepErrReturned(c, fn, holderCall)
		r.Check(msg == "", rule, "write helper's error returned", c.Pos(holderCall.Pos()), "", "sendRPC goes on waiting although writing the request failed: "+msg)
	}
	// nothing else writes; the waiting starts after the writes
	var goInstr ssa.Instruction
	for _, ci := range callInstrs(fn) {
		if g, ok := ci.(*ssa.Go); ok {
			goInstr = g
		}
	}
	r.Check(goInstr != nil && dominatesInstr(wSite, goInstr), rule, "wait starts after the request was written", c.Pos(fn.Pos()), "", "sendRPC starts waiting for the reply before the request is on the wire")
	okResp := false
	for _, ci := range staticCallsTo(fn, newResp) {
		a := ci.Common().Args
		okResp = fieldOfSer(a[0], "rawXML") && fieldOfSer(a[1], "framedXML")
	}
	r.Check(okResp, rule, "response reports what was sent", c.Pos(fn.Pos()), "NewNetconfResponse(serialized.rawXML, serialized.framedXML, ...)", "the response's Input / FramedInput are not the raw and framed bytes of the serialisation that was written")
}

func xmlTag(st *types.Struct, field string) (string, bool) {
	for i := 0; i < st.NumFields(); i++ {
		if st.Field(i).Name() == field {
			return reflect.StructTag(st.Tag(i)).Get("xml"), true
		}
	}
	return "", false
}

func checkElementTags(c *Ctx, r *Report) {
	rule := "C03/element-wiring"
	want := map[string]map[string]string{
		"message":      {"XMLName": "rpc", "Namespace": "xmlns,attr", "MessageID": "message-id,attr", "Payload": ",innerxml"},
		"get":          {"XMLName": "get"},
		"getConfig":    {"XMLName": "get-config"},
		"editConfig":   {"XMLName": "edit-config", "Payload": ",innerxml"},
		"copyConfig":   {"XMLName": "copy-config"},
		"deleteConfig": {"XMLName": "delete-config"},
		"lock":         {"XMLName": "lock"},
		"unlock":       {"XMLName": "unlock"},
		"validate":     {"XMLName": "validate"},
		"commit":       {"XMLName": "commit", "Confirmed": "confirmed,omitempty", "ConfirmedTimeout": "confirm-timeout,omitempty", "Persist": "persist,omitempty", "PersistID": "persist-id,omitempty"},
		"discard":      {"XMLName": "discard-changes"},
		"sourceT":      {"XMLName": "source"},
		"targetT":      {"XMLName": "target"},
		"filterT":      {"XMLName": "filter", "Type": "type,attr", "Select": "select,attr,omitempty", "Payload": ",innerxml"},
		"defaultType":  {"XMLName": "with-defaults", "Namespace": "xmlns,attr", "Type": ",innerxml"},
	}
	var names []string
	for n := range want {
		names = append(names, n)
	}
	sortStrings(names)
	for _, tn := range names {
		t := c.LookupType("driver/netconf", tn)
		if t == nil {
			r.Anchor(rule, "netconf."+tn)
			continue
		}
		st, ok := t.Underlying().(*types.Struct)
		if !ok {
			r.Anchor(rule, "netconf."+tn+" (struct)")
			continue
		}
		var probs []string
		for _, f := range sortedMapKeys(want[tn]) {
			got, found := xmlTag(st, f)
			if !found || got != want[tn][f] {
				probs = append(probs, fmt.Sprintf("field %s has xml tag %q, RFC 6241 requires %q", f, got, want[tn][f]))
			}
		}
		if len(probs) == 0 {
			r.OK(rule, "element "+tn, c.Pos(t.Obj().Pos()), "")
		} else {
			r.Bad(rule, "element "+tn, c.Pos(t.Obj().Pos()), strings.Join(probs, "; "))
		}
	}
	// base namespace constant in buildPayload; with-defaults namespace
	bp := c.LookupFunc("driver/netconf", "Driver", "buildPayload")
	if bp == nil {
		r.Anchor(rule, "(*netconf.Driver).buildPayload")
	} else {
		okNS, okPayload := false, false
		allInstrs(bp, func(in ssa.Instruction) {
			f, _, v, ok := fieldStore(in)
			if !ok {
				return
			}
			if f.Name() == "Namespace" {
				s, isS := constString(v)
				okNS = isS && s == "urn:ietf:params:xml:ns:netconf:base:1.0"
			}
			if f.Name() == "Payload" {
				okPayload = v == ssa.Value(bp.Params[1])
			}
		})
		r.Check(okNS && okPayload, rule, "rpc base namespace and payload", c.Pos(bp.Pos()), "", "the rpc element does not carry the NETCONF base namespace or not the operation it was built for")
	}
}

func sortStrings(s []string) {
	for i := 1; i < len(s); i++ {
		for j := i; j > 0 && s[j] < s[j-1]; j-- {
			s[j], s[j-1] = s[j-1], s[j]
		}
	}
}

func sortedMapKeys(m map[string]string) []string {
	var ks []string
	for k := range m {
		ks = append(ks, k)
	}
	sortStrings(ks)
	return ks
}

type builderSpec struct {
	name   string
	fields map[string]string // complit field -> expected key template ({d} receiver, {0}.. params)
}

func checkBuilderWiring(c *Ctx, r *Report) {
	rule := "C03/element-wiring"
	pure := func(call *ssa.Call) bool {
		o := CalleeObj(call)
		return o != nil && o.Pkg() != nil && (o.Pkg().Path() == "fmt" || o.Pkg().Path() == "strconv")
	}
	specs := []builderSpec{
		{"buildGetElem", map[string]string{"Filter": "netconf.Driver.buildFilterElem({d},{0},{1})#0"}},
		{"buildGetConfigElem", map[string]string{"Source": "netconf.Driver.buildSourceElem({d},{0})", "Filter": "netconf.Driver.buildFilterElem({d},{1},{2})#0", "Defaults": "netconf.Driver.buildDefaultsElem({d},{3})#0"}},
		{"buildEditConfigElem", map[string]string{"Target": "netconf.Driver.buildTargetElem({d},{0})", "Payload": "{0+1}"}},
		{"buildCopyConfigElem", map[string]string{"Source": "netconf.Driver.buildSourceElem({d},{0})", "Target": "netconf.Driver.buildTargetElem({d},{1})"}},
		{"buildDeleteConfigElem", map[string]string{"Target": "netconf.Driver.buildTargetElem({d},{0})"}},
		{"buildLockElem", map[string]string{"Target": "netconf.Driver.buildTargetElem({d},{0})"}},
		{"buildUnlockElem", map[string]string{"Target": "netconf.Driver.buildTargetElem({d},{0})"}},
		{"buildValidateElem", map[string]string{"Source": "netconf.Driver.buildSourceElem({d},{0})"}},
		{"buildCommitElem", map[string]string{"Persist": "{2}", "PersistID": "{3}"}},
	}
	// the specification names the builders (buildPayload, buildSourceElem ...): they stay opaque calls
	keepBuilders := func(f *ssa.Function) bool { return strings.HasPrefix(f.Name(), "build") }
	for _, sp := range specs {
		fn := c.LookupFunc("driver/netconf", "Driver", sp.name)
		if fn == nil {
			r.Anchor(rule, "(*netconf.Driver)."+sp.name)
			continue
		}
		subst := func(t string) string {
			t = strings.ReplaceAll(t, "{d}", "param:"+fn.Params[0].Name())
			t = strings.ReplaceAll(t, "{0+1}", "param:"+fn.Params[minInt(2, len(fn.Params)-1)].Name())
			for i := 1; i < len(fn.Params); i++ {
				t = strings.ReplaceAll(t, fmt.Sprintf("{%d}", i-1), "param:"+fn.Params[i].Name())
			}
			return t
		}
		paths := EnumeratePaths(c, fn, &dtConfig{IsAtomCall: pure, Keep: keepBuilders})
		var probs []string
		okPaths := 0
		for _, p := range paths {
			if p.Undecided != "" {
				probs = append(probs, p.Undecided)
				continue
			}
			built := false
			for _, e := range p.Effects {
				if e.Kind == "call" && e.What == "netconf.Driver.buildPayload" && len(e.Args) == 2 && e.Args[1] == "local:complit" {
					built = true
				}
			}
			if !built {
				continue // error path of a sub-builder
			}
			okPaths++
			for f, tmpl := range sp.fields {
				want := subst(tmpl)
				if got := p.Locals["local:complit."+f]; got != want {
					probs = append(probs, fmt.Sprintf("element field %s is %q, specified %q", f, got, want))
				}
			}
		}
		if okPaths == 0 {
			probs = append(probs, "no path builds the rpc payload from the operation element")
		}
		if len(probs) == 0 {
			r.OK(rule, "builder "+sp.name, c.Pos(fn.Pos()), fmt.Sprintf("%d field(s) wired", len(sp.fields)))
		} else {
			r.Bad(rule, "builder "+sp.name, c.Pos(fn.Pos()), "the caller's arguments do not reach the element the RFC names: "+strings.Join(uniqStrings(probs), "; "))
		}
	}
	// commit: confirmed / timeout
	if fn := c.LookupFunc("driver/netconf", "Driver", "buildCommitElem"); fn != nil {
		paths := EnumeratePaths(c, fn, &dtConfig{IsAtomCall: pure, Keep: keepBuilders})
		ok := len(paths) > 0
		conf := "param:" + fn.Params[1].Name()
		tmo := "param:" + fn.Params[2].Name()
		for _, p := range paths {
			_, hasConf := p.Locals["local:complit.Confirmed"]
			if (p.Assume[conf] == "true") != hasConf {
				ok = false
			}
			ct, hasT := p.Locals["local:complit.ConfirmedTimeout"]
			if (p.Lit("("+tmo+">0)") == "true") != hasT {
				ok = false
			}
			if hasT && ct != "strconv.Itoa("+tmo+")" {
				ok = false
			}
		}
		r.Check(ok, rule, "builder buildCommitElem confirmed/timeout", c.Pos(fn.Pos()), "<confirmed/> iff requested; confirm-timeout = the given seconds iff > 0", "commit: the confirmed flag / confirm-timeout are not wired to their parameters")
	}
	// leaf builders
	for _, sp := range []struct{ name, field string }{{"buildSourceElem", "Source"}, {"buildTargetElem", "Source"}} {
		fn := c.LookupFunc("driver/netconf", "Driver", sp.name)
		if fn == nil {
			r.Anchor(rule, "(*netconf.Driver)."+sp.name)
			continue
		}
		paths := EnumeratePaths(c, fn, &dtConfig{IsAtomCall: pure, Keep: keepBuilders})
		ok := len(paths) == 1
		for _, p := range paths {
			if p.Locals["&local:complit#2.XMLName.Local"] != "param:"+fn.Params[1].Name() || p.Locals["local:complit."+sp.field] != "local:complit#2" {
				ok = false
			}
		}
		r.Check(ok, rule, "builder "+sp.name, c.Pos(fn.Pos()), "datastore name becomes the inner element", sp.name+" does not emit the datastore name it was given as the inner element")
	}
	if fn := c.LookupFunc("driver/netconf", "Driver", "buildFilterElem"); fn != nil {
		paths := EnumeratePaths(c, fn, &dtConfig{IsAtomCall: pure, Keep: keepBuilders})
		f := "param:" + fn.Params[1].Name()
		ft := "param:" + fn.Params[2].Name()
		ok := len(paths) > 0
		seenSub, seenX := false, false
		for _, p := range paths {
			if len(p.Returns) != 2 {
				ok = false
				continue
			}
			switch p.Assume[ft] {
			case `="subtree"`:
				if p.Assume[f] == `=""` {
					continue
				}
				seenSub = true
				lit := strings.TrimSuffix(p.Returns[0], "")
				if p.Locals[lit+".Payload"] != f || p.Locals[lit+".Type"] != `"subtree"` || (p.Locals[lit+".Select"] != `""` && p.Locals[lit+".Select"] != "") {
					ok = false
				}
			case `="xpath"`:
				if p.Assume[f] == `=""` {
					continue
				}
				seenX = true
				lit := p.Returns[0]
				if p.Locals[lit+".Select"] != f || p.Locals[lit+".Type"] != `"xpath"` || p.Locals[lit+".Payload"] != "" {
					ok = false
				}
			}
		}
		r.Check(ok && seenSub && seenX, rule, "builder buildFilterElem", c.Pos(fn.Pos()), "subtree -> payload, xpath -> select attribute", "the filter is not placed as inner XML for subtree filters and as the select attribute for xpath filters")
	}
	if fn := c.LookupFunc("driver/netconf", "Driver", "buildDefaultsElem"); fn != nil {
		paths := EnumeratePaths(c, fn, &dtConfig{IsAtomCall: pure, Keep: keepBuilders})
		dt := "param:" + fn.Params[1].Name()
		ok := false
		nsC := c.LookupConst("driver/netconf", "defaultNamespace")
		for _, p := range paths {
			if len(p.Returns) == 2 && strings.HasPrefix(p.Returns[0], "local:complit") && p.Returns[1] == "nil" {
				lit := p.Returns[0]
				tv := p.Locals[lit+".Type"]
				okType := tv == dt || strings.HasPrefix(p.Assume[dt], "="+tv)
				okNS := nsC != nil && p.Locals[lit+".Namespace"] == nsC.Val().ExactString()
				ok = okType && okNS
				if !ok {
					break
				}
			}
		}
		r.Check(ok, rule, "builder buildDefaultsElem", c.Pos(fn.Pos()), "with-defaults mode and namespace", "the defaults mode is not emitted as given in the with-defaults namespace")
	}
	// public methods -> builders: arguments in position
	methods := []struct {
		method, builder string
		args            []string // expected builder args after receiver: "p<i>" (method param i, 1-based after receiver) or "op.<Field>"
	}{
		{"Get", "buildGetElem", []string{"p1", "op.FilterType"}},
		{"GetConfig", "buildGetConfigElem", []string{"p1", "op.Filter", "op.FilterType", "op.DefaultType"}},
		{"EditConfig", "buildEditConfigElem", []string{"p1", "p2"}},
		{"CopyConfig", "buildCopyConfigElem", []string{"p1", "p2"}},
		{"DeleteConfig", "buildDeleteConfigElem", []string{"p1"}},
		{"Lock", "buildLockElem", []string{"p1"}},
		{"Unlock", "buildUnlockElem", []string{"p1"}},
		{"Validate", "buildValidateElem", []string{"p1"}},
		{"Commit", "buildCommitElem", []string{"op.CommitConfirmed", "op.CommitConfirmTimeout", "op.CommitConfirmedPersist", "op.CommitConfirmedPersistID"}},
		{"RPC", "buildRPCElem", []string{"op.Filter"}},
	}
	for _, m := range methods {
		fn := c.LookupFunc("driver/netconf", "Driver", m.method)
		b := c.LookupFunc("driver/netconf", "Driver", m.builder)
		if fn == nil || b == nil {
			r.Anchor(rule, "(*netconf.Driver)."+m.method+" / "+m.builder)
			continue
		}
		calls := staticCallsTo(fn, b)
		ok := len(calls) == 1
		msg := ""
		if ok {
			args := calls[0].Common().Args[1:]
			if len(args) != len(m.args) {
				ok = false
			}
			for i := 0; ok && i < len(args); i++ {
				want := m.args[i]
				if strings.HasPrefix(want, "p") {
					var idx int
					fmt.Sscanf(want, "p%d", &idx)
					if args[i] != ssa.Value(fn.Params[idx]) {
						ok = false
						msg = fmt.Sprintf("argument %d of %s is not the method's parameter %s", i+1, m.builder, fn.Params[idx].Name())
					}
				} else {
					if !isFieldLoadNamed(args[i], strings.TrimPrefix(want, "op.")) {
						ok = false
						msg = fmt.Sprintf("argument %d of %s is not the operation option %s", i+1, m.builder, want)
					}
				}
			}
		}
		r.Check(ok, rule, "method "+m.method+" -> "+m.builder, c.Pos(fn.Pos()), "arguments in position", "the public method does not hand its arguments to its builder in the specified positions: "+msg)
	}
}

func minInt(a, b int) int {
	if a < b {
		return a
	}
	return b
}

func uniqStrings(s []string) []string {
	seen := map[string]bool{}
	var out []string
	for _, x := range s {
		if !seen[x] {
			seen[x] = true
			out = append(out, x)
		}
	}
	return out
}

// normChunkHeader rewrites the chunk header spelled as a concatenation -- (("#"+strconv.Itoa(N))+"\n") -- into the
// formatted spelling the specification is written in -- fmt.Sprintf("#%d\n",{N}).
func normChunkHeader(k string) string {
	const pre = `(("#"+strconv.Itoa(`
	for {
		i := strings.Index(k, pre)
		if i < 0 {
			return k
		}
		j := i + len(pre)
		depth := 1
		for j < len(k) && depth > 0 {
			switch k[j] {
			case '(':
				depth++
			case ')':
				depth--
			}
			j++
		}
		// k[i+len(pre) : j-1] is N; what follows must be `)+"\n")`
		const post = `)+"\n")`
		if depth != 0 || !strings.HasPrefix(k[j:], post) {
			return k
		}
		n := k[i+len(pre) : j-1]
		k = k[:i] + `fmt.Sprintf("#%d\n",{` + n + `})` + k[j+len(post):]
	}
}
