package main

// C18 — callback sends fire the right callback on the right trigger.

import (
	"fmt"
	"go/types"
	"strings"

	"golang.org/x/tools/go/ssa"
)

var specCallbackOptions = map[string][]string{
	"WithCallbackContains":    {"generic.Callback.Contains<-param0"},
	"WithCallbackNotContains": {"generic.Callback.NotContains<-param0"},
	"WithCallbackContainsRe":  {"generic.Callback.ContainsRe<-param0"},
	"WithCallbackInsensitive": {"generic.Callback.Insensitive<-param0"},
	"WithCallbackResetOutput": {"generic.Callback.ResetOutput<-const:true"},
	"WithCallbackOnce":        {"generic.Callback.Once<-const:true"},
	"WithCallbackComplete":    {"generic.Callback.Complete<-const:true"},
	"WithCallbackName":        {"generic.Callback.Name<-param0"},
	"WithCallbackNextTimeout": {"generic.Callback.NextTimeout<-param0"},
}

func init() {
	register(&Property{
		ID:  "C18",
		Run: runC18,
		Explanation: "Decision-table extraction over the loop-free SSA of (*Callback).check: atoms Insensitive, Contains!=\"\", contains(b), NotContains!=\"\", b-contains-not-contains-text, ContainsRe!=nil, re(b); all 128 rows are compared with the specified predicate (A&B | E&F) & !(C&D), and in every row the haystack of all three tests is b lower-cased exactly when Insensitive. " +
			"The needle helpers lower-case under the same flag; NewCallback defaults Insensitive to true. The scan over the callback list is a range loop in list order and the first true check leaves with that index. " +
			"executeCallback (path-enumerated): Once&&triggered returns ErrOperationError without running the user callback; the triggered flag is set before the callback runs; the callback receives the accumulated output; Complete returns the never-reset full buffer without reading on; ResetOutput clears only the trigger buffer; the next read uses NextTimeout when non-zero. The ctx.Done edge (and a nil result) return ErrTimeoutError. The callback option constructors store the setting they name. " +
			"NOT decided: which trigger becomes true first for a given dialogue/segmentation (run-time values).",
		Assumptions: []string{"bytes.Contains / regexp.Match are the library predicates they name"},
		Mutants: []Mutant{
			{ID: "C18-echo-read-before-callbacks", Desc: "SendWithCallbacks reads its own echo before the callback loop", Rule: "C18/no-private-read",
				Edits: []Edit{{File: "driver/generic/sendwithcallbacks.go", Old: "\t\terr := d.Channel.WriteAndReturn([]byte(input), false)\n\t\tif err != nil {\n\t\t\treturn nil, err\n\t\t}\n", New: "\t\terr := d.Channel.WriteAndReturn([]byte(input), false)\n\t\tif err != nil {\n\t\t\treturn nil, err\n\t\t}\n\n\t\tectx, ecancel := context.WithTimeout(context.Background(), timeout)\n\n\t\t_, err = d.Channel.ReadUntilFuzzy(ectx, []byte(input))\n\n\t\tecancel()\n\n\t\tif err != nil {\n\t\t\treturn nil, err\n\t\t}\n"}}},
			{ID: "C18-next-timeout-skips-reset", Desc: "a callback with a next-timeout continues without resetting the output", Rule: "C18/execute",
				Edits: []Edit{{File: "driver/generic/sendwithcallbacks.go", Old: "\tif cb.ResetOutput {\n\t\tb = nil\n\t}\n\n\tnt := t\n\tif cb.NextTimeout != 0 {\n\t\tnt = cb.NextTimeout\n\t}\n\n\treturn d.handleCallbacks(callbacks, b, fb, nt)", New: "\tif cb.NextTimeout != 0 {\n\t\treturn d.handleCallbacks(callbacks, b, fb, cb.NextTimeout)\n\t}\n\n\tif cb.ResetOutput {\n\t\tb = nil\n\t}\n\n\treturn d.handleCallbacks(callbacks, b, fb, t)"}}},
			{ID: "C18-notcontains-inverted", Desc: "not-contains test inverted again", Rule: "C18/trigger-table",
				Edits: []Edit{{File: "driver/generic/sendwithcallbacks.go", Old: "if (c.Contains != \"\" && bytes.Contains(b, c.contains())) &&\n\t\t!(c.NotContains != \"\" && bytes.Contains(b, c.notContains())) {", New: "if (c.Contains != \"\" && bytes.Contains(b, c.contains())) &&\n\t\t!(c.NotContains != \"\" && !bytes.Contains(b, c.notContains())) {"}}},
			{ID: "C18-re-ignores-notcontains", Desc: "regex trigger ignores the not-contains text", Rule: "C18/trigger-table",
				Edits: []Edit{{File: "driver/generic/sendwithcallbacks.go", Old: "if (c.ContainsRe != nil && c.ContainsRe.Match(b)) &&\n\t\t!(c.NotContains != \"\" && bytes.Contains(b, c.notContains())) {", New: "if c.ContainsRe != nil && c.ContainsRe.Match(b) {"}}},
			{ID: "C18-once-runs-twice", Desc: "Once no longer refuses a second run", Rule: "C18/execute",
				Edits: []Edit{{File: "driver/generic/sendwithcallbacks.go", Old: "\t\tif cb.triggered {\n\t\t\treturn nil, fmt.Errorf(", New: "\t\tif cb.triggered && cb.Complete {\n\t\t\treturn nil, fmt.Errorf("}}},
			{ID: "C18-complete-returns-trigger-buf", Desc: "Complete returns the (reset) trigger buffer", Rule: "C18/execute",
				Edits: []Edit{{File: "driver/generic/sendwithcallbacks.go", Old: "\tif cb.Complete {\n\t\treturn fb, nil\n\t}", New: "\tif cb.Complete {\n\t\treturn b, nil\n\t}"}}},
			{ID: "C18-last-match-wins", Desc: "scan keeps going after the first match", Rule: "C18/first-in-order",
				Edits: []Edit{{File: "driver/generic/sendwithcallbacks.go", Old: "\t\t\t\tfor i, cb := range callbacks {\n\t\t\t\t\tif cb.check(b) {", New: "\t\t\t\tfor i := len(callbacks) - 1; i >= 0; i-- {\n\t\t\t\t\tcb := callbacks[i]\n\t\t\t\t\tif cb.check(b) {"}}},
			{ID: "C18-skip-scan-when-quiet", Desc: "triggers only re-evaluated when new bytes arrived", Rule: "C18/scan-every-pass",
				Edits: []Edit{{File: "driver/generic/sendwithcallbacks.go", Old: "\t\t\t\tb = append(b, rb...)\n\t\t\t\tfb = append(fb, rb...)\n\n\t\t\t\tfor i, cb := range callbacks {", New: "\t\t\t\tif len(rb) == 0 {\n\t\t\t\t\tcontinue\n\t\t\t\t}\n\n\t\t\t\tb = append(b, rb...)\n\t\t\t\tfb = append(fb, rb...)\n\n\t\t\t\tfor i, cb := range callbacks {"}}},
			{ID: "C18-scan-skips-spent", Desc: "scan skips once-callbacks that already fired", Rule: "C18/scan-every-callback",
				Edits: []Edit{{File: "driver/generic/sendwithcallbacks.go", Old: "\t\t\t\tfor i, cb := range callbacks {\n\t\t\t\t\tif cb.check(b) {", New: "\t\t\t\tfor i, cb := range callbacks {\n\t\t\t\t\tif cb.Once && cb.triggered {\n\t\t\t\t\t\tcontinue\n\t\t\t\t\t}\n\n\t\t\t\t\tif cb.check(b) {"}}},
			{ID: "C18-callbacks-sorted", Desc: "callback list sorted contains-first before the scan", Rule: "C18/list-untouched",
				Edits: []Edit{{File: "driver/generic/sendwithcallbacks.go", Old: "\tif input != \"\" {\n\t\terr := d.Channel.WriteAndReturn([]byte(input), false)", New: "\tsort.SliceStable(callbacks, func(i, j int) bool {\n\t\treturn callbacks[i].ContainsRe == nil && callbacks[j].ContainsRe != nil\n\t})\n\n\tif input != \"\" {\n\t\terr := d.Channel.WriteAndReturn([]byte(input), false)"},
					{File: "driver/generic/sendwithcallbacks.go", Old: "\t\"regexp\"\n", New: "\t\"regexp\"\n\t\"sort\"\n"}}},
			{ID: "C18-needle-not-lowered", Desc: "haystack lower-cased but needle left as given", Rule: "C18/case",
				Edits: []Edit{{File: "driver/generic/sendwithcallbacks.go", Old: "\t\tc.containsBytes = []byte(c.Contains)\n\n\t\tif c.Insensitive {\n\t\t\tc.containsBytes = bytes.ToLower(c.containsBytes)\n\t\t}", New: "\t\tc.containsBytes = []byte(c.Contains)"}}},
			{ID: "C18-next-timeout-ignored", Desc: "NextTimeout ignored", Rule: "C18/execute",
				Edits: []Edit{{File: "driver/generic/sendwithcallbacks.go", Old: "\tnt := t\n\tif cb.NextTimeout != 0 {\n\t\tnt = cb.NextTimeout\n\t}", New: "\tnt := t"}}},
			{ID: "C18-reset-clears-full", Desc: "ResetOutput also clears the full buffer", Rule: "C18/execute",
				Edits: []Edit{{File: "driver/generic/sendwithcallbacks.go", Old: "\tif cb.ResetOutput {\n\t\tb = nil\n\t}", New: "\tif cb.ResetOutput {\n\t\tb = nil\n\t\tfb = nil\n\t}"}}},
			{ID: "C18-timeout-class", Desc: "timeout reported as an operation error", Rule: "C18/timeout",
				Edits: []Edit{{File: "driver/generic/sendwithcallbacks.go", Old: "\t\t<-c\n\n\t\treturn nil, fmt.Errorf(\"%w: timeout handling callbacks\", util.ErrTimeoutError)", New: "\t\t<-c\n\n\t\treturn nil, fmt.Errorf(\"%w: timeout handling callbacks\", util.ErrOperationError)"}}},
			{ID: "C18-default-sensitive", Desc: "callbacks case-sensitive by default", Rule: "C18/case",
				Edits: []Edit{{File: "driver/generic/sendwithcallbacks.go", Old: "\t\tInsensitive:   true,", New: "\t\tInsensitive:   false,"}}},
			{ID: "C18-option-wrong-field", Desc: "WithCallbackNotContains sets Contains", Rule: "C18/options",
				Edits: []Edit{{File: "driver/opoptions/callback.go", Old: "c.NotContains = s", New: "c.Contains = s"}}},
		},
	})
}

func runC18(c *Ctx, r *Report) {
	importFoundation(c, r, "C18", "read-loop")
	importFoundation(c, r, "C18", "ansi")
	importFoundation(c, r, "C18", "queue")
	importFoundation(c, r, "C18", "response-record")
	importFoundation(c, r, "C18", "transport-pipe")
	r.Rule("C18/deadline", "the callback loop runs under a deadline built once from the operation's timeout (if nothing completes, the operation ends with a timeout error)", 1)
	importObligationsIf(r, func(sub *Report) { checkDeadlineSources(c, sub) }, "C05/deadline-source", "C18/deadline", func(k string) bool { return strings.Contains(k, "allbacks") })
	r.Rule("C18/no-private-read", "SendWithCallbacks consumes device output only inside the callback loop: everything the device sends after the input is matched against the triggers", 1)
	checkCallbacksNoPrivateRead(c, r, "C18/no-private-read")
	r.Rule("C18/list-untouched", "SendWithCallbacks hands the caller's callback list to the scan unchanged (nothing can reorder it)", 1)
	checkCallbackListUntouched(c, r, "C18/list-untouched")
	r.Rule("C18/error-classes", "each failure site named by the property wraps the sentinel the property names (timeout / auth / connection / privilege / NETCONF / operation / platform error)", 2)
	checkErrorClasses(c, r, "C18")
	r.Rule("C18/trigger-table", "check(b) == (Contains!=\"\" && contains(b) || ContainsRe!=nil && re(b)) && !(NotContains!=\"\" && b contains the not-contains text), for all 128 rows", 128)
	r.Rule("C18/case", "haystack and needles are lower-cased under the same Insensitive flag, which defaults to true", 4)
	r.Rule("C18/first-in-order", "callbacks are scanned by a range loop in list order and the first true check leaves the scan with that index", 1)
	r.Rule("C18/scan-every-callback", "inside the scan every callback's check is evaluated before moving to the next one", 1)
	r.Rule("C18/scan-every-pass", "every pass of the handleCallbacks poll loop evaluates the triggers on the accumulated output, whether or not the read returned new bytes", 1)
	r.Rule("C18/execute", "Once&&triggered -> ErrOperationError without running the callback; triggered set before the callback; callback gets the accumulated output; Complete returns the full buffer; ResetOutput clears only the trigger buffer; NextTimeout honoured", 6)
	r.Rule("C18/timeout", "the deadline edge of handleCallbacks returns ErrTimeoutError", 1)
	r.Rule("C18/options", "each callback option stores the setting it names", 9)

	check := c.LookupFunc("driver/generic", "Callback", "check")
	contains := c.LookupFunc("driver/generic", "Callback", "contains")
	notContains := c.LookupFunc("driver/generic", "Callback", "notContains")
	if check == nil || contains == nil || notContains == nil {
		r.Anchor("C18/trigger-table", "(*generic.Callback).check / contains / notContains")
		return
	}
	pure := func(call *ssa.Call) bool {
		sc := call.Call.StaticCallee()
		if sc == contains || sc == notContains {
			return true
		}
		if o := CalleeObj(call); o != nil && o.Pkg() != nil {
			switch o.Pkg().Path() {
			case "bytes", "regexp", "strings", "fmt":
				return true
			}
		}
		return false
	}
	paths := EnumeratePaths(c, check, &dtConfig{IsAtomCall: pure})
	for _, p := range paths {
		if p.Undecided != "" {
			r.Unk("C18/trigger-table", "check paths", c.Pos(check.Pos()), "path enumeration left the vocabulary: "+p.Undecided)
			return
		}
		if len(p.Effects) > 0 {
			r.Bad("C18/trigger-table", "check is pure", c.Pos(p.Effects[0].Instr.Pos()), "the trigger predicate has a side effect: "+p.Effects[0].String())
		}
	}
	recv := "param:" + check.Params[0].Name()
	bk := "param:" + check.Params[1].Name()
	bits := func(n, i int) bool { return n&(1<<i) != 0 }
	wrongHay := ""
	for row := 0; row < 128; row++ {
		ins, A, B, C, D, E, F := bits(row, 6), bits(row, 5), bits(row, 4), bits(row, 3), bits(row, 2), bits(row, 1), bits(row, 0)
		hay := bk
		if ins {
			hay = "bytes.ToLower(" + bk + ")"
		}
		strLit := func(nonEmpty bool) string {
			if nonEmpty {
				return "\"x\""
			}
			return "\"\""
		}
		nilLit := func(nonNil bool) string {
			if nonNil {
				return "nonnil"
			}
			return "nil"
		}
		cell := map[string]string{
			recv + ".Insensitive": fmt.Sprint(ins),
			recv + ".Contains":    strLit(A),
			"bytes.Contains(" + hay + ",generic.Callback.contains(" + recv + "))": fmt.Sprint(B),
			recv + ".NotContains": strLit(C),
			"bytes.Contains(" + hay + ",generic.Callback.notContains(" + recv + "))": fmt.Sprint(D),
			recv + ".ContainsRe": nilLit(E),
			"regexp.Regexp.Match(" + recv + ".ContainsRe," + hay + ")": fmt.Sprint(F),
		}
		want := (A && B || E && F) && !(C && D)
		construct := fmt.Sprintf("row insensitive=%v contains-set=%v contains(b)=%v notcontains-set=%v notcontains-text-present=%v re-set=%v re(b)=%v", ins, A, B, C, D, E, F)
		var match []*dtPath
		for _, p := range paths {
			ok, und := matchCell(p, cell)
			if und != "" {
				// a literal over a different haystack: remember it for the case rule
				if strings.Contains(und, "bytes.Contains(") || strings.Contains(und, "Regexp.Match(") {
					continue
				}
				wrongHay = und
				continue
			}
			if ok {
				match = append(match, p)
			}
		}
		if len(match) != 1 {
			r.Unk("C18/trigger-table", construct, c.Pos(check.Pos()), fmt.Sprintf("%d paths match the row (expected one): the predicate tests something outside the specified atoms or a different haystack", len(match)))
			continue
		}
		got := len(match[0].Returns) == 1 && match[0].Returns[0] == "true"
		if got == want {
			r.OK("C18/trigger-table", construct, c.Pos(check.Pos()), fmt.Sprint(got))
		} else {
			r.Bad("C18/trigger-table", construct, c.Pos(check.Pos()), fmt.Sprintf("the specified trigger is %v but check returns %v", want, got))
		}
	}
	if wrongHay != "" {
		r.Bad("C18/case", "check haystack", c.Pos(check.Pos()), "check branches on an unexpected literal: "+wrongHay)
	} else {
		r.OK("C18/case", "check haystack", c.Pos(check.Pos()), "all three tests use b, lower-cased exactly when Insensitive")
	}

	// needles
	for _, h := range []struct {
		fn         *ssa.Function
		src, cache string
	}{{contains, "Contains", "containsBytes"}, {notContains, "NotContains", "notContainsBytes"}} {
		hp := EnumeratePaths(c, h.fn, &dtConfig{IsAtomCall: pure})
		hr := "param:" + h.fn.Params[0].Name()
		okAll := true
		msg := ""
		nfresh := 0
		for _, p := range hp {
			if p.Undecided != "" {
				okAll, msg = false, p.Undecided
				continue
			}
			// only paths that (re)compute the cache
			v, stored := lastStore(p, "."+h.cache)
			if !stored {
				continue
			}
			nfresh++
			ins, known := p.Assume[hr+".Insensitive"]
			lowered := strings.HasPrefix(v, "bytes.ToLower(")
			fromSrc := strings.Contains(v, hr+"."+h.src)
			if !fromSrc {
				okAll, msg = false, "the cached needle does not derive from "+h.src+": "+v
			}
			if known && (ins == "true") != lowered {
				okAll, msg = false, fmt.Sprintf("with Insensitive=%s the needle is stored as %s", ins, v)
			}
			if !known && lowered {
				okAll, msg = false, "the needle is lower-cased regardless of Insensitive"
			}
			if !known && !lowered {
				okAll, msg = false, "the needle is never lower-cased although the haystack is when Insensitive"
			}
		}
		if nfresh == 0 {
			okAll, msg = false, "no path computes the needle"
		}
		r.Check(okAll, "C18/case", "needle "+h.src, c.Pos(h.fn.Pos()), "lower-cased exactly when Insensitive", "needle helper "+shortFn(h.fn)+": "+msg)
	}
	// default Insensitive: true
	nc := c.LookupFunc("driver/generic", "", "NewCallback")
	insF := c.LookupField("driver/generic", "Callback", "Insensitive")
	if nc == nil || insF == nil {
		r.Anchor("C18/case", "generic.NewCallback / Callback.Insensitive")
	} else {
		def := false
		found := false
		allInstrs(nc, func(in ssa.Instruction) {
			if f, _, v, ok := fieldStore(in); ok && f == insF {
				found = true
				def = isConstTrue(v)
			}
		})
		r.Check(found && def, "C18/case", "NewCallback default", c.Pos(nc.Pos()), "Insensitive defaults to true", "NewCallback does not default Insensitive to true: triggers are case-sensitive by default")
	}

	checkCallbackScan(c, r, check)
	checkExecuteCallback(c, r)
	checkCallbackTimeout(c, r)
	only := map[string]bool{}
	for k := range specCallbackOptions {
		only[k] = true
	}
	sub := NewReport("C18")
	checkOptionTable(c, sub, "C18x", "driver/opoptions", specCallbackOptions, only)
	for _, o := range sub.Obs {
		construct := strings.TrimPrefix(o.Key, o.Rule+" @ ")
		r.add("C18/options", construct+" ("+strings.TrimPrefix(o.Rule, "C18x/")+")", o.Status, o.Pos, o.Msg, nil)
	}
}

// checkCallbackScan: range loop in list order; first true check leaves with that index.
func checkCallbackScan(c *Ctx, r *Report, check *ssa.Function) {
	rule := "C18/first-in-order"
	hc := c.LookupFunc("driver/generic", "Driver", "handleCallbacks")
	if hc == nil {
		r.Anchor(rule, "(*generic.Driver).handleCallbacks")
		return
	}
	var site *ssa.Call
	var worker *ssa.Function
	for _, fn := range append([]*ssa.Function{hc}, AnonFuncsDeep(hc)...) {
		for _, ci := range staticCallsTo(fn, check) {
			site, _ = ci.(*ssa.Call)
			worker = fn
		}
	}
	if site == nil {
		// the reader goroutine written as a method of the package (`go d.readForCallbacks(...)`)
		for _, bc := range callsThroughHelpers(hc, check, 2) {
			if call, ok := bc.Call.(*ssa.Call); ok {
				site, worker = call, bc.Fn
			}
		}
	}
	if site == nil {
		r.Unk(rule, "handleCallbacks scan", c.Pos(hc.Pos()), "no call of (*Callback).check found")
		return
	}
	// receiver: callbacks[idx] with idx the range induction
	recv := site.Call.Args[0]
	u, ok := recv.(*ssa.UnOp)
	var idx ssa.Value
	if ok {
		if ia, ok := u.X.(*ssa.IndexAddr); ok {
			idx = ia.Index
		}
	}
	hdr := rangeHeader(idx)
	if hdr == nil {
		r.Bad(rule, "handleCallbacks scan", c.Pos(site.Pos()), "the callbacks are not scanned by a range loop over the list (list order / first match cannot be established)")
		return
	}
	// true edge: reaches a send whose i field is idx and then a return, without re-entering the header
	var trueSucc *ssa.BasicBlock
	for _, ref := range *site.Referrers() {
		if ifi, ok := ref.(*ssa.If); ok {
			trueSucc = ifi.Block().Succs[0]
		}
	}
	if trueSucc == nil {
		r.Unk(rule, "handleCallbacks scan", c.Pos(site.Pos()), "the result of check is not branched on directly")
		return
	}
	rr := reachFrom(worker, trueSucc.Instrs[0], func(in ssa.Instruction) bool { return in.Block() == hdr }, nil)
	reenters := false
	iOK := false
	iField := c.LookupField("driver/generic", "callbackResult", "i")
	check1 := func(in ssa.Instruction) {
		if in.Block() == hdr {
			reenters = true
		}
		if f, _, v, ok := fieldStore(in); ok && f == iField && v == idx {
			iOK = true
		}
	}
	check1(trueSucc.Instrs[0])
	for in := range rr.visited {
		check1(in)
	}
	switch {
	case reenters:
		r.Bad(rule, "handleCallbacks scan", c.Pos(site.Pos()), "after a callback's trigger holds the scan continues with later callbacks: not the first one in list order wins")
	case !iOK:
		r.Bad(rule, "handleCallbacks scan", c.Pos(site.Pos()), "the index reported for the triggered callback is not the position of the callback whose check was true")
	default:
		r.OK(rule, "handleCallbacks scan", c.Pos(site.Pos()), "range order, first true check reported with its own index")
	}
	// every callback's trigger is evaluated: inside the scan no path leads back to the loop header (next callback)
	// without having called check on the current one -- a skipped earlier callback would let a later one win
	rule3 := "C18/scan-every-callback"
	var body *ssa.BasicBlock
	for _, s := range hdr.Succs {
		if loopBlocks(hdr)[s] {
			body = s
		}
	}
	if body == nil || len(body.Instrs) == 0 {
		r.Unk(rule3, "handleCallbacks scan", c.Pos(site.Pos()), "cannot locate the body of the scan loop")
	} else {
		first := body.Instrs[0]
		stopAt := func(in ssa.Instruction) bool { return in == ssa.Instruction(site) }
		skipped := false
		if !stopAt(first) {
			rr3 := reachFrom(worker, first, stopAt, nil)
			for in := range rr3.visited {
				if in.Block() == hdr {
					skipped = true
				}
			}
		}
		if skipped {
			r.Bad(rule3, "handleCallbacks scan", c.Pos(site.Pos()), "a callback can be passed over without its trigger being evaluated (a path from the top of the scan body to the next iteration avoids check): a later callback in the list then runs although an earlier one's trigger holds, and the once error of a spent callback is never raised")
		} else {
			r.OK(rule3, "handleCallbacks scan", c.Pos(site.Pos()), "every iteration evaluates check on its element")
		}
	}
	// every pass of the poll loop evaluates the triggers: no path from the channel read back to the
	// channel read that does not enter the scan (the carried-over buffer of a callback that does not
	// reset the output must be looked at even when the device is quiet)
	rule2 := "C18/scan-every-pass"
	chRead := c.LookupFunc("channel", "Channel", "Read")
	var reads []ssa.CallInstruction
	if chRead != nil {
		reads = staticCallsTo(worker, chRead)
	}
	if len(reads) == 0 {
		r.Unk(rule2, "handleCallbacks poll loop", c.Pos(worker.Pos()), "no call of (*Channel).Read in the function that scans the callbacks")
		return
	}
	for _, rd := range reads {
		rr2 := reachFrom(worker, rd, func(in ssa.Instruction) bool { return in.Block() == hdr }, nil)
		if rr2.visited[rd] {
			r.Bad(rule2, "handleCallbacks poll loop", c.Pos(rd.Pos()), "a pass of the poll loop can return to the channel read without evaluating the triggers: "+strings.Join(rr2.witness(c, rd), " -> "))
		} else {
			r.OK(rule2, "handleCallbacks poll loop", c.Pos(rd.Pos()), "every path from the read back to the read enters the trigger scan")
		}
	}
}

func checkExecuteCallback(c *Ctx, r *Report) {
	rule := "C18/execute"
	fn := c.LookupFunc("driver/generic", "Driver", "executeCallback")
	hc := c.LookupFunc("driver/generic", "Driver", "handleCallbacks")
	if fn == nil || hc == nil || len(fn.Params) != 6 {
		r.Anchor(rule, "(*generic.Driver).executeCallback(i, callbacks, b, fb, t)")
		return
	}
	pure := func(call *ssa.Call) bool {
		if o := CalleeObj(call); o != nil && o.Pkg() != nil && o.Pkg().Path() == "fmt" {
			return true
		}
		return false
	}
	paths := EnumeratePaths(c, fn, &dtConfig{IsAtomCall: pure})
	pn := func(i int) string { return "param:" + fn.Params[i].Name() }
	cbKey := pn(2) + "[" + pn(1) + "]" // callbacks[i]
	type verdict struct {
		ok  bool
		msg string
	}
	res := map[string]*verdict{}
	set := func(k string, ok bool, msg string) {
		v := res[k]
		if v == nil {
			v = &verdict{ok: true}
			res[k] = v
		}
		if !ok && v.ok {
			v.ok = false
			v.msg = msg
		}
	}
	for _, k := range []string{"once-refuses", "triggered-before-callback", "callback-gets-output", "complete-returns-full", "reset-only-trigger", "next-timeout"} {
		set(k, true, "")
	}
	seen := map[string]int{}
	for _, p := range paths {
		if p.Undecided != "" {
			r.Unk(rule, "executeCallback paths", c.Pos(fn.Pos()), "path enumeration left the vocabulary: "+p.Undecided)
			return
		}
		lit := func(field string) string { return p.Assume[cbKey+"."+field] }
		var userCall, recurse *dtEffect
		trigStoreBeforeCall := false
		trigStored := false
		for i := range p.Effects {
			e := &p.Effects[i]
			if e.Kind == "store" && strings.HasSuffix(e.What, ".triggered") && e.Args[0] == "true" {
				trigStored = true
				if userCall == nil {
					trigStoreBeforeCall = true
				}
			}
			if e.Kind == "call" && strings.HasPrefix(e.What, "dyn:") {
				userCall = e
			}
			if e.Kind == "call" && strings.HasSuffix(e.What, "Driver.handleCallbacks") {
				recurse = e
			}
		}
		once, trig := lit("Once"), lit("triggered")
		if once == "true" && trig == "true" {
			seen["once-refuses"]++
			ok := userCall == nil && recurse == nil && len(p.Returns) == 2 && p.Returns[1] == "errwrap:ErrOperationError"
			set("once-refuses", ok, fmt.Sprintf("with Once set and the callback already triggered the function must return ErrOperationError without running the callback (returns %v, user callback run: %v)", p.Returns, userCall != nil))
			continue
		}
		if once == "true" && trig == "false" {
			seen["triggered-before-callback"]++
			set("triggered-before-callback", trigStored && (userCall == nil || trigStoreBeforeCall), "a Once callback must be marked triggered before it runs")
		}
		if userCall != nil {
			seen["callback-gets-output"]++
			okArg := len(userCall.Args) == 2 && userCall.Args[1] == pn(3)
			set("callback-gets-output", okArg, fmt.Sprintf("the user callback must receive the output accumulated since the last reset (got args %v)", userCall.Args))
		}
		// paths where the user callback returned an error end early
		if len(p.Returns) == 2 && p.Returns[0] == "nil" && p.Returns[1] != "nil" {
			continue
		}
		if lit("Complete") == "true" {
			seen["complete-returns-full"]++
			set("complete-returns-full", recurse == nil && len(p.Returns) == 2 && p.Returns[0] == pn(4) && p.Returns[1] == "nil",
				fmt.Sprintf("a Complete callback must end the operation returning the whole dialogue (the never-reset buffer); returns %v, reads on: %v", p.Returns, recurse != nil))
			continue
		}
		if lit("Complete") == "false" {
			if recurse == nil || len(recurse.Args) != 5 {
				set("reset-only-trigger", false, "a non-complete callback must continue reading with handleCallbacks(callbacks, b, fb, timeout)")
				continue
			}
			a := recurse.Args
			seen["reset-only-trigger"]++
			wantB := pn(3)
			if lit("ResetOutput") == "true" {
				wantB = "nil"
			}
			if lit("ResetOutput") == "" {
				set("reset-only-trigger", false, "a path continues reading without having consulted ResetOutput: the buffer the next trigger scan sees does not depend on the callback's reset setting (the answered prompt stays in it and fires the callback again)")
				continue
			}
			set("reset-only-trigger", a[1] == pn(2) && a[2] == wantB && a[3] == pn(4),
				fmt.Sprintf("with ResetOutput=%s the next read must get (callbacks, %s, full buffer) but gets (%s, %s, %s)", lit("ResetOutput"), wantB, a[1], a[2], a[3]))
			seen["next-timeout"]++
			nt := p.Assume[cbKey+".NextTimeout"]
			wantT := pn(5)
			if strings.HasPrefix(nt, "!=") {
				wantT = cbKey + ".NextTimeout"
			}
			if nt == "" {
				set("next-timeout", false, "the next read's timeout does not depend on NextTimeout")
			} else {
				set("next-timeout", a[4] == wantT, fmt.Sprintf("with NextTimeout %s the next read must use %s but uses %s", nt, wantT, a[4]))
			}
		}
	}
	for _, k := range []string{"once-refuses", "triggered-before-callback", "callback-gets-output", "complete-returns-full", "reset-only-trigger", "next-timeout"} {
		v := res[k]
		if seen[k] == 0 {
			r.Bad(rule, "executeCallback "+k, c.Pos(fn.Pos()), "no path of executeCallback exhibits the "+k+" behaviour (the corresponding branch is gone)")
			continue
		}
		if v.ok {
			r.OK(rule, "executeCallback "+k, c.Pos(fn.Pos()), fmt.Sprintf("%d path(s)", seen[k]))
		} else {
			r.Bad(rule, "executeCallback "+k, c.Pos(fn.Pos()), v.msg)
		}
	}
}

func checkCallbackTimeout(c *Ctx, r *Report) {
	rule := "C18/timeout"
	hc := c.LookupFunc("driver/generic", "Driver", "handleCallbacks")
	if hc == nil {
		r.Anchor(rule, "(*generic.Driver).handleCallbacks")
		return
	}
	var sel *ssa.Select
	allInstrs(hc, func(in ssa.Instruction) {
		if s, ok := in.(*ssa.Select); ok {
			sel = s
		}
	})
	if sel == nil {
		r.Unk(rule, "handleCallbacks", c.Pos(hc.Pos()), "no select between the worker result and the deadline")
		return
	}
	doneIdx := -1
	for i, st := range sel.States {
		if call, ok := st.Chan.(*ssa.Call); ok && st.Dir == types.RecvOnly {
			if call.Call.IsInvoke() && call.Call.Method.Name() == "Done" {
				doneIdx = i
			}
		}
	}
	if doneIdx < 0 {
		r.Bad(rule, "handleCallbacks", c.Pos(sel.Pos()), "handleCallbacks does not wait on ctx.Done(): if nothing completes the operation never ends")
		return
	}
	ok := false
	for _, b := range hc.Blocks {
		if idx, isCase := selectCaseOf(b, sel); isCase && idx == doneIdx {
			if n := len(b.Instrs); n > 0 {
				if ret, isRet := b.Instrs[n-1].(*ssa.Return); isRet && len(ret.Results) == 2 {
					for _, cl := range returnErrClasses(ret.Results[1], 0) {
						if cl.wraps != nil && cl.wraps.Name() == "ErrTimeoutError" {
							ok = true
						}
					}
				}
			}
		}
	}
	r.Check(ok, rule, "handleCallbacks deadline edge", c.Pos(sel.Pos()), "ctx.Done -> ErrTimeoutError", "the deadline edge of handleCallbacks does not return an error wrapping ErrTimeoutError")
}
