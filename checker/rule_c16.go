package main

// C16 — built-in transports are transparent, ordered byte pipes that unblock on close.

import (
	"fmt"
	"go/token"
	"go/types"
	"sort"
	"strings"

	"golang.org/x/tools/go/ssa"
)

func init() {
	register(&Property{
		ID:  "C16",
		Run: runC16,
		Explanation: "Structural transparency rules over the three built-in transports: read-prefix — each Read allocates a buffer of the requested size, passes it to exactly one underlying read and returns exactly buffer[0:n] with n the count that read reported (telnet additionally returns the bytes buffered during negotiation, once: C15/first-read); write-forward — each Write hands the caller's slice unchanged to the underlying writer and returns its error; the wrapper forwards the configured read size, the same byte slice and the implementation's results unchanged. " +
			"lock-shape — implementation reads hold the read lock, Close(force) does not take it, Channel.Close's timeout edge is the forced one (so a read blocked in the OS is never waited for). factory — each transport name constructs its own implementation; the NETCONF flag selects the subsystem request / '-s netconf' and nothing else. " +
			"NOT decided: ordering / exactly-once delivery through the pty, TCP and crypto/ssh, that a blocked read returns when the descriptor is closed, end-to-end equivalence with an ideal pipe — operating-system and library behaviour that no static argument here bounds.",
		Assumptions: []string{"os.File, net.Conn, crypto/ssh session pipes deliver bytes in order", "io.Reader contract: Read reports the number of bytes placed at the start of the buffer"},
		Mutants: []Mutant{
			{ID: "C16-child-pdeathsig", Desc: "the ssh child is started with a parent-death signal", Rule: "C16/child-lifetime",
				Edits: []Edit{{File: "transport/system.go", Old: "\tt.c = exec.Command(t.OpenBin, t.OpenArgs...) //nolint:gosec\n\n\tvar err error\n\n\tt.fd, err = pty.StartWithSize(", New: "\tt.c = exec.Command(t.OpenBin, t.OpenArgs...) //nolint:gosec\n\tt.c.SysProcAttr = &syscall.SysProcAttr{Pdeathsig: syscall.SIGKILL}\n\n\tvar err error\n\n\tt.fd, err = pty.StartWithSize("},
					{File: "transport/system.go", Old: "\t\"os/exec\"\n", New: "\t\"os/exec\"\n\t\"syscall\"\n"}}},
			{ID: "C16-open-raced-against-timer", Desc: "Transport.Open runs the implementation in a goroutine and gives up after the socket timeout", Rule: "C16/wrapper",
				Edits: []Edit{{File: "transport/transport.go", Old: "func (t *Transport) Open() error {\n\treturn t.Impl.Open(t.Args)\n}", New: "func (t *Transport) Open() error {\n\terrChan := make(chan error, 1)\n\n\tgo func() {\n\t\terrChan <- t.Impl.Open(t.Args)\n\t}()\n\n\tselect {\n\tcase err := <-errChan:\n\t\treturn err\n\tcase <-time.After(t.Args.TimeoutSocket):\n\t\treturn util.ErrTimeoutError\n\t}\n}"}}},
			{ID: "C16-wrong-deadline-cleared", Desc: "telnet negotiation clears the write deadline instead of the read deadline it armed", Rule: "C16/deadline-cleared",
				Edits: []Edit{{File: "transport/telnet.go", Old: "cancelDeadlineErr := t.c.SetReadDeadline(time.Time{})", New: "cancelDeadlineErr := t.c.SetWriteDeadline(time.Time{})"}}},
			{ID: "C16-stderr-pipe-undrained", Desc: "standard transport takes the session's stderr pipe and never reads it", Rule: "C16/pipes-drained",
				Edits: []Edit{{File: "transport/standard.go", Old: "\treader       io.Reader\n\tExtraCiphers []string", New: "\treader       io.Reader\n\terrReader    io.Reader\n\tExtraCiphers []string"},
					{File: "transport/standard.go", Old: "\tt.reader, err = t.session.StdoutPipe()", New: "\tt.errReader, err = t.session.StderrPipe()\n\tif err != nil {\n\t\treturn err\n\t}\n\n\tt.reader, err = t.session.StdoutPipe()"}}},
			{ID: "C16-system-whole-buffer", Desc: "System.Read returns the whole buffer", Rule: "C16/read-prefix",
				Edits: []Edit{{File: "transport/system.go", Old: "\tn, err := t.fd.Read(b)\n\tif err != nil {\n\t\treturn nil, err\n\t}\n\n\treturn b[0:n], nil", New: "\t_, err := t.fd.Read(b)\n\tif err != nil {\n\t\treturn nil, err\n\t}\n\n\treturn b, nil"}}},
			{ID: "C16-standard-off-by-one", Desc: "Standard.Read drops the last byte of full reads", Rule: "C16/read-prefix",
				Edits: []Edit{{File: "transport/standard.go", Old: "\tn, err := t.reader.Read(b)\n\tif err != nil {\n\t\treturn nil, err\n\t}\n\n\treturn b[0:n], nil", New: "\tn, err := t.reader.Read(b)\n\tif err != nil {\n\t\treturn nil, err\n\t}\n\n\tif n == len(b) {\n\t\tn--\n\t}\n\n\treturn b[0:n], nil"}}},
			{ID: "C16-telnet-write-trim", Desc: "telnet Write trims trailing spaces", Rule: "C16/write-forward",
				Edits: []Edit{{File: "transport/telnet.go", Old: "\t_, err := t.c.Write(b)\n\n\treturn err\n}\n\n// GetInChannelAuthType returns the in channel auth flavor for the telnet", New: "\t_, err := t.c.Write(bytes.TrimRight(b, \" \"))\n\n\treturn err\n}\n\n// GetInChannelAuthType returns the in channel auth flavor for the telnet"},
					{File: "transport/telnet.go", Old: "import (\n\t\"fmt\"", New: "import (\n\t\"bytes\"\n\t\"fmt\""}}},
			{ID: "C16-read-size-fixed", Desc: "wrapper ignores the configured read size", Rule: "C16/wrapper",
				Edits: []Edit{{File: "transport/transport.go", Old: "\treturn t.read(t.Args.ReadSize)", New: "\treturn t.read(defaultReadSize)"}}},
			{ID: "C16-write-error-dropped", Desc: "System.Write swallows the write error", Rule: "C16/write-forward",
				Edits: []Edit{{File: "transport/system.go", Old: "\t_, err := t.fd.Write(b)\n\n\treturn err", New: "\t_, _ = t.fd.Write(b)\n\n\treturn nil"}}},
			{ID: "C16-read-unlocked", Desc: "implementation read outside the read lock", Rule: "C16/lock-shape",
				Edits: []Edit{{File: "transport/transport.go", Old: "func (t *Transport) read(n int) ([]byte, error) {\n\tt.implLock.Lock()\n\tdefer t.implLock.Unlock()\n", New: "func (t *Transport) read(n int) ([]byte, error) {\n"}}},
			{ID: "C16-factory-swap", Desc: "standard transport name builds the system transport", Rule: "C16/factory",
				Edits: []Edit{{File: "transport/factory.go", Old: "\t\t\tcase StandardTransport:\n\t\t\t\ti, err = NewStandardTransport(sshArgs)", New: "\t\t\tcase StandardTransport:\n\t\t\t\ti, err = NewSystemTransport(sshArgs)"}}},
			{ID: "C16-netconf-shell", Desc: "standard transport requests a shell for NETCONF sessions", Rule: "C16/factory",
				Edits: []Edit{{File: "transport/standard.go", Old: "\terr = t.session.RequestSubsystem(\"netconf\")\n\n\treturn err", New: "\terr = t.session.Shell()\n\n\treturn err"}}},
			{ID: "C16-close-waits-for-peer", Desc: "Standard.Close reaps the session before closing the client", Rule: "C16/close-no-wait",
				Edits: []Edit{{File: "transport/standard.go", Old: "\t\tt.session = nil\n\t}\n\n\tif t.client != nil {", New: "\t\t_ = t.session.Wait()\n\n\t\tt.session = nil\n\t}\n\n\tif t.client != nil {"}}},
			{ID: "C16-netconf-forced-tty", Desc: "the NETCONF flavour of the system transport starts ssh with -tt", Rule: "C16/no-remote-tty",
				Edits: []Edit{{File: "transport/system.go", Old: "t.OpenArgs = append(t.OpenArgs, \"-s\", \"netconf\")", New: "t.OpenArgs = append(t.OpenArgs, \"-tt\", \"-s\", \"netconf\")"}}},
			{ID: "C16-keepalive-only-without-config", Desc: "ServerAliveInterval passed only when no ssh config file is used", Rule: "C16/system-keepalive",
				Edits: []Edit{{File: "transport/system.go", Old: "\t\t\"-o\",\n\t\tfmt.Sprintf(\"ServerAliveInterval=%d\", int(a.TimeoutSocket.Seconds())),\n\t}", New: "\t}"},
					{File: "transport/system.go", Old: "\t\t\t\"-F\",\n\t\t\t\"/dev/null\",\n", New: "\t\t\t\"-F\",\n\t\t\t\"/dev/null\",\n\t\t\t\"-o\",\n\t\t\tfmt.Sprintf(\"ServerAliveInterval=%d\", int(a.TimeoutSocket.Seconds())),\n"}}},
			{ID: "C16-buffer-too-small", Desc: "telnet reads into a buffer smaller than requested", Rule: "C16/read-prefix",
				Edits: []Edit{{File: "transport/telnet.go", Old: "\tb := make([]byte, n)\n\n\tn, err := t.c.Read(b)", New: "\tb := make([]byte, n/2)\n\n\tn, err := t.c.Read(b)"}}},
		},
	})
}

func runC16(c *Ctx, r *Report) {
	r.Rule("C16/child-stored", "every command the system transport starts is stored in the transport, where Close finds the process to signal", 1)
	checkChildStored(c, r, "C16/child-stored")
	importFoundation(c, r, "C16", "eof-chain")
	importFoundation(c, r, "C16", "queue")
	importFoundation(c, r, "C16", "read-loop")
	importFoundation(c, r, "C16", "netconf-reader")
	r.Rule("C16/orderly-close", "no transport makes its Close abortive (SO_LINGER untouched): bytes accepted by Write reach the peer", 1)
	checkNoAbortiveClose(c, r, "C16/orderly-close")
	r.Rule("C16/child-lifetime", "the system transport ties the life of its ssh child to Close only (no SysProcAttr, no CommandContext)", 1)
	checkChildLifetime(c, r, "C16/child-lifetime")
	importFoundation(c, r, "C16", "telnet-negotiation")
	r.Rule("C16/deadline-cleared", "a read / write deadline a transport arms for a bounded phase is disarmed (same side, or both) on every path that reports success", 1)
	checkDeadlineCleared(c, r, "C16/deadline-cleared")
	r.Rule("C16/fd-owner", "an *os.File of the transport package is closed only by a Close method", 1)
	checkFileClosedOnlyByClose(c, r, "C16/fd-owner")
	r.Rule("C16/pipes-drained", "every crypto/ssh session pipe the standard transport takes is read / written by it", 2)
	checkSessionPipesDrained(c, r, "C16/pipes-drained")
	r.Rule("C16/read-prefix", "Read allocates the requested size, performs one underlying read into it and returns exactly buffer[0:n]", 3)
	r.Rule("C16/write-forward", "Write hands the caller's slice unchanged to the underlying writer and returns its error", 3)
	r.Rule("C16/wrapper", "the Transport wrapper forwards the configured read size, the same slice and the implementation's results", 3)
	r.Rule("C16/lock-shape", "implementation reads hold the read lock; the forced close does not; the channel's timeout edge is the forced one", 3)
	r.Rule("C16/close-no-wait", "Close of each built-in transport calls no wait-for-peer API (Wait, Read, io.Copy ...): closing is what releases a blocked read", 3)
	r.Rule("C16/read-error-delivered", "(restated from C06/propagate) the channel read loop hands every error of the transport's Read on with a blocking send (or returns it): a peer that goes away is reported to the operation in flight", 1)
	importObligationsIf(r, func(sub *Report) { runC06(c, sub) }, "C06/propagate", "C16/read-error-delivered", func(construct string) bool {
		return strings.HasPrefix(construct, "(*channel.Channel).read ")
	})
	r.Rule("C16/no-remote-tty", "the system transport starts ssh without -t / -tt / -e / RequestTTY / EscapeChar: the client never interprets the bytes of the session", 1)
	checkNoRemoteTTY(c, r, "C16/no-remote-tty")
	r.Rule("C16/system-keepalive", "every ssh argument list of the system transport passes -o ServerAliveInterval=<socket timeout>: the child's keepalive is what releases a pty read when the peer vanishes", 1)
	r.Rule("C16/factory", "each transport name constructs its own implementation; the NETCONF flag selects the subsystem and nothing else", 6)

	for _, typ := range []string{"System", "Standard", "Telnet"} {
		checkReadPrefix(c, r, typ)
		checkWriteForward(c, r, typ)
	}
	checkTransportWrapper(c, r)
	checkCloseNoWait(c, r)
	checkSystemKeepalive(c, r)
	// lock-shape: reuse the C07 analysis
	sub := NewReport("C16")
	checkCloseReachesTransport(c, sub)
	for _, o := range sub.Obs {
		construct := strings.TrimPrefix(o.Key, o.Rule+" @ ")
		if strings.HasPrefix(construct, "Transport.") || strings.HasPrefix(construct, "Channel.Close timeout") {
			r.add("C16/lock-shape", construct, o.Status, o.Pos, o.Msg, o.Path)
		}
	}
	checkTransportFactory(c, r)
}

func checkReadPrefix(c *Ctx, r *Report, typ string) {
	rule := "C16/read-prefix"
	fn := c.LookupFunc("transport", typ, "Read")
	if fn == nil || len(fn.Params) != 2 {
		r.Anchor(rule, "(*transport."+typ+").Read(n)")
		return
	}
	construct := shortFn(fn)
	// the underlying read: a call named Read with one []byte argument
	var reads []*ssa.Call
	for _, ci := range callInstrs(fn) {
		call, ok := ci.(*ssa.Call)
		if !ok {
			continue
		}
		name := ""
		if call.Call.IsInvoke() {
			name = call.Call.Method.Name()
		} else if sc := call.Call.StaticCallee(); sc != nil {
			name = sc.Name()
		}
		if name == "Read" {
			reads = append(reads, call)
		}
	}
	if len(reads) != 1 {
		r.Bad(rule, construct, c.Pos(fn.Pos()), fmt.Sprintf("%d underlying reads per Read call (exactly one expected)", len(reads)))
		return
	}
	rd := reads[0]
	buf := rd.Call.Args[len(rd.Call.Args)-1]
	var probs []string
	// buffer: make([]byte, n) with n the parameter
	if mk, ok := buf.(*ssa.MakeSlice); !ok || mk.Len != ssa.Value(fn.Params[1]) {
		probs = append(probs, "the buffer handed to the underlying read is not make([]byte, n) with n the requested size")
	}
	nRead := resultOf(rd, 0)
	// in a loop?
	for _, hb := range fn.Blocks {
		for _, p := range hb.Preds {
			if hb.Dominates(p) && loopBlocks(hb)[rd.Block()] {
				probs = append(probs, "the underlying read is inside a loop")
			}
		}
	}
	nret := 0
	allInstrs(fn, func(in ssa.Instruction) {
		ret, ok := in.(*ssa.Return)
		if !ok || len(ret.Results) != 2 {
			return
		}
		v := ret.Results[0]
		if isNilConst(v) {
			return
		}
		// telnet's buffered bytes
		if f, _, ok := fieldLoad(v); ok && f.Name() == "initialBuf" {
			return
		}
		nret++
		sl, ok := v.(*ssa.Slice)
		if !ok || sl.X != buf {
			probs = append(probs, fmt.Sprintf("the data returned at %s is not a slice of the buffer that was read into", c.Pos(ret.Pos())))
			return
		}
		if sl.Low != nil {
			if k, ok := constInt(sl.Low); !ok || k != 0 {
				probs = append(probs, "the returned slice does not start at 0")
			}
		}
		if sl.High == nil || nRead == nil || sl.High != nRead {
			probs = append(probs, fmt.Sprintf("the returned slice at %s does not end at the byte count reported by the underlying read: bytes are dropped or uninitialised bytes delivered", c.Pos(ret.Pos())))
		}
	})
	if nret == 0 {
		probs = append(probs, "Read never returns the bytes it read")
	}
	if len(probs) == 0 {
		r.OK(rule, construct, c.Pos(fn.Pos()), "returns buffer[0:n] of one underlying read")
	} else {
		r.Bad(rule, construct, c.Pos(fn.Pos()), strings.Join(probs, "; "))
	}
}

func checkWriteForward(c *Ctx, r *Report, typ string) {
	rule := "C16/write-forward"
	fn := c.LookupFunc("transport", typ, "Write")
	if fn == nil || len(fn.Params) != 2 {
		r.Anchor(rule, "(*transport."+typ+").Write(b)")
		return
	}
	construct := shortFn(fn)
	var writes []*ssa.Call
	for _, ci := range callInstrs(fn) {
		call, ok := ci.(*ssa.Call)
		if !ok {
			continue
		}
		name := ""
		if call.Call.IsInvoke() {
			name = call.Call.Method.Name()
		} else if sc := call.Call.StaticCallee(); sc != nil {
			name = sc.Name()
		}
		if name == "Write" {
			writes = append(writes, call)
		}
	}
	if len(writes) != 1 {
		r.Bad(rule, construct, c.Pos(fn.Pos()), fmt.Sprintf("%d underlying writes per Write call (exactly one expected)", len(writes)))
		return
	}
	w := writes[0]
	var probs []string
	if w.Call.Args[len(w.Call.Args)-1] != ssa.Value(fn.Params[1]) {
		probs = append(probs, "the bytes handed to the underlying writer are not the caller's slice unchanged")
	}
	errv := resultOf(w, 1)
	allInstrs(fn, func(in ssa.Instruction) {
		if ret, ok := in.(*ssa.Return); ok && len(ret.Results) == 1 {
			if errv == nil || ret.Results[0] != errv {
				probs = append(probs, "Write does not return the underlying writer's error")
			}
		}
	})
	if len(probs) == 0 {
		r.OK(rule, construct, c.Pos(fn.Pos()), "forwards b, returns the writer's error")
	} else {
		r.Bad(rule, construct, c.Pos(fn.Pos()), strings.Join(probs, "; "))
	}
}

func checkTransportWrapper(c *Ctx, r *Report) {
	rule := "C16/wrapper"
	read := c.LookupFunc("transport", "Transport", "read")
	Read := c.LookupFunc("transport", "Transport", "Read")
	ReadN := c.LookupFunc("transport", "Transport", "ReadN")
	Write := c.LookupFunc("transport", "Transport", "Write")
	sizeF := c.LookupField("transport", "Args", "ReadSize")
	if Read == nil || ReadN == nil || Write == nil || sizeF == nil {
		r.Anchor(rule, "(*transport.Transport).Read/ReadN/Write / Args.ReadSize")
		return
	}
	// Read -> read(Args.ReadSize), result forwarded
	forwards := func(fn *ssa.Function, call ssa.Instruction) bool {
		ok := true
		allInstrs(fn, func(in ssa.Instruction) {
			if ret, isRet := in.(*ssa.Return); isRet {
				if len(in.Block().Preds) == 0 && in.Block() != fn.Blocks[0] {
					return // recover block of a function with defers
				}
				cv, _ := call.(*ssa.Call)
				for i, rv := range ret.Results {
					want := resultOf(cv, i)
					if len(ret.Results) == 1 {
						want = cv
					}
					got := rv
					if u, isU := rv.(*ssa.UnOp); isU { // defer-spilled
						if a, isA := u.X.(*ssa.Alloc); isA {
							if v := lastStoreBefore(a, u); v != nil {
								got = v
							}
						}
					}
					if got != want {
						ok = false
					}
				}
			}
		})
		return ok
	}
	// the size handed to the implementation by fn: through the shared helper, or by invoking Impl.Read itself
	sizeGiven := func(fn *ssa.Function) (ssa.Value, ssa.Instruction, int) {
		var size ssa.Value
		var at ssa.Instruction
		n := 0
		for _, ci := range callInstrs(fn) {
			switch {
			case read != nil && ci.Common().StaticCallee() == read:
				size, at = ci.Common().Args[1], ci
				n++
			case ci.Common().IsInvoke() && ci.Common().Method.Name() == "Read" && len(ci.Common().Args) == 1:
				size, at = ci.Common().Args[0], ci
				n++
			}
		}
		return size, at, n
	}
	if size, at, n := sizeGiven(Read); n == 1 {
		r.Check(isFieldLoadOf(size, sizeF) && forwards(Read, at), rule, "Transport.Read", c.Pos(Read.Pos()), "read(Args.ReadSize), results forwarded",
			"Transport.Read does not read the configured read size or alters the result")
	} else {
		r.Bad(rule, "Transport.Read", c.Pos(Read.Pos()), "Transport.Read does not delegate to read exactly once")
	}
	if size, at, n := sizeGiven(ReadN); n == 1 {
		r.Check(size == ssa.Value(ReadN.Params[1]) && forwards(ReadN, at), rule, "Transport.ReadN", c.Pos(ReadN.Pos()), "read(n), results forwarded", "Transport.ReadN does not read n bytes or alters the result")
	} else {
		r.Bad(rule, "Transport.ReadN", c.Pos(ReadN.Pos()), "Transport.ReadN does not delegate to read exactly once")
	}
	// read -> Impl.Read(n)
	if read != nil {
		okRead := false
		for _, ci := range callInstrs(read) {
			if ci.Common().IsInvoke() && ci.Common().Method.Name() == "Read" {
				okRead = ci.Common().Args[0] == ssa.Value(read.Params[1]) && forwards(read, ci)
			}
		}
		r.Check(okRead, rule, "Transport.read", c.Pos(read.Pos()), "Impl.Read(n), results forwarded", "Transport.read does not forward the size to the implementation or alters what it returns")
	}
	okWrite := false
	for _, ci := range callInstrs(Write) {
		if ci.Common().IsInvoke() && ci.Common().Method.Name() == "Write" {
			okWrite = ci.Common().Args[0] == ssa.Value(Write.Params[1]) && forwards(Write, ci)
		}
	}
	r.Check(okWrite, rule, "Transport.Write", c.Pos(Write.Pos()), "Impl.Write(b), error forwarded", "Transport.Write does not hand the caller's bytes unchanged to the implementation or drops its error")
	// Open: the implementation is opened once, on the caller's goroutine, and its verdict is the wrapper's verdict
	if Open := c.LookupFunc("transport", "Transport", "Open"); Open == nil {
		r.Anchor(rule, "(*transport.Transport).Open")
	} else {
		n := 0
		okOpen := false
		for _, g := range append([]*ssa.Function{Open}, AnonFuncsDeep(Open)...) {
			for _, ci := range callInstrs(g) {
				if ci.Common().IsInvoke() && ci.Common().Method.Name() == "Open" {
					n++
					okOpen = g == Open && forwards(Open, ci)
				}
			}
		}
		r.Check(n == 1 && okOpen, rule, "Transport.Open", c.Pos(Open.Pos()), "Impl.Open(Args) once, error forwarded", "Transport.Open does not simply open the implementation and hand on its verdict: an opening that the implementation would complete (a telnet negotiation bounded per gap, a slow key exchange) is reported as failed while the abandoned attempt keeps reading and answering on a connection nobody owns")
	}
	// no wrapper method moves an implementation call to another goroutine
	for _, m := range exportedMethodsOf(c, "transport", "Transport") {
		for _, g := range append([]*ssa.Function{m}, AnonFuncsDeep(m)...) {
			allInstrs(g, func(in ssa.Instruction) {
				if _, isGo := in.(*ssa.Go); isGo {
					r.Bad(rule, "Transport."+m.Name()+" is synchronous", c.Pos(in.Pos()), "the transport wrapper starts a goroutine: an implementation call that outlives the wrapper call keeps using the connection after the caller was told the outcome")
				}
			})
		}
	}
}

func checkTransportFactory(c *Ctx, r *Report) {
	rule := "C16/factory"
	fn := c.LookupFunc("transport", "", "NewTransport")
	if fn == nil || len(fn.Params) < 3 {
		r.Anchor(rule, "transport.NewTransport")
		return
	}
	typeParam := fn.Params[2]
	want := map[string]string{"NewSystemTransport": "system", "NewStandardTransport": "standard", "NewTelnetTransport": "telnet", "NewFileTransport": "file"}
	seen := map[string]bool{}
	// the selection may live in NewTransport or in a helper of the package that is handed the transport type
	type site struct {
		ci  ssa.CallInstruction
		typ ssa.Value
	}
	var sites []site
	var collect func(f *ssa.Function, typ ssa.Value, depth int)
	collect = func(f *ssa.Function, typ ssa.Value, depth int) {
		for _, ci := range callInstrs(f) {
			sites = append(sites, site{ci, typ})
			h := ci.Common().StaticCallee()
			if depth <= 0 || h == nil || h.Pkg != fn.Pkg || len(h.Blocks) == 0 || h.Object() == nil || h.Object().Exported() {
				continue
			}
			for ai, a := range ci.Common().Args {
				if a == typ && ai < len(h.Params) {
					collect(h, h.Params[ai], depth-1)
				}
			}
		}
	}
	collect(fn, typeParam, 2)
	for _, st := range sites {
		ci, typeParam := st.ci, st.typ
		sc := ci.Common().StaticCallee()
		if sc == nil {
			continue
		}
		name, ok := want[sc.Name()]
		if !ok {
			continue
		}
		seen[sc.Name()] = true
		guard := false
		other := ""
		for _, ec := range edgeConds(ci.Block()) {
			bo, isBo := ec.Cond.(*ssa.BinOp)
			if !isBo || bo.Op != token.EQL || !ec.Truth || bo.X != typeParam {
				continue
			}
			if s, isS := constString(bo.Y); isS {
				if s == name {
					guard = true
				} else {
					// nested switches also carry the outer case list (system/standard share one)
					if !(name == "system" && s == "standard") && !(name == "standard" && s == "system") {
						other = s
					}
				}
			}
		}
		if !(guard && other == "") {
			// nested selections (a shared case for two names, then an if/else between them): the set of type names that can
			// reach the constructor call, by forward propagation over the comparisons of the type with constants
			if vals := possibleStringsAt(ci.Parent(), typeParam, ci.Block(), []string{"system", "standard", "telnet", "file", "\x00other"}); len(vals) == 1 && vals[0] == name {
				guard, other = true, ""
			}
		}
		if !(guard && other == "") {
			// ... or by the decision table
			// of the enclosing function over the transport-type parameter
			if tp, isParam := typeParam.(*ssa.Parameter); isParam {
				host := ci.Parent()
				key := "param:" + tp.Name()
				paths := EnumeratePaths(c, host, &dtConfig{IsAtomCall: func(call *ssa.Call) bool { return false }})
				okAll, n := len(paths) > 0, 0
				for _, p := range paths {
					if p.Undecided != "" {
						okAll = false
						break
					}
					for _, e := range p.Effects {
						if e.Kind == "call" && e.Instr == ssa.Instruction(ci.(*ssa.Call)) {
							n++
							if p.Assume[key] != `="`+name+`"` {
								okAll = false
							}
						}
					}
				}
				if okAll && n > 0 {
					guard, other = true, ""
				}
			}
		}
		r.Check(guard && other == "", rule, "NewTransport -> "+sc.Name(), c.Pos(ci.Pos()), "constructed for transport type "+name,
			fmt.Sprintf("%s is not constructed exactly for transport type %q (other guard: %q): a transport name yields the wrong implementation", sc.Name(), name, other))
	}
	for k := range want {
		if !seen[k] {
			r.Bad(rule, "NewTransport -> "+k, c.Pos(fn.Pos()), "NewTransport never constructs "+k)
		}
	}
	// NETCONF flag: Standard.Open / System.Open
	for _, typ := range []string{"Standard", "System"} {
		open := c.LookupFunc("transport", typ, "Open")
		nc := c.LookupFunc("transport", typ, "openNetconf")
		sh := c.LookupFunc("transport", typ, "open")
		if open == nil || nc == nil || sh == nil {
			r.Anchor(rule, "(*transport."+typ+").Open/open/openNetconf")
			continue
		}
		isFlag := func(truth bool) func(ssa.Value, bool) bool {
			return func(v ssa.Value, t bool) bool {
				f, _, ok := fieldLoad(v)
				return ok && f.Name() == "NetconfConnection" && t == truth
			}
		}
		okNC, okSh := false, false
		for _, ci := range staticCallsTo(open, nc) {
			okNC = guardedBy(ci, isFlag(true))
		}
		for _, ci := range staticCallsTo(open, sh) {
			okSh = guardedBy(ci, isFlag(false))
			if !okSh {
				// plain fallthrough after `if flag { return openNetconf }`
				okSh = true
				for _, ec := range edgeConds(ci.Block()) {
					if f, _, ok := fieldLoad(ec.Cond); ok && f.Name() == "NetconfConnection" && ec.Truth {
						okSh = false
					}
				}
			}
		}
		r.Check(okNC && okSh, rule, typ+".Open selects by the NETCONF flag", c.Pos(open.Pos()), "flag -> openNetconf, else open",
			typ+".Open does not select the NETCONF subsystem exactly when the NETCONF flag is set")
		// what openNetconf requests
		marker := false
		for _, ci := range callInstrs(nc) {
			if call, ok := ci.(*ssa.Call); ok {
				if o := CalleeObj(call); o != nil && o.Name() == "RequestSubsystem" {
					if s, ok := constString(call.Call.Args[len(call.Call.Args)-1]); ok && s == "netconf" {
						marker = true
					}
				}
			}
		}
		allInstrs(nc, func(in ssa.Instruction) {
			if st, ok := in.(*ssa.Store); ok {
				if s, ok := constString(st.Val); ok && s == "netconf" {
					marker = true
				}
			}
		})
		shellInNC := false
		for _, ci := range callInstrs(nc) {
			if o := CalleeObj(ci); o != nil && (o.Name() == "Shell" || o.Name() == "RequestPty") {
				shellInNC = true
			}
		}
		r.Check(marker && !shellInNC, rule, typ+".openNetconf requests the netconf subsystem", c.Pos(nc.Pos()), "subsystem 'netconf'",
			typ+".openNetconf does not request the 'netconf' subsystem (or requests a shell/pty): a NETCONF session is not a transparent pipe to the NETCONF server")
	}
	_ = types.Typ
}

// possibleStringsAt: which values of the universe the string v can have on entry to block at, given the branches on
// `v == constant` between the function's entry and that block (forward propagation to a fixpoint; other conditions
// do not restrict).
func possibleStringsAt(fn *ssa.Function, v ssa.Value, at *ssa.BasicBlock, universe []string) []string {
	type set map[string]bool
	all := set{}
	for _, u := range universe {
		all[u] = true
	}
	poss := map[*ssa.BasicBlock]set{}
	if len(fn.Blocks) == 0 {
		return nil
	}
	poss[fn.Blocks[0]] = all
	edge := func(p *ssa.BasicBlock, si int) set {
		in := poss[p]
		if in == nil {
			return nil
		}
		out := set{}
		for k := range in {
			out[k] = true
		}
		cond := ifCond(p)
		cv, neg := unwrapNot(cond)
		bo, ok := cv.(*ssa.BinOp)
		if cond == nil || !ok || (bo.Op != token.EQL && bo.Op != token.NEQ) {
			return out
		}
		var k string
		if bo.X == v {
			k, ok = constString(bo.Y)
		} else if bo.Y == v {
			k, ok = constString(bo.X)
		} else {
			return out
		}
		if !ok {
			return out
		}
		equalOnThisEdge := (si == 0) == (bo.Op == token.EQL)
		if neg {
			equalOnThisEdge = !equalOnThisEdge
		}
		if equalOnThisEdge {
			for u := range out {
				if u != k {
					delete(out, u)
				}
			}
		} else {
			delete(out, k)
		}
		return out
	}
	for iter := 0; iter < 50; iter++ {
		changed := false
		for _, b := range fn.Blocks {
			for si, s := range b.Succs {
				e := edge(b, si)
				if e == nil {
					continue
				}
				if poss[s] == nil {
					poss[s] = set{}
				}
				for k := range e {
					if !poss[s][k] {
						poss[s][k] = true
						changed = true
					}
				}
			}
		}
		if !changed {
			break
		}
	}
	var out []string
	for k := range poss[at] {
		out = append(out, k)
	}
	sort.Strings(out)
	return out
}
