package main

// Error-class table: which sentinel (util.ErrXxx) each failure site of the library wraps. Callers classify failures
// with errors.Is, so the class IS the behaviour: a changed sentinel is a changed result for every input that reaches
// the site. The table below is specification data (property text: "a timeout error", "an authentication error",
// "a connection error", "a privilege error", "a NETCONF error", ...), confirmed against each site's message.

import (
	"fmt"
	"sort"
	"strings"

	"golang.org/x/tools/go/ssa"
)

type errClassSpec struct {
	Pkg, Recv, Name string
	Want            []string // sentinels wrapped / returned in the function and its closures, sorted
}

var errClassTable = map[string][]errClassSpec{
	"C05": {
		{"channel", "Channel", "SendInputB", []string{"ErrTimeoutError"}},
		{"channel", "Channel", "SendInteractive", []string{"ErrTimeoutError"}},
		{"channel", "Channel", "GetPrompt", []string{"ErrTimeoutError"}},
		{"channel", "Channel", "AuthenticateSSH", []string{"ErrTimeoutError"}},
		{"channel", "Channel", "AuthenticateTelnet", []string{"ErrTimeoutError"}},
		{"driver/generic", "Driver", "handleCallbacks", []string{"ErrTimeoutError", "ErrTimeoutError"}},
		{"driver/netconf", "Driver", "sendRPC", []string{"ErrTimeoutError"}},
		{"driver/netconf", "Driver", "getServerCapabilities", []string{"ErrTimeoutError"}},
		{"driver/network", "Driver", "SendCommand", []string{"ErrPrivilegeError"}},
		{"driver/network", "Driver", "SendCommands", []string{"ErrPrivilegeError"}},
		{"driver/network", "Driver", "SendCommandsFromFile", []string{"ErrPrivilegeError"}},
	},
	"C10": {
		{"channel", "Channel", "authenticateSSH", []string{"ErrAuthError", "ErrAuthError"}},
		{"channel", "Channel", "authenticateTelnet", []string{"ErrAuthError", "ErrAuthError"}},
		{"channel", "Channel", "sshMessageHandler", []string{"ErrConnectionError"}},
		{"channel", "Channel", "AuthenticateSSH", []string{"ErrTimeoutError"}},
		{"channel", "Channel", "AuthenticateTelnet", []string{"ErrTimeoutError"}},
	},
	"C04": {
		{"driver/network", "Driver", "determineCurrentPriv", []string{"ErrPrivilegeError"}},
		{"driver/network", "Driver", "AcquirePriv", []string{"ErrPrivilegeError", "ErrPrivilegeError"}},
	},
	"C09": {
		{"driver/netconf", "Driver", "processServerCapabilities", []string{"ErrNetconfError", "ErrNetconfError"}},
		{"driver/netconf", "Driver", "determineVersion", []string{"ErrNetconfError", "ErrNetconfError", "ErrNetconfError"}},
		{"driver/netconf", "Driver", "getServerCapabilities", []string{"ErrTimeoutError"}},
	},
	"C18": {
		{"driver/generic", "Driver", "executeCallback", []string{"ErrOperationError"}},
		{"driver/generic", "Driver", "handleCallbacks", []string{"ErrTimeoutError", "ErrTimeoutError"}},
	},
	"C06": {
		{"channel", "Channel", "Read", []string{"ErrConnectionError"}},
		{"channel", "Channel", "sshMessageHandler", []string{"ErrConnectionError"}},
	},
	"C17": {
		{"platform", "", "NewPlatformVariant", []string{"ErrPlatformError"}},
		{"platform", "Platform", "GetGenericDriver", []string{"ErrPlatformError"}},
		{"platform", "Platform", "GetNetworkDriver", []string{"ErrPlatformError"}},
	},
	"C03": {
		{"driver/netconf", "Driver", "buildDefaultsElem", []string{"ErrNetconfError"}},
	},
}

// sentinelsOf lists the sentinels fn (and its closures) wraps with %w or returns directly.
func sentinelsOf(fn *ssa.Function) []string {
	out := sentinelsOfRec(fn, 0, map[*ssa.Function]bool{})
	sort.Strings(out)
	return out
}

func sentinelsOfRec(fn *ssa.Function, depth int, onStack map[*ssa.Function]bool) []string {
	var out []string
	onStack[fn] = true
	defer delete(onStack, fn)
	for _, f := range append([]*ssa.Function{fn}, AnonFuncsDeep(fn)...) {
		allInstrs(f, func(in ssa.Instruction) {
			switch x := in.(type) {
			case *ssa.Call:
				if g := errorfWraps(x); g != nil {
					out = append(out, g.Name())
				}
				// an unexported helper of the same package that a failing block was moved into: its classes are the caller's
				if sc := x.Call.StaticCallee(); sc != nil && !onStack[sc] && depth < 2 && sc.Pkg == fn.Pkg && sc.Parent() == nil && sc.Object() != nil && !sc.Object().Exported() && len(sc.Blocks) > 2 {
					out = append(out, sentinelsOfRec(sc, depth+1, onStack)...)
				}
				// a helper of the library that only builds an error
				if sc := x.Call.StaticCallee(); sc != nil && sc != fn {
					out = append(out, errorBuilderSentinels(sc, 0)...)
				}
			case *ssa.Return:
				for _, rv := range x.Results {
					if u, ok := rv.(*ssa.UnOp); ok {
						if g, ok := u.X.(*ssa.Global); ok && isErrorType(rv.Type()) && strings.HasPrefix(g.Name(), "Err") {
							out = append(out, g.Name())
						}
					}
				}
			}
		})
	}
	return out
}

func checkErrorClasses(c *Ctx, r *Report, prop string) {
	rule := prop + "/error-classes"
	for _, sp := range errClassTable[prop] {
		fn := c.LookupFunc(sp.Pkg, sp.Recv, sp.Name)
		name := sp.Pkg + "." + sp.Name
		if sp.Recv != "" {
			name = sp.Pkg + "." + sp.Recv + "." + sp.Name
		}
		if fn == nil {
			// an unexported function may be renamed or inlined by a refactor: not decided for it, said so
			if sp.Name[0] >= 'a' && sp.Name[0] <= 'z' {
				r.Notes = append(r.Notes, rule+": "+name+" not found (renamed or inlined); its error classes are not checked")
				continue
			}
			r.Anchor(rule, name)
			continue
		}
		got := sentinelsOf(fn)
		construct := "error classes of " + name
		// every specified class must still be produced; a class that is not in the specification must not replace it
		missing := diffMulti(sp.Want, got)
		extra := diffMulti(got, sp.Want)
		switch {
		case len(missing) > 0 && len(extra) > 0:
			r.Bad(rule, construct, c.Pos(fn.Pos()), fmt.Sprintf("a failure of this function is reported as %v where the specification says %v: callers that classify the failure with errors.Is (retry on timeout, re-authenticate on auth error, ...) take the wrong branch", extra, missing))
		case len(missing) > 0:
			r.Bad(rule, construct, c.Pos(fn.Pos()), fmt.Sprintf("the function no longer reports any failure as %v (classes produced: %v)", missing, got))
		default:
			if len(extra) > 0 {
				r.Notes = append(r.Notes, fmt.Sprintf("%s: %s additionally produces %v", rule, name, extra))
			}
			r.OK(rule, construct, c.Pos(fn.Pos()), strings.Join(sp.Want, ", "))
		}
	}
}

// diffMulti: elements of a (with multiplicity) that are not matched in b.
func diffMulti(a, b []string) []string {
	cnt := map[string]int{}
	for _, x := range b {
		cnt[x]++
	}
	var out []string
	for _, x := range a {
		if cnt[x] > 0 {
			cnt[x]--
		} else {
			out = append(out, x)
		}
	}
	return out
}

// errorBuilderSentinels: sc is a small library helper that only builds an error (or a result object carrying one),
// possibly through another such helper: the sentinels it wraps.
func errorBuilderSentinels(sc *ssa.Function, depth int) []string {
	if depth > 2 || sc.Pkg == nil || !isLibPkgPath(sc.Pkg.Pkg.Path()) || sc.Blocks == nil || len(sc.Blocks) > 2 {
		return nil
	}
	res := sc.Signature.Results()
	if res.Len() != 1 || !(isErrorType(res.At(0).Type()) || resultTypeHasErrorField(res.At(0).Type())) {
		return nil
	}
	var out []string
	allInstrs(sc, func(in ssa.Instruction) {
		c2, ok := in.(*ssa.Call)
		if !ok {
			return
		}
		if g := errorfWraps(c2); g != nil {
			out = append(out, g.Name())
			return
		}
		if h := c2.Call.StaticCallee(); h != nil && h != sc {
			out = append(out, errorBuilderSentinels(h, depth+1)...)
		}
	})
	return out
}
