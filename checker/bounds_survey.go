package main

import (
	"fmt"
	"os"
)

func init() {
	debugHooks = append(debugHooks, func(c *Ctx) {
		if os.Getenv("SC_BOUNDS_SURVEY") == "" {
			return
		}
		tot, ok := 0, 0
		for _, fn := range c.LibFns {
			for _, ob := range boundsObligations(c, fn) {
				tot++
				if ob.OK {
					ok++
				} else {
					fmt.Printf("UNPROVED %s %s: %s (goal %s)\n", c.Pos(ob.Instr.Pos()), shortFn(fn), ob.What, ob.Goal.String())
				}
			}
		}
		fmt.Printf("bounds survey: %d obligations, %d proved\n", tot, ok)
	})
}
