package main

// C06 — connection loss surfaces as an error, never as a hang or a truncated success.

import (
	"fmt"
	"go/token"
	"go/types"

	"golang.org/x/tools/go/ssa"
)

func init() {
	register(&Property{
		ID:  "C06",
		Run: runC06,
		Explanation: "Error discipline over every call site of an I/O-capable library function (a function with an error result from which a transport read/write or the channel's queue read is reachable in the call graph; calls through function values resolved by VTA): the error result must surface — be returned (possibly wrapped or replaced by another non-nil error), be sent on a channel, or be stored in a result object that is returned/sent — and on the failing edge the operation must neither retry the same call nor carry on with further I/O nor return success. " +
			"Reader rules: the channel read loop returns on end-of-stream; its deferred function sets the exited flag on every exit; Channel.Read tests the error channel and the exited flag before dequeuing, so every later operation fails; the NETCONF reader forwards channel errors on its error channel and sendRPC waits on that channel. " +
			"Holds for every loss point and loss kind because call sites, not executions, are enumerated. NOT decided: promptness in wall-clock terms; nil-pointer panics inside a transport implementation after loss.",
		Assumptions: []string{"a failing transport reports through its error result", "user callbacks/OnOpen functions are outside the library"},
		Mutants: []Mutant{
			{ID: "C06-operation-closes-channel", Desc: "generic sendCommand closes the channel itself when it sees a connection error", Rule: "C06/close-callers",
				Edits: []Edit{{File: "driver/generic/sendcommand.go", Old: "\tb, err := d.Channel.SendInput(command, opts...)\n\tif err != nil {\n", New: "\tb, err := d.Channel.SendInput(command, opts...)\n\tif err != nil {\n\t\t_ = d.Channel.Close()\n\n"}}},
			{ID: "C06-standard-reads-own-pipe", Desc: "the standard transport reads the session's output through an io.Pipe of its own, which nobody closes", Rule: "C06/pipe-writer-closed",
				Edits: []Edit{{File: "transport/standard.go", Old: "\tt.reader, err = t.session.StdoutPipe()\n\tif err != nil {\n\t\ta.l.Criticalf(\"error spawning crypto/ssh session stdout pipe, error: %s\", err)\n\n\t\treturn err\n\t}\n", New: "\tpr, pw := io.Pipe()\n\n\tt.session.Stdout = pw\n\tt.session.Stderr = pw\n\tt.reader = pr\n"}}},
			{ID: "C06-login-reads-all", Desc: "the ssh login loop drains the queue with ReadAll (which does not see the reader's exit)", Rule: "C06/no-blind-consumer",
				Edits: []Edit{{File: "channel/auth.go", Old: "\t\tnb, err := c.Read()\n", New: "\t\tnb, err := c.ReadAll()\n"}}},
			{ID: "C06-telnet-conn-nil", Desc: "telnet Open resets its connection to nil after a failed negotiation", Rule: "C06/conn-never-nil",
				Edits: []Edit{{File: "transport/telnet.go", Old: "\terr = t.handleControlChars(a)\n\tif err != nil {\n\t\treturn err\n\t}", New: "\terr = t.handleControlChars(a)\n\tif err != nil {\n\t\t_ = t.c.Close()\n\t\tt.c = nil\n\n\t\treturn err\n\t}"}}},
			{ID: "C06-hello-read-retried-blindly", Desc: "the hello read is retried in a loop that never looks at its error", Rule: "C06/loop-error-examined",
				Edits: []Edit{{File: "driver/netconf/capabilities.go", Old: "\t\tb, err := d.Channel.ReadUntilPrompt(ctx)\n", New: "\t\tvar b []byte\n\n\t\tvar err error\n\n\t\tfor len(b) == 0 && ctx.Err() == nil {\n\t\t\tb, err = d.Channel.ReadUntilPrompt(ctx)\n\t\t}\n"}}},
			{ID: "C06-netconf-reader-gives-up", Desc: "NETCONF reader returns after handing one channel error over", Rule: "C06/netconf-forward",
				Edits: []Edit{{File: "driver/netconf/read.go", Old: "\t\t\td.errs <- err\n\t\t}", New: "\t\t\tselect {\n\t\t\tcase d.errs <- err:\n\t\t\tcase <-d.done:\n\t\t\t}\n\n\t\t\treturn\n\t\t}"}}},
			{ID: "C06-timeout-errors-swallowed", Desc: "Transport.read turns read errors that look like timeouts into empty reads (function with a deferred unlock)", Rule: "C06/propagate",
				Edits: []Edit{{File: "transport/transport.go", Old: "\tdefer t.implLock.Unlock()\n\n\treturn t.Impl.Read(n)", New: "\tdefer t.implLock.Unlock()\n\n\tb, err := t.Impl.Read(n)\n\tif err != nil {\n\t\tif errors.Is(err, ErrTimeoutLike) {\n\t\t\treturn nil, nil\n\t\t}\n\n\t\treturn nil, err\n\t}\n\n\treturn b, nil"},
					{File: "transport/transport.go", Old: "func (t *Transport) read(n int) ([]byte, error) {", New: "// ErrTimeoutLike marks errors treated as an empty read.\nvar ErrTimeoutLike = errors.New(\"timeout\")\n\nfunc (t *Transport) read(n int) ([]byte, error) {"}}},
			{ID: "C06-retry-on-error", Desc: "ReadUntilAnyPrompt sleeps and retries on a read error", Rule: "C06/propagate",
				Edits: []Edit{{File: "channel/read.go", Old: "\t\tnb, err := c.Read()\n\t\tif err != nil {\n\t\t\treturn nil, err\n\t\t}\n\n\t\tif nb == nil {\n\t\t\ttime.Sleep(c.ReadDelay)\n\n\t\t\tcontinue\n\t\t}\n\n\t\trb = append(rb, nb...)\n\n\t\tprb := processReadBuf(rb, c.PromptSearchDepth)", New: "\t\tnb, err := c.Read()\n\t\tif err != nil {\n\t\t\ttime.Sleep(c.ReadDelay)\n\n\t\t\tcontinue\n\t\t}\n\n\t\tif nb == nil {\n\t\t\ttime.Sleep(c.ReadDelay)\n\n\t\t\tcontinue\n\t\t}\n\n\t\trb = append(rb, nb...)\n\n\t\tprb := processReadBuf(rb, c.PromptSearchDepth)"}}},
			{ID: "C06-netconf-drops-error", Desc: "NETCONF reader drops the channel error", Rule: "C06/propagate",
				Edits: []Edit{{File: "driver/netconf/read.go", Old: "\t\tif err != nil {\n\t\t\td.errs <- err\n\t\t}\n", New: "\t\tif err != nil {\n\t\t\td.Logger.Debugf(\"read error %s\", err)\n\t\t}\n"}}},
			{ID: "C06-write-error-ignored", Desc: "SendInput ignores a failed write of the return", Rule: "C06/propagate",
				Edits: []Edit{{File: "channel/sendinput.go", Old: "\t\terr = c.WriteReturn()\n\t\tif err != nil {\n\t\t\tcr <- &result{b: b, err: err}\n\n\t\t\treturn\n\t\t}\n", New: "\t\t_ = c.WriteReturn()\n"}}},
			{ID: "C06-eof-keeps-reading", Desc: "reader spins on end-of-stream instead of exiting", Rule: "C06/reader",
				Edits: []Edit{{File: "channel/read.go", Old: "\t\t\tif errors.Is(err, io.EOF) {", New: "\t\t\tif errors.Is(err, io.EOF) && c.ChannelLog != nil {"}}},
			{ID: "C06-flag-not-set", Desc: "exited flag only set on the done path", Rule: "C06/reader",
				Edits: []Edit{{File: "channel/read.go", Old: "\tdefer func() {\n\t\tc.readLoopExited = true\n\t}()\n\n\tfor {\n\t\tselect {\n\t\tcase <-c.done:\n\t\t\treturn", New: "\tfor {\n\t\tselect {\n\t\tcase <-c.done:\n\t\t\tc.readLoopExited = true\n\n\t\t\treturn"}}},
			{ID: "C06-read-ignores-flag", Desc: "Channel.Read dequeues before looking at the exited flag", Rule: "C06/reader",
				Edits: []Edit{{File: "channel/read.go", Old: "\tif c.readLoopExited {\n\t\treturn nil, util.ErrConnectionError\n\t}\n\n\tb := c.Q.Dequeue()\n\n\tif b == nil {\n\t\treturn nil, nil\n\t}", New: "\tb := c.Q.Dequeue()\n\n\tif b == nil {\n\t\tif c.readLoopExited {\n\t\t\treturn nil, util.ErrConnectionError\n\t\t}\n\n\t\treturn nil, nil\n\t}"}}},
			{ID: "C06-rpc-ignores-errs", Desc: "sendRPC no longer waits on the error channel", Rule: "C06/netconf-forward",
				Edits: []Edit{{File: "driver/netconf/rpc.go", Old: "\tcase err = <-d.errs:\n\t\treturn nil, err\n", New: ""}}},
			{ID: "C06-partial-success", Desc: "interactive send returns what it has when a read fails", Rule: "C06/propagate",
				Edits: []Edit{{File: "channel/sendinteractive.go", Old: "\t\tpb, err = c.ReadUntilAnyPrompt(ctx, prompts)\n\t\tif err != nil {\n\t\t\tcr <- &result{b: nil, err: err}\n\n\t\t\treturn\n\t\t}", New: "\t\tpb, err = c.ReadUntilAnyPrompt(ctx, prompts)\n\t\tif err != nil {\n\t\t\tbreak\n\t\t}"}}},
			{ID: "C06-acquire-swallow", Desc: "AcquirePriv ignores a failed escalation step", Rule: "C06/propagate",
				Edits: []Edit{{File: "driver/network/acquirepriv.go", Old: "\t\tif err != nil {\n\t\t\treturn err\n\t\t}\n\n\t\tcount++", New: "\t\tif err != nil {\n\t\t\td.Logger.Debugf(\"privilege step failed: %s\", err)\n\t\t}\n\n\t\tcount++"}}},
		},
	})
}

func runC06(c *Ctx, r *Report) {
	importFoundation(c, r, "C06", "lock-paired")
	r.Rule("C06/no-blind-consumer", "no library loop waits for device output through a queue read that does not observe the reader's exit", 1)
	checkNoBlindConsumer(c, r, "C06/no-blind-consumer")
	r.Rule("C06/waits-poll", "between two polls of Channel.Read the read-until loops only sleep (a transport error held out by the reader is taken within one read delay)", 4)
	checkReadUntilWaitsPoll(c, r, "C06/waits-poll")
	r.Rule("C06/patterns-compile", "every constant pattern the library compiles lazily is a valid expression (no panic on the first input that needs it)", 1)
	checkPatternsCompile(c, r, "C06/patterns-compile", nil)
	r.Rule("C06/repeat-guarded", "no strings.Repeat count is a difference that can go negative (the reader formats log lines before it hands an error on)", 1)
	checkRepeatCountGuarded(c, r, "C06/repeat-guarded")
	importFoundation(c, r, "C06", "callbacks")
	importFoundation(c, r, "C06", "read-loop")
	importFoundation(c, r, "C06", "chunk-decoder")
	importFoundation(c, r, "C06", "open-cleanup")
	r.Rule("C06/close-callers", "Channel.Close is called by Open (failure path) and Close methods only: no operation closes the channel behind the caller's back", 4)
	checkCloseCallers(c, r, "C06/close-callers")
	r.Rule("C06/pipe-writer-closed", "no transport reads device output from an in-process pipe whose write end nobody closes (the end of the stream must reach the reader)", 1)
	checkPipeWriterClosed(c, r, "C06/pipe-writer-closed")
	r.Rule("C06/conn-never-nil", "a connection handle of interface type that a transport invokes without a nil test is never reset to nil (a nil store makes the next Close / Write / Read panic instead of failing)", 1)
	checkConnNeverNil(c, r, "C06/conn-never-nil")
	r.Rule("C06/loop-error-examined", "a connection operation repeated in a loop has its error examined before the loop calls it again", 4)
	checkLoopErrorExamined(c, r, "C06/loop-error-examined")
	r.Rule("C06/always-fetches-prompt", "AcquirePriv reports success only after it fetched the device's prompt (a lost connection cannot be reported as success)", 1)
	checkAcquireAlwaysFetchesPrompt(c, r, "C06/always-fetches-prompt")
	r.Rule("C06/error-classes", "each failure site named by the property wraps the sentinel the property names (timeout / auth / connection / privilege / NETCONF / operation / platform error)", 2)
	checkErrorClasses(c, r, "C06")
	r.Rule("C06/propagate", "at every call site of an I/O-capable function the error surfaces (returned, sent, or stored in a returned/sent result) and the failing edge neither retries, nor continues with I/O, nor returns success", 40)
	r.Rule("C06/reader", "the channel read loop exits on end-of-stream, sets the exited flag on every exit, and Channel.Read tests error channel and exited flag before dequeuing", 4)
	r.Rule("C06/netconf-forward", "sendRPC waits on the NETCONF error channel and returns the error it receives; the NETCONF reader never leaves its loop because of a channel error", 2)

	io := c.ioCapable()
	// interface methods of transport.Implementation count as I/O too
	impl := c.LookupType("transport", "Implementation")
	isIO := func(ci ssa.CallInstruction) bool {
		cc := ci.Common()
		if cc.IsInvoke() {
			if impl != nil && types.Identical(cc.Value.Type(), impl) {
				switch cc.Method.Name() {
				case "Read", "Write", "Open":
					return true
				}
			}
			return false
		}
		for _, callee := range c.Callees(ci) {
			if io[callee] {
				return true
			}
		}
		return false
	}
	r.Extra["io_capable_functions"] = len(io)
	nsites := 0
	for _, fn := range c.LibFns {
		n := map[string]int{}
		for _, ci := range callInstrs(fn) {
			call, ok := ci.(*ssa.Call)
			if !ok {
				// go/defer of an I/O function: its error cannot be observed
				if isIO(ci) {
					if _, isDefer := ci.(*ssa.Defer); isDefer {
						continue
					}
				}
				continue
			}
			if !isIO(call) {
				continue
			}
			name := describeCall(c, call)
			n[name]++
			nsites++
			construct := fmt.Sprintf("%s call %s#%d", shortFn(fn), name, n[name])
			es := errSurfaces(c, fn, call, isIO)
			if es.OK {
				r.OK("C06/propagate", construct, c.Pos(call.Pos()), es.How)
			} else {
				if named := namedErrException(fn, call); named != "" {
					r.OK("C06/propagate", construct, c.Pos(call.Pos()), "named exception: "+named)
					continue
				}
				r.Bad("C06/propagate", construct, c.Pos(call.Pos()), "a connection failure reported by "+name+" does not surface: "+es.Msg)
			}
		}
	}
	r.Extra["io_call_sites"] = nsites
	checkReaderExit(c, r)
	checkNetconfForward(c, r)
	checkNetconfReaderKeepsReporting(c, r)
}

// namedErrException: deliberate drops, each one named symbol with a reason.
func namedErrException(fn *ssa.Function, call *ssa.Call) string {
	// Close paths: an operation that is already failing closes the channel and ignores the close error.
	if sc := call.Call.StaticCallee(); sc != nil && sc.Name() == "Close" {
		return "error of a Close performed while already returning an error"
	}
	// on-close hooks run best-effort inside the drivers' Close: their failure is logged and the close goes on
	if fn.Name() == "Close" && call.Call.StaticCallee() == nil && !call.Call.IsInvoke() {
		if f, _, ok := fieldLoad(call.Call.Value); ok && f.Name() == "OnClose" {
			return "OnClose hook inside Close: failure is logged, the connection is closed regardless"
		}
	}
	return ""
}

func checkReaderExit(c *Ctx, r *Report) {
	rule := "C06/reader"
	read := c.LookupFunc("channel", "Channel", "read")
	chRead := c.LookupFunc("channel", "Channel", "Read")
	flag := c.LookupField("channel", "Channel", "readLoopExited")
	errsF := c.LookupField("channel", "Channel", "Errs")
	deq := c.LookupFunc("util", "Queue", "Dequeue")
	if read == nil || chRead == nil || flag == nil || errsF == nil || deq == nil {
		r.Anchor(rule, "(*channel.Channel).read / Read / readLoopExited / Errs / Queue.Dequeue")
		return
	}
	// 1. EOF -> return: find errors.Is(err, io.EOF); its true edge reaches only Return (no further transport read)
	eofOK := false
	for _, b := range read.Blocks {
		cond := ifCond(b)
		if cond == nil {
			continue
		}
		v, neg := unwrapNot(cond)
		isEOFVal := func(x ssa.Value) bool {
			if u, ok := x.(*ssa.UnOp); ok {
				if g, ok := u.X.(*ssa.Global); ok && g.Name() == "EOF" && g.Pkg.Pkg.Path() == "io" {
					return true
				}
			}
			return false
		}
		isEOF := false
		if call, ok := v.(*ssa.Call); ok {
			// errors.Is(err, io.EOF)
			if o := CalleeObj(call); o != nil && o.Pkg() != nil && o.Pkg().Path() == "errors" && o.Name() == "Is" && isEOFVal(call.Call.Args[1]) {
				isEOF = true
			}
		}
		if bo, ok := v.(*ssa.BinOp); ok && (bo.Op == token.EQL || bo.Op == token.NEQ) && (isEOFVal(bo.X) || isEOFVal(bo.Y)) {
			// err == io.EOF
			isEOF = true
			if bo.Op == token.NEQ {
				neg = !neg
			}
		}
		if !isEOF {
			continue
		}
		succ := b.Succs[0]
		if neg {
			succ = b.Succs[1]
		}
		rr := reachFrom(read, succ.Instrs[0], func(in ssa.Instruction) bool { return isReturn(in) }, nil)
		eofOK = true
		chk := func(in ssa.Instruction) {
			if ci, ok := in.(ssa.CallInstruction); ok {
				if sc := ci.Common().StaticCallee(); sc != nil && sc.Name() == "Read" && recvName(sc) == "Transport" {
					eofOK = false
				}
			}
		}
		chk(succ.Instrs[0])
		for in := range rr.visited {
			chk(in)
		}
	}
	r.Check(eofOK, rule, "read loop exits on EOF", c.Pos(read.Pos()), "errors.Is(err, io.EOF) -> return",
		"on end-of-stream the read loop does not unconditionally return: it keeps reading a dead transport and never marks the connection as gone")
	// 2. exited flag set on every exit: a deferred closure storing true, installed before the loop (dominates every return)
	flagOK := false
	for _, ci := range callInstrs(read) {
		d, ok := ci.(*ssa.Defer)
		if !ok {
			continue
		}
		var clos *ssa.Function
		switch v := d.Call.Value.(type) {
		case *ssa.MakeClosure:
			clos, _ = v.Fn.(*ssa.Function)
		case *ssa.Function:
			clos = v
		}
		if clos == nil {
			continue
		}
		sets := false
		allInstrs(clos, func(in ssa.Instruction) {
			if f, _, v, ok := fieldStore(in); ok && f == flag && isConstTrue(v) {
				if len(edgeConds(in.Block())) == 0 {
					sets = true
				}
			}
			// atomic flag: method call Store(true) on the field
			if call, ok := in.(*ssa.Call); ok {
				if sc := call.Call.StaticCallee(); sc != nil && sc.Name() == "Store" && len(call.Call.Args) == 2 && isConstTrue(call.Call.Args[1]) {
					if fa, ok := call.Call.Args[0].(*ssa.FieldAddr); ok && fieldOfAddr(fa) == flag && len(edgeConds(in.Block())) == 0 {
						sets = true
					}
				}
			}
		})
		if !sets {
			continue
		}
		all := true
		allInstrs(read, func(in ssa.Instruction) {
			if isReturn(in) && len(in.Block().Preds) > 0 || (isReturn(in) && in.Block() == read.Blocks[0]) {
				if !dominatesInstr(d, in) {
					all = false
				}
			}
		})
		if all {
			flagOK = true
		}
	}
	r.Check(flagOK, rule, "exited flag set on every exit", c.Pos(read.Pos()), "deferred store of the exited flag dominates every return",
		"the read loop can exit without setting the exited flag: operations after the loss find an empty queue and wait out their timeout instead of failing")
	// 3. Channel.Read: Dequeue dominated by the flag test (false edge) and by the select on Errs
	var deqCall ssa.Instruction
	for _, ci := range staticCallsTo(chRead, deq) {
		deqCall = ci
	}
	if deqCall == nil {
		r.Unk(rule, "Channel.Read order", c.Pos(chRead.Pos()), "Channel.Read does not call Queue.Dequeue")
		return
	}
	flagTested := false
	for _, ec := range edgeConds(deqCall.Block()) {
		v, neg := unwrapNot(ec.Cond)
		truth := ec.Truth
		if neg {
			truth = !truth
		}
		if f, _, ok := fieldLoad(v); ok && f == flag && !truth {
			flagTested = true
		}
		if call, ok := v.(*ssa.Call); ok { // atomic Load()
			if sc := call.Call.StaticCallee(); sc != nil && sc.Name() == "Load" && len(call.Call.Args) == 1 {
				if fa, ok := call.Call.Args[0].(*ssa.FieldAddr); ok && fieldOfAddr(fa) == flag && !truth {
					flagTested = true
				}
			}
		}
	}
	errsPolled := false
	allInstrs(chRead, func(in ssa.Instruction) {
		if sel, ok := in.(*ssa.Select); ok && dominatesInstr(sel, deqCall) {
			for _, st := range sel.States {
				if f, _, _ := chanOrigin(st.Chan); f == errsF && st.Dir == types.RecvOnly {
					errsPolled = true
				}
			}
		}
	})
	// ... or the poll sits in a small helper of the package called before the dequeue
	for _, ci := range callInstrs(chRead) {
		if sc := ci.Common().StaticCallee(); sc != nil && sc.Pkg == chRead.Pkg && dominatesInstr(ci, deqCall) && helperReceivesFrom(sc, errsF) {
			errsPolled = true
		}
	}
	// the flag-true edge must return a non-nil error
	r.Check(flagTested && errsPolled, rule, "Channel.Read tests errors and exited flag before dequeuing", c.Pos(deqCall.Pos()),
		"error channel polled and exited flag tested before Dequeue",
		fmt.Sprintf("Channel.Read dequeues data without first polling the error channel (%v) and testing the exited flag (%v): after a loss an operation can keep consuming stale output or wait forever instead of failing", errsPolled, flagTested))
	// flag edge returns error
	okErr := false
	for _, b := range chRead.Blocks {
		cond := ifCond(b)
		if cond == nil {
			continue
		}
		v, neg := unwrapNot(cond)
		isFlag := false
		if f, _, ok := fieldLoad(v); ok && f == flag {
			isFlag = true
		}
		if call, ok := v.(*ssa.Call); ok {
			if sc := call.Call.StaticCallee(); sc != nil && sc.Name() == "Load" && len(call.Call.Args) == 1 {
				if fa, ok := call.Call.Args[0].(*ssa.FieldAddr); ok && fieldOfAddr(fa) == flag {
					isFlag = true
				}
			}
		}
		if !isFlag {
			continue
		}
		succ := b.Succs[0]
		if neg {
			succ = b.Succs[1]
		}
		if n := len(succ.Instrs); n > 0 {
			if ret, ok := succ.Instrs[n-1].(*ssa.Return); ok && len(ret.Results) == 2 && !isNilConst(ret.Results[1]) {
				okErr = true
			}
		}
	}
	r.Check(okErr, rule, "exited flag yields an error", c.Pos(chRead.Pos()), "exited -> connection error", "Channel.Read does not return an error when the read loop has exited")
}

func checkNetconfForward(c *Ctx, r *Report) {
	rule := "C06/netconf-forward"
	fn := c.LookupFunc("driver/netconf", "Driver", "sendRPC")
	errsF := c.LookupField("driver/netconf", "Driver", "errs")
	if fn == nil || errsF == nil {
		r.Anchor(rule, "(*netconf.Driver).sendRPC / errs")
		return
	}
	ok := false
	allInstrs(fn, func(in ssa.Instruction) {
		sel, isSel := in.(*ssa.Select)
		if !isSel {
			return
		}
		for i, st := range sel.States {
			if f, _, _ := chanOrigin(st.Chan); f != errsF || st.Dir != types.RecvOnly {
				continue
			}
			// the case body returns the received value as error
			for _, b := range fn.Blocks {
				if idx, isCase := selectCaseOf(b, sel); isCase && idx == i {
					if n := len(b.Instrs); n > 0 {
						if ret, isRet := b.Instrs[n-1].(*ssa.Return); isRet && len(ret.Results) == 2 {
							rv := ret.Results[1]
							if u, isU := rv.(*ssa.UnOp); isU {
								if a, isA := u.X.(*ssa.Alloc); isA {
									if v := lastStoreBefore(a, u); v != nil {
										rv = v
									}
								}
							}
							if ex, isEx := rv.(*ssa.Extract); isEx && ex.Tuple == ssa.Value(sel) {
								ok = true
							}
							if !isNilConst(rv) {
								ok = true
							}
						}
					}
				}
			}
		}
	})
	r.Check(ok, rule, "sendRPC waits on errs", c.Pos(fn.Pos()), "select case on the error channel returns the error",
		"sendRPC does not wait on the NETCONF error channel: after a connection loss the RPC in flight waits out its whole timeout")
}

// checkNetconfReaderKeepsReporting: the NETCONF reader is what turns a dead channel into an error for EVERY later rpc
// (Channel.Read fails again on each poll and the reader offers that error again). It may therefore not leave its loop
// because of a channel error: from the failing edge of its Channel.Read no return is reachable before the next poll.
func checkNetconfReaderKeepsReporting(c *Ctx, r *Report) {
	rule := "C06/netconf-forward"
	fn := c.LookupFunc("driver/netconf", "Driver", "read")
	chRead := c.LookupFunc("channel", "Channel", "Read")
	if fn == nil || chRead == nil {
		r.Anchor(rule, "(*netconf.Driver).read / (*channel.Channel).Read")
		return
	}
	n := 0
	for _, ci := range staticCallsTo(fn, chRead) {
		call, ok := ci.(*ssa.Call)
		if !ok {
			continue
		}
		errs := errResultsOf(call)
		if len(errs) != 1 {
			continue
		}
		for _, b := range fn.Blocks {
			cond := ifCond(b)
			if cond == nil {
				continue
			}
			x, nonNilOnTrue, isNil := nilCheck(cond)
			if !isNil || x != errs[0] {
				continue
			}
			failing := b.Succs[1]
			if nonNilOnTrue {
				failing = b.Succs[0]
			}
			n++
			construct := "NETCONF reader after a channel error"
			stop := func(in ssa.Instruction) bool { return in == ssa.Instruction(call) }
			rr := reachFrom(fn, failing.Instrs[0], stop, nil)
			var exit ssa.Instruction
			for in := range rr.visited {
				if isReturn(in) && len(in.Block().Preds) > 0 {
					// leaving because Close asked for it (a receive from done on the path) is fine
					if guardedBySelectRecvNamed(in, "done") {
						continue
					}
					// ... also when that poll sits in a helper: `if d.closing() { return }`
					if guardedBy(in, func(cv ssa.Value, t bool) bool {
						call, ok := cv.(*ssa.Call)
						if !ok || !t {
							return false
						}
						f, _, ok := pollHelper(call.Call.StaticCallee())
						return ok && f != nil && f.Name() == "done"
					}) {
						continue
					}
					exit = in
				}
			}
			if isReturn(failing.Instrs[0]) {
				exit = failing.Instrs[0]
			}
			if exit != nil {
				r.Bad(rule, construct, c.Pos(exit.Pos()), "the reader leaves its loop after handing a channel error to (at most) one rpc: nobody offers the error to the rpcs that follow, each of them waits out its whole timeout (for ever with a zero timeout) instead of failing promptly", rr.witness(c, exit)...)
			} else {
				r.OK(rule, construct, c.Pos(b.Instrs[len(b.Instrs)-1].Pos()), "stays in its loop: the error is offered again on every poll")
			}
		}
	}
	if n == 0 {
		r.Unk(rule, "NETCONF reader after a channel error", c.Pos(fn.Pos()), "the reader does not test the error of Channel.Read")
	}
}

// guardedBySelectRecvNamed: the block of `in` is the body of a select case that received from a struct-field channel
// with the given name.
func guardedBySelectRecvNamed(in ssa.Instruction, field string) bool {
	fn := in.Parent()
	found := false
	allInstrs(fn, func(x ssa.Instruction) {
		sel, ok := x.(*ssa.Select)
		if !ok {
			return
		}
		idx, isCase := selectCaseOf(in.Block(), sel)
		if !isCase || idx < 0 || idx >= len(sel.States) {
			return
		}
		if f, _, _ := chanOrigin(sel.States[idx].Chan); f != nil && f.Name() == field && sel.States[idx].Dir == types.RecvOnly {
			found = true
		}
	})
	return found
}
