package main

// C07/M — a map a reader goroutine inserts into stays allocated while that goroutine may run.

import (
	"fmt"
	"go/types"
	"sort"

	"golang.org/x/tools/go/ssa"
)

// checkReaderMaps: for every map-typed struct field that a reader-class function inserts into, no function that
// runs after the reader was started assigns the field anything but a freshly made map. Assigning nil (to "free"
// the store on Close) makes the reader's next insert panic with `assignment to entry in nil map` -- a lock does
// not help, the accesses are ordered but the second one still faults.
func checkReaderMaps(c *Ctx, r *Report, cl *classes) {
	rule := "C07/M"
	type rd struct {
		name string
		fns  map[*ssa.Function]bool
		root *ssa.Function
	}
	n := 0
	for _, side := range []rd{{"channel-reader", cl.R1, cl.chanReader}, {"netconf-reader", cl.R2, cl.ncReader}} {
		inserted := map[*types.Var]ssa.Instruction{}
		for fn := range side.fns {
			if fn.Blocks == nil {
				continue
			}
			for _, a := range fieldAccesses(fn) {
				if a.Kind == "map-update" && a.Field.Pkg() != nil && isLibPkgPath(a.Field.Pkg().Path()) {
					if _, ok := inserted[a.Field]; !ok {
						inserted[a.Field] = a.Instr
					}
				}
			}
		}
		st := findStarter(c, side.root)
		if st == nil {
			r.Unk(rule, side.name+" starter", "-", "cannot find the go statement that starts the "+side.name)
			continue
		}
		var fields []*types.Var
		for f := range inserted {
			fields = append(fields, f)
		}
		sort.Slice(fields, func(i, j int) bool { return fields[i].Name() < fields[j].Name() })
		for _, f := range fields {
			n++
			construct := fmt.Sprintf("%s inserts into %s", side.name, f.Name())
			var bad ssa.Instruction
			badFn := ""
			for _, fn := range c.LibFns {
				if side.fns[fn] {
					continue
				}
				allInstrs(fn, func(in ssa.Instruction) {
					ff, _, v, ok := fieldStore(in)
					if !ok || ff != f {
						return
					}
					if _, isMake := v.(*ssa.MakeMap); isMake {
						return
					}
					if fn == st.Fn && dominatesInstr(in, st.Go) {
						return // before the reader exists
					}
					if isConstructorOf(fn, f) {
						return
					}
					// after the reader was told to stop (an unbuffered send on its done channel is a handshake)
					stopped := false
					allInstrs(fn, func(in2 ssa.Instruction) {
						if snd, ok := in2.(*ssa.Send); ok {
							if df, _, _ := chanOrigin(snd.Chan); df != nil && df.Name() == "done" && dominatesInstr(snd, in) {
								stopped = true
							}
						}
					})
					if stopped {
						return
					}
					if bad == nil {
						bad, badFn = in, shortFn(fn)
					}
				})
			}
			if bad != nil {
				r.Bad(rule, construct, c.Pos(bad.Pos()), fmt.Sprintf("%s assigns %s a value that is not a freshly made map while the %s may still insert into it (%s): an insert into the nil map panics in the reader goroutine and takes the process down; holding the field's lock orders the two accesses but does not prevent the fault", badFn, f.Name(), side.name, c.Pos(inserted[f].Pos())))
			} else {
				r.OK(rule, construct, c.Pos(inserted[f].Pos()), "only constructors / pre-start code assign the field, or it is assigned a fresh map")
			}
		}
	}
	if n == 0 {
		r.Unk(rule, "reader map inserts", "-", "no map insert found in the reader goroutines (the NETCONF reader files replies in Driver.messages)")
	}
}

// isConstructorOf: fn builds the struct that owns f in a composite literal / new and stores into that fresh object.
func isConstructorOf(fn *ssa.Function, f *types.Var) bool {
	ok := true
	found := false
	allInstrs(fn, func(in ssa.Instruction) {
		ff, base, _, isSt := fieldStore(in)
		if !isSt || ff != f {
			return
		}
		found = true
		if _, isAlloc := base.(*ssa.Alloc); !isAlloc {
			ok = false
		}
	})
	return found && ok
}
