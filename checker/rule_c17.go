package main

// C17 — every advertised platform definition loads and is internally consistent.

import (
	"fmt"
	"go/ast"
	"go/constant"
	"go/token"
	"go/types"
	"os"
	"path/filepath"
	"regexp/syntax"
	"sort"
	"strings"

	"golang.org/x/tools/go/ssa"
	"gopkg.in/yaml.v3"
)

func init() {
	register(&Property{
		ID:  "C17",
		Run: runC17,
		Explanation: "Static validation of the embedded platform definitions against the code that consumes them: " +
			"advertised names (constants of platform.GetPlatformNames) vs the files matched by the //go:embed pattern and the name->path mapping in the loader; " +
			"YAML decoded by following the repository's struct types and yaml tags through go/types (decodability, scalar kinds); privilege levels form one rooted tree, " +
			"default desired level names a level, every pattern and the |-join compile under RE2 (regexp/syntax), escalate-auth implies an escalate-prompt; " +
			"on-open/on-close steps use only operations the corresponding switch in platform/onx.go handles, with the argument kinds that code asserts; option blocks use only option names the code switches on with values of the Go dynamic type the code asserts; " +
			"mergeVariant assigns each mergeable section only from the same section of the variant under that section's non-empty test. " +
			"NOT decided: the device-model clause (navigation between levels, open/close actually running the steps) and 'canonical prompt matches the pattern' (no canonical prompt exists in the data).",
		Assumptions: []string{
			"yaml.v3 decoding rules as modelled in checker/assets.go (struct by yaml tag, any scalar into string, !!bool into bool, interface{} by resolved tag)",
			"regexp/syntax.Parse with Perl flags is what regexp.MustCompile accepts",
		},
		Mutants: []Mutant{
			{ID: "C17-onx-generic-send-command", Desc: "the network hook's send-command step calls the embedded generic driver's SendCommand", Rule: "C17/onx-send-command",
				Edits: []Edit{{File: "platform/onx.go", Old: "_, err = d.SendCommand(c)", New: "_, err = d.Driver.SendCommand(c)"}}},
			{ID: "C17-default-level-only-with-levels", Desc: "a variant's default desired level is merged only when it also redefines the privilege levels", Rule: "C17/merge",
				Edits: []Edit{{File: "platform/definition.go", Old: "\tif len(v.PrivilegeLevels) > 0 {\n\t\tp.PrivilegeLevels = v.PrivilegeLevels\n\t}\n\n\tif v.DefaultDesiredPrivilegeLevel != \"\" {\n\t\tp.DefaultDesiredPrivilegeLevel = v.DefaultDesiredPrivilegeLevel\n\t}\n", New: "\tif len(v.PrivilegeLevels) > 0 {\n\t\tp.PrivilegeLevels = v.PrivilegeLevels\n\n\t\tif v.DefaultDesiredPrivilegeLevel != \"\" {\n\t\t\tp.DefaultDesiredPrivilegeLevel = v.DefaultDesiredPrivilegeLevel\n\t\t}\n\t}\n"}}},
			{ID: "C17-seconds-helper-truncates", Desc: "the definition's timeout-ops goes through a helper that converts the float before scaling it", Rule: "C17/float-scaled-first",
				Edits: []Edit{{File: "platform/options.go", Old: "\t\t\topts[i] = options.WithTimeoutOps(\n\t\t\t\ttime.Duration(floatVal * float64(time.Second)),\n\t\t\t)", New: "\t\t\topts[i] = options.WithTimeoutOps(secondsOf(floatVal))"},
					{File: "platform/options.go", Old: "type optionDefinitions []*optionDefinition\n", New: "type optionDefinitions []*optionDefinition\n\nfunc secondsOf(f float64) time.Duration {\n\treturn time.Duration(f) * time.Second\n}\n"}}},
			{ID: "C17-on-open-doubles-as-network-on-open", Desc: "a network platform without network-on-open gets its on-open list as network on-open too (run twice)", Rule: "C17/as-options-wiring",
				Edits: []Edit{{File: "platform/definition.go", Old: "\tif len(p.NetworkOnOpen) > 0 {\n\t\topts = append(opts, options.WithNetworkOnOpen(p.NetworkOnOpen.asNetworkOnX()))\n\t}", New: "\tnetworkOnOpen := p.NetworkOnOpen\n\tif len(networkOnOpen) == 0 {\n\t\tnetworkOnOpen = p.OnOpen\n\t}\n\n\tif len(networkOnOpen) > 0 {\n\t\topts = append(opts, options.WithNetworkOnOpen(networkOnOpen.asNetworkOnX()))\n\t}"}}},
			{ID: "C17-empty-input-waits-for-echo", Desc: "ReadUntilFuzzy no longer returns at once for an empty input (cumulus root_login steps with an empty command)", Rule: "C17/empty-step",
				Edits: []Edit{{File: "channel/read.go", Old: "\tif len(b) == 0 {\n\t\treturn nil, nil\n\t}\n\n\tvar rb []byte", New: "\tvar rb []byte"}}},
			{ID: "C17-rename-const", Desc: "advertised name without embedded file", Rule: "C17/name-file",
				Edits: []Edit{{File: "platform/definition.go", Old: `VyattaVyos = "vyatta_vyos"`, New: `VyattaVyos = "vyatta_vyoss"`}}},
			{ID: "C17-two-roots", Desc: "privilege level loses its previous-priv link", Rule: "C17/tree",
				Edits: []Edit{{File: "assets/platforms/arista_eos.yaml", Old: "previous-priv: 'privilege-exec'", New: "previous-priv:"}}},
			{ID: "C17-bad-regex", Desc: "pattern not RE2-compilable (lookahead)", Rule: "C17/patterns",
				Edits: []Edit{{File: "assets/platforms/cisco_iosxe.yaml", Old: `pattern: '(?im)^[\w.\-@/:]{1,63}>$'`, New: `pattern: '(?!x)(?im)^[\w.\-@/:]{1,63}>$'`}}},
			{ID: "C17-merge-cross", Desc: "variant merge copies on-close into on-open", Rule: "C17/merge",
				Edits: []Edit{{File: "platform/definition.go", Old: "p.OnOpen = v.OnOpen", New: "p.OnOpen = v.OnClose"}}},
			{ID: "C17-merge-drop", Desc: "variant merge forgets default desired level", Rule: "C17/merge",
				Edits: []Edit{{File: "platform/definition.go", Old: "p.DefaultDesiredPrivilegeLevel = v.DefaultDesiredPrivilegeLevel", New: "_ = v.DefaultDesiredPrivilegeLevel"}}},
			{ID: "C17-acquire-default-frozen", Desc: "on-open acquire-priv falls back to the definition's default level captured when the options were built", Rule: "C17/acquire-default",
				Edits: []Edit{{File: "platform/onx.go", Old: "func (o *onXDefinitions) asNetworkOnX() func(d *network.Driver) error {", New: "func (o *onXDefinitions) asNetworkOnX(defaultTarget string) func(d *network.Driver) error {"},
					{File: "platform/onx.go", Old: "\t\t\t\ttarget := d.DefaultDesiredPriv\n", New: "\t\t\t\ttarget := defaultTarget\n"},
					{File: "platform/definition.go", Old: "options.WithNetworkOnOpen(p.NetworkOnOpen.asNetworkOnX())", New: "options.WithNetworkOnOpen(p.NetworkOnOpen.asNetworkOnX(p.DefaultDesiredPrivilegeLevel))"},
					{File: "platform/definition.go", Old: "options.WithNetworkOnClose(p.NetworkOnClose.asNetworkOnX())", New: "options.WithNetworkOnClose(p.NetworkOnClose.asNetworkOnX(p.DefaultDesiredPrivilegeLevel))"}}},
			{ID: "C17-definition-cache", Desc: "parsed embedded definitions cached and handed out as shallow copies", Rule: "C17/fresh-definition",
				Edits: []Edit{{File: "platform/definition.go", Old: "func loadPlatformDefinition(f string) (*Definition, error) {\n", New: "var definitionCache = map[string]*Definition{}\n\nfunc loadPlatformDefinition(f string) (*Definition, error) {\n\tif cached, ok := definitionCache[f]; ok {\n\t\tpd := *cached\n\n\t\treturn &pd, nil\n\t}\n\n\tdefer func() {\n\t\tif b, err := loadPlatformDefinitionFromAssets(f); err == nil {\n\t\t\tif pd, err := loadPlatformDefinitionFromBytes(b); err == nil {\n\t\t\t\tdefinitionCache[f] = pd\n\t\t\t}\n\t\t}\n\t}()\n\n"}}},
			{ID: "C17-variant-error-class", Desc: "missing variant reported as a bad option", Rule: "C17/error-classes",
				Edits: []Edit{{File: "platform/definition.go", Old: "return nil, fmt.Errorf(\"%w: no variant '%s' in platform\", util.ErrPlatformError, variant)", New: "return nil, fmt.Errorf(\"%w: no variant '%s' in platform\", util.ErrBadOption, variant)"}}},
			{ID: "C17-driver-before-merge", Desc: "variant: driver built before the variant is merged", Rule: "C17/variant-merged-first",
				Edits: []Edit{{File: "platform/definition.go", Old: "\tp := pd.Default\n\n\tvp, ok := pd.Variants[variant]", New: "\tp := pd.Default\n\n\terr = setDriver(host, p, opts...)\n\tif err != nil {\n\t\treturn nil, err\n\t}\n\n\tvp, ok := pd.Variants[variant]"},
					{File: "platform/definition.go", Old: "\tp.mergeVariant(vp)\n\n\terr = setDriver(host, p, opts...)\n\tif err != nil {\n\t\treturn nil, err\n\t}\n", New: "\tp.mergeVariant(vp)\n"}}},
			{ID: "C17-op-unknown", Desc: "network switch no longer handles driver.send-command", Rule: "C17/steps",
				Edits: []Edit{{File: "platform/onx.go", Old: "case OpDriverSendCommand:\n\t\t\t\tc, ok", New: "case \"driver.send-cmd\":\n\t\t\t\tc, ok"}}},
			{ID: "C17-suffix", Desc: "loader appends the wrong suffix", Rule: "C17/name-file",
				Edits: []Edit{{File: "platform/definition.go", Old: "f += \".yaml\"", New: "f += \".yml\""}}},
			{ID: "C17-default-priv", Desc: "default desired level names no level", Rule: "C17/tree",
				Edits: []Edit{{File: "assets/platforms/juniper_junos.yaml", Old: "default-desired-privilege-level: 'exec'", New: "default-desired-privilege-level: 'execc'"}}},
		},
	})
}

func runC17(c *Ctx, r *Report) {
	r.Rule("C17/loopvar-escapes", "no range variable of the platform package is referred to after its iteration (on-open and on-close hooks built in a loop would all run the last row's steps)", 1)
	checkLoopVarEscapes(c, r, "C17/loopvar-escapes", nil)
	importFoundation(c, r, "C17", "interactive")
	importFoundation(c, r, "C17", "ansi")
	r.Rule("C17/embedded-first", "an advertised name is looked up among the embedded definitions first and as it was given (nothing on the machine's file system can shadow it)", 1)
	checkAssetLookupUnresolved(c, r, "C17/embedded-first")
	r.Rule("C17/always-fetches-prompt", "AcquirePriv reports success only after it fetched the device's prompt (every level stays reachable whatever the device did in between)", 1)
	checkAcquireAlwaysFetchesPrompt(c, r, "C17/always-fetches-prompt")
	r.Rule("C17/search-window", "prompt searches look at a suffix of the buffer that starts on a line boundary and keeps every line of a multi-line prompt pattern", 4)
	importObligations(r, func(sub *Report) { checkSearchDepth(c, sub) }, "C01/search-depth", "C17/search-window")
	platformLevelsSeen = nil
	defer func() { platformLevelsDone = true }()
	importFoundation(c, r, "C17", "driver-options")
	importFoundation(c, r, "C17", "read-loop")
	importFoundation(c, r, "C17", "priv-steps")
	importFoundation(c, r, "C17", "transport-pipe")
	r.Rule("C17/variant-merged-first", "NewPlatformVariant merges the variant into the platform before the driver is built from it", 1)
	checkVariantMergedFirst(c, r, "C17/variant-merged-first")
	r.Rule("C17/error-classes", "each failure site named by the property wraps the sentinel the property names (timeout / auth / connection / privilege / NETCONF / operation / platform error)", 3)
	checkErrorClasses(c, r, "C17")
	r.Rule("C17/name-file", "every advertised platform name resolves, through the loader's name->path mapping, to a file matched by the //go:embed pattern whose platform-type equals the name", 15)
	r.Rule("C17/schema", "each embedded definition decodes into platform.Definition following the struct yaml tags (kinds fit the Go field types)", 15)
	r.Rule("C17/tree", "per platform and per merged variant: map key = name; every previous-priv names a level; exactly one root; acyclic and connected; default desired level names a level; driver-type is one the constructor switches on", 15)
	r.Rule("C17/patterns", "every level pattern, escalate-prompt and the |-joined pattern compile under RE2; escalate-auth implies a non-empty escalate-prompt", 15)
	r.Rule("C17/steps", "every on-open/on-close step names an operation handled by the switch of its driver level, with the argument kinds that code asserts; acquire-priv targets name a level", 15)
	r.Rule("C17/acquire-default", "an acquire-priv step without a target uses the running driver's DefaultDesiredPriv, read when the step runs", 1)
	r.Rule("C17/graph-links", "the driver's privilege graph links every level of the definition with its previous level in both directions (levels without an escalate command remain starting points)", 2)
	r.Rule("C17/fresh-definition", "the platform package modifies no package-level variable at run time: each load yields its own Definition / Platform objects", 1)
	r.Rule("C17/options", "every option block entry uses an option name platform/options.go switches on, with a YAML value whose Go dynamic type is the one the code asserts", 1)
	r.Rule("C17/globals-immutable", "(restated from C07) no package-level variable of the library is written at run time: loading definitions from several goroutines shares no mutable cache", 1)
	importObligations(r, func(sub *Report) { checkGlobalsNotWrittenAtRunTime(c, sub, "C07/globals-immutable") }, "C07/globals-immutable", "C17/globals-immutable")
	r.Rule("C17/onx-send-command", "the send-command step of a platform hook calls the SendCommand of the driver kind it was built for, with no per-operation options of its own", 2)
	checkOnXSendCommand(c, r, "C17/onx-send-command")
	r.Rule("C17/float-scaled-first", "a definition's fractional seconds (read-delay, timeout-ops) are scaled before they are converted: the options a definition carries take effect with the value it states", 1)
	checkFloatScaledBeforeConversion(c, r, "C17/float-scaled-first")
	r.Rule("C17/as-options-wiring", "AsOptions builds each driver option from the definition field of the same name and from nothing else, once", 7)
	checkAsOptionsWiring(c, r, "C17/as-options-wiring")
	r.Rule("C17/merge", "mergeVariant assigns each mergeable section only from the same section of the variant, guarded by that section's non-empty test; all eight sections are merged", 8)

	pp := c.pkgRel("platform")
	ap := c.pkgRel("assets")
	if pp == nil || ap == nil {
		r.Anchor("C17/name-file", "packages platform / assets")
		return
	}

	// ---- advertised names
	names, ok := advertisedNames(c)
	if !ok {
		r.Unk("C17/name-file", "GetPlatformNames", "-", "GetPlatformNames is not a return of a composite literal of string constants; cannot extract advertised names")
		return
	}
	// ---- embedded files
	embedded := map[string]string{} // path relative to assets dir -> abs
	assetsDir := ""
	if len(ap.GoFiles) > 0 {
		assetsDir = filepath.Dir(ap.GoFiles[0])
	}
	for _, f := range ap.EmbedFiles {
		rel, err := filepath.Rel(assetsDir, f)
		if err == nil {
			embedded[filepath.ToSlash(rel)] = f
		}
	}
	if len(embedded) == 0 {
		r.Unk("C17/name-file", "assets.Assets embed", "-", "no embedded files reported by go list for package assets")
		return
	}
	// ---- loader mapping
	format, suffix, ok := loaderMapping(c)
	if !ok {
		r.Unk("C17/name-file", "loadPlatformDefinitionFromAssets", "-", "cannot extract the name->path mapping (expected: suffix constant added when missing, embed.FS.ReadFile(fmt.Sprintf(<const format>, f)))")
		return
	}
	r.Notes = append(r.Notes, fmt.Sprintf("loader mapping: path = Sprintf(%q, name + %q)", format, suffix))

	defT := c.LookupType("platform", "Definition")
	if defT == nil {
		r.Anchor("C17/schema", "platform.Definition")
		return
	}
	genericOps, networkOps, ok := onxOperations(c)
	if !ok {
		r.Unk("C17/steps", "platform/onx.go switches", "-", "cannot extract the operation switches of asGenericOnX/asNetworkOnX")
	}
	driverTypes := driverTypeCases(c)
	if len(driverTypes) == 0 {
		r.Unk("C17/tree", "platform.setDriver switch", "-", "cannot extract the driver-type cases of setDriver")
	}
	optTable := platformOptionTable(c)

	advertised := map[string]bool{}
	for _, n := range names {
		advertised[n] = true
	}
	sort.Strings(names)
	startOnly := []string{}
	for _, name := range names {
		fn := name
		if !strings.HasSuffix(fn, suffix) {
			fn += suffix
		}
		path := fmt.Sprintf(format, fn)
		abs, found := embedded[path]
		if !found {
			r.Bad("C17/name-file", "platform "+name, c.Pos(pp.Syntax[0].Pos()), fmt.Sprintf("advertised platform %q maps to embedded path %q which is not among the embedded files: NewPlatform(%q) cannot load from the assets", name, path, name))
			continue
		}
		b, err := os.ReadFile(abs)
		if err != nil {
			r.Unk("C17/name-file", "platform "+name, path, "cannot read embedded file: "+err.Error())
			continue
		}
		var doc yaml.Node
		if err := yaml.Unmarshal(b, &doc); err != nil || len(doc.Content) == 0 {
			r.Bad("C17/schema", "platform "+name, "assets/"+path, fmt.Sprintf("YAML does not parse: %v", err))
			continue
		}
		d := &ydecoder{}
		root := d.decode(doc.Content[0], defT, name)
		if len(d.errs) > 0 {
			r.Bad("C17/schema", "platform "+name, "assets/"+path, "definition does not decode into platform.Definition: "+strings.Join(d.errs, "; "))
			continue
		}
		r.OK("C17/schema", "platform "+name, "assets/"+path, "decodes")
		pt := root.str("PlatformType")
		r.Check(pt == name, "C17/name-file", "platform "+name, "assets/"+path, "embedded file found, platform-type matches", fmt.Sprintf("embedded file %s declares platform-type %q, not the advertised name %q", path, pt, name))

		def := root.Fields["Default"]
		if def == nil || def.Kind != "struct" {
			r.Bad("C17/tree", "platform "+name, "assets/"+path, "definition has no 'default' section: NewPlatform dereferences a nil *Platform")
			continue
		}
		so := validatePlatform(c, r, name, "default", "assets/"+path, def, genericOps, networkOps, driverTypes, optTable)
		startOnly = append(startOnly, so...)
		if vs := root.Fields["Variants"]; vs != nil && vs.Kind == "map" {
			for _, vn := range vs.Keys {
				v := vs.Map[vn]
				if v == nil || v.Kind != "struct" {
					r.Bad("C17/tree", "platform "+name+" variant "+vn, "assets/"+path, "variant is empty: mergeVariant dereferences a nil *Platform")
					continue
				}
				merged := mergeModel(def, v)
				so := validatePlatform(c, r, name, "variant "+vn, "assets/"+path, merged, genericOps, networkOps, driverTypes, optTable)
				startOnly = append(startOnly, so...)
			}
		}
	}
	var unadvertised []string
	for p := range embedded {
		base := strings.TrimSuffix(filepath.Base(p), suffix)
		if !advertised[base] {
			unadvertised = append(unadvertised, p)
		}
	}
	sort.Strings(unadvertised)
	r.Extra["advertised_names"] = names
	r.Extra["embedded_files"] = len(embedded)
	r.Extra["embedded_but_not_advertised"] = unadvertised
	r.Extra["start_only_levels"] = startOnly

	checkMergeVariant(c, r)
	checkOnXAcquireDefault(c, r)
	checkFreshDefinition(c, r)
	checkGraphLinks(c, r, "C17/graph-links")
	platformLevelsDone = true
	r.Rule("C17/empty-step", "when an embedded definition steps between two levels with an empty command, the echo matcher returns at once for an empty input (nothing is echoed for it)", 1)
	checkEmptyStepSendable(c, r, "C17/empty-step")
}

func advertisedNames(c *Ctx) ([]string, bool) {
	fd, p := c.funcDecl("platform", "", "GetPlatformNames")
	if fd == nil || fd.Body == nil {
		return nil, false
	}
	var names []string
	ok := false
	for _, st := range fd.Body.List {
		rs, isRet := st.(*ast.ReturnStmt)
		if !isRet || len(rs.Results) != 1 {
			continue
		}
		cl, isCL := rs.Results[0].(*ast.CompositeLit)
		if !isCL {
			return nil, false
		}
		for _, e := range cl.Elts {
			v := constVal(p, e)
			if v == nil || v.Kind() != constant.String {
				return nil, false
			}
			names = append(names, constant.StringVal(v))
		}
		ok = true
	}
	return names, ok && len(names) > 0
}

// loaderMapping extracts (format, suffix) from loadPlatformDefinitionFromAssets.
func loaderMapping(c *Ctx) (string, string, bool) {
	fn := c.LookupFunc("platform", "", "loadPlatformDefinitionFromAssets")
	if fn == nil {
		return "", "", false
	}
	assetsVar := c.LookupVar("assets", "Assets")
	var format, suffix, appended string
	readFile := false
	for _, ci := range callInstrs(fn) {
		obj := CalleeObj(ci)
		if obj == nil || obj.Pkg() == nil {
			continue
		}
		full := obj.Pkg().Path() + "." + obj.Name()
		args := ci.Common().Args
		switch full {
		case "strings.HasSuffix":
			if s, ok := c.constStringOrInitVar(args[1]); ok {
				suffix = s
			}
		case "fmt.Sprintf":
			if s, ok := c.constStringOrInitVar(args[0]); ok {
				format = s
			}
		case "embed.ReadFile":
			// receiver must be assets.Assets
			if len(args) > 0 {
				if u, ok := args[0].(*ssa.UnOp); ok {
					if g, ok := u.X.(*ssa.Global); ok && assetsVar != nil && g.Object() == assetsVar {
						readFile = true
					}
				}
			}
		}
	}
	// the appended suffix: BinOp ADD of param and const; the directory prefix may be prepended the same way
	// (const + name) instead of through fmt.Sprintf
	allInstrs(fn, func(in ssa.Instruction) {
		if b, ok := in.(*ssa.BinOp); ok && b.Op.String() == "+" {
			if s, ok := c.constStringOrInitVar(b.Y); ok {
				appended = s
			} else if s, ok := c.constStringOrInitVar(b.X); ok && format == "" && !strings.Contains(s, "%") {
				format = s + "%s"
			}
		}
	})
	if !readFile || format == "" || suffix == "" || strings.Count(format, "%s") != 1 {
		return "", "", false
	}
	if appended != suffix {
		// the loader appends something other than what it tests for: path = name+appended
		return format, appended, true
	}
	return format, suffix, true
}

func onxOperations(c *Ctx) (generic, network map[string]bool, ok bool) {
	get := func(name string) map[string]bool {
		fd, p := c.funcDecl("platform", "onXDefinitions", name)
		if fd == nil {
			return nil
		}
		m := map[string]bool{}
		for _, sw := range stringSwitchesDeep(p, fd, 2) {
			for _, cs := range sw.Cases {
				m[cs] = true
			}
		}
		return m
	}
	generic = get("asGenericOnX")
	network = get("asNetworkOnX")
	return generic, network, len(generic) > 0 && len(network) > 0
}

func driverTypeCases(c *Ctx) map[string]bool {
	fd, p := c.funcDecl("platform", "", "setDriver")
	if fd == nil {
		return nil
	}
	m := map[string]bool{}
	for _, sw := range stringSwitchesDeep(p, fd, 2) {
		if f := selField(p, sw.Tag); f != nil && f.Name() == "DriverType" {
			for _, cs := range sw.Cases {
				m[cs] = true
			}
		}
	}
	if len(m) == 0 {
		// if/else chain instead of a switch: comparisons of the DriverType field with string constants
		if fn := c.LookupFunc("platform", "", "setDriver"); fn != nil {
			allInstrs(fn, func(in ssa.Instruction) {
				bo, ok := in.(*ssa.BinOp)
				if !ok || (bo.Op != token.EQL && bo.Op != token.NEQ) {
					return
				}
				for _, pair := range [][2]ssa.Value{{bo.X, bo.Y}, {bo.Y, bo.X}} {
					if s, isC := constString(pair[1]); isC && isFieldLoadNamed(pair[0], "DriverType") {
						m[s] = true
					}
				}
			})
		}
	}
	return m
}

// platformOptionTable: option name -> asserted Go type string ("" = value unused).
func platformOptionTable(c *Ctx) map[string]string {
	fd, p := c.funcDecl("platform", "optionDefinitions", "asOptions")
	if fd == nil {
		return nil
	}
	out := map[string]string{}
	for _, sw := range stringSwitchesDeep(p, fd, 2) {
		if f := selField(p, sw.Tag); f == nil || f.Name() != "Option" {
			continue
		}
		for name, cc := range sw.Clauses {
			asserted := ""
			ast.Inspect(cc, func(n ast.Node) bool {
				if ta, ok := n.(*ast.TypeAssertExpr); ok && ta.Type != nil {
					if f := selField(p, ta.X); f != nil && f.Name() == "Value" {
						asserted = types.TypeString(p.TypesInfo.TypeOf(ta.Type), nil)
					}
				}
				return true
			})
			out[name] = asserted
		}
	}
	return out
}

// mergeModel models mergeVariant on decoded values (the eight mergeable sections).
func mergeModel(def, v *yval) *yval {
	m := &yval{Node: v.Node, Kind: "struct", Fields: map[string]*yval{}}
	for k, f := range def.Fields {
		m.Fields[k] = f
	}
	nonEmpty := func(f *yval) bool {
		if f == nil {
			return false
		}
		switch f.Kind {
		case "null":
			return false
		case "scalar":
			return f.Str != ""
		case "seq":
			return true // non-nil slice (even empty) for the != nil tests; len>0 tests need elements
		case "map":
			return len(f.Map) > 0
		}
		return true
	}
	for _, k := range []string{"DriverType", "FailedWhenContains", "OnOpen", "OnClose", "PrivilegeLevels", "DefaultDesiredPrivilegeLevel", "NetworkOnOpen", "NetworkOnClose"} {
		if f := v.Fields[k]; nonEmpty(f) {
			if k == "FailedWhenContains" && len(f.Seq) == 0 {
				continue
			}
			m.Fields[k] = f
		}
	}
	return m
}

func reCompiles(s string) error {
	_, err := syntax.Parse(s, syntax.Perl)
	return err
}

// platLevel: one privilege level of an embedded definition (default section or merged variant), as collected by
// validatePlatform; used by rules of other properties that tie the code to the data it ships with.
type platLevel struct {
	Platform, Section, Pos, Level, Previous, Escalate, Deescalate, EscalateAuth, EscalatePrompt string
}

var (
	platformLevelsSeen []platLevel
	platformLevelsDone bool
)

// platformLevels returns the levels of all advertised embedded definitions (running the C17 asset walk once if needed).
func platformLevels(c *Ctx) []platLevel {
	if !platformLevelsDone {
		platformLevelsSeen = nil
		runC17(c, NewReport("x"))
	}
	return platformLevelsSeen
}

func validatePlatform(c *Ctx, r *Report, name, section, pos string, p *yval, genericOps, networkOps, driverTypes map[string]bool, optTable map[string]string) (startOnly []string) {
	who := "platform " + name + " " + section
	dt := p.str("DriverType")
	if len(driverTypes) > 0 && !driverTypes[dt] {
		r.Bad("C17/tree", who+" driver-type", pos, fmt.Sprintf("driver-type %q is not one of the cases setDriver switches on %v: no driver is built", dt, keysOf(driverTypes)))
	}
	levels := p.Fields["PrivilegeLevels"]
	treeOK := true
	var problems []string
	lv := map[string]*yval{}
	if dt == "network" {
		if levels == nil || levels.Kind != "map" || len(levels.Map) == 0 {
			problems = append(problems, "network driver without privilege levels")
		} else {
			for _, k := range levels.Keys {
				l := levels.Map[k]
				if l == nil || l.Kind != "struct" {
					problems = append(problems, fmt.Sprintf("level %q is empty (nil *PrivilegeLevel is dereferenced by buildPrivGraph)", k))
					continue
				}
				lv[k] = l
				platformLevelsSeen = append(platformLevelsSeen, platLevel{Platform: name, Section: section, Pos: pos, Level: k, Previous: l.str("PreviousPriv"), Escalate: l.str("Escalate"), Deescalate: l.str("Deescalate"), EscalateAuth: l.str("EscalateAuth"), EscalatePrompt: l.str("EscalatePrompt")})
				if l.str("Name") != k {
					problems = append(problems, fmt.Sprintf("level key %q has name %q", k, l.str("Name")))
				}
			}
			roots := 0
			for _, k := range levels.Keys {
				l := lv[k]
				if l == nil {
					continue
				}
				pv := l.str("PreviousPriv")
				if pv == "" {
					roots++
					continue
				}
				if lv[pv] == nil {
					problems = append(problems, fmt.Sprintf("level %q: previous-priv %q names no level", k, pv))
					continue
				}
				// walk to root, detect cycles
				seen := map[string]bool{k: true}
				cur := pv
				for cur != "" {
					if seen[cur] {
						problems = append(problems, fmt.Sprintf("level %q: previous-priv chain is cyclic", k))
						break
					}
					seen[cur] = true
					if lv[cur] == nil {
						break
					}
					cur = lv[cur].str("PreviousPriv")
				}
				if l.str("Escalate") == "" {
					startOnly = append(startOnly, name+" "+section+": "+k)
				}
			}
			if roots != 1 {
				problems = append(problems, fmt.Sprintf("%d root levels (levels without previous-priv); the levels must form a single tree", roots))
			}
			dd := p.str("DefaultDesiredPrivilegeLevel")
			if lv[dd] == nil {
				problems = append(problems, fmt.Sprintf("default-desired-privilege-level %q names no level", dd))
			}
		}
		if len(problems) > 0 {
			treeOK = false
			r.Bad("C17/tree", who, pos, strings.Join(problems, "; "))
		} else {
			r.OK("C17/tree", who, pos, fmt.Sprintf("%d levels, one root, acyclic", len(lv)))
		}
	} else {
		r.OK("C17/tree", who, pos, "generic driver: no privilege tree required")
	}
	_ = treeOK
	// patterns
	var pproblems []string
	var pats []string
	for _, k := range sortedKeys(lv) {
		l := lv[k]
		pat := l.str("Pattern")
		pats = append(pats, pat)
		if pat == "" {
			pproblems = append(pproblems, fmt.Sprintf("level %q has an empty pattern (matches every prompt)", k))
		}
		if err := reCompiles(pat); err != nil {
			pproblems = append(pproblems, fmt.Sprintf("level %q pattern does not compile: %v", k, err))
		}
		ep := l.str("EscalatePrompt")
		if ep != "" {
			if err := reCompiles(ep); err != nil {
				pproblems = append(pproblems, fmt.Sprintf("level %q escalate-prompt does not compile: %v", k, err))
			}
		}
		if l.Fields["EscalateAuth"] != nil && l.Fields["EscalateAuth"].Str == "true" && ep == "" {
			pproblems = append(pproblems, fmt.Sprintf("level %q: escalate-auth without escalate-prompt (the secret would be typed at the command prompt)", k))
		}
	}
	if len(pats) > 0 {
		// join order is map order in Go; any order must compile
		if err := reCompiles(strings.Join(pats, "|")); err != nil {
			pproblems = append(pproblems, fmt.Sprintf("joined prompt pattern does not compile: %v", err))
		}
	}
	if len(pproblems) > 0 {
		r.Bad("C17/patterns", who, pos, strings.Join(pproblems, "; "))
	} else {
		r.OK("C17/patterns", who, pos, fmt.Sprintf("%d patterns compile", len(pats)))
	}
	// steps
	var sproblems []string
	nsteps := 0
	checkSteps := func(field string, ops map[string]bool, level string) {
		f := p.Fields[field]
		if f == nil || f.Kind != "seq" {
			return
		}
		for i, st := range f.Seq {
			nsteps++
			where := fmt.Sprintf("%s[%d]", field, i)
			if st.Kind != "map" {
				sproblems = append(sproblems, where+": step is not a mapping")
				continue
			}
			op := st.Map["operation"]
			if op == nil || op.goDynType() != "string" {
				sproblems = append(sproblems, where+": 'operation' missing or not a string (the step runner panics)")
				continue
			}
			if ops != nil && !ops[op.Str] {
				sproblems = append(sproblems, fmt.Sprintf("%s: operation %q is not handled by the %s on-open/close switch %v: the step is silently skipped", where, op.Str, level, keysOf(ops)))
				continue
			}
			switch op.Str {
			case "channel.write":
				if in := st.Map["input"]; in == nil || in.goDynType() != "string" {
					sproblems = append(sproblems, where+": channel.write needs a string 'input'")
				}
				if rd := st.Map["redacted"]; rd != nil && rd.goDynType() != "bool" {
					sproblems = append(sproblems, where+": 'redacted' must be a bool (a non-bool is treated as false and the input is logged)")
				}
			case "driver.send-command":
				if cm := st.Map["command"]; cm == nil || cm.goDynType() != "string" {
					sproblems = append(sproblems, where+": driver.send-command needs a string 'command'")
				}
			case "acquire-priv":
				if t := st.Map["target"]; t != nil && t.Kind != "null" {
					if t.goDynType() != "string" {
						sproblems = append(sproblems, where+": acquire-priv 'target' must be a string")
					} else if lv[t.Str] == nil {
						sproblems = append(sproblems, fmt.Sprintf("%s: acquire-priv target %q names no level", where, t.Str))
					}
				}
			}
		}
	}
	checkSteps("OnOpen", genericOps, "generic")
	checkSteps("OnClose", genericOps, "generic")
	checkSteps("NetworkOnOpen", networkOps, "network")
	checkSteps("NetworkOnClose", networkOps, "network")
	if dt == "generic" {
		for _, f := range []string{"NetworkOnOpen", "NetworkOnClose"} {
			if x := p.Fields[f]; x != nil && x.Kind == "seq" && len(x.Seq) > 0 {
				sproblems = append(sproblems, f+": network-level steps on a generic driver are never run")
			}
		}
	}
	if len(sproblems) > 0 {
		r.Bad("C17/steps", who, pos, strings.Join(sproblems, "; "))
	} else {
		r.OK("C17/steps", who, pos, fmt.Sprintf("%d steps well-formed", nsteps))
	}
	// options
	if o := p.Fields["Options"]; o != nil && o.Kind == "seq" && optTable != nil {
		var oproblems []string
		for i, od := range o.Seq {
			if od.Kind != "struct" {
				oproblems = append(oproblems, fmt.Sprintf("options[%d] is empty (nil *optionDefinition dereferenced)", i))
				continue
			}
			on := od.str("Option")
			want, known := optTable[on]
			if !known {
				oproblems = append(oproblems, fmt.Sprintf("options[%d]: option %q is not handled by asOptions: a nil option function is applied (panic)", i, on))
				continue
			}
			if want != "" {
				got := "nil"
				if v := od.Fields["Value"]; v != nil {
					got = v.goDynType()
				}
				if got != want {
					oproblems = append(oproblems, fmt.Sprintf("options[%d] %q: YAML value decodes to %s but the code asserts %s (panic)", i, on, got, want))
				}
			}
		}
		if len(oproblems) > 0 {
			r.Bad("C17/options", who, pos, strings.Join(oproblems, "; "))
		} else {
			r.OK("C17/options", who, pos, fmt.Sprintf("%d options well-formed", len(o.Seq)))
		}
	} else {
		r.OK("C17/options", who, pos, "no options block")
	}
	return startOnly
}

func keysOf(m map[string]bool) []string {
	var ks []string
	for k := range m {
		ks = append(ks, k)
	}
	sort.Strings(ks)
	return ks
}

// checkMergeVariant: AST rule over (*Platform).mergeVariant.
func checkMergeVariant(c *Ctx, r *Report) {
	fd, p := c.funcDecl("platform", "Platform", "mergeVariant")
	if fd == nil || fd.Body == nil {
		r.Anchor("C17/merge", "(*platform.Platform).mergeVariant")
		return
	}
	want := map[string]bool{"DriverType": true, "FailedWhenContains": true, "OnOpen": true, "OnClose": true,
		"PrivilegeLevels": true, "DefaultDesiredPrivilegeLevel": true, "NetworkOnOpen": true, "NetworkOnClose": true}
	recvObj := identObj(p, fd.Recv.List[0].Names[0])
	var paramObj types.Object
	if len(fd.Type.Params.List) == 1 && len(fd.Type.Params.List[0].Names) == 1 {
		paramObj = identObj(p, fd.Type.Params.List[0].Names[0])
	}
	if recvObj == nil || paramObj == nil {
		r.Unk("C17/merge", "mergeVariant signature", c.Pos(fd.Pos()), "unexpected signature")
		return
	}
	merged := map[string]bool{}
	// walk assignments with the stack of enclosing if-conditions
	var walk func(n ast.Node, conds []ast.Expr)
	walk = func(n ast.Node, conds []ast.Expr) {
		switch s := n.(type) {
		case *ast.BlockStmt:
			for _, st := range s.List {
				walk(st, conds)
			}
		case *ast.IfStmt:
			walk(s.Body, append(append([]ast.Expr{}, conds...), s.Cond))
			if s.Else != nil {
				walk(s.Else, conds) // else-branch: not under the positive condition
			}
		case *ast.AssignStmt:
			for i, lhs := range s.Lhs {
				lf := selField(p, lhs)
				if lf == nil {
					continue
				}
				lse := ast.Unparen(lhs).(*ast.SelectorExpr)
				if identObj(p, lse.X) != recvObj {
					continue
				}
				if i >= len(s.Rhs) {
					continue
				}
				rf := selField(p, s.Rhs[i])
				construct := "store " + lf.Name()
				if rf == nil || identObj(p, ast.Unparen(s.Rhs[i]).(*ast.SelectorExpr).X) != paramObj {
					r.Bad("C17/merge", construct, c.Pos(s.Pos()), fmt.Sprintf("p.%s is assigned from something other than a field of the variant", lf.Name()))
					continue
				}
				if rf != lf {
					r.Bad("C17/merge", construct, c.Pos(s.Pos()), fmt.Sprintf("p.%s is assigned from v.%s: a variant section replaces a different section", lf.Name(), rf.Name()))
					continue
				}
				// guarded by a condition mentioning v.<same field>
				guarded := false
				for _, cd := range conds {
					ast.Inspect(cd, func(n ast.Node) bool {
						if e, ok := n.(ast.Expr); ok {
							if f := selField(p, e); f == lf {
								if identObj(p, ast.Unparen(e).(*ast.SelectorExpr).X) == paramObj {
									guarded = true
								}
							}
						}
						return true
					})
				}
				if !guarded {
					r.Bad("C17/merge", construct, c.Pos(s.Pos()), fmt.Sprintf("p.%s = v.%s is not guarded by a test of v.%s: a variant that does not define the section erases it", lf.Name(), rf.Name(), lf.Name()))
					continue
				}
				// ... and by no condition over another section of the variant: each section is merged on its own
				foreign := ""
				for _, cd := range conds {
					ast.Inspect(cd, func(n ast.Node) bool {
						if e, ok := n.(ast.Expr); ok {
							if f := selField(p, e); f != nil && f != lf && want[f.Name()] {
								if se, isSel := ast.Unparen(e).(*ast.SelectorExpr); isSel && identObj(p, se.X) == paramObj {
									foreign = f.Name()
								}
							}
						}
						return true
					})
				}
				if foreign != "" {
					r.Bad("C17/merge", construct, c.Pos(s.Pos()), fmt.Sprintf("p.%s = v.%s additionally depends on the variant's %s: a variant that overrides only %s (and inherits the rest) has no effect", lf.Name(), rf.Name(), foreign, lf.Name()))
					continue
				}
				merged[lf.Name()] = true
				r.OK("C17/merge", construct, c.Pos(s.Pos()), "same-field, guarded")
			}
		}
	}
	walk(fd.Body, nil)
	for _, k := range keysOf(want) {
		if !merged[k] {
			r.Bad("C17/merge", "section "+k, c.Pos(fd.Pos()), fmt.Sprintf("mergeVariant never merges section %s: a variant defining it has no effect", k))
		}
	}
}

// constStringOrInitVar: a string constant, or a load of a package-level variable that is initialised with a string
// constant and never assigned anywhere else (effectively a constant).
func (c *Ctx) constStringOrInitVar(v ssa.Value) (string, bool) {
	if s, ok := constString(v); ok {
		return s, true
	}
	u, ok := v.(*ssa.UnOp)
	if !ok {
		return "", false
	}
	g, ok := u.X.(*ssa.Global)
	if !ok || g.Pkg == nil {
		return "", false
	}
	val, n := "", 0
	for _, m := range g.Pkg.Members {
		fn, ok := m.(*ssa.Function)
		if !ok {
			continue
		}
		for _, f := range append([]*ssa.Function{fn}, AnonFuncsDeep(fn)...) {
			allInstrs(f, func(in ssa.Instruction) {
				if st, ok := in.(*ssa.Store); ok && st.Addr == ssa.Value(g) {
					n++
					if s, isC := constString(st.Val); isC && f.Name() == "init" {
						val = s
					} else {
						n += 100
					}
				}
			})
		}
	}
	// methods are not package members: scan library functions of the package too
	for _, f := range c.LibFns {
		if f.Pkg != g.Pkg || f.Signature.Recv() == nil {
			continue
		}
		allInstrs(f, func(in ssa.Instruction) {
			if st, ok := in.(*ssa.Store); ok && st.Addr == ssa.Value(g) {
				n += 100
			}
		})
	}
	if n == 1 {
		return val, true
	}
	return "", false
}
