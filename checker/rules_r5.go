package main

// Rules added after the fifth round of independently seeded changes.

import (
	"fmt"
	"go/constant"
	"go/types"
	"regexp/syntax"
	"strings"

	"golang.org/x/tools/go/ssa"
)

// ---- patternRe recompiled on every UpdatePrivileges ---------------------------------------------

func checkPatternRecompiled(c *Ctx, r *Report, rule string) {
	fn := c.LookupFunc("driver/network", "Driver", "buildPrivGraph")
	f := c.LookupField("driver/network", "PrivilegeLevel", "patternRe")
	if fn == nil || f == nil {
		r.Anchor(rule, "(*network.Driver).buildPrivGraph / PrivilegeLevel.patternRe")
		return
	}
	construct := "buildPrivGraph compiles every level's pattern on every call"
	n := 0
	allInstrs(fn, func(in ssa.Instruction) {
		ff, _, _, ok := fieldStore(in)
		if !ok || ff != f {
			return
		}
		n++
		var extra []string
		for _, ec := range edgeConds(in.Block()) {
			v, _ := unwrapNot(ec.Cond)
			if ex, ok := v.(*ssa.Extract); ok {
				if _, isNext := ex.Tuple.(*ssa.Next); isNext {
					continue
				}
			}
			if bo, ok := v.(*ssa.BinOp); ok && rangeHeader(bo.X) != nil {
				continue
			}
			extra = append(extra, v.String())
		}
		if len(extra) > 0 {
			r.Bad(rule, construct, c.Pos(in.Pos()), "the compiled pattern of a level is only (re)built under a condition ("+strings.Join(extra, ", ")+"): after a level's Pattern was edited and UpdatePrivileges called, the joined prompt pattern follows the new text while the level is still recognised with the stale regexp -- the current level is mis-identified")
		} else {
			r.OK(rule, construct, c.Pos(in.Pos()), "unconditional inside the loop over the levels")
		}
	})
	if n == 0 {
		r.Unk(rule, construct, c.Pos(fn.Pos()), "buildPrivGraph does not assign patternRe")
	}
}

// ---- AcquirePriv always asks the device -----------------------------------------------------------

func checkAcquireAlwaysFetchesPrompt(c *Ctx, r *Report, rule string) {
	fn := c.LookupFunc("driver/network", "Driver", "AcquirePriv")
	gp := c.LookupFunc("channel", "Channel", "GetPrompt")
	ggp := c.LookupFunc("driver/generic", "Driver", "GetPrompt")
	if fn == nil || gp == nil {
		r.Anchor(rule, "(*network.Driver).AcquirePriv / (*channel.Channel).GetPrompt")
		return
	}
	construct := "AcquirePriv reads the prompt before it reports success"
	isFetch := func(in ssa.Instruction) bool {
		ci, ok := in.(*ssa.Call)
		if !ok {
			return false
		}
		sc := ci.Call.StaticCallee()
		return sc != nil && (sc == gp || sc == ggp)
	}
	rr := reachFrom(fn, nil, isFetch, nil)
	var bad ssa.Instruction
	for _, b := range fn.Blocks {
		for _, in := range b.Instrs {
			ret, ok := in.(*ssa.Return)
			if !ok || !rr.visited[in] || len(ret.Results) != 1 || (len(b.Preds) == 0 && b.Index != 0) {
				continue
			}
			if isNilConst(ret.Results[0]) {
				bad = in
			}
		}
	}
	if bad != nil {
		r.Bad(rule, construct, c.Pos(bad.Pos()), "AcquirePriv can report success without having fetched the device's prompt (e.g. because the cached level already equals the target): whatever earlier operations or the device itself did to the level goes unnoticed, and on a lost connection the call still 'succeeds'", rr.witness(c, bad)...)
	} else {
		r.OK(rule, construct, c.Pos(fn.Pos()), "every success return follows a GetPrompt")
	}
}

// ---- the deferred cleanup of netconf Open keeps the verdict ----------------------------------------

func checkOpenCleanupKeepsError(c *Ctx, r *Report, rule string) {
	fn := c.LookupFunc("driver/netconf", "Driver", "Open")
	chClose := c.LookupFunc("channel", "Channel", "Close")
	if fn == nil || chClose == nil {
		r.Anchor(rule, "(*netconf.Driver).Open / (*channel.Channel).Close")
		return
	}
	construct := "netconf Open's cleanup keeps the error it is cleaning up for"
	n := 0
	for _, an := range AnonFuncsDeep(fn) {
		if len(staticCallsTo(an, chClose)) == 0 {
			continue
		}
		n++
		bad := false
		pos := c.Pos(an.Pos())
		allInstrs(an, func(in ssa.Instruction) {
			st, ok := in.(*ssa.Store)
			if !ok || !isErrorType(st.Val.Type()) {
				return
			}
			if fv, ok := st.Addr.(*ssa.FreeVar); ok && isErrorType(types.Unalias(fv.Type().(*types.Pointer).Elem())) {
				bad = true
				pos = c.Pos(in.Pos())
			}
		})
		if bad {
			r.Bad(rule, construct, pos, "the deferred clean-up assigns the function's error result: when closing the channel fails too (the peer has hung up), the negotiation's verdict -- the NETCONF error -- is replaced by the transport's close error and errors.Is(err, ErrNetconfError) no longer holds")
		} else {
			r.OK(rule, construct, pos, "closes the channel and leaves the result alone")
		}
	}
	if n == 0 {
		// clean-up written out on each failing path: the close's own error must not be what is returned
		closes := staticCallsTo(fn, chClose)
		if len(closes) == 0 {
			r.Unk(rule, construct, c.Pos(fn.Pos()), "Open never closes the channel")
			return
		}
		bad := false
		for _, ci := range closes {
			call, ok := ci.(*ssa.Call)
			if !ok {
				continue
			}
			allInstrs(fn, func(in ssa.Instruction) {
				if ret, isRet := in.(*ssa.Return); isRet {
					for _, rv := range ret.Results {
						if rv == ssa.Value(call) {
							bad = true
						}
						if phi, isPhi := rv.(*ssa.Phi); isPhi {
							for _, e := range phi.Edges {
								if e == ssa.Value(call) {
									bad = true
								}
							}
						}
					}
				}
			})
		}
		if bad {
			r.Bad(rule, construct, c.Pos(closes[0].Pos()), "Open returns the error of closing the channel in place of the error it is cleaning up for")
		} else {
			r.OK(rule, construct, c.Pos(closes[0].Pos()), "explicit clean-up: the close's own result is discarded")
		}
	}
}

// ---- in-channel auth data wiring -------------------------------------------------------------------

func checkAuthDataWiring(c *Ctx, r *Report, rule string) {
	fn := c.LookupFunc("transport", "Transport", "InChannelAuthData")
	if fn == nil {
		r.Anchor(rule, "(*transport.Transport).InChannelAuthData")
		return
	}
	want := map[string]string{"User": "User", "Password": "Password", "PrivateKeyPassPhrase": "PrivateKeyPassPhrase"}
	seen := map[string]bool{}
	var probs []string
	allInstrs(fn, func(in ssa.Instruction) {
		f, base, v, ok := fieldStore(in)
		if !ok || typeShort(base.Type()) != "transport.InChannelAuthData" {
			return
		}
		src, known := want[f.Name()]
		if !known {
			return
		}
		if cs, isC := constString(v); isC && cs == "" {
			return // the zero value of the composite literal
		}
		seen[f.Name()] = true
		if sf, _, isLoad := fieldLoad(stripConv(v)); !isLoad || sf.Name() != src {
			what := v.String()
			if isLoad {
				what = "the " + sf.Name() + " setting"
			}
			probs = append(probs, fmt.Sprintf("%s is filled from %s (%s)", f.Name(), what, c.Pos(in.Pos())))
		}
	})
	for k := range want {
		if !seen[k] {
			probs = append(probs, k+" is never filled")
		}
	}
	construct := "InChannelAuthData carries each credential in its own field"
	if len(probs) > 0 {
		r.Bad(rule, construct, c.Pos(fn.Pos()), strings.Join(probs, "; ")+": the login dialogue answers each prompt from its own field, so a credential filled from another setting is typed at a prompt that did not ask for it")
	} else {
		r.OK(rule, construct, c.Pos(fn.Pos()), "User<-User, Password<-Password, PrivateKeyPassPhrase<-PrivateKeyPassPhrase")
	}
}

// ---- exact echo matcher argument order ------------------------------------------------------------

func checkExplicitMatcherArgs(c *Ctx, r *Report, rule string) {
	fn := c.LookupFunc("channel", "Channel", "ReadUntilExplicit")
	prb := c.LookupFunc("channel", "", "processReadBuf")
	if fn == nil || prb == nil {
		r.Anchor(rule, "(*channel.Channel).ReadUntilExplicit / processReadBuf")
		return
	}
	construct := "ReadUntilExplicit: the window contains the input"
	n := 0
	scan := []*ssa.Function{fn}
	// the test may sit in the match predicate handed to a shared loop helper
	scan = append(scan, AnonFuncsDeep(fn)...)
	for _, g := range scan {
		g := g
		allInstrs(g, func(in ssa.Instruction) {
			call, ok := in.(*ssa.Call)
			if !ok {
				return
			}
			o := CalleeObj(call)
			if o == nil || o.Pkg() == nil || o.Pkg().Path() != "bytes" || o.Name() != "Contains" || len(call.Call.Args) != 2 {
				return
			}
			n++
			hay, needle := call.Call.Args[0], call.Call.Args[1]
			hc, isCall := hay.(*ssa.Call)
			if isCall && hc.Call.StaticCallee() == prb && (sameParam(needle, fn.Params[2]) || (g != fn && capturedParam(needle, fn.Params[2]))) {
				r.OK(rule, construct, c.Pos(call.Pos()), "bytes.Contains(processReadBuf(buffer, depth), input)")
			} else {
				r.Bad(rule, construct, c.Pos(call.Pos()), "the exact echo test is not 'the search window contains the input' (arguments swapped or a different haystack): with the roles reversed the wait ends as soon as what was read so far is a fragment of the input, and the return is sent before the device has echoed the command")
			}
		})
	}
	if n == 0 {
		r.Unk(rule, construct, c.Pos(fn.Pos()), "no bytes.Contains test found")
	}
}

// ---- no shadowing of generic settings ------------------------------------------------------------

func checkNoShadowedSettings(c *Ctx, r *Report, rule string) {
	g := c.LookupType("driver/generic", "Driver")
	n := c.LookupType("driver/network", "Driver")
	if g == nil || n == nil {
		r.Anchor(rule, "generic.Driver / network.Driver")
		return
	}
	gs, ok1 := g.Underlying().(*types.Struct)
	ns, ok2 := n.Underlying().(*types.Struct)
	if !ok1 || !ok2 {
		r.Anchor(rule, "generic.Driver / network.Driver structs")
		return
	}
	gf := map[string]*types.Var{}
	for i := 0; i < gs.NumFields(); i++ {
		gf[gs.Field(i).Name()] = gs.Field(i)
	}
	var shadow []string
	for i := 0; i < ns.NumFields(); i++ {
		f := ns.Field(i)
		if f.Embedded() {
			continue
		}
		if o, ok := gf[f.Name()]; ok && types.Identical(o.Type(), f.Type()) {
			shadow = append(shadow, f.Name())
		}
	}
	construct := "network.Driver re-declares no setting of the generic driver it embeds"
	if len(shadow) > 0 {
		r.Bad(rule, construct, c.Pos(n.Obj().Pos()), "network.Driver declares "+strings.Join(shadow, ", ")+" with the same type as the field of the embedded generic.Driver: d."+shadow[0]+" now names the network driver's copy while the generic layer (sendCommand, the options) keeps reading and writing its own -- assigning the setting on a built driver has no effect on how responses are judged")
	} else {
		r.OK(rule, construct, c.Pos(n.Obj().Pos()), "no same-typed re-declaration")
	}
}

// ---- ssh argument lists carry no authentication-steering options of their own -----------------------

func checkNoAuthSteeringArgs(c *Ctx, r *Report, rule string) {
	fn := c.LookupFunc("transport", "System", "buildOpenArgs")
	if fn == nil {
		r.Anchor(rule, "(*transport.System).buildOpenArgs")
		return
	}
	deny := []string{"PreferredAuthentications", "PubkeyAuthentication", "PasswordAuthentication", "KbdInteractiveAuthentication", "IdentitiesOnly", "IdentityFile", "IdentityAgent", "HostKeyAlgorithms", "GlobalKnownHostsFile", "CheckHostIP", "ProxyCommand", "ProxyJump", "HostName", "HostKeyAlias", "VerifyHostKeyDNS", "UpdateHostKeys", "NoHostAuthenticationForLocalhost"}
	var hits []string
	pos := c.Pos(fn.Pos())
	allInstrs(fn, func(in ssa.Instruction) {
		for _, op := range in.Operands(nil) {
			if op == nil || *op == nil {
				continue
			}
			s, ok := constString(*op)
			if !ok {
				continue
			}
			for _, d := range deny {
				if strings.HasPrefix(s, d+"=") || strings.HasPrefix(s, d+" ") || s == d {
					hits = append(hits, s)
					pos = c.Pos(in.Pos())
				}
			}
		}
	})
	construct := "buildOpenArgs leaves the choice of credentials to what was configured"
	if len(hits) > 0 {
		r.Bad(rule, construct, pos, "the ssh argument list carries "+strings.Join(uniq(hits), ", ")+": this overrides how ssh authenticates / identifies the host beyond the configured key, known-hosts file and config file (e.g. a configured key is never offered, or a different host key is accepted)")
	} else {
		r.OK(rule, construct, c.Pos(fn.Pos()), "no authentication- or host-identity-steering -o option is added")
	}
}

// ---- only Close closes the pty --------------------------------------------------------------------

func checkFileClosedOnlyByClose(c *Ctx, r *Report, rule string) {
	pkg := c.SSAPkg[modPath+"/transport"]
	if pkg == nil {
		r.Anchor(rule, "package transport")
		return
	}
	var others []string
	pos := "-"
	n := 0
	for _, fn := range c.LibFns {
		if fn.Pkg != pkg {
			continue
		}
		for _, ci := range callInstrs(fn) {
			o := CalleeObj(ci)
			if o == nil || o.Pkg() == nil || o.Pkg().Path() != "os" || o.Name() != "Close" {
				continue
			}
			n++
			root := fn
			for root.Parent() != nil {
				root = root.Parent()
			}
			if root.Name() != "Close" {
				others = append(others, shortFn(fn)+" ("+c.Pos(ci.Pos())+")")
				pos = c.Pos(ci.Pos())
			}
		}
	}
	construct := "the pty / file of a transport is closed only by its Close method"
	switch {
	case n == 0:
		r.Unk(rule, construct, "-", "no (*os.File).Close call found in package transport")
	case len(others) > 0:
		r.Bad(rule, construct, pos, "an *os.File of the transport package is also closed in "+strings.Join(others, ", ")+": closing the pty when the child exits (instead of when the user closes the transport) throws away what the peer sent last and is still buffered in the pty -- reads get 'file already closed' instead of the data")
	default:
		r.OK(rule, construct, "-", fmt.Sprintf("%d close call(s), all inside Close methods", n))
	}
}

// ---- the ANSI pattern cannot run across another escape sequence ------------------------------------

func checkANSIPatternBounded(c *Ctx, r *Report, rule string) {
	co := c.LookupConst("util", "ansi")
	if co == nil {
		r.Anchor(rule, "util.ansi")
		return
	}
	pat := constant.StringVal(co.Val())
	re, err := syntax.Parse(pat, syntax.Perl)
	if err != nil {
		r.Bad(rule, "ANSI pattern", c.Pos(co.Pos()), "does not compile: "+err.Error())
		return
	}
	var admits func(x *syntax.Regexp, b rune) bool
	admits = func(x *syntax.Regexp, b rune) bool {
		switch x.Op {
		case syntax.OpAnyChar, syntax.OpAnyCharNotNL:
			return true
		case syntax.OpCharClass:
			for i := 0; i+1 < len(x.Rune); i += 2 {
				if x.Rune[i] <= b && b <= x.Rune[i+1] {
					return true
				}
			}
		case syntax.OpLiteral:
			for _, rr := range x.Rune {
				if rr == b {
					return true
				}
			}
		default:
			for _, s := range x.Sub {
				if admits(s, b) {
					return true
				}
			}
		}
		return false
	}
	bad := false
	var walk func(x *syntax.Regexp)
	walk = func(x *syntax.Regexp) {
		switch x.Op {
		case syntax.OpStar, syntax.OpPlus:
			if admits(x.Sub[0], 0x1b) || admits(x.Sub[0], '\n') {
				bad = true
			}
		case syntax.OpRepeat:
			if (x.Max == -1 || x.Max > 8) && (admits(x.Sub[0], 0x1b) || admits(x.Sub[0], '\n')) {
				bad = true
			}
		}
		for _, s := range x.Sub {
			walk(s)
		}
	}
	walk(re)
	construct := "ANSI pattern: no unbounded repetition can run across ESC or a line end"
	if bad {
		r.Bad(rule, construct, c.Pos(co.Pos()), "a repetition inside the escape-sequence pattern admits ESC (or newline): one match can then run from one escape sequence across ordinary output -- and across the prompt -- to a later terminator (BEL) in the same read, and everything in between is deleted before it is queued")
	} else {
		r.OK(rule, construct, c.Pos(co.Pos()), "every repeated class excludes ESC and newline")
	}
}
