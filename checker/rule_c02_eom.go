package main

// C02/eom-whole-buffer — the NETCONF reader looks for the end-of-message marker in the whole accumulated message.

import (
	"fmt"

	"golang.org/x/tools/go/ssa"
)

// checkEOMWholeBuffer: the framing patterns are anchored (`(?m)^##$`, `]]>]]>` at a line end); applied to a window
// that starts in the middle of the buffer, `^` also matches at the window start, so a payload line that merely
// ends in "##" is taken for the end-of-chunks marker and a legal reply is cut short. Every use of the channel's
// prompt (= delimiter) pattern in the reader must therefore be given the accumulation itself.
func checkEOMWholeBuffer(c *Ctx, r *Report) {
	rule := "C02/eom-whole-buffer"
	read := c.LookupFunc("driver/netconf", "Driver", "read")
	chRead := c.LookupFunc("channel", "Channel", "Read")
	pp := c.LookupField("channel", "Channel", "PromptPattern")
	if read == nil || chRead == nil || pp == nil {
		r.Anchor(rule, "(*netconf.Driver).read / (*channel.Channel).Read / channel.Channel.PromptPattern")
		return
	}
	fresh := map[ssa.Value]bool{}
	for _, ci := range staticCallsTo(read, chRead) {
		if call, ok := ci.(*ssa.Call); ok {
			if v := resultOf(call, 0); v != nil {
				fresh[v] = true
			}
		}
	}
	acc := map[ssa.Value]bool{}
	allInstrs(read, func(in ssa.Instruction) {
		if call, ok := in.(*ssa.Call); ok {
			if b, ok := call.Call.Value.(*ssa.Builtin); ok && b.Name() == "append" && len(call.Call.Args) == 2 && fresh[call.Call.Args[1]] {
				acc[call] = true
			}
		}
	})
	if len(acc) == 0 {
		r.Unk(rule, shortFn(read), c.Pos(read.Pos()), "the reader does not accumulate with append(buffer, read...): the idiom is not one the rule knows")
		return
	}
	n := 0
	allInstrs(read, func(in ssa.Instruction) {
		call, ok := in.(*ssa.Call)
		if !ok {
			return
		}
		o := CalleeObj(call)
		var arg ssa.Value
		if o != nil && o.Pkg() != nil && o.Pkg().Path() == "regexp" && len(call.Call.Args) >= 2 {
			if f, _, ok := fieldLoad(call.Call.Args[0]); !ok || f != pp {
				return
			}
			if o.Name() != "Match" && o.Name() != "Find" && o.Name() != "FindIndex" && o.Name() != "MatchString" {
				return
			}
			arg = stripConv(call.Call.Args[1])
		} else if isDelimiterTest(call, pp, 0) {
			// the test lives in a helper of the reader: what the helper is given is what is tested
			for _, a := range call.Call.Args {
				if elemBasicKind(a.Type()) == "byte" || elemBasicKind(a.Type()) == "uint8" {
					arg = stripConv(a)
				}
			}
		}
		if arg == nil {
			return
		}
		n++
		construct := fmt.Sprintf("end-of-message test #%d in %s", n, shortFn(read))
		// leaves of the argument (through phis): the accumulation itself, what is left of it after the echo was cut
		// off its FRONT (both are "everything from some message boundary to the end"), or -- the defect -- a window
		// taken from the TAIL (a slice whose low bound is computed from the length)
		var leaves []ssa.Value
		seen := map[ssa.Value]bool{}
		var flat func(v ssa.Value)
		flat = func(v ssa.Value) {
			v = stripConv(v)
			if seen[v] {
				return
			}
			seen[v] = true
			if phi, ok := v.(*ssa.Phi); ok {
				for _, e := range phi.Edges {
					flat(e)
				}
				return
			}
			leaves = append(leaves, v)
		}
		flat(arg)
		tailWindow := false
		var lenDerived func(v ssa.Value, d int) bool
		lenDerived = func(v ssa.Value, d int) bool {
			if d > 4 {
				return false
			}
			switch x := v.(type) {
			case *ssa.Call:
				if bi, ok := x.Call.Value.(*ssa.Builtin); ok && bi.Name() == "len" {
					return true
				}
			case *ssa.BinOp:
				return lenDerived(x.X, d+1) || lenDerived(x.Y, d+1)
			case *ssa.Phi:
				for _, e := range x.Edges {
					if lenDerived(e, d+1) {
						return true
					}
				}
			}
			return false
		}
		isTail := func(v ssa.Value) bool {
			sl, ok := v.(*ssa.Slice)
			return ok && sl.Low != nil && lenDerived(sl.Low, 0)
		}
		for _, l := range leaves {
			if isTail(l) {
				tailWindow = true
			}
			// a helper of the library that hands back a tail slice of its argument
			if hc, ok := l.(*ssa.Call); ok {
				if sc := hc.Call.StaticCallee(); sc != nil && sc.Pkg != nil && isLibPkgPath(sc.Pkg.Pkg.Path()) && sc.Blocks != nil {
					allInstrs(sc, func(i2 ssa.Instruction) {
						if ret, ok := i2.(*ssa.Return); ok {
							for _, rv := range ret.Results {
								rv = stripConv(rv)
								if u, ok := rv.(*ssa.UnOp); ok {
									if a, ok := u.X.(*ssa.Alloc); ok {
										if v := lastStoreBefore(a, u); v != nil {
											rv = v
										}
									}
								}
								if isTail(rv) {
									tailWindow = true
								}
								if phi, ok := rv.(*ssa.Phi); ok {
									for _, e := range phi.Edges {
										if isTail(stripConv(e)) {
											tailWindow = true
										}
									}
								}
							}
						}
					})
				}
			}
		}
		if !tailWindow {
			r.OK(rule, construct, c.Pos(call.Pos()), "applied to the accumulated buffer (or to what is left of it behind the echo), never to a tail window")
		} else {
			r.Bad(rule, construct, c.Pos(call.Pos()), "the anchored end-of-message pattern is applied to a window taken from the tail of the accumulated buffer: where the window starts inside a line, `^` matches there and payload text such as a line ending in \"##\" is taken for the marker -- the reply is cut and the rest of it is filed as a separate, broken message")
		}
	})
	if n == 0 {
		r.Unk(rule, shortFn(read), c.Pos(read.Pos()), "no use of the delimiter pattern found in the reader")
	}
}
