package main

// C16/close-no-wait — Close of a built-in transport never waits for the peer before it has released the connection:
// it is the closing of the socket / pty that unblocks a parked read, so a wait-for-peer call in front of it turns
// "the peer went silent" into "Close and the blocked read hang forever".

import (
	"fmt"
	"strings"

	"golang.org/x/tools/go/ssa"
)

// waitsForPeer: name of a blocking wait-for-peer API the call resolves to, or "".
func waitsForPeer(call ssa.CallInstruction) string {
	com := call.Common()
	name, pkg, recv := "", "", ""
	if com.IsInvoke() {
		name = com.Method.Name()
		if com.Method.Pkg() != nil {
			pkg = com.Method.Pkg().Path()
		}
		recv = com.Value.Type().String()
	} else if o := CalleeObj(call); o != nil {
		name = o.Name()
		if o.Pkg() != nil {
			pkg = o.Pkg().Path()
		}
		if sc := com.StaticCallee(); sc != nil && sc.Signature.Recv() != nil {
			recv = sc.Signature.Recv().Type().String()
		}
	}
	switch {
	case name == "Wait" && (strings.Contains(pkg, "crypto/ssh") || pkg == "os/exec" || pkg == "os" || pkg == "sync"):
		return recv + ".Wait"
	case pkg == "io" && (name == "Copy" || name == "ReadAll" || name == "ReadFull" || name == "CopyN"):
		return "io." + name
	case (name == "Read" || name == "ReadString" || name == "ReadBytes") && (com.IsInvoke() || pkg == "os" || pkg == "net" || pkg == "bufio" || strings.Contains(pkg, "crypto/ssh")):
		return recv + "." + name
	case name == "CombinedOutput" || name == "Output" || name == "Run":
		if pkg == "os/exec" || strings.Contains(pkg, "crypto/ssh") {
			return recv + "." + name
		}
	}
	return ""
}

func checkCloseNoWait(c *Ctx, r *Report) { checkCloseNoWaitAs(c, r, "C16/close-no-wait") }

func checkCloseNoWaitAs(c *Ctx, r *Report, rule string) {
	for _, impl := range []string{"System", "Standard", "Telnet"} {
		fn := c.LookupFunc("transport", impl, "Close")
		if fn == nil {
			r.Anchor(rule, "(*transport."+impl+").Close")
			continue
		}
		construct := "transport." + impl + ".Close"
		// Close and the library functions it calls (bounded, library code only)
		seen := map[*ssa.Function]bool{}
		var bad []string
		var badPos string
		var visit func(f *ssa.Function, d int)
		visit = func(f *ssa.Function, d int) {
			if f == nil || seen[f] || d > 4 || f.Blocks == nil {
				return
			}
			seen[f] = true
			for _, ci := range callInstrs(f) {
				if _, isGo := ci.(*ssa.Go); isGo {
					continue
				}
				if w := waitsForPeer(ci); w != "" {
					bad = append(bad, w)
					if badPos == "" {
						badPos = c.Pos(ci.Pos())
					}
					continue
				}
				if sc := ci.Common().StaticCallee(); sc != nil && sc.Pkg != nil && isLibPkgPath(sc.Pkg.Pkg.Path()) {
					visit(sc, d+1)
				}
			}
			for _, an := range f.AnonFuncs {
				visit(an, d+1)
			}
		}
		visit(fn, 0)
		if len(bad) > 0 {
			r.Bad(rule, construct, badPos, fmt.Sprintf("Close waits for the peer (%s) : with a device that went silent (hung, path gone without FIN/RST) the wait never ends, the connection is never torn down and the read parked in the transport stays blocked forever", strings.Join(uniq(bad), ", ")))
		} else {
			r.OK(rule, construct, c.Pos(fn.Pos()), fmt.Sprintf("%d function(s) inspected: no wait-for-peer call", len(seen)))
		}
	}
}

// checkSystemKeepalive: the ssh child of the system transport is the only thing that can end a read blocked on the
// pty when the peer vanishes silently; it does so only if it probes the peer. Every argument list built by
// buildOpenArgs therefore carries -o ServerAliveInterval=<socket timeout> (and -o ConnectTimeout=<socket timeout>),
// whatever else is configured.
func checkSystemKeepalive(c *Ctx, r *Report) {
	rule := "C16/system-keepalive"
	fn := c.LookupFunc("transport", "System", "buildOpenArgs")
	if fn == nil {
		r.Anchor(rule, "(*transport.System).buildOpenArgs")
		return
	}
	paths := EnumeratePaths(c, fn, &dtConfig{IsAtomCall: atomsExcept()})
	a := "param:" + fn.Params[1].Name()
	want := `fmt.Sprintf("ServerAliveInterval=%d",{time.Duration.Seconds(` + a + `.TimeoutSocket)})`
	n, missing := 0, 0
	example := ""
	for _, p := range paths {
		if p.Undecided != "" {
			r.Unk(rule, "buildOpenArgs paths", c.Pos(fn.Pos()), "path enumeration left the vocabulary: "+p.Undecided)
			return
		}
		n++
		final, ok := lastStore(p, ".OpenArgs")
		if !ok {
			continue
		}
		args := flattenAppend(final)
		found := false
		for i := 0; i+1 < len(args); i++ {
			if args[i] == `"-o"` && normFmtKey(args[i+1]) == normFmtKey(want) {
				found = true
			}
		}
		if !found {
			missing++
			if example == "" {
				example = fmt.Sprint(p.Assume)
			}
		}
	}
	switch {
	case n == 0:
		r.Unk(rule, "buildOpenArgs paths", c.Pos(fn.Pos()), "no paths enumerated")
	case missing > 0:
		r.Bad(rule, "ssh keepalive on every argument list", c.Pos(fn.Pos()), fmt.Sprintf("%d of %d argument lists do not pass -o ServerAliveInterval=<socket timeout> (e.g. when %s): with such a configuration ssh never notices a peer that vanished without FIN/RST, so the read blocked on the pty never returns", missing, n, example))
	default:
		r.OK(rule, "ssh keepalive on every argument list", c.Pos(fn.Pos()), fmt.Sprintf("all %d argument lists carry -o ServerAliveInterval=<socket timeout>", n))
	}
}
