package main

// C20 — the channel's byte queue is a lossless FIFO under concurrent use.

import (
	"fmt"
	"go/token"
	"go/types"
	"strings"

	"golang.org/x/tools/go/ssa"
)

func init() {
	register(&Property{
		ID:  "C20",
		Run: runC20,
		Explanation: "Discipline rules over the SSA of util.Queue, valid for every interleaving because no schedule is enumerated: " +
			"locked — every access to the chunk list and depth holds the queue lock (write lock for writes), by a must-held lockset dataflow; " +
			"token — the depth mailbox is a 1-slot channel primed once; every receive from it is followed on all paths by exactly one send with no lock acquisition or other channel operation in between (so the mailbox can never block for long and lock->token order is fixed: no deadlock); " +
			"republish — every critical section that changes the list also updates depth and republishes that depth; " +
			"non-blocking-empty — Dequeue/DequeueAll return nil on zero depth before locking and index 0 is only read on the non-zero edge; " +
			"roles — one producer function, one consumer entry per operation (who-may-call); " +
			"fifo-shape — Enqueue appends at the tail, Requeue builds [b]++list, Dequeue takes element 0 and keeps list[1:], DequeueAll joins the old list and resets list and depth; depth moves by exactly +1/-1/=0. " +
			"NOT decided: byte-for-byte equality of consumed and produced streams as a run-time value statement (it follows from fifo-shape + locked for the single-producer/single-consumer roles, which is the argument, not a measurement).",
		Assumptions: []string{"sync.RWMutex and channel semantics of the Go memory model", "the queue is used only through its methods (fields are unexported)"},
		Mutants: []Mutant{
			{ID: "C20-lock-order-inverted", Desc: "the NETCONF stores take their two locks in opposite orders (a reply that is also a notification is filed under both)", Rule: "C20/lock-order",
				Edits: []Edit{{File: "driver/netconf/driver.go", Old: "\td.messagesLock.Lock()\n\tdefer d.messagesLock.Unlock()\n\n\td.messages[i] = b\n", New: "\td.messagesLock.Lock()\n\tdefer d.messagesLock.Unlock()\n\n\td.subscriptionsLock.Lock()\n\t_, isSub := d.subscriptions[i]\n\td.subscriptionsLock.Unlock()\n\n\tif isSub {\n\t\treturn\n\t}\n\n\td.messages[i] = b\n"},
					{File: "driver/netconf/driver.go", Old: "\td.subscriptionsLock.Lock()\n\tdefer d.subscriptionsLock.Unlock()\n\n\td.subscriptions[i] = append(d.subscriptions[i], b)\n", New: "\td.subscriptionsLock.Lock()\n\tdefer d.subscriptionsLock.Unlock()\n\n\td.messagesLock.Lock()\n\tdelete(d.messages, i)\n\td.messagesLock.Unlock()\n\n\td.subscriptions[i] = append(d.subscriptions[i], b)\n"}}},
			{ID: "C20-getdepth-relocks", Desc: "Queue.GetDepth calls a helper that takes the read lock again", Rule: "C20/no-reentrant-lock",
				Edits: []Edit{{File: "util/queue.go", Old: "\tq.lock.RLock()\n\tdefer q.lock.RUnlock()\n\n\treturn q.depth\n}\n", New: "\tq.lock.RLock()\n\tdefer q.lock.RUnlock()\n\n\treturn q.getDepth()\n}\n"},
					{File: "util/queue.go", Old: "\td := <-q.depthChan\n\tq.depthChan <- d\n\n\treturn d\n", New: "\tq.lock.RLock()\n\tdefer q.lock.RUnlock()\n\n\treturn q.depth\n"}}},
			{ID: "C20-readall-exited-gate", Desc: "ReadAll refuses to drain once the reader has exited", Rule: "C20/readall-drains",
				Edits: []Edit{{File: "channel/read.go", Old: "\tdefault:\n\t}\n\n\tb := c.Q.DequeueAll()", New: "\tdefault:\n\t}\n\n\tif c.readLoopExited {\n\t\treturn nil, util.ErrConnectionError\n\t}\n\n\tb := c.Q.DequeueAll()"}}},
			{ID: "C20-value-receiver", Desc: "Queue.GetDepth takes the queue by value", Rule: "C20/pointer-receivers",
				Edits: []Edit{{File: "util/queue.go", Old: "func (q *Queue) GetDepth() int {", New: "func (q Queue) GetDepth() int {"}}},
			{ID: "C20-dequeue-before-error-poll", Desc: "Channel.Read dequeues before polling the error channel and drops the chunk when an error is pending", Rule: "C20/dequeued-returned",
				Edits: []Edit{{File: "channel/read.go", Old: "func (c *Channel) Read() ([]byte, error) {\n\tselect {\n\tcase err := <-c.Errs:\n\t\treturn nil, err\n\tdefault:\n\t}\n\n\tif c.readLoopExited {\n\t\treturn nil, util.ErrConnectionError\n\t}\n\n\tb := c.Q.Dequeue()\n", New: "func (c *Channel) Read() ([]byte, error) {\n\tb := c.Q.Dequeue()\n\n\tselect {\n\tcase err := <-c.Errs:\n\t\treturn nil, err\n\tdefault:\n\t}\n\n\tif c.readLoopExited {\n\t\treturn nil, util.ErrConnectionError\n\t}\n"}}},
			{ID: "C20-publish-after-unlock", Desc: "Dequeue publishes the new depth after releasing the lock", Rule: "C20/token",
				Edits: []Edit{{File: "util/queue.go", Old: "\tq.lock.Lock()\n\tdefer q.lock.Unlock()\n\n\tb := q.queue[0]\n\n\tq.queue = q.queue[1:]\n\tq.depth--\n\n\t<-q.depthChan\n\tq.depthChan <- q.depth\n", New: "\tq.lock.Lock()\n\n\tb := q.queue[0]\n\n\tq.queue = q.queue[1:]\n\tq.depth--\n\tdepth := q.depth\n\n\tq.lock.Unlock()\n\n\t<-q.depthChan\n\tq.depthChan <- depth\n"}}},
			{ID: "C20-requeue-nolock", Desc: "Requeue without the lock", Rule: "C20/locked",
				Edits: []Edit{{File: "util/queue.go", Old: "func (q *Queue) Requeue(b []byte) {\n\tq.lock.Lock()\n\tdefer q.lock.Unlock()\n", New: "func (q *Queue) Requeue(b []byte) {\n"}}},
			{ID: "C20-dequeue-rlock", Desc: "Dequeue mutates under the read lock", Rule: "C20/locked",
				Edits: []Edit{{File: "util/queue.go", Old: "\tq.lock.Lock()\n\tdefer q.lock.Unlock()\n\n\tb := q.queue[0]", New: "\tq.lock.RLock()\n\tdefer q.lock.RUnlock()\n\n\tb := q.queue[0]"}}},
			{ID: "C20-enqueue-norepublish", Desc: "Enqueue does not republish the depth", Rule: "C20/republish",
				Edits: []Edit{{File: "util/queue.go", Old: "\tq.queue = append(q.queue, b)\n\tq.depth++\n\n\t<-q.depthChan\n\tq.depthChan <- q.depth\n", New: "\tq.queue = append(q.queue, b)\n\tq.depth++\n"}}},
			{ID: "C20-requeue-tail", Desc: "Requeue puts the chunk at the tail", Rule: "C20/fifo-shape",
				Edits: []Edit{{File: "util/queue.go", Old: "\tn := [][]byte{b}\n\tq.queue = append(n, q.queue...)", New: "\tn := [][]byte{b}\n\tq.queue = append(q.queue, n...)"}}},
			{ID: "C20-dequeueall-keeps", Desc: "DequeueAll does not clear the list", Rule: "C20/fifo-shape",
				Edits: []Edit{{File: "util/queue.go", Old: "\tb := q.queue\n\n\tq.queue = nil\n", New: "\tb := q.queue\n"}}},
			{ID: "C20-getdepth-noputback", Desc: "getDepth keeps the token on one path", Rule: "C20/token",
				Edits: []Edit{{File: "util/queue.go", Old: "\td := <-q.depthChan\n\tq.depthChan <- d\n", New: "\td := <-q.depthChan\n\tif d > 1024 {\n\t\treturn d\n\t}\n\tq.depthChan <- d\n"}}},
			{ID: "C20-token-before-lock", Desc: "token taken before the lock (lock order inversion)", Rule: "C20/token",
				Edits: []Edit{{File: "util/queue.go", Old: "func (q *Queue) Enqueue(b []byte) {\n\tq.lock.Lock()\n\tdefer q.lock.Unlock()\n\n\tq.queue = append(q.queue, b)\n\tq.depth++\n\n\t<-q.depthChan\n", New: "func (q *Queue) Enqueue(b []byte) {\n\t<-q.depthChan\n\tq.lock.Lock()\n\tdefer q.lock.Unlock()\n\n\tq.queue = append(q.queue, b)\n\tq.depth++\n\n"}}},
			{ID: "C20-dequeue-last", Desc: "Dequeue takes the newest chunk", Rule: "C20/fifo-shape",
				Edits: []Edit{{File: "util/queue.go", Old: "\tb := q.queue[0]\n\n\tq.queue = q.queue[1:]", New: "\tb := q.queue[len(q.queue)-1]\n\n\tq.queue = q.queue[:len(q.queue)-1]"}}},
			{ID: "C20-unbuffered-mailbox", Desc: "mailbox made unbuffered", Rule: "C20/token",
				Edits: []Edit{{File: "util/queue.go", Old: "depthChan := make(chan int, 1)\n\tdepthChan <- 0", New: "depthChan := make(chan int, 2)\n\tdepthChan <- 0"}}},
			{ID: "C20-depth-skip", Desc: "Requeue forgets the depth", Rule: "C20/",
				Edits: []Edit{{File: "util/queue.go", Old: "\tq.queue = append(n, q.queue...)\n\n\tq.depth++\n", New: "\tq.queue = append(n, q.queue...)\n"}}},
			{ID: "C20-empty-blocks", Desc: "Dequeue locks before testing for empty", Rule: "C20/non-blocking-empty",
				Edits: []Edit{{File: "util/queue.go", Old: "\tif q.getDepth() == 0 {\n\t\treturn nil\n\t}\n\n\tq.lock.Lock()\n\tdefer q.lock.Unlock()\n\n\tb := q.queue[0]", New: "\tq.lock.Lock()\n\tdefer q.lock.Unlock()\n\n\tb := q.queue[0]"}}},
		},
	})
}

func runC20(c *Ctx, r *Report) {
	r.Rule("C20/waitgroup-local", "every WaitGroup of the library belongs to one call (the consumer and the reader goroutine both log while they use the queue)", 1)
	checkWaitGroupAddBeforeGo(c, r, "C20/waitgroup-local")
	r.Rule("C20/readall-drains", "Channel.ReadAll takes everything that is queued unless it received an error from the reader", 1)
	checkReadAllDrains(c, r, "C20/readall-drains")
	r.Rule("C20/no-reentrant-lock", "no method calls, while it holds a lock of its receiver, a method of the same receiver that takes that lock again", 1)
	checkNoReentrantLock(c, r, "C20/no-reentrant-lock", nil)
	r.Rule("C20/lock-order", "the library's mutexes are acquired in one global order (nested acquisitions, directly or through callees, form no cycle)", 1)
	checkLockOrder(c, r, "C20/lock-order")
	importFoundation(c, r, "C20", "read-loop")
	importFoundation(c, r, "C20", "open-cleanup")
	importFoundation(c, r, "C20", "transport-pipe")
	r.Rule("C20/ansi-bounded", "what the read loop strips before queueing cannot span ordinary output: no unbounded repetition of the escape-sequence pattern admits ESC or newline", 1)
	checkANSIPatternBounded(c, r, "C20/ansi-bounded")
	r.Rule("C20/dequeued-returned", "Channel.Read / ReadAll hand their caller whatever they took out of the queue on every path", 2)
	checkDequeuedReturned(c, r, "C20/dequeued-returned")
	r.Rule("C20/pointer-receivers", "every method of the queue has a pointer receiver (a value receiver copies depth and the slice header before the lock is taken)", 1)
	checkPointerReceivers(c, r, "C20/pointer-receivers", func(n *types.Named) bool { return n.Obj().Name() == "Queue" })
	r.Rule("C20/locked", "every access to Queue.queue / Queue.depth holds Queue.lock (write lock for writes)", 8)
	r.Rule("C20/token", "mailbox is 1-slot and primed once; every receive from it is followed on all paths by exactly one send, with no lock acquisition or other channel operation in between", 3)
	r.Rule("C20/republish", "every method that changes the list also stores depth and then sends that depth to the mailbox on every path to its return", 4)
	r.Rule("C20/non-blocking-empty", "Dequeue/DequeueAll return nil on zero depth before locking; the list is only indexed on the non-zero edge", 2)
	r.Rule("C20/roles", "Enqueue is called only by the channel read loop; Dequeue/DequeueAll only by Channel.Read/ReadAll; Requeue only by Channel.Open", 4)
	r.Rule("C20/fifo-shape", "Enqueue appends at the tail, Requeue builds [b]++list, Dequeue returns element 0 and keeps list[1:], DequeueAll joins the old list and resets; depth moves by +1/+1/-1/=0", 4)

	qT := c.LookupType("util", "Queue")
	if qT == nil {
		r.Anchor("C20/locked", "util.Queue")
		return
	}
	fQueue := c.LookupField("util", "Queue", "queue")
	fDepth := c.LookupField("util", "Queue", "depth")
	fChan := c.LookupField("util", "Queue", "depthChan")
	fLock := c.LookupField("util", "Queue", "lock")
	if fQueue == nil || fDepth == nil || fChan == nil || fLock == nil {
		r.Anchor("C20/locked", "util.Queue.{queue,depth,depthChan,lock}")
		return
	}
	lockKey := "util.Queue." + fLock.Name()
	var methods []*ssa.Function
	roots := map[*ssa.Function]bool{}
	calledInLib := map[*ssa.Function]bool{}
	for _, fn := range c.LibFns {
		for _, ci := range callInstrs(fn) {
			if sc := ci.Common().StaticCallee(); sc != nil {
				calledInLib[sc] = true
			}
		}
	}
	for i := 0; i < qT.NumMethods(); i++ {
		fn := c.Prog.FuncValue(qT.Method(i))
		if fn != nil {
			methods = append(methods, fn)
			// an unexported helper that is only ever called from other methods inherits the locks its callers hold
			if qT.Method(i).Exported() || !calledInLib[fn] {
				roots[fn] = true
			}
		}
	}
	if nq := c.LookupFunc("util", "", "NewQueue"); nq != nil {
		roots[nq] = true
	}
	ml := NewMustLocks(c, roots, nil)

	// ---- locked: any function of the library touching the fields
	for _, fn := range c.LibFns {
		n := map[string]int{}
		for _, a := range fieldAccesses(fn) {
			if a.Field != fQueue && a.Field != fDepth {
				continue
			}
			if fn.Name() == "NewQueue" {
				continue // construction: not yet shared
			}
			kind := "read"
			if a.Write {
				kind = "write"
			}
			n[a.Field.Name()+kind]++
			construct := fmt.Sprintf("%s %s %s#%d", shortFn(fn), kind, a.Field.Name(), n[a.Field.Name()+kind])
			held := ml.HeldAt(a.Instr)
			ok := held != nil && (held[lockKey+"/W"] || (!a.Write && held[lockKey+"/R"]))
			if ok {
				r.OK("C20/locked", construct, c.Pos(a.Instr.Pos()), "held: "+strings.Join(held.names(), ","))
			} else {
				need := "the write lock"
				if !a.Write {
					need = "the lock"
				}
				r.Bad("C20/locked", construct, c.Pos(a.Instr.Pos()), fmt.Sprintf("%s of Queue.%s without holding %s (held: %v): data race between producer and consumer", kind, a.Field.Name(), need, held.names()))
			}
		}
	}

	// ---- token
	isChanField := func(op chanOp) bool { return op.Field == fChan }
	for _, fn := range c.LibFns {
		ops := chanOpsOf(fn)
		nrecv := 0
		nsend := 0
		for _, op := range ops {
			if !isChanField(op) {
				continue
			}
			if fn.Name() == "NewQueue" {
				continue
			}
			switch op.Kind {
			case "recv":
				nrecv++
				construct := fmt.Sprintf("%s recv#%d", shortFn(fn), nrecv)
				msg := tokenDiscipline(c, fn, op.Instr, fChan)
				if msg == "" {
					r.OK("C20/token", construct, c.Pos(op.Instr.Pos()), "followed by exactly one send on all paths")
				} else {
					r.Bad("C20/token", construct, c.Pos(op.Instr.Pos()), msg)
				}
			case "send":
				// every send must be preceded by a receive in the same function (token is only put back)
				dominated := false
				for _, o2 := range ops {
					if isChanField(o2) && o2.Kind == "recv" && dominatesInstr(o2.Instr, op.Instr) {
						dominated = true
					}
				}
				if !dominated {
					r.Bad("C20/token", shortFn(fn)+" send without token", c.Pos(op.Instr.Pos()), "a send to the depth mailbox that is not preceded by a receive: with the slot full this blocks forever while holding the lock")
				}
				// publishing a NEW depth (anything but putting back the value just taken) is part of the list update:
				// it must happen under the same write lock, else a concurrent Enqueue's publication can be overwritten
				// by this stale one (a chunk is stranded: consumers see depth 0 while the list holds it)
				if snd, ok := op.Instr.(*ssa.Send); ok {
					putBack := false
					if u, ok := snd.X.(*ssa.UnOp); ok && u.Op == token.ARROW {
						if f, _, _ := chanOrigin(u.X); f == fChan {
							putBack = true
						}
					}
					if !putBack {
						nsend++
						construct := fmt.Sprintf("%s publishes depth#%d under the write lock", shortFn(fn), nsend)
						held := ml.HeldAt(op.Instr)
						if held != nil && held[lockKey+"/W"] {
							r.OK("C20/token", construct, c.Pos(op.Instr.Pos()), "held: "+strings.Join(held.names(), ","))
						} else {
							r.Bad("C20/token", construct, c.Pos(op.Instr.Pos()), fmt.Sprintf("a new depth is sent to the mailbox without holding the queue's write lock (held: %v): between the list update and this publication another Enqueue/Dequeue can publish, and this stale value then overwrites theirs -- a queued chunk becomes invisible until the next Enqueue (the operation waiting for it times out, the bytes surface in the next exchange)", held.names()))
						}
					}
				}
			default:
				r.Bad("C20/token", shortFn(fn)+" "+op.Kind, c.Pos(op.Instr.Pos()), "unexpected operation on the depth mailbox: "+op.Kind)
			}
		}
	}
	// constructor: buffer 1, primed once
	if nq := c.LookupFunc("util", "", "NewQueue"); nq == nil {
		r.Anchor("C20/token", "util.NewQueue")
	} else {
		var mk *ssa.MakeChan
		sends := 0
		allInstrs(nq, func(in ssa.Instruction) {
			if m, ok := in.(*ssa.MakeChan); ok {
				mk = m
			}
			if _, ok := in.(*ssa.Send); ok {
				sends++
			}
		})
		size, okc := int64(-1), false
		if mk != nil {
			size, okc = constInt(mk.Size)
		}
		r.Check(mk != nil && okc && size == 1 && sends == 1, "C20/token", "NewQueue mailbox", c.Pos(nq.Pos()),
			"make(chan int, 1) primed with one value", fmt.Sprintf("the depth mailbox must be a 1-slot channel primed with exactly one value (size=%d, sends=%d): otherwise getDepth blocks or two tokens circulate", size, sends))
	}

	// ---- republish
	for _, fn := range methods {
		var qStores, dStores []ssa.Instruction
		for _, a := range fieldAccesses(fn) {
			if a.Write && a.Field == fQueue {
				qStores = append(qStores, a.Instr)
			}
			if a.Write && a.Field == fDepth {
				dStores = append(dStores, a.Instr)
			}
		}
		if len(qStores) == 0 {
			if len(dStores) > 0 {
				r.Bad("C20/republish", shortFn(fn), c.Pos(fn.Pos()), "depth is changed without changing the list")
			}
			continue
		}
		construct := shortFn(fn)
		// sends of a load of depth that is dominated by a depth store
		good := map[ssa.Instruction]bool{}
		for _, op := range chanOpsOf(fn) {
			if op.Field != fChan || op.Kind != "send" {
				continue
			}
			snd := op.Instr.(*ssa.Send)
			if f, _, ok := fieldLoad(snd.X); ok && f == fDepth {
				ld := snd.X.(ssa.Instruction)
				for _, ds := range dStores {
					if dominatesInstr(ds, ld) {
						good[op.Instr] = true
					}
				}
			}
		}
		// ... or a call of a helper method that sends the current depth to the mailbox on all of its paths
		for _, ci := range callInstrs(fn) {
			sc := ci.Common().StaticCallee()
			if sc == nil || sc == fn || !publishesDepth(c, sc, fDepth, fChan) {
				continue
			}
			for _, ds := range dStores {
				if dominatesInstr(ds, ci) {
					good[ci] = true
				}
			}
		}
		bad := ""
		for _, qs := range qStores {
			rr := reachFrom(fn, qs, func(in ssa.Instruction) bool { return good[in] }, nil)
			for in := range rr.visited {
				if isReturn(in) {
					bad = fmt.Sprintf("a path from the list update at %s reaches the return at %s without storing the new depth and sending it to the mailbox: consumers see a stale depth (lost or phantom chunks)", c.Pos(qs.Pos()), c.Pos(in.Pos()))
				}
			}
		}
		if bad == "" {
			r.OK("C20/republish", construct, c.Pos(fn.Pos()), "list update -> depth store -> mailbox send on all paths")
		} else {
			r.Bad("C20/republish", construct, c.Pos(fn.Pos()), bad)
		}
	}

	// ---- non-blocking-empty
	getDepth := c.LookupFunc("util", "Queue", "getDepth")
	for _, name := range []string{"Dequeue", "DequeueAll"} {
		fn := c.LookupFunc("util", "Queue", name)
		if fn == nil || getDepth == nil {
			r.Anchor("C20/non-blocking-empty", "(*util.Queue)."+name+" / getDepth")
			continue
		}
		msg := emptyGuard(c, fn, getDepth, fQueue)
		if msg == "" {
			r.OK("C20/non-blocking-empty", shortFn(fn), c.Pos(fn.Pos()), "zero depth returns nil before locking")
		} else {
			r.Bad("C20/non-blocking-empty", shortFn(fn), c.Pos(fn.Pos()), msg)
		}
	}

	// ---- roles
	roles := map[string][2]string{
		"Enqueue":    {"channel", "read"},
		"Dequeue":    {"channel", "Read"},
		"DequeueAll": {"channel", "ReadAll"},
		"Requeue":    {"channel", "Open"},
	}
	for _, m := range []string{"Enqueue", "Dequeue", "DequeueAll", "Requeue"} {
		target := c.LookupFunc("util", "Queue", m)
		want := c.LookupFunc(roles[m][0], "Channel", roles[m][1])
		if target == nil || want == nil {
			r.Anchor("C20/roles", "(*util.Queue)."+m+" / (*channel.Channel)."+roles[m][1])
			continue
		}
		var others []string
		n := 0
		for _, fn := range c.LibFns {
			for _, ci := range callInstrs(fn) {
				for _, callee := range c.Callees(ci) {
					if callee == target {
						n++
						if fn != want {
							others = append(others, shortFn(fn)+" ("+c.Pos(ci.Pos())+")")
						}
					}
				}
			}
		}
		if len(others) == 0 {
			r.OK("C20/roles", "callers of "+m, c.Pos(target.Pos()), fmt.Sprintf("%d call site(s), all in %s", n, shortFn(want)))
		} else {
			r.Bad("C20/roles", "callers of "+m, c.Pos(target.Pos()), "the single-producer/single-consumer discipline is broken: also called from "+strings.Join(others, ", "))
		}
	}

	// ---- fifo-shape
	checkFifoShape(c, r, fQueue, fDepth)
}

// publishesDepth: every path of fn from entry to return sends a load of Queue.depth (taken after entry, no store of
// depth in fn) to the mailbox.
func publishesDepth(c *Ctx, fn *ssa.Function, fDepth, fChan *types.Var) bool {
	if fn.Blocks == nil || fn.Signature.Recv() == nil {
		return false
	}
	writes := false
	for _, a := range fieldAccesses(fn) {
		if a.Write && a.Field == fDepth {
			writes = true
		}
	}
	if writes {
		return false
	}
	isPub := func(in ssa.Instruction) bool {
		snd, ok := in.(*ssa.Send)
		if !ok {
			return false
		}
		if f, _, _ := chanOrigin(snd.Chan); f != fChan {
			return false
		}
		f, _, ok := fieldLoad(snd.X)
		return ok && f == fDepth
	}
	ret, _ := mustCallBeforeReturn(c, fn, isPub)
	return ret == nil
}

// tokenDiscipline checks the receive/send pairing after a receive from the mailbox.
func tokenDiscipline(c *Ctx, fn *ssa.Function, recv ssa.Instruction, fChan *types.Var) string {
	isSend := func(in ssa.Instruction) bool {
		s, ok := in.(*ssa.Send)
		if !ok {
			return false
		}
		f, _, _ := chanOrigin(s.Chan)
		return f == fChan
	}
	rr := reachFrom(fn, recv, isSend, nil)
	for in := range rr.visited {
		if isSend(in) {
			continue
		}
		if isReturn(in) {
			return fmt.Sprintf("a path from the receive reaches the return at %s without putting the token back: the next queue operation blocks forever", c.Pos(in.Pos()))
		}
		if ci, ok := in.(ssa.CallInstruction); ok {
			if _, op, ok := lockOp(ci); ok && (op == "Lock" || op == "RLock") {
				if _, isDefer := in.(*ssa.Defer); !isDefer {
					return fmt.Sprintf("a lock is acquired at %s while the token is held: token->lock inverts the lock->token order used elsewhere (deadlock)", c.Pos(in.Pos()))
				}
			}
		}
		switch x := in.(type) {
		case *ssa.Send:
			return fmt.Sprintf("another channel send at %s while the token is held", c.Pos(x.Pos()))
		case *ssa.Select:
			return fmt.Sprintf("a select at %s while the token is held", c.Pos(x.Pos()))
		case *ssa.UnOp:
			if x.Op == token.ARROW && in != recv {
				return fmt.Sprintf("another channel receive at %s while the token is held", c.Pos(x.Pos()))
			}
		}
	}
	// after the send: no second send/recv on the mailbox
	for in := range rr.visited {
		if !isSend(in) {
			continue
		}
		r2 := reachFrom(fn, in, nil, nil)
		for in2 := range r2.visited {
			if isSend(in2) {
				return fmt.Sprintf("a second send to the mailbox at %s follows the first: the slot is full and the sender blocks", c.Pos(in2.Pos()))
			}
		}
	}
	return ""
}

// emptyGuard: `if getDepth() == 0 { return nil }` dominates the lock and every index of the list.
func emptyGuard(c *Ctx, fn, getDepth *ssa.Function, fQueue *types.Var) string {
	var test *ssa.BasicBlock
	var zeroSucc, nonZeroSucc *ssa.BasicBlock
	for _, b := range fn.Blocks {
		cond := ifCond(b)
		if cond == nil {
			continue
		}
		v, neg := unwrapNot(cond)
		bo, ok := v.(*ssa.BinOp)
		if !ok {
			continue
		}
		var callSide, constSide ssa.Value = bo.X, bo.Y
		if _, ok := constInt(callSide); ok {
			callSide, constSide = bo.Y, bo.X
		}
		call, ok := callSide.(*ssa.Call)
		if !ok || call.Call.StaticCallee() != getDepth {
			continue
		}
		k, ok := constInt(constSide)
		if !ok {
			continue
		}
		zeroOnTrue := false
		switch {
		case bo.Op == token.EQL && k == 0:
			zeroOnTrue = true
		case bo.Op == token.NEQ && k == 0:
			zeroOnTrue = false
		case bo.Op == token.LSS && k == 1 && callSide == bo.X:
			zeroOnTrue = true
		case bo.Op == token.LEQ && k == 0 && callSide == bo.X:
			zeroOnTrue = true
		case bo.Op == token.GTR && k == 0 && callSide == bo.X:
			zeroOnTrue = false
		default:
			continue
		}
		if neg {
			zeroOnTrue = !zeroOnTrue
		}
		test = b
		if zeroOnTrue {
			zeroSucc, nonZeroSucc = b.Succs[0], b.Succs[1]
		} else {
			zeroSucc, nonZeroSucc = b.Succs[1], b.Succs[0]
		}
	}
	if test == nil {
		return "no test of getDepth() against zero: an empty queue is not recognised before locking and indexing (panic on queue[0] / blocking)"
	}
	// zero edge: returns without lock ops
	rr := reachFrom(fn, nil, nil, func(b *ssa.BasicBlock, i int) bool {
		return !(b == test && b.Succs[i] == nonZeroSucc)
	})
	_ = zeroSucc
	for in := range rr.visited {
		if ci, ok := in.(ssa.CallInstruction); ok {
			if _, op, ok := lockOp(ci); ok && (op == "Lock" || op == "RLock") {
				if _, isDefer := in.(*ssa.Defer); !isDefer {
					return fmt.Sprintf("the lock is taken at %s before (or regardless of) the empty test", c.Pos(in.Pos()))
				}
			}
		}
		if ia, ok := in.(*ssa.IndexAddr); ok {
			if f, _, ok := fieldLoad(ia.X); ok && f == fQueue {
				return fmt.Sprintf("the list is indexed at %s on a path where depth may be zero: index out of range", c.Pos(in.Pos()))
			}
		}
	}
	return ""
}

func checkFifoShape(c *Ctx, r *Report, fQueue, fDepth *types.Var) {
	isLoad := func(v ssa.Value, f *types.Var) bool {
		ff, _, ok := fieldLoad(v)
		return ok && ff == f
	}
	// returns the values stored to field f in fn
	stores := func(fn *ssa.Function, f *types.Var) []ssa.Value {
		var out []ssa.Value
		allInstrs(fn, func(in ssa.Instruction) {
			if ff, _, v, ok := fieldStore(in); ok && ff == f {
				out = append(out, v)
			}
		})
		return out
	}
	depthDelta := func(v ssa.Value) string {
		if k, ok := constInt(v); ok {
			return fmt.Sprintf("=%d", k)
		}
		// depth = len(list) recomputed from the list is the same bookkeeping
		if call, ok := v.(*ssa.Call); ok {
			if b, ok := call.Call.Value.(*ssa.Builtin); ok && b.Name() == "len" {
				if isLoad(call.Call.Args[0], fQueue) {
					return "len"
				}
				// ... or from the very value this function stores as the new list
				if fn := call.Parent(); fn != nil {
					for _, q := range stores(fn, fQueue) {
						if q == call.Call.Args[0] {
							return "len"
						}
					}
				}
			}
		}
		if bo, ok := v.(*ssa.BinOp); ok && isLoad(bo.X, fDepth) {
			if k, ok := constInt(bo.Y); ok {
				switch bo.Op {
				case token.ADD:
					return fmt.Sprintf("+%d", k)
				case token.SUB:
					return fmt.Sprintf("-%d", k)
				}
			}
		}
		return "?"
	}
	// single-element slice literal [b]
	singleton := func(v ssa.Value, elem ssa.Value) bool {
		// the pre-sized spelling: append(make([]T, 0, n), elem)
		if call, ok := v.(*ssa.Call); ok {
			if b, ok := call.Call.Value.(*ssa.Builtin); ok && b.Name() == "append" && len(call.Call.Args) == 2 {
				if mk, ok := call.Call.Args[0].(*ssa.MakeSlice); ok {
					if k, ok := constInt(mk.Len); ok && k == 0 {
						inner := variadicElems(call.Call.Args[1])
						return len(inner) == 2 && inner[0] == elem
					}
				}
			}
		}
		els := variadicElems(v)
		// variadicElems returns stored elements + v itself
		return len(els) == 2 && els[0] == elem
	}
	type shape struct {
		name  string
		check func(fn *ssa.Function) string
	}
	shapes := []shape{
		{"Enqueue", func(fn *ssa.Function) string {
			qs, ds := stores(fn, fQueue), stores(fn, fDepth)
			if len(qs) != 1 || len(ds) != 1 {
				return "expected exactly one list update and one depth update"
			}
			call, ok := qs[0].(*ssa.Call)
			if !ok {
				return "list is not updated by append"
			}
			if b, ok := call.Call.Value.(*ssa.Builtin); !ok || b.Name() != "append" || len(call.Call.Args) != 2 {
				return "list is not updated by append"
			}
			if !isLoad(call.Call.Args[0], fQueue) || !singleton(call.Call.Args[1], fn.Params[1]) {
				return "Enqueue must append exactly its argument at the tail of the current list"
			}
			if d := depthDelta(ds[0]); d != "+1" && d != "len" {
				return "depth must grow by exactly one (found " + d + ")"
			}
			return ""
		}},
		{"Requeue", func(fn *ssa.Function) string {
			qs, ds := stores(fn, fQueue), stores(fn, fDepth)
			if len(qs) != 1 || len(ds) != 1 {
				return "expected exactly one list update and one depth update"
			}
			call, ok := qs[0].(*ssa.Call)
			if !ok {
				return "list is not updated by append"
			}
			if b, ok := call.Call.Value.(*ssa.Builtin); !ok || b.Name() != "append" || len(call.Call.Args) != 2 {
				return "list is not updated by append"
			}
			if !singleton(call.Call.Args[0], fn.Params[1]) || !isLoad(call.Call.Args[1], fQueue) {
				return "Requeue must build [b] followed by the current list (put-back chunks are re-read first)"
			}
			if d := depthDelta(ds[0]); d != "+1" && d != "len" {
				return "depth must grow by exactly one (found " + d + ")"
			}
			return ""
		}},
		{"Dequeue", func(fn *ssa.Function) string {
			qs, ds := stores(fn, fQueue), stores(fn, fDepth)
			if len(qs) != 1 || len(ds) != 1 {
				return "expected exactly one list update and one depth update"
			}
			sl, ok := qs[0].(*ssa.Slice)
			if !ok || !isLoad(sl.X, fQueue) || sl.High != nil || sl.Max != nil {
				return "the remaining list must be list[1:]"
			}
			if k, ok := constInt(sl.Low); !ok || k != 1 {
				return "the remaining list must be list[1:]"
			}
			if d := depthDelta(ds[0]); d != "-1" && d != "len" {
				return "depth must shrink by exactly one (found " + d + ")"
			}
			// returned value: element 0 of the list, loaded before the update
			okRet := false
			allInstrs(fn, func(in ssa.Instruction) {
				ia, ok := in.(*ssa.IndexAddr)
				if !ok || !isLoad(ia.X, fQueue) {
					return
				}
				if k, ok := constInt(ia.Index); ok && k == 0 {
					okRet = true
				} else {
					okRet = false
				}
			})
			if !okRet {
				return "Dequeue must return element 0 (the oldest chunk)"
			}
			return returnsValueOf(fn, func(v ssa.Value) bool {
				u, ok := v.(*ssa.UnOp)
				if !ok {
					return false
				}
				ia, ok := u.X.(*ssa.IndexAddr)
				return ok && isLoad(ia.X, fQueue)
			}, "element 0 of the list")
		}},
		{"DequeueAll", func(fn *ssa.Function) string {
			qs, ds := stores(fn, fQueue), stores(fn, fDepth)
			if len(qs) != 1 || len(ds) != 1 {
				return "expected exactly one list update and one depth update"
			}
			if !isNilConst(qs[0]) {
				if mk, ok := qs[0].(*ssa.MakeSlice); !ok || mk == nil {
					return "DequeueAll must reset the list to empty"
				}
			}
			if d := depthDelta(ds[0]); d != "=0" && d != "len" {
				return "depth must be reset to zero (found " + d + ")"
			}
			var listLoad ssa.Instruction
			msg := returnsValueOf(fn, func(v ssa.Value) bool {
				call, ok := v.(*ssa.Call)
				if !ok {
					return false
				}
				o := CalleeObj(call)
				if o == nil || o.Pkg() == nil || o.Pkg().Path() != "bytes" || o.Name() != "Join" {
					return false
				}
				if !isLoad(call.Call.Args[0], fQueue) {
					return false
				}
				listLoad, _ = call.Call.Args[0].(ssa.Instruction)
				// separator must be empty
				els := variadicElems(call.Call.Args[1])
				return len(els) == 1
			}, "bytes.Join(old list, empty separator)")
			if msg != "" {
				return msg
			}
			// the joined list must be loaded before the reset
			var reset ssa.Instruction
			allInstrs(fn, func(in ssa.Instruction) {
				if ff, _, _, ok := fieldStore(in); ok && ff == fQueue {
					reset = in
				}
			})
			if listLoad == nil || reset == nil || !dominatesInstr(listLoad, reset) {
				return "the list must be read before it is reset"
			}
			return ""
		}},
	}
	for _, s := range shapes {
		fn := c.LookupFunc("util", "Queue", s.name)
		if fn == nil {
			r.Anchor("C20/fifo-shape", "(*util.Queue)."+s.name)
			continue
		}
		if msg := s.check(fn); msg == "" {
			r.OK("C20/fifo-shape", shortFn(fn), c.Pos(fn.Pos()), "")
		} else {
			r.Bad("C20/fifo-shape", shortFn(fn), c.Pos(fn.Pos()), msg)
		}
	}
}

// returnsValueOf: every non-nil result returned on a path that passed the lock is a value satisfying pred.
// Handles the defer-spilled form (store to a result local, load before return).
func returnsValueOf(fn *ssa.Function, pred func(ssa.Value) bool, what string) string {
	found := false
	bad := false
	consider := func(v ssa.Value) {
		if isNilConst(v) {
			return
		}
		if pred(v) {
			found = true
		} else {
			bad = true
		}
	}
	allInstrs(fn, func(in ssa.Instruction) {
		ret, ok := in.(*ssa.Return)
		if !ok || len(ret.Results) != 1 {
			return
		}
		if len(ret.Block().Preds) == 0 && ret.Block() != fn.Blocks[0] {
			return // recover block
		}
		v := ret.Results[0]
		if u, ok := v.(*ssa.UnOp); ok && u.Op == token.MUL {
			if a, ok := u.X.(*ssa.Alloc); ok {
				for _, ref := range *a.Referrers() {
					if st, ok := ref.(*ssa.Store); ok && st.Addr == a {
						consider(st.Val)
					}
				}
				return
			}
		}
		consider(v)
	})
	if !found || bad {
		return "the returned value must be " + what
	}
	return ""
}
