package main

// Shape recogniser for "exists" helper loops: for _, e := range L { if P(e) { return <hit> } }; return <miss>.
// Decides, for every list and argument, that the helper returns a hit exactly when some element satisfies P:
// the only ways out of the loop are the true edge of P and exhaustion of the range.

import (
	"fmt"
	"go/token"
	"strings"

	"golang.org/x/tools/go/ssa"
)

type existsShape struct {
	Kind     string   // "eq(elem,param)", "contains(param,elem)", or "other: ..."
	Problems []string // early exits etc.
	Pos      token.Pos
}

// analyseExistsLoop inspects fn; listIs reports whether a value is the list being ranged over.
func analyseExistsLoop(c *Ctx, fn *ssa.Function) *existsShape {
	sh := &existsShape{Pos: fn.Pos()}
	var hdr *ssa.BasicBlock
	nh := 0
	for _, b := range fn.Blocks {
		if b.Comment == "rangeindex.loop" {
			hdr = b
			nh++
		}
	}
	if nh == 0 {
		// the standard library's own exists-loop: return slices.Contains(list, param)
		var found *ssa.Call
		nCalls := 0
		allInstrs(fn, func(in ssa.Instruction) {
			if call, ok := in.(*ssa.Call); ok {
				nCalls++
				if o := CalleeObj(call); o != nil && o.Pkg() != nil && o.Pkg().Path() == "slices" && o.Name() == "Contains" && len(call.Call.Args) == 2 {
					if _, isP := stripConv(call.Call.Args[1]).(*ssa.Parameter); isP {
						found = call
					}
				}
			}
		})
		if found != nil && nCalls == 1 {
			returned := false
			allInstrs(fn, func(in ssa.Instruction) {
				if ret, ok := in.(*ssa.Return); ok && len(ret.Results) == 1 && ret.Results[0] == ssa.Value(found) {
					returned = true
				}
			})
			if returned && len(fn.Blocks) == 1 {
				sh.Kind = "eq(elem,param)"
				sh.Pos = found.Pos()
				return sh
			}
		}
	}
	if nh != 1 {
		sh.Problems = append(sh.Problems, fmt.Sprintf("%d range loops (exactly one expected)", nh))
		return sh
	}
	loop := loopBlocks(hdr)
	// the element: a load of &L[idx] in the loop
	isElem := func(v ssa.Value) bool {
		v = stripConv(v)
		u, ok := v.(*ssa.UnOp)
		if !ok {
			return false
		}
		ia, ok := u.X.(*ssa.IndexAddr)
		return ok && loop[ia.Block()] && rangeHeader(ia.Index) == hdr
	}
	isParam := func(v ssa.Value) bool {
		v = stripConv(v)
		_, ok := v.(*ssa.Parameter)
		return ok
	}
	// predicate branches inside the loop
	var predIf *ssa.If
	for b := range loop {
		if b == hdr {
			continue
		}
		cond := ifCond(b)
		if cond == nil {
			continue
		}
		v, _ := unwrapNot(cond)
		kind := ""
		switch x := v.(type) {
		case *ssa.BinOp:
			if x.Op == token.EQL || x.Op == token.NEQ {
				if (isElem(x.X) && isParam(x.Y)) || (isElem(x.Y) && isParam(x.X)) {
					kind = "eq(elem,param)"
				}
			}
		case *ssa.Call:
			if o := CalleeObj(x); o != nil && o.Pkg() != nil && len(x.Call.Args) == 2 {
				name := o.Pkg().Name() + "." + o.Name()
				a0, a1 := x.Call.Args[0], x.Call.Args[1]
				switch {
				case (name == "strings.Contains" || name == "bytes.Contains") && isParam(a0) && isElem(a1):
					kind = "contains(param,elem)"
				case isElem(a0) && isParam(a1):
					kind = "other: " + name + "(elem,param)"
				case isParam(a0) && isElem(a1):
					kind = "other: " + name + "(param,elem)"
				}
			}
		}
		if kind == "" {
			continue
		}
		if predIf != nil {
			sh.Problems = append(sh.Problems, "more than one test of the element in the loop")
		}
		predIf = b.Instrs[len(b.Instrs)-1].(*ssa.If)
		sh.Kind = kind
		sh.Pos = cond.Pos()
	}
	if predIf == nil {
		sh.Problems = append(sh.Problems, "no test relating the range element to a parameter found")
		return sh
	}
	// exits
	for b := range loop {
		for si, s := range b.Succs {
			if loop[s] {
				continue
			}
			if b == hdr {
				continue // range exhausted
			}
			if b == predIf.Block() {
				inner, neg := unwrapNot(ifCond(b))
				if bo, ok := inner.(*ssa.BinOp); ok && bo.Op == token.NEQ {
					neg = !neg
				}
				hitEdge := 0
				if neg {
					hitEdge = 1
				}
				if si == hitEdge {
					continue
				}
			}
			sh.Problems = append(sh.Problems, fmt.Sprintf("the loop is left early at %s without a matching element (break / return inside the loop): elements after that point are never tested", c.Pos(firstPos(s))))
		}
	}
	return sh
}

// checkExistsHelper reports fn under rule as an exists-loop of the wanted kind.
func checkExistsHelper(c *Ctx, r *Report, rule string, fn *ssa.Function, want, meaning string) {
	construct := shortFn(fn) + " is " + meaning
	sh := analyseExistsLoop(c, fn)
	var probs []string
	if sh.Kind != want {
		got := sh.Kind
		if got == "" {
			got = "unrecognised"
		}
		probs = append(probs, fmt.Sprintf("the element test is %s, the helper's contract is %s", got, want))
	}
	probs = append(probs, sh.Problems...)
	if len(probs) == 0 {
		r.OK(rule, construct, c.Pos(fn.Pos()), want+", exits only on a match or on exhaustion")
	} else {
		r.Bad(rule, construct, c.Pos(sh.Pos), strings.Join(probs, "; "))
	}
}
