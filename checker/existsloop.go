package main

// Shape recogniser for "exists" helper loops: for _, e := range L { if P(e) { return <hit> } }; return <miss>.
// Decides, for every list and argument, that the helper returns a hit exactly when some element satisfies P:
// the only ways out of the loop are the true edge of P and exhaustion of the range.

import (
	"fmt"
	"go/token"
	"strings"

	"golang.org/x/tools/go/ssa"
)

type existsShape struct {
	Kind     string   // "eq(elem,param)", "contains(param,elem)", or "other: ..."
	Problems []string // early exits etc.
	Pos      token.Pos
}

// analyseExistsLoop inspects fn; listIs reports whether a value is the list being ranged over.
func analyseExistsLoop(c *Ctx, fn *ssa.Function) *existsShape {
	sh := &existsShape{Pos: fn.Pos()}
	var hdr *ssa.BasicBlock
	nh := 0
	// counted: for i := 0; i < len(L); i++ -- the index phi of such a loop
	var countedIdx *ssa.Phi
	for _, b := range fn.Blocks {
		if b.Comment == "rangeindex.loop" {
			hdr = b
			nh++
		}
		if b.Comment == "for.loop" {
			if phi := countedLoopIndex(b); phi != nil {
				hdr = b
				countedIdx = phi
				nh++
			}
		}
	}
	if nh == 0 {
		// the standard library's own exists-loop: return slices.Contains(list, param)
		var found, indexOf *ssa.Call
		nCalls := 0
		allInstrs(fn, func(in ssa.Instruction) {
			if call, ok := in.(*ssa.Call); ok {
				nCalls++
				if o := CalleeObj(call); o != nil && o.Pkg() != nil && o.Pkg().Path() == "slices" && o.Name() == "Contains" && len(call.Call.Args) == 2 {
					if _, isP := stripConv(call.Call.Args[1]).(*ssa.Parameter); isP {
						found = call
					}
				}
				// ... or the library's own membership helper, itself an exists-loop by equality
				if h := call.Call.StaticCallee(); h != nil && h != fn && h.Pkg != nil && isLibPkgPath(h.Pkg.Pkg.Path()) && len(call.Call.Args) == 2 && len(h.Blocks) > 1 {
					if _, isP := stripConv(call.Call.Args[1]).(*ssa.Parameter); isP {
						if hs := analyseExistsLoop(c, h); hs.Kind == "eq(elem,param)" && len(hs.Problems) == 0 {
							found = call
						}
					}
				}
				// index-of forms: bytes.IndexByte(list, param) / slices.Index(list, param) compared with -1 / 0 below
				if o := CalleeObj(call); o != nil && o.Pkg() != nil && len(call.Call.Args) == 2 &&
					((o.Pkg().Path() == "bytes" && o.Name() == "IndexByte") || (o.Pkg().Path() == "slices" && o.Name() == "Index")) {
					_, isL := stripConv(call.Call.Args[0]).(*ssa.Parameter)
					_, isP := stripConv(call.Call.Args[1]).(*ssa.Parameter)
					if isL && isP {
						indexOf = call
					}
				}
			}
		})
		if found != nil && nCalls == 1 {
			returned := false
			allInstrs(fn, func(in ssa.Instruction) {
				if ret, ok := in.(*ssa.Return); ok && len(ret.Results) == 1 && ret.Results[0] == ssa.Value(found) {
					returned = true
				}
			})
			if returned && len(fn.Blocks) == 1 {
				sh.Kind = "eq(elem,param)"
				sh.Pos = found.Pos()
				return sh
			}
		}
		if indexOf != nil && nCalls == 1 && len(fn.Blocks) == 1 {
			// return idx >= 0 | idx != -1 | idx > -1
			okCmp := false
			allInstrs(fn, func(in ssa.Instruction) {
				ret, ok := in.(*ssa.Return)
				if !ok || len(ret.Results) != 1 {
					return
				}
				bo, ok := ret.Results[0].(*ssa.BinOp)
				if !ok || bo.X != ssa.Value(indexOf) {
					return
				}
				k, isC := constInt(bo.Y)
				if !isC {
					return
				}
				okCmp = (bo.Op == token.GEQ && k == 0) || (bo.Op == token.NEQ && k == -1) || (bo.Op == token.GTR && k == -1)
			})
			if okCmp {
				sh.Kind = "eq(elem,param)"
				sh.Pos = indexOf.Pos()
				return sh
			}
		}
	}
	if nh != 1 {
		sh.Problems = append(sh.Problems, fmt.Sprintf("%d range loops (exactly one expected)", nh))
		return sh
	}
	loop := loopBlocks(hdr)
	// the element: a load of &L[idx] in the loop
	isElem := func(v ssa.Value) bool {
		v = stripConv(v)
		u, ok := v.(*ssa.UnOp)
		if !ok {
			return false
		}
		ia, ok := u.X.(*ssa.IndexAddr)
		if !ok || !loop[ia.Block()] {
			return false
		}
		if countedIdx != nil {
			return ia.Index == ssa.Value(countedIdx)
		}
		return rangeHeader(ia.Index) == hdr
	}
	isParam := func(v ssa.Value) bool {
		v = stripConv(v)
		_, ok := v.(*ssa.Parameter)
		return ok
	}
	// predicate branches inside the loop
	var predIf *ssa.If
	for b := range loop {
		if b == hdr {
			continue
		}
		cond := ifCond(b)
		if cond == nil {
			continue
		}
		v, _ := unwrapNot(cond)
		kind := ""
		switch x := v.(type) {
		case *ssa.BinOp:
			if x.Op == token.EQL || x.Op == token.NEQ {
				if (isElem(x.X) && isParam(x.Y)) || (isElem(x.Y) && isParam(x.X)) {
					kind = "eq(elem,param)"
				}
			}
		case *ssa.Call:
			if o := CalleeObj(x); o != nil && o.Pkg() != nil && len(x.Call.Args) == 2 {
				name := o.Pkg().Name() + "." + o.Name()
				a0, a1 := x.Call.Args[0], x.Call.Args[1]
				switch {
				case (name == "strings.Contains" || name == "bytes.Contains") && isParam(a0) && isElem(a1):
					kind = "contains(param,elem)"
				case isElem(a0) && isParam(a1):
					kind = "other: " + name + "(elem,param)"
				case isParam(a0) && isElem(a1):
					kind = "other: " + name + "(param,elem)"
				}
			}
		}
		if kind == "" {
			continue
		}
		if predIf != nil {
			sh.Problems = append(sh.Problems, "more than one test of the element in the loop")
		}
		predIf = b.Instrs[len(b.Instrs)-1].(*ssa.If)
		sh.Kind = kind
		sh.Pos = cond.Pos()
	}
	if predIf == nil {
		sh.Problems = append(sh.Problems, "no test relating the range element to a parameter found")
		return sh
	}
	// what is returned on a match and on exhaustion
	{
		inner, neg := unwrapNot(ifCond(predIf.Block()))
		if bo, ok := inner.(*ssa.BinOp); ok && bo.Op == token.NEQ {
			neg = !neg
		}
		hitEdge := 0
		if neg {
			hitEdge = 1
		}
		hit := existsResult(predIf.Block(), predIf.Block().Succs[hitEdge], isElem)
		missSucc := hdr.Succs[1]
		if loop[missSucc] && len(hdr.Succs) == 2 {
			missSucc = hdr.Succs[0]
		}
		miss := existsResult(hdr, missSucc, isElem)
		if hit != "true" && hit != "elem" {
			sh.Problems = append(sh.Problems, "on a matching element the helper returns "+hit+" (true / the element expected)")
		}
		if miss != "false" && miss != `""` {
			sh.Problems = append(sh.Problems, "when no element matches the helper returns "+miss+" (false / the empty string expected)")
		}
	}
	// exits
	for b := range loop {
		for si, s := range b.Succs {
			if loop[s] {
				continue
			}
			if b == hdr {
				continue // range exhausted
			}
			if b == predIf.Block() {
				inner, neg := unwrapNot(ifCond(b))
				if bo, ok := inner.(*ssa.BinOp); ok && bo.Op == token.NEQ {
					neg = !neg
				}
				hitEdge := 0
				if neg {
					hitEdge = 1
				}
				if si == hitEdge {
					continue
				}
			}
			sh.Problems = append(sh.Problems, fmt.Sprintf("the loop is left early at %s without a matching element (break / return inside the loop): elements after that point are never tested", c.Pos(firstPos(s))))
		}
	}
	return sh
}

// checkExistsHelper reports fn under rule as an exists-loop of the wanted kind.
func checkExistsHelper(c *Ctx, r *Report, rule string, fn *ssa.Function, want, meaning string) {
	construct := shortFn(fn) + " is " + meaning
	sh := analyseExistsLoop(c, fn)
	var probs []string
	if sh.Kind != want {
		got := sh.Kind
		if got == "" {
			got = "unrecognised"
		}
		probs = append(probs, fmt.Sprintf("the element test is %s, the helper's contract is %s", got, want))
	}
	probs = append(probs, sh.Problems...)
	if len(probs) == 0 {
		r.OK(rule, construct, c.Pos(fn.Pos()), want+", exits only on a match or on exhaustion")
	} else {
		r.Bad(rule, construct, c.Pos(sh.Pos), strings.Join(probs, "; "))
	}
}

// countedLoopIndex: hdr is the condition block of `for i := 0; i < len(L); i++`; returns the phi of i.
func countedLoopIndex(hdr *ssa.BasicBlock) *ssa.Phi {
	cond := ifCond(hdr)
	bo, ok := cond.(*ssa.BinOp)
	if !ok || bo.Op != token.LSS {
		return nil
	}
	phi, ok := bo.X.(*ssa.Phi)
	if !ok || phi.Block() != hdr || len(phi.Edges) != 2 {
		return nil
	}
	if call, ok := bo.Y.(*ssa.Call); !ok {
		return nil
	} else if b, ok := call.Call.Value.(*ssa.Builtin); !ok || b.Name() != "len" {
		return nil
	}
	nInit, nStep := 0, 0
	for i, e := range phi.Edges {
		back := hdr.Dominates(hdr.Preds[i])
		if k, isC := constInt(e); isC && k == 0 && !back {
			nInit++
			continue
		}
		if step, ok := e.(*ssa.BinOp); ok && back && step.Op == token.ADD && step.X == ssa.Value(phi) {
			if k, isC := constInt(step.Y); isC && k == 1 {
				nStep++
				continue
			}
		}
		return nil
	}
	if nInit == 1 && nStep == 1 {
		return phi
	}
	return nil
}

// existsResult: what the function returns when control leaves the loop along from->to: "true", "false", `""`,
// "elem" (the element under test) or a description of anything else.
func existsResult(from, to *ssa.BasicBlock, isElem func(ssa.Value) bool) string {
	for i := 0; i < 6; i++ {
		last := to.Instrs[len(to.Instrs)-1]
		switch x := last.(type) {
		case *ssa.Return:
			if len(x.Results) != 1 {
				return "several values"
			}
			v := x.Results[0]
			if phi, ok := v.(*ssa.Phi); ok && phi.Block() == to {
				v = nil
				for pi, p := range to.Preds {
					if p == from {
						v = phi.Edges[pi]
					}
				}
				if v == nil {
					return "an unresolved value"
				}
			}
			if b, ok := constBool(v); ok {
				return fmt.Sprint(b)
			}
			if s, ok := constString(v); ok {
				return fmt.Sprintf("%q", s)
			}
			if isElem(v) {
				return "elem"
			}
			return "a value that is neither constant nor the element"
		case *ssa.Jump:
			from, to = to, to.Succs[0]
		default:
			return "a value decided by further tests"
		}
	}
	return "an unresolved value"
}
